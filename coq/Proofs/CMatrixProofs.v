(* C04 (matrix part): assembly.  For every row of TABLE2 the model of src/constraint_matrix.rs builds,
   entry for entry, the constraint matrix of RFC 6330 (Spec.Code.A_rfc). *)
From Coq Require Import NArith List Bool Lia Arith.
From RQ Require Import Base.Outcome Base.Ints Base.ListX Gen.Consts Gen.SysTables
  Spec.Prime Spec.Rand Spec.Tuple Spec.Code Spec.Linear
  Model.SysConst Model.Tuple Model.CMatrix
  Proofs.PrimeProofs Proofs.SysConstProofs Proofs.C15Sweep1 Proofs.C15Proofs
  Proofs.CMatrixSweep Proofs.CMatrixBase Proofs.CMatrixLdpc Proofs.CMatrixEncNT Proofs.CMatrixEnc
  Proofs.CMatrixHdpc.
Import ListNotations.
Open Scope N_scope.
Open Scope outcome_scope.

(* ---- list surgery: firstn / skipn / app on matrices ---- *)

Lemma Forall_firstn' {A} (Q : A -> Prop) : forall k (l : list A), Forall Q l -> Forall Q (firstn k l).
Proof.
  induction k as [|k IH]; intros [|x t] Hf; cbn [firstn]; try constructor.
  - inversion Hf; assumption.
  - apply IH. inversion Hf; assumption.
Qed.

Lemma Forall_skipn' {A} (Q : A -> Prop) : forall k (l : list A), Forall Q l -> Forall Q (skipn k l).
Proof.
  induction k as [|k IH]; intros [|x t] Hf; cbn [skipn]; try assumption.
  apply IH. inversion Hf; assumption.
Qed.

Lemma nth_firstn_lt {A} (d : A) : forall k (l : list A) r, (r < k)%nat ->
  nth r (firstn k l) d = nth r l d.
Proof.
  induction k as [|k IH]; intros l r Hr; [lia|]. destruct l as [|x t]; [destruct r; reflexivity|].
  cbn [firstn]. destruct r as [|r]; [reflexivity|]. cbn [nth]. apply IH. lia.
Qed.

Lemma nth_skipn' {A} (d : A) : forall k (l : list A) r, nth r (skipn k l) d = nth (k + r) l d.
Proof.
  induction k as [|k IH]; intros l r; [reflexivity|]. destruct l as [|x t].
  - cbn [skipn]. destruct r; reflexivity.
  - cbn [skipn]. rewrite IH. reflexivity.
Qed.

Lemma wfm_firstn h w k mat : wfm h w mat -> (k <= h)%nat -> wfm k w (firstn k mat).
Proof.
  intros [Hl Hf] Hk. split; [apply firstn_length_le; lia | apply Forall_firstn'; exact Hf].
Qed.

Lemma wfm_skipn h w k mat : wfm h w mat -> wfm (h - k) w (skipn k mat).
Proof.
  intros [Hl Hf]. split; [rewrite skipn_length; lia | apply Forall_skipn'; exact Hf].
Qed.

Lemma wfm_app h1 h2 w A B : wfm h1 w A -> wfm h2 w B -> wfm (h1 + h2) w (A ++ B).
Proof.
  intros [L1 F1] [L2 F2]. split; [rewrite app_length; lia | apply Forall_app; split; assumption].
Qed.

Lemma ent_app A B r c : ent (A ++ B) r c =
  if r <? N.of_nat (length A) then ent A r c else ent B (r - N.of_nat (length A)) c.
Proof.
  unfold ent. destruct (N.ltb_spec r (N.of_nat (length A))) as [H|H].
  - rewrite app_nth1 by lia. reflexivity.
  - rewrite app_nth2 by lia. do 2 f_equal. lia.
Qed.

Lemma ent_firstn k A r c : r < N.of_nat k -> ent (firstn k A) r c = ent A r c.
Proof. intros H. unfold ent. rewrite nth_firstn_lt by lia. reflexivity. Qed.

Lemma ent_skipn k A r c : ent (skipn k A) r c = ent A (N.of_nat k + r) c.
Proof. unfold ent. rewrite nth_skipn'. do 2 f_equal. lia. Qed.

Lemma wfm_wf_mat h w A : wfm h w A -> (forall r c, r < N.of_nat h -> c < N.of_nat w -> ent A r c < 256) ->
  wf_mat w A.
Proof.
  intros [Hl Hf] He. unfold wf_mat, wf_vec. apply Forall_forall. intros row Hrow.
  destruct (In_nth _ _ [] Hrow) as [r [Hr Er]].
  rewrite Forall_forall in Hf. pose proof (Hf row Hrow) as Hlen. split; [exact Hlen|].
  apply Forall_forall. intros x Hx. destruct (In_nth _ _ 0 Hx) as [c [Hc Ec]].
  pose proof (He (N.of_nat r) (N.of_nat c) ltac:(lia) ltac:(lia)) as B.
  unfold ent in B. rewrite !Nat2N.id, Er, Ec in B. exact B.
Qed.

(* ---- the Spec matrix ---- *)

Lemma A_rfc_wfm p isis :
  wfm (N.to_nat (cS p + cH p) + length isis) (N.to_nat (cL p)) (A_rfc p isis).
Proof. unfold A_rfc. cbv zeta. apply map_matrix_wfm. Qed.

Lemma A_rfc_ent p isis r c :
  r < N.of_nat (N.to_nat (cS p + cH p) + length isis) -> c < cL p ->
  ent (A_rfc p isis) r c = A_entry p isis r c.
Proof.
  intros Hr Hc. unfold A_rfc. cbv zeta.
  apply (map_matrix_ent _ _ (fun r j => A_entry p isis r j)); lia.
Qed.

Lemma parity_lt n : parity n < 256.
Proof. unfold parity. assert (n mod 2 < 2) by (apply N.mod_lt; discriminate). lia. Qed.

(* ---- every look-up of a selected row ---- *)

Lemma sys_params_ok K : K <= 56403 ->
  exists K' J S H W P1, In (K', J, S, H, W) TABLE2 /\ In (K', P1) P1_TABLE /\ K <= K' /\
    sys_params K = Ok (mkSP K' J S H W (K' + S + H - W) P1 (K' + S + H)).
Proof.
  intros HK. destruct (c15_params K HK) as [K' [J [S [H [W [P1 [E [Hr [Hp [Hle _]]]]]]]]]].
  destruct E as [E1 [E2 [E3 [E4 [E5 [E6 [E7 E8]]]]]]].
  destruct (cm_row_facts K' J S H W P1 Hr Hp).
  exists K', J, S, H, W, P1. split; [exact Hr|]. split; [exact Hp|]. split; [exact Hle|].
  unfold sys_params. rewrite E1, E3, E4, E5, E7, E6. cbn [obind]. rewrite cm_selfJ, cm_selfP1.
  reflexivity.
Qed.

Section Row.
Variables (K' J S H W P1 : N).
Hypothesis Hr : In (K', J, S, H, W) TABLE2.
Hypothesis Hp : In (K', P1) P1_TABLE.
Let p := mkCP K' J S H W P1.
Let L := K' + S + H.
Let P := K' + S + H - W.

Lemma cm_hdpc m :
  exists rows, generate_hdpc_rows m K' S H = Ok rows /\
    wfm (N.to_nat H) (N.to_nat L) rows /\
    forall i j, i < H -> j < L -> ent rows i j = hdpc_entry p i j.
Proof.
  destruct (row_facts K' J S H W P1 Hr Hp). destruct (cm_row_facts K' J S H W P1 Hr Hp).
  apply (generate_hdpc_rows_ok K' J S H W P1); lia.
Qed.

(* the binary matrix: LDPC rows at 0..S-1, G_ENC rows from `first` on, zero elsewhere *)
Lemma cm_bin m first isis : S <= first -> Forall (fun x => x < 2 ^ 32) isis ->
  let hgt := (N.to_nat first + length isis)%nat in
  exists mat1 mat2,
    set_ldpc S (W - S) W P (zero_matrix hgt (N.to_nat L)) = Ok mat1 /\
    set_enc m first W P P1 J isis mat1 = Ok mat2 /\
    wfm hgt (N.to_nat L) mat2 /\
    forall r c, c < L -> ent mat2 r c =
      if r <? S then ldpc_entry p r c
      else if (first <=? r) && (r <? first + N.of_nat (length isis))
           then enc_entry p (nth (N.to_nat (r - first)) isis 0) c else 0.
Proof.
  intros Hfirst Hisis hgt.
  destruct (row_facts K' J S H W P1 Hr Hp). destruct (cm_row_facts K' J S H W P1 Hr Hp).
  assert (Hh : S <= N.of_nat hgt) by (unfold hgt; lia).
  assert (Hw : N.of_nat (N.to_nat L) = K' + S + H) by (unfold L; lia).
  destruct (set_ldpc_ok K' S H W hgt (N.to_nat L) cm_S3 cm_Sodd cm_a ro_SW ltac:(lia) ro_WL Hh Hw
              (zero_matrix hgt (N.to_nat L)) (zero_matrix_wfm _ _) (zero_matrix_ent _ _))
    as [mat1 [E1 [Hwf1 He1]]].
  fold P in E1.
  destruct (set_enc_ok m hgt (N.to_nat L) first W P P1 J
              (fun isi => Enc_indices p (Tuple_of p isi)) isis mat1 Hwf1 ltac:(unfold hgt; lia))
    as [mat2 [E2 [Hwf2 He2]]].
  { rewrite Forall_forall in Hisis |- *. intros isi Hin.
    destruct (enc_row_facts m K' J S H W P1 isi Hr Hp (Hisis isi Hin)) as [F1 [_ F3]].
    split; [exact F1|]. rewrite Hw. exact F3. }
  exists mat1, mat2. split; [exact E1|]. split; [exact E2|]. split; [exact Hwf2|].
  intros r c Hc. rewrite He2, He1.
  rewrite (le3_is_rfc K' J S H W P1 hgt (N.to_nat L) cm_S3 cm_Sodd cm_a ro_SW ltac:(lia) ro_WL Hh Hw
             r c Hc).
  fold p.
  destruct (N.ltb_spec r S) as [HrS|HrS].
  - replace (first <=? r) with false by (symmetry; apply N.leb_gt; lia). reflexivity.
  - destruct ((first <=? r) && (r <? first + N.of_nat (length isis))) eqn:Erange;
      cbn [andb]; [|reflexivity].
    apply andb_true_iff in Erange. destruct Erange as [R1 R2].
    apply N.leb_le in R1. apply N.ltb_lt in R2.
    assert (Hin : In (nth (N.to_nat (r - first)) isis 0) isis) by (apply nth_In; lia).
    rewrite Forall_forall in Hisis.
    destruct (enc_row_facts m K' J S H W P1 _ Hr Hp (Hisis _ Hin)) as [_ [F2 _]].
    unfold enc_entry. fold p in F2. rewrite (count_occ_N_nodup _ c F2). reflexivity.
Qed.

(* one G_ENC row, as built by the code: tuple, index list, indicator *)
Lemma cm_enc_row m isi : isi < 2 ^ 32 ->
  exists t idx,
    intermediate_tuple_gen true m isi W J P1 = Ok t /\ enc_indices m t W P P1 = Ok idx /\
    t = Tuple_of p isi /\ idx = Enc_indices p (Tuple_of p isi) /\
    NoDup idx /\ Forall (fun j => j < L) idx /\
    forall j, (if existsb (N.eqb j) idx then 1 else 0) = enc_entry p isi j.
Proof.
  intros HX. pose proof (enc_row_facts m K' J S H W P1 isi Hr Hp HX) as F.
  cbv zeta in F. fold p in F. fold P in F. fold L in F.
  pose proof (c15_tuple_ok true m K' J S H W P1 isi Hr Hp HX (or_introl eq_refl)) as Et.
  change (Tuple J W P1 isi) with (Tuple_of p isi) in Et.
  rewrite Et in F. cbn [obind] in F.
  remember (Tuple_of p isi) as t eqn:Ht.
  remember (Enc_indices p t) as idx eqn:Hidx.
  destruct F as [F1 [F2 F3]].
  exists t, idx.
  split; [exact Et|]. split; [exact F1|]. split; [reflexivity|]. split; [reflexivity|].
  split; [exact F2|]. split; [exact F3|].
  intros j. unfold enc_entry. rewrite <- Ht, <- Hidx. symmetry. apply count_occ_N_nodup. exact F2.
Qed.

Hypothesis (K : N).
Hypothesis Hsys : sys_params K = Ok (mkSP K' J S H W (K' + S + H - W) P1 (K' + S + H)).

Lemma cm_generate m isis : Forall (fun x => x < 2 ^ 32) isis ->
  L <= S + H + N.of_nat (length isis) ->
  exists bin hdpc, generate_constraint_matrix m K isis = Ok (bin, hdpc) /\
    wfm (N.to_nat (S + H) + length isis) (N.to_nat L) bin /\
    wfm (N.to_nat H) (N.to_nat L) hdpc /\
    (forall r c, c < L -> ent bin r c =
      if r <? S then ldpc_entry p r c
      else if (S + H <=? r) && (r <? S + H + N.of_nat (length isis))
           then enc_entry p (nth (N.to_nat (r - (S + H))) isis 0) c else 0) /\
    (forall i j, i < H -> j < L -> ent hdpc i j = hdpc_entry p i j).
Proof.
  intros Hisis Hlen. destruct (cm_row_facts K' J S H W P1 Hr Hp).
  destruct (cm_bin m (S + H) isis ltac:(lia) Hisis) as [mat1 [mat2 [E1 [E2 [Hwf He]]]]].
  destruct (cm_hdpc m) as [rows [E3 [Hwf3 He3]]].
  unfold generate_constraint_matrix. rewrite Hsys. cbn [obind spK spJ spS spH spW spP spP1 spL].
  fold P. fold L. replace (L <=? S + H + N.of_nat (length isis)) with true by (symmetry; apply N.leb_le; exact Hlen).
  cbn [assert_ok obind]. fold P. rewrite E1. cbn [obind]. rewrite cm_selfW, cm_selfP. cbn [obind].
  fold P. rewrite E2. cbn [obind]. rewrite E3. cbn [obind].
  exists mat2, rows. split; [reflexivity|]. split; [exact Hwf|]. split; [exact Hwf3|].
  split; [exact He | exact He3].
Qed.

Lemma cm_generate_no_hdpc m isis : Forall (fun x => x < 2 ^ 32) isis ->
  L <= S + N.of_nat (length isis) ->
  exists bin, generate_constraint_matrix_no_hdpc m K isis = Ok bin /\
    wfm (N.to_nat S + length isis) (N.to_nat L) bin /\
    (forall r c, c < L -> ent bin r c =
      if r <? S then ldpc_entry p r c
      else if (S <=? r) && (r <? S + N.of_nat (length isis))
           then enc_entry p (nth (N.to_nat (r - S)) isis 0) c else 0).
Proof.
  intros Hisis Hlen. destruct (cm_row_facts K' J S H W P1 Hr Hp).
  destruct (cm_bin m S isis ltac:(lia) Hisis) as [mat1 [mat2 [E1 [E2 [Hwf He]]]]].
  unfold generate_constraint_matrix_no_hdpc. rewrite Hsys.
  cbn [obind spK spJ spS spH spW spP spP1 spL].
  fold P. fold L. replace (L <=? S + N.of_nat (length isis)) with true by (symmetry; apply N.leb_le; exact Hlen).
  cbn [assert_ok obind]. fold P. rewrite E1. cbn [obind]. rewrite cm_selfW, cm_selfP. cbn [obind].
  fold P. rewrite E2.
  exists mat2. split; [reflexivity|]. split; [exact Hwf | exact He].
Qed.

Lemma cm_matrix_is_rfc m isis : Forall (fun x => x < 2 ^ 32) isis ->
  L <= S + H + N.of_nat (length isis) ->
  exists bin hdpc, generate_constraint_matrix m K isis = Ok (bin, hdpc) /\
    full_matrix S H bin hdpc = A_rfc p isis.
Proof.
  intros Hisis Hlen.
  destruct (cm_generate m isis Hisis Hlen) as [bin [hdpc [E [Hwb [Hwh [Heb Heh]]]]]].
  exists bin, hdpc. split; [exact E|].
  pose proof Hwb as [Lb _]. pose proof Hwh as [Lh _].
  set (hgt := (N.to_nat (S + H) + length isis)%nat) in *.
  assert (Wfull : wfm hgt (N.to_nat L) (full_matrix S H bin hdpc)).
  { unfold full_matrix.
    replace hgt with (N.to_nat S + (N.to_nat H + (hgt - N.to_nat (S + H))))%nat by (unfold hgt; lia).
    apply wfm_app; [apply (wfm_firstn hgt); [exact Hwb | unfold hgt; lia]|].
    apply wfm_app; [exact Hwh | apply wfm_skipn; exact Hwb]. }
  apply (mat_ext hgt (N.to_nat L)); [exact Wfull | apply (A_rfc_wfm p isis)|].
  intros r c Hrr Hc.
  rewrite (A_rfc_ent p isis r c) by (unfold cL; cbn [cS cH cK p]; unfold hgt, L in *; lia).
  unfold A_entry. cbv zeta. cbn [cS cH p].
  assert (Hc' : c < L) by lia.
  unfold full_matrix. rewrite ent_app.
  rewrite firstn_length_le by lia. rewrite N2Nat.id.
  destruct (N.ltb_spec r S) as [HrS|HrS].
  - rewrite ent_firstn by lia. rewrite Heb by exact Hc'.
    replace (r <? S) with true by (symmetry; apply N.ltb_lt; exact HrS). reflexivity.
  - rewrite ent_app, Lh, N2Nat.id.
    destruct (N.ltb_spec (r - S) H) as [HrH|HrH].
    + replace (r <? S + H) with true by (symmetry; apply N.ltb_lt; lia).
      apply Heh; [exact HrH | exact Hc'].
    + replace (r <? S + H) with false by (symmetry; apply N.ltb_ge; lia).
      rewrite ent_skipn. rewrite N2Nat.id.
      replace (S + H + (r - S - H)) with r by lia.
      rewrite Heb by exact Hc'.
      replace (r <? S) with false by (symmetry; apply N.ltb_ge; exact HrS).
      replace (S + H <=? r) with true by (symmetry; apply N.leb_le; lia).
      replace (r <? S + H + N.of_nat (length isis)) with true
        by (symmetry; apply N.ltb_lt; unfold hgt in Hrr; lia).
      cbn [andb]. replace (r - (S + H)) with (r - S - H) by lia. reflexivity.
Qed.

Lemma cm_matrix_no_hdpc_is_rfc m isis : Forall (fun x => x < 2 ^ 32) isis ->
  L <= S + N.of_nat (length isis) ->
  exists A', generate_constraint_matrix_no_hdpc m K isis = Ok A' /\
    A' = firstn (N.to_nat S) (A_rfc p isis) ++ skipn (N.to_nat (S + H)) (A_rfc p isis).
Proof.
  intros Hisis Hlen.
  destruct (cm_generate_no_hdpc m isis Hisis Hlen) as [bin [E [Hwb Heb]]].
  exists bin. split; [exact E|].
  pose proof (A_rfc_wfm p isis) as WA. unfold cL in WA. cbn [cS cH cK p] in WA. fold L in WA.
  set (hA := (N.to_nat (S + H) + length isis)%nat) in *.
  set (hgt := (N.to_nat S + length isis)%nat) in *.
  assert (Wr : wfm hgt (N.to_nat L)
                 (firstn (N.to_nat S) (A_rfc p isis) ++ skipn (N.to_nat (S + H)) (A_rfc p isis))).
  { replace hgt with (N.to_nat S + (hA - N.to_nat (S + H)))%nat by (unfold hgt, hA; lia).
    apply wfm_app; [apply (wfm_firstn hA); [exact WA | unfold hA; lia] | apply wfm_skipn; exact WA]. }
  apply (mat_ext hgt (N.to_nat L)); [exact Hwb | exact Wr|].
  intros r c Hrr Hc. assert (Hc' : c < L) by lia.
  rewrite Heb by exact Hc'. rewrite ent_app.
  pose proof WA as [LA _]. rewrite firstn_length_le by (unfold hA in LA; lia). rewrite N2Nat.id.
  destruct (N.ltb_spec r S) as [HrS|HrS].
  - rewrite ent_firstn by lia.
    rewrite (A_rfc_ent p isis r c) by (unfold cL; cbn [cS cH cK p]; unfold hgt, L in *; lia).
    unfold A_entry. cbv zeta. cbn [cS cH p].
    replace (r <? S) with true by (symmetry; apply N.ltb_lt; exact HrS). reflexivity.
  - rewrite ent_skipn, N2Nat.id.
    rewrite (A_rfc_ent p isis _ c) by (unfold cL; cbn [cS cH cK p]; unfold hgt, L in *; lia).
    unfold A_entry. cbv zeta. cbn [cS cH p].
    replace (S + H + (r - S) <? S) with false by (symmetry; apply N.ltb_ge; lia).
    replace (S + H + (r - S) <? S + H) with false by (symmetry; apply N.ltb_ge; lia).
    replace (S <=? r) with true by (symmetry; apply N.leb_le; exact HrS).
    replace (r <? S + N.of_nat (length isis)) with true
      by (symmetry; apply N.ltb_lt; unfold hgt in Hrr; lia).
    cbn [andb]. replace (S + H + (r - S) - S - H) with (r - S) by lia. reflexivity.
Qed.

(* every entry of the RFC matrix is a byte *)
Lemma A_entry_lt isis r c : A_entry p isis r c < 256.
Proof.
  unfold A_entry. cbv zeta.
  destruct (r <? cS p); [unfold ldpc_entry; apply parity_lt|].
  destruct (r <? cS p + cH p); [apply hdpc_entry_lt | unfold enc_entry; apply parity_lt].
Qed.

Lemma A_rfc_wf isis : wf_mat (N.to_nat L) (A_rfc p isis).
Proof.
  apply (wfm_wf_mat _ _ _ (A_rfc_wfm p isis)). intros r c Hrr Hc.
  rewrite A_rfc_ent by (try exact Hrr; unfold cL in *; cbn [cK cS cH p] in *; unfold L in *; lia). apply A_entry_lt.
Qed.

Lemma cm_panics m isis : S + H + N.of_nat (length isis) < L ->
  generate_constraint_matrix m K isis = Panic PAssert.
Proof.
  intros Hlt. unfold generate_constraint_matrix. rewrite Hsys.
  cbn [obind spK spJ spS spH spW spP spP1 spL]. fold L.
  replace (L <=? S + H + N.of_nat (length isis)) with false by (symmetry; apply N.leb_gt; exact Hlt).
  reflexivity.
Qed.

Lemma cm_panics_no_hdpc m isis : S + N.of_nat (length isis) < L ->
  generate_constraint_matrix_no_hdpc m K isis = Panic PAssert.
Proof.
  intros Hlt. unfold generate_constraint_matrix_no_hdpc. rewrite Hsys.
  cbn [obind spK spJ spS spH spW spP spP1 spL]. fold L.
  replace (L <=? S + N.of_nat (length isis)) with false by (symmetry; apply N.leb_gt; exact Hlt).
  reflexivity.
Qed.

End Row.

(* ---- the statements pinned in Props/C04m.v ---- *)

Lemma c04_ldpc_rows : forall K' J S H W P1,
  In (K', J, S, H, W) TABLE2 -> In (K', P1) P1_TABLE -> forall m K isis,
  sys_params K = Ok (mkSP K' J S H W (K' + S + H - W) P1 (K' + S + H)) ->
  Forall (fun x => x < 2 ^ 32) isis -> K' + S + H <= S + H + N.of_nat (length isis) ->
  let p := mkCP K' J S H W P1 in
  exists bin hdpc, generate_constraint_matrix m K isis = Ok (bin, hdpc) /\
    forall r j, r < S -> j < K' + S + H -> ent bin r j = ldpc_entry p r j.
Proof.
  intros K' J S H W P1 Hr Hp m K isis Hsys Hisis Hlen p.
  destruct (cm_generate K' J S H W P1 Hr Hp K Hsys m isis Hisis Hlen)
    as [bin [hdpc [E [_ [_ [Heb _]]]]]].
  exists bin, hdpc. split; [exact E|]. intros r j Hrs Hj. rewrite Heb by exact Hj.
  apply N.ltb_lt in Hrs. rewrite Hrs. reflexivity.
Qed.

Lemma c04_enc_rows_in_matrix : forall K' J S H W P1,
  In (K', J, S, H, W) TABLE2 -> In (K', P1) P1_TABLE -> forall m K isis,
  sys_params K = Ok (mkSP K' J S H W (K' + S + H - W) P1 (K' + S + H)) ->
  Forall (fun x => x < 2 ^ 32) isis -> K' + S + H <= S + H + N.of_nat (length isis) ->
  let p := mkCP K' J S H W P1 in
  exists bin hdpc, generate_constraint_matrix m K isis = Ok (bin, hdpc) /\
    (forall k j, k < N.of_nat (length isis) -> j < K' + S + H ->
       ent bin (S + H + k) j = enc_entry p (nth (N.to_nat k) isis 0) j) /\
    (forall r j, S <= r < S + H -> j < K' + S + H -> ent bin r j = 0).
Proof.
  intros K' J S H W P1 Hr Hp m K isis Hsys Hisis Hlen p.
  destruct (cm_generate K' J S H W P1 Hr Hp K Hsys m isis Hisis Hlen)
    as [bin [hdpc [E [_ [_ [Heb _]]]]]].
  exists bin, hdpc. split; [exact E|]. split.
  - intros k j Hk Hj. rewrite Heb by exact Hj.
    replace (S + H + k <? S) with false by (symmetry; apply N.ltb_ge; lia).
    replace (S + H <=? S + H + k) with true by (symmetry; apply N.leb_le; lia).
    replace (S + H + k <? S + H + N.of_nat (length isis)) with true by (symmetry; apply N.ltb_lt; lia).
    cbn [andb]. replace (S + H + k - (S + H)) with k by lia. reflexivity.
  - intros r j Hrr Hj. rewrite Heb by exact Hj.
    replace (r <? S) with false by (symmetry; apply N.ltb_ge; lia).
    replace (S + H <=? r) with false by (symmetry; apply N.leb_gt; lia). reflexivity.
Qed.

Lemma c04_matrix_wf : forall K' J S H W P1,
  In (K', J, S, H, W) TABLE2 -> In (K', P1) P1_TABLE -> forall m K isis,
  sys_params K = Ok (mkSP K' J S H W (K' + S + H - W) P1 (K' + S + H)) ->
  Forall (fun x => x < 2 ^ 32) isis ->
  (K' + S + H <= S + H + N.of_nat (length isis) ->
   exists bin hdpc, generate_constraint_matrix m K isis = Ok (bin, hdpc) /\
     wf_mat (N.to_nat (K' + S + H)) (full_matrix S H bin hdpc)) /\
  (K' + S + H <= S + N.of_nat (length isis) ->
   exists A', generate_constraint_matrix_no_hdpc m K isis = Ok A' /\
     wf_mat (N.to_nat (K' + S + H)) A').
Proof.
  intros K' J S H W P1 Hr Hp m K isis Hsys Hisis.
  pose proof (A_rfc_wf K' J S H W P1 isis) as Wf.
  split; intros Hlen.
  - destruct (cm_matrix_is_rfc K' J S H W P1 Hr Hp K Hsys m isis Hisis Hlen) as [bin [hdpc [E Eq]]].
    exists bin, hdpc. split; [exact E|]. rewrite Eq. exact Wf.
  - destruct (cm_matrix_no_hdpc_is_rfc K' J S H W P1 Hr Hp K Hsys m isis Hisis Hlen) as [A' [E Eq]].
    exists A'. split; [exact E|]. rewrite Eq. unfold wf_mat in *.
    apply Forall_app. split; [apply Forall_firstn' | apply Forall_skipn']; exact Wf.
Qed.

Lemma c04_matrix_panics_iff : forall K' J S H W P1,
  In (K', J, S, H, W) TABLE2 -> In (K', P1) P1_TABLE -> forall m K isis,
  sys_params K = Ok (mkSP K' J S H W (K' + S + H - W) P1 (K' + S + H)) ->
  Forall (fun x => x < 2 ^ 32) isis ->
  (S + H + N.of_nat (length isis) < K' + S + H ->
     generate_constraint_matrix m K isis = Panic PAssert) /\
  (K' + S + H <= S + H + N.of_nat (length isis) ->
     is_ok (generate_constraint_matrix m K isis) = true) /\
  (S + N.of_nat (length isis) < K' + S + H ->
     generate_constraint_matrix_no_hdpc m K isis = Panic PAssert) /\
  (K' + S + H <= S + N.of_nat (length isis) ->
     is_ok (generate_constraint_matrix_no_hdpc m K isis) = true).
Proof.
  intros K' J S H W P1 Hr Hp m K isis Hsys Hisis.
  split; [exact (cm_panics K' J S H W P1 K Hsys m isis)|].
  split.
  { intros Hlen.
    destruct (cm_matrix_is_rfc K' J S H W P1 Hr Hp K Hsys m isis Hisis Hlen) as [bin [hdpc [E _]]].
    rewrite E. reflexivity. }
  split; [exact (cm_panics_no_hdpc K' J S H W P1 K Hsys m isis)|].
  intros Hlen.
  destruct (cm_matrix_no_hdpc_is_rfc K' J S H W P1 Hr Hp K Hsys m isis Hisis Hlen) as [A' [E _]].
  rewrite E. reflexivity.
Qed.
