(* Proofs about Model/Oti.v: the constructor with the u64 ceiling division accepts exactly the
   RFC-valid parameter sets; the pinned constructor (int_div_ceil narrowing to u32) agrees with it
   whenever ceil(F/T) < 2^32, accepts every valid set, and accepts some invalid ones. *)
From Coq Require Import NArith List Bool Lia.
From RQ Require Import Base.Outcome Base.Ints Gen.Consts Spec.Oti Model.Wire Model.Oti.
Open Scope N_scope.

(* ---- ceiling division ---- *)

Lemma ceil_div64_cdiv a b : b <> 0 -> ceil_div64 a b = cdiv a b.
Proof.
  intros Hb. unfold ceil_div64, cdiv.
  pose proof (N.div_mod a b Hb) as E. pose proof (N.mod_lt a b Hb) as L.
  remember (a / b) as q. remember (a mod b) as r.
  destruct (r =? 0) eqn:Hr.
  - apply N.eqb_eq in Hr. apply (N.div_unique _ b q (b - 1)); lia.
  - apply N.eqb_neq in Hr. apply (N.div_unique _ b (q + 1) (r - 1)); lia.
Qed.

Lemma ceil_div64_is_ceil_div a b : ceil_div64 a b = ceil_div a b.
Proof. reflexivity. Qed.

Lemma int_div_ceil_pinned_eq a b : int_div_ceil_pinned a b = u32 (ceil_div64 a b).
Proof. reflexivity. Qed.

(* the u64 `num / denom + 1` of int_div_ceil cannot overflow *)
Lemma int_div_ceil_no_overflow a b : a < 2 ^ 64 -> b <> 0 -> ceil_div64 a b < 2 ^ 64.
Proof.
  intros Ha Hb. unfold ceil_div64.
  pose proof (N.div_mod a b Hb) as E. pose proof (N.mod_lt a b Hb) as L.
  remember (a / b) as q. remember (a mod b) as r.
  destruct (r =? 0) eqn:Hr.
  - apply N.eqb_eq in Hr. nia.
  - apply N.eqb_neq in Hr. destruct (N.eq_dec b 1) as [->|Hb1]; [lia | nia].
Qed.

Lemma cdiv_le a b : b <> 0 -> cdiv a b <= a.
Proof.
  intros Hb. unfold cdiv. apply N.lt_succ_r. rewrite <- N.add_1_r.
  apply N.div_lt_upper_bound; [exact Hb | nia].
Qed.

Lemma cdiv_mul_ge a b : b <> 0 -> a <= b * cdiv a b.
Proof.
  intros Hb. unfold cdiv.
  pose proof (N.div_mod (a + b - 1) b Hb) as E. pose proof (N.mod_lt (a + b - 1) b Hb) as L.
  remember ((a + b - 1) / b) as q. remember ((a + b - 1) mod b) as r. lia.
Qed.

Lemma cdiv_mono a a' b : b <> 0 -> a <= a' -> cdiv a b <= cdiv a' b.
Proof. intros Hb H. unfold cdiv. apply N.div_le_mono; [exact Hb | lia]. Qed.

(* ---- boolean / propositional validity ---- *)

Lemma oti_validb_spec F T Z Al : oti_validb F T Z Al = true <-> oti_valid F T Z Al.
Proof.
  unfold oti_validb, oti_valid. rewrite !andb_true_iff, !N.leb_le, N.eqb_eq. tauto.
Qed.

Lemma oti_validb_false F T Z Al : oti_validb F T Z Al = false <-> ~ oti_valid F T Z Al.
Proof.
  rewrite <- oti_validb_spec. destruct (oti_validb F T Z Al); split; intros H; congruence.
Qed.

(* ---- the constructor, for any ceiling division ---- *)

Lemma oti_new_gen_nonzero idc m F T Z Nsub Al : T <> 0 -> Z <> 0 -> Al <> 0 ->
  oti_new_gen idc m F T Z Nsub Al =
  if (F <=? MAX_TRANSFER_LENGTH) && (T mod Al =? 0) && (idc (idc F T) Z <=? MAX_SOURCE_SYMBOLS_PER_BLOCK)
  then Ok (F, T, Z, Nsub, Al) else Panic PAssert.
Proof.
  intros HT HZ HA. unfold oti_new_gen, rem_ok, assert_ok.
  apply N.eqb_neq in HT, HZ, HA. rewrite HT, HZ, HA. cbn [negb andb obind].
  destruct (F <=? MAX_TRANSFER_LENGTH); cbn [obind andb]; [|reflexivity].
  destruct (T mod Al =? 0); cbn [obind andb]; [|reflexivity].
  destruct (idc (idc F T) Z <=? MAX_SOURCE_SYMBOLS_PER_BLOCK); reflexivity.
Qed.

Lemma oti_new_gen_accessors idc m F T Z Nsub Al x :
  oti_new_gen idc m F T Z Nsub Al = Ok x -> x = (F, T, Z, Nsub, Al).
Proof.
  unfold oti_new_gen, rem_ok, assert_ok.
  destruct (F <=? MAX_TRANSFER_LENGTH); cbn [obind]; [|discriminate].
  destruct (Al =? 0); cbn [obind]; [discriminate|].
  destruct (T mod Al =? 0); cbn [obind]; [|discriminate].
  destruct (negb (T =? 0) && negb (Z =? 0)); cbn [obind].
  - destruct (idc (idc F T) Z <=? MAX_SOURCE_SYMBOLS_PER_BLOCK); cbn [obind]; [|discriminate].
    intros H. inversion H. reflexivity.
  - intros H. inversion H. reflexivity.
Qed.

Lemma oti_new_gen_fields idc m F T Z Nsub Al x :
  oti_new_gen idc m F T Z Nsub Al = Ok x ->
  oti_transfer_length x = F /\ oti_symbol_size x = T /\ oti_source_blocks x = Z /\
  oti_sub_blocks x = Nsub /\ oti_symbol_alignment x = Al.
Proof. intros H. rewrite (oti_new_gen_accessors _ _ _ _ _ _ _ _ H). repeat split. Qed.

(* the mode is irrelevant: no arithmetic in the constructor can overflow *)
Lemma oti_new_gen_mode idc m m' F T Z Nsub Al :
  oti_new_gen idc m F T Z Nsub Al = oti_new_gen idc m' F T Z Nsub Al.
Proof. reflexivity. Qed.

(* degenerate inputs *)
Lemma oti_new_gen_zero_T idc m F Z Nsub Al : Al <> 0 ->
  oti_new_gen idc m F 0 Z Nsub Al =
  if F <=? MAX_TRANSFER_LENGTH then Ok (F, 0, Z, Nsub, Al) else Panic PAssert.
Proof.
  intros HA. unfold oti_new_gen, rem_ok, assert_ok. apply N.eqb_neq in HA. rewrite HA.
  rewrite N.mod_0_l by (apply N.eqb_neq; exact HA).
  destruct (F <=? MAX_TRANSFER_LENGTH); reflexivity.
Qed.

Lemma oti_new_gen_zero_Z idc m F T Nsub Al : Al <> 0 ->
  oti_new_gen idc m F T 0 Nsub Al =
  if (F <=? MAX_TRANSFER_LENGTH) && (T mod Al =? 0) then Ok (F, T, 0, Nsub, Al) else Panic PAssert.
Proof.
  intros HA. unfold oti_new_gen, rem_ok, assert_ok. apply N.eqb_neq in HA. rewrite HA.
  destruct (F <=? MAX_TRANSFER_LENGTH); cbn [obind andb]; [|reflexivity].
  destruct (T mod Al =? 0); cbn [obind]; [|reflexivity].
  rewrite andb_false_r. reflexivity.
Qed.

Lemma oti_new_gen_zero_Al idc m F T Z Nsub :
  oti_new_gen idc m F T Z Nsub 0 =
  if F <=? MAX_TRANSFER_LENGTH then Panic PDivZero else Panic PAssert.
Proof.
  unfold oti_new_gen, rem_ok, assert_ok. destruct (F <=? MAX_TRANSFER_LENGTH); reflexivity.
Qed.

(* ---- the fixed constructor decides validity ---- *)

Lemma oti_new_fixed_validb m F T Z Nsub Al : T <> 0 -> Z <> 0 -> Al <> 0 ->
  oti_new_fixed m F T Z Nsub Al =
  if oti_validb F T Z Al then Ok (F, T, Z, Nsub, Al) else Panic PAssert.
Proof.
  intros HT HZ HA. unfold oti_new_fixed. rewrite oti_new_gen_nonzero by assumption.
  rewrite (ceil_div64_cdiv F T HT), (ceil_div64_cdiv _ Z HZ). reflexivity.
Qed.

Lemma oti_new_fixed_iff m F T Z Nsub Al : T <> 0 -> Z <> 0 -> Al <> 0 ->
  (oti_new_fixed m F T Z Nsub Al = Ok (F, T, Z, Nsub, Al) <-> oti_valid F T Z Al) /\
  (~ oti_valid F T Z Al -> oti_new_fixed m F T Z Nsub Al = Panic PAssert).
Proof.
  intros HT HZ HA. rewrite (oti_new_fixed_validb m F T Z Nsub Al HT HZ HA).
  destruct (oti_validb F T Z Al) eqn:E.
  - apply oti_validb_spec in E. split; [split|]; intros; [exact E | reflexivity | contradiction].
  - apply oti_validb_false in E. split; [split|]; intros; [discriminate | contradiction | reflexivity].
Qed.

(* ---- the pinned constructor ---- *)

Lemma pinned_inner_agrees F T Z : T <> 0 -> Z <> 0 -> cdiv F T < 2 ^ 32 ->
  int_div_ceil_pinned (int_div_ceil_pinned F T) Z = ceil_div64 (ceil_div64 F T) Z.
Proof.
  intros HT HZ H. rewrite !int_div_ceil_pinned_eq.
  rewrite (ceil_div64_cdiv F T HT). unfold u32. rewrite (wrap_small 32 (cdiv F T) H).
  rewrite (ceil_div64_cdiv _ Z HZ). apply wrap_small.
  pose proof (cdiv_le (cdiv F T) Z HZ). lia.
Qed.

Lemma oti_new_pinned_agrees m F T Z Nsub Al : cdiv F T < 2 ^ 32 ->
  oti_new_pinned m F T Z Nsub Al = oti_new_fixed m F T Z Nsub Al.
Proof.
  intros H. unfold oti_new_pinned, oti_new_fixed, oti_new_gen.
  destruct (negb (T =? 0) && negb (Z =? 0)) eqn:E; [|reflexivity].
  apply andb_true_iff in E. destruct E as [E1 E2].
  apply negb_true_iff in E1, E2. apply N.eqb_neq in E1, E2.
  rewrite (pinned_inner_agrees F T Z E1 E2 H). reflexivity.
Qed.

Lemma oti_new_pinned_agrees_F m F T Z Nsub Al : F < 2 ^ 32 ->
  oti_new_pinned m F T Z Nsub Al = oti_new_fixed m F T Z Nsub Al.
Proof.
  intros H. destruct (N.eq_dec T 0) as [->|HT].
  - reflexivity.
  - apply oti_new_pinned_agrees. pose proof (cdiv_le F T HT). lia.
Qed.

(* a valid parameter set has ceil(F/T) <= 56403 * Z < 2^32 (Z is a u8): pinned accepts it too *)
Lemma valid_small_quotient F T Z Al : Z <> 0 -> Z < 2 ^ 8 -> oti_valid F T Z Al -> cdiv F T < 2 ^ 32.
Proof.
  intros HZ HZ8 [_ [_ H]]. pose proof (cdiv_mul_ge (cdiv F T) Z HZ) as G.
  change (2 ^ 8) with 256 in HZ8. change (2 ^ 32) with 4294967296. nia.
Qed.

Lemma oti_new_pinned_complete m F T Z Nsub Al : T <> 0 -> Z <> 0 -> Z < 2 ^ 8 -> Al <> 0 ->
  oti_valid F T Z Al -> oti_new_pinned m F T Z Nsub Al = Ok (F, T, Z, Nsub, Al).
Proof.
  intros HT HZ HZ8 HA V. rewrite oti_new_pinned_agrees by (exact (valid_small_quotient F T Z Al HZ HZ8 V)).
  apply (oti_new_fixed_iff m F T Z Nsub Al HT HZ HA). exact V.
Qed.

Lemma oti_new_pinned_refuted m :
  oti_validb (2 ^ 32 + 5) 1 1 1 = false /\
  oti_new_pinned m (2 ^ 32 + 5) 1 1 1 1 = Ok (2 ^ 32 + 5, 1, 1, 1, 1).
Proof. destruct m; vm_compute; split; reflexivity. Qed.

(* ---- the symbols-per-block limit without division (used by kani/src/refs.rs: oti_valid_mul) ---- *)
Lemma cdiv_le_iff a b c : 0 < b -> (cdiv a b <= c <-> a <= c * b).
Proof.
  intros Hb. unfold cdiv.
  set (q := (a + b - 1) / b).
  pose proof (N.div_mod (a + b - 1) b ltac:(lia)) as E. fold q in E.
  pose proof (N.mod_lt (a + b - 1) b ltac:(lia)) as L.
  set (r := (a + b - 1) mod b) in *.
  split; intros H.
  - assert (b * q <= b * c) by (apply N.mul_le_mono_l; exact H). nia.
  - destruct (N.le_gt_cases q c) as [Hle|Hgt]; [exact Hle|].
    exfalso. assert (b * (c + 1) <= b * q) by (apply N.mul_le_mono_l; lia). nia.
Qed.

Lemma valid_division_free F T Z Al : 0 < T -> 0 < Z ->
  (oti_valid F T Z Al <-> F <= 942574504275 /\ T mod Al = 0 /\ F <= 56403 * Z * T).
Proof.
  intros HT HZ. unfold oti_valid.
  rewrite (cdiv_le_iff _ Z) by exact HZ. rewrite (cdiv_le_iff _ T) by exact HT. reflexivity.
Qed.
