(* Proofs about Model/Kernels.v, part 4: the run-time dispatchers return what the portable kernels
   return, whatever the CPU feature set. *)
From Coq Require Import NArith ZArith List Bool Arith Lia ZifyBool ZifyN ZifyNat.
From RQ Require Import Base.Outcome Base.Ints Base.ListX Base.Vec Spec.Bits Model.Octet Model.Kernels
  Proofs.OctetProofs Proofs.VecLemmas Proofs.KernelsProofs Proofs.KernelsMulProofs Proofs.KernelsBinProofs.
Import ListNotations.
Open Scope N_scope.

(* debug_assert_ne!(scalar, ..) only constrains debug builds *)
Definition debug_ne (m : mode) (c v : N) : Prop :=
  match m with Checked => c <> v | Release => True end.

Lemma debug_assert_ne m c v : debug_ne m c v -> debug_assert m (negb (c =? v)) = Ok tt.
Proof.
  destruct m; cbn [debug_ne debug_assert]; intros H; [reflexivity|].
  apply N.eqb_neq in H. rewrite H. reflexivity.
Qed.

Theorem add_assign_dispatch cpu dest src : bytes dest -> bytes src ->
  add_assign cpu dest src = add_assign_fallback dest src.
Proof.
  intros Bd Bs. unfold add_assign.
  destruct (Nat.eq_dec (length dest) (length src)) as [HL|HL].
  - rewrite add_assign_fallback_ok by assumption.
    destruct (has cpu AVX512F); [apply add_assign_avx512_ok; assumption|].
    destruct (has cpu AVX2); [apply add_assign_avx2_ok; assumption|].
    destruct (has cpu SSSE3); [apply add_assign_ssse3_ok; assumption|].
    reflexivity.
  - unfold add_assign_avx512, add_assign_avx2, add_assign_ssse3.
    rewrite (proj2 (add_assign_len_mismatch 16 dest src HL)).
    rewrite (proj1 (add_assign_len_mismatch 64 dest src HL)).
    rewrite (proj1 (add_assign_len_mismatch 32 dest src HL)).
    rewrite (proj1 (add_assign_len_mismatch 16 dest src HL)).
    destruct (has cpu AVX512F), (has cpu AVX2), (has cpu SSSE3); reflexivity.
Qed.

Theorem mulassign_scalar_dispatch cpu dest c : c < 256 -> bytes dest ->
  mulassign_scalar cpu dest c = mulassign_scalar_fallback dest c.
Proof.
  intros Hc Bd. unfold mulassign_scalar. rewrite mulassign_scalar_fallback_ok by assumption.
  destruct (has cpu AVX512F && has cpu AVX512BW); [apply mulassign_scalar_avx512_ok; assumption|].
  destruct (has cpu AVX2); [apply mulassign_scalar_avx2_ok; assumption|].
  destruct (has cpu SSSE3); [apply mulassign_scalar_ssse3_ok; assumption|].
  reflexivity.
Qed.

Theorem fused_addassign_mul_scalar_dispatch m cpu dest src c :
  c < 256 -> length dest = length src -> bytes src -> debug_ne m c 1 -> debug_ne m c 0 ->
  fused_addassign_mul_scalar m cpu dest src c = fused_addassign_mul_scalar_fallback dest src c.
Proof.
  intros Hc HL Bs D1 D0. unfold fused_addassign_mul_scalar.
  rewrite (debug_assert_ne m c 1 D1), (debug_assert_ne m c 0 D0). cbn [obind].
  rewrite (proj2 (Nat.eqb_eq _ _) HL). cbn [assert_ok obind].
  rewrite fused_addassign_mul_scalar_fallback_ok by assumption.
  destruct (has cpu AVX512F && has cpu AVX512BW); [apply fused_addassign_mul_scalar_avx512_ok; assumption|].
  destruct (has cpu AVX2); [apply fused_addassign_mul_scalar_avx2_ok; assumption|].
  destruct (has cpu SSSE3); [apply fused_addassign_mul_scalar_ssse3_ok; assumption|].
  reflexivity.
Qed.

Theorem fused_addassign_mul_scalar_len_mismatch m cpu dest src c :
  length dest <> length src -> debug_ne m c 1 -> debug_ne m c 0 ->
  fused_addassign_mul_scalar m cpu dest src c = Panic PAssert.
Proof.
  intros HL D1 D0. unfold fused_addassign_mul_scalar.
  rewrite (debug_assert_ne m c 1 D1), (debug_assert_ne m c 0 D0). cbn [obind].
  apply Nat.eqb_neq in HL. rewrite HL. reflexivity.
Qed.

Lemma to_bits_bytes bv : bytes (to_bits bv).
Proof.
  unfold to_bits, bytes. apply Forall_forall. intros x Hx. apply in_map_iff in Hx.
  destruct Hx as [i [<- _]]. unfold bit_at. destruct (N.testbit _ _); lia.
Qed.

Lemma bin_spec_one dest bv : map2 N.lxor dest (to_bits bv) = bin_spec 1 dest bv.
Proof.
  unfold bin_spec. apply (map2_ext_in _ _ (fun _ => True) (fun b => b < 256)).
  - apply Forall_forall. auto.
  - apply to_bits_bytes.
  - intros d b _ Hb. rewrite mulN_comm, mulN_1_r by exact Hb. reflexivity.
Qed.

(* the generic tail of fused_addassign_mul_scalar_binary (what hosts without AVX2+BMI1 run) *)
Theorem fused_addassign_mul_scalar_binary_generic_ok m cpu dest bv c :
  c < 256 -> wf_bvec bv -> length dest = lenn bv -> bytes dest -> debug_ne m c 0 ->
  fused_addassign_mul_scalar_binary_generic m cpu dest bv c = Ok (bin_spec c dest bv).
Proof.
  intros Hc Hwf HL Bd D0. unfold fused_addassign_mul_scalar_binary_generic.
  rewrite (to_octet_vec_ok bv Hwf). cbn [obind].
  assert (HL2 : length dest = length (to_bits bv)) by (rewrite to_bits_length; exact HL).
  destruct (c =? 1) eqn:E1.
  - apply N.eqb_eq in E1. subst c. rewrite add_assign_dispatch by (try assumption; apply to_bits_bytes).
    rewrite add_assign_fallback_ok by (try assumption; apply to_bits_bytes).
    f_equal. apply bin_spec_one.
  - apply N.eqb_neq in E1.
    rewrite fused_addassign_mul_scalar_dispatch; try assumption; try apply to_bits_bytes.
    + apply fused_addassign_mul_scalar_fallback_ok; try assumption. apply to_bits_bytes.
    + destruct m; cbn [debug_ne]; auto.
Qed.

Theorem fused_addassign_mul_scalar_binary_ok m cpu dest bv c :
  c < 256 -> wf_bvec bv -> N.of_nat (length dest) = snd bv -> bytes dest -> debug_ne m c 0 ->
  fused_addassign_mul_scalar_binary m cpu dest bv c = Ok (bin_spec c dest bv).
Proof.
  intros Hc Hwf HLN Bd D0. unfold fused_addassign_mul_scalar_binary.
  assert (HL : length dest = lenn bv) by (unfold lenn; lia).
  rewrite (debug_assert_ne m c 0 D0). cbn [obind].
  rewrite (proj2 (N.eqb_eq _ _) HLN). cbn [assert_ok obind].
  destruct (length dest =? 0)%nat eqn:E0.
  { apply Nat.eqb_eq in E0. destruct dest; [reflexivity | discriminate]. }
  apply Nat.eqb_neq in E0.
  destruct (has cpu AVX512F && has cpu AVX512BW);
    [apply fused_addassign_mul_scalar_binary_avx512_ok; assumption|].
  destruct (has cpu AVX2 && has cpu BMI1);
    [apply fused_addassign_mul_scalar_binary_avx2_ok; try assumption; lia|].
  apply fused_addassign_mul_scalar_binary_generic_ok; assumption.
Qed.

(* same answer on every CPU: the dispatcher equals its own generic tail run with no features *)
Theorem fused_addassign_mul_scalar_binary_dispatch m cpu dest bv c :
  c < 256 -> wf_bvec bv -> N.of_nat (length dest) = snd bv -> bytes dest -> debug_ne m c 0 ->
  fused_addassign_mul_scalar_binary m cpu dest bv c
  = fused_addassign_mul_scalar_binary_generic m [] dest bv c.
Proof.
  intros Hc Hwf HLN Bd D0.
  rewrite fused_addassign_mul_scalar_binary_ok by assumption.
  symmetry. apply fused_addassign_mul_scalar_binary_generic_ok; try assumption. unfold lenn. lia.
Qed.

Theorem fused_addassign_mul_scalar_binary_len_mismatch m cpu dest bv c :
  N.of_nat (length dest) <> snd bv -> debug_ne m c 0 ->
  fused_addassign_mul_scalar_binary m cpu dest bv c = Panic PAssert.
Proof.
  intros HL D0. unfold fused_addassign_mul_scalar_binary.
  rewrite (debug_assert_ne m c 0 D0). cbn [obind].
  apply N.eqb_neq in HL. rewrite HL. reflexivity.
Qed.
