(* C15 sweep 2: the degree scan of `deg` against RFC 6330 5.3.5.2, all 2^20 values of v. *)
From Coq Require Import NArith List Bool Lia.
From RQ Require Import Base.Outcome Base.Ints Base.ListX Gen.Consts Spec.Tables_RFC Spec.Tuple
  Model.Tuple.
Import ListNotations.
Open Scope N_scope.

(* the scan of `deg` without the final `min(d, W - 2)` *)
Fixpoint deg_idx_loop (v : N) (n : nat) (d : N) : outcome N :=
  match n with
  | O => Panic PUnreachable
  | S n' =>
      match nth_ok DEG_F (N.to_nat d) with
      | Ok fd => if v <? fd then Ok d else deg_idx_loop v n' (d + 1)
      | Panic c => Panic c
      end
  end.

Lemma sweep_deg_ok :
  forall_lt2 1024 1024 (fun a b =>
    let v := a * 1024 + b in
    match deg_idx_loop v 30 1 with
    | Ok d => (d =? Deg_index v) && (1 <=? d) && (d <=? 30)
    | Panic _ => false
    end) = true.
Proof. vm_cast_no_check (eq_refl true). Qed.  (* one VM evaluation (at Qed) instead of two *)

Lemma deg_idx_ok v : v < 2 ^ 20 ->
  deg_idx_loop v 30 1 = Ok (Deg_index v) /\ 1 <= Deg_index v <= 30.
Proof.
  intros Hv. pose proof sweep_deg_ok as S0.
  assert (Ha : v / 1024 < N.of_nat 1024).
  { apply N.div_lt_upper_bound; [discriminate|]. change (2 ^ 20) with 1048576 in Hv. lia. }
  assert (Hb : v mod 1024 < N.of_nat 1024) by (apply N.mod_lt; discriminate).
  pose proof (forall_lt2_spec _ _ _ S0 (v / 1024) (v mod 1024) Ha Hb) as S. cbv beta zeta in S.
  clear S0.
  replace (v / 1024 * 1024 + v mod 1024) with v in S
    by (rewrite (N.div_mod v 1024) at 1; [lia | discriminate]).
  destruct (deg_idx_loop v 30 1) as [d|]; [|discriminate].
  apply andb_true_iff in S. destruct S as [S S3]. apply andb_true_iff in S. destruct S as [S1 S2].
  apply N.eqb_eq in S1. apply N.leb_le in S2, S3. subst d. auto.
Qed.
