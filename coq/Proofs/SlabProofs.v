(* Proofs about Model/Slab.v: replay of ANY operation list is GF(256)-linear in the slab data, acts
   independently on every byte column, and its panic behaviour depends on (count, mapping) only. *)
From Coq Require Import NArith List Bool Lia Arith.
From RQ Require Import Base.Outcome Base.Ints Base.ListX Gen.OctetTables Model.Octet Model.Slab
  Model.SlabSpec Proofs.OctetProofs.
Import ListNotations.
Open Scope N_scope.
Open Scope outcome_scope.


(* ------------------------------------------------------------------------------------------ *)
(* lists                                                                                      *)
(* ------------------------------------------------------------------------------------------ *)

Lemma map2_length {A B C} (f : A -> B -> C) l1 l2 :
  length (map2 f l1 l2) = Nat.min (length l1) (length l2).
Proof.
  revert l2; induction l1 as [|a t IH]; intros [|b t2]; cbn [map2 length Nat.min]; auto.
Qed.

Lemma nth_error_map2 {A B C} (f : A -> B -> C) l1 l2 i :
  nth_error (map2 f l1 l2) i =
  match nth_error l1 i, nth_error l2 i with Some a, Some b => Some (f a b) | _, _ => None end.
Proof.
  revert l2 i; induction l1 as [|a t IH]; intros [|b t2] [|i]; cbn [map2 nth_error]; auto.
  destruct (nth_error t i); reflexivity.
Qed.

Lemma nth_map2 {A B C} (f : A -> B -> C) l1 l2 i d d1 d2 :
  (i < length l1)%nat -> (i < length l2)%nat ->
  nth i (map2 f l1 l2) d = f (nth i l1 d1) (nth i l2 d2).
Proof.
  revert l2 i; induction l1 as [|a t IH]; intros [|b t2] [|i] H1 H2; cbn [length] in *; try lia;
    cbn [map2 nth]; auto.
  apply IH; lia.
Qed.

Lemma nth_map_lt {A B} (f : A -> B) l i d d' :
  (i < length l)%nat -> nth i (map f l) d' = f (nth i l d).
Proof.
  revert i; induction l as [|a t IH]; intros [|i] H; cbn [length] in *; try lia; cbn [map nth]; auto.
  apply IH; lia.
Qed.

Lemma list_set_length {A} (l : list A) i v : length (list_set l i v) = length l.
Proof.
  revert i; induction l as [|a t IH]; intros [|i]; cbn [list_set length]; auto.
Qed.

Lemma list_set_map {A B} (f : A -> B) l i v : list_set (map f l) i (f v) = map f (list_set l i v).
Proof.
  revert i; induction l as [|a t IH]; intros [|i]; cbn [list_set map]; auto.
  rewrite IH; reflexivity.
Qed.

Lemma list_set_map2 {A B C} (f : A -> B -> C) l1 l2 i a b :
  list_set (map2 f l1 l2) i (f a b) = map2 f (list_set l1 i a) (list_set l2 i b).
Proof.
  revert l2 i; induction l1 as [|x t IH]; intros [|y t2] [|i]; cbn [list_set map2]; auto.
  rewrite IH; reflexivity.
Qed.

Lemma Forall_list_set {A} (P : A -> Prop) l i v : Forall P l -> P v -> Forall P (list_set l i v).
Proof.
  intros H Hv; revert i; induction H as [|x t Hx Ht IH]; intros [|i]; cbn [list_set]; auto.
Qed.

Lemma Forall_nth_lt {A} (P : A -> Prop) l i d : Forall P l -> (i < length l)%nat -> P (nth i l d).
Proof. intros H Hi. rewrite Forall_forall in H. apply H. apply nth_In. exact Hi. Qed.

Lemma nth_ok_lt {A} (l : list A) i d : (i < length l)%nat -> nth_ok l i = Ok (nth i l d).
Proof. intros H. unfold nth_ok. rewrite (nth_error_nth' l i d H). reflexivity. Qed.

Lemma nth_ok_ge {A} (l : list A) i : (length l <= i)%nat -> nth_ok l i = Panic PIndex.
Proof. intros H. unfold nth_ok. apply nth_error_None in H. rewrite H. reflexivity. Qed.

Lemma nth_ok_map {A B} (f : A -> B) l i : nth_ok (map f l) i = omap f (nth_ok l i).
Proof. unfold nth_ok. rewrite nth_error_map. destruct (nth_error l i); reflexivity. Qed.

Lemma nth_ok_map2 {A B C} (f : A -> B -> C) l1 l2 i :
  length l1 = length l2 -> nth_ok (map2 f l1 l2) i = omap2 f (nth_ok l1 i) (nth_ok l2 i).
Proof.
  intros HL. unfold nth_ok. rewrite nth_error_map2.
  destruct (nth_error l1 i) eqn:E1; destruct (nth_error l2 i) eqn:E2; try reflexivity.
Qed.

(* pointwise transport of map over map2 *)
Lemma map_map2_ext (P : N -> Prop) (g : N -> N) (f f' : N -> N -> N) a b :
  (forall x y, P x -> P y -> g (f x y) = f' (g x) (g y)) ->
  Forall P a -> Forall P b -> map g (map2 f a b) = map2 f' (map g a) (map g b).
Proof.
  intros E Ha; revert b; induction Ha as [|x t Hx Ht IH]; intros b Hb; cbn [map map2].
  - reflexivity.
  - destruct Hb as [|y t2 Hy Ht2]; cbn [map map2]; [reflexivity|].
    rewrite E by assumption. rewrite IH by assumption. reflexivity.
Qed.

(* the interchange law  f (g a1 a2) (h b1 b2) = k (f1 a1 b1) (f2 a2 b2)  lifted through map2 *)
Lemma map2_interchange (P : N -> Prop) (f g h k f1 f2 : N -> N -> N) a1 a2 b1 b2 :
  (forall x1 x2 y1 y2, P x1 -> P x2 -> P y1 -> P y2 ->
     f (g x1 x2) (h y1 y2) = k (f1 x1 y1) (f2 x2 y2)) ->
  Forall P a1 -> Forall P a2 -> Forall P b1 -> Forall P b2 ->
  map2 f (map2 g a1 a2) (map2 h b1 b2) = map2 k (map2 f1 a1 b1) (map2 f2 a2 b2).
Proof.
  intros E Ha1; revert a2 b1 b2; induction Ha1 as [|x1 t1 Hx1 Ht1 IH]; intros a2 b1 b2 Ha2 Hb1 Hb2.
  - reflexivity.
  - destruct Ha2 as [|x2 t2 Hx2 Ht2]; destruct Hb1 as [|y1 u1 Hy1 Hu1]; destruct Hb2 as [|y2 u2 Hy2 Hu2];
      cbn [map2]; try reflexivity.
    rewrite E by assumption. rewrite IH by assumption. reflexivity.
Qed.

Lemma skipn_map2 {A B C} (f : A -> B -> C) n l1 l2 :
  skipn n (map2 f l1 l2) = map2 f (skipn n l1) (skipn n l2).
Proof.
  revert l1 l2; induction n as [|n IH]; intros [|a t] [|b t2]; cbn [skipn map2]; auto.
  destruct (skipn n t); reflexivity.
Qed.

Lemma firstn_map2 {A B C} (f : A -> B -> C) n l1 l2 :
  firstn n (map2 f l1 l2) = map2 f (firstn n l1) (firstn n l2).
Proof.
  revert l1 l2; induction n as [|n IH]; intros [|a t] [|b t2]; cbn [firstn map2]; auto.
  rewrite IH; reflexivity.
Qed.

(* ------------------------------------------------------------------------------------------ *)
(* bytes: the field laws extended to an arbitrary (even non-octet) scalar                      *)
(* ------------------------------------------------------------------------------------------ *)

(* a scalar outside 0..255 reads log 0 from beyond the table: it multiplies like 1 *)
Lemma mulN_big c x : 256 <= c -> mulN c x = mulN 1 x.
Proof.
  intros Hc. unfold mulN.
  assert (Hl : logN c = 0).
  { unfold logN. apply nth_overflow. rewrite len_log. lia. }
  rewrite Hl, log_1.
  assert (Hz : (c =? 0) = false) by (apply N.eqb_neq; lia).
  rewrite Hz. reflexivity.
Qed.

Lemma mulN_1_l a : a < 256 -> mulN 1 a = a.
Proof. intros Ha. rewrite mulN_comm. apply mulN_1_r. exact Ha. Qed.

Lemma mulN_lt_any c x : x < 256 -> mulN c x < 256.
Proof.
  intros Hx. destruct (N.lt_ge_cases c 256) as [Hc|Hc].
  - apply mulN_lt; assumption.
  - rewrite (mulN_big c) by exact Hc. apply mulN_lt; [reflexivity | exact Hx].
Qed.

Lemma mulN_distr_any c a b : a < 256 -> b < 256 ->
  mulN c (N.lxor a b) = N.lxor (mulN c a) (mulN c b).
Proof.
  intros Ha Hb. destruct (N.lt_ge_cases c 256) as [Hc|Hc].
  - apply mulN_distr_r; assumption.
  - rewrite !(mulN_big c) by exact Hc. apply mulN_distr_r; [reflexivity | exact Ha | exact Hb].
Qed.

(* two scalar multiplications commute (commutativity + associativity of the field) *)
Lemma mulN_swap c k a : c < 256 -> a < 256 -> mulN c (mulN k a) = mulN k (mulN c a).
Proof.
  intros Hc Ha. destruct (N.lt_ge_cases k 256) as [Hk|Hk].
  - rewrite <- !mulN_assoc by assumption. rewrite (mulN_comm c k). reflexivity.
  - rewrite !(mulN_big k) by exact Hk. rewrite !mulN_1_l; [reflexivity | apply mulN_lt; assumption | exact Ha].
Qed.

Lemma lxor_interchange x1 x2 y1 y2 :
  N.lxor (N.lxor x1 x2) (N.lxor y1 y2) = N.lxor (N.lxor x1 y1) (N.lxor x2 y2).
Proof.
  rewrite !N.lxor_assoc. f_equal. rewrite <- !N.lxor_assoc. f_equal. apply N.lxor_comm.
Qed.

(* ------------------------------------------------------------------------------------------ *)
(* symbols                                                                                    *)
(* ------------------------------------------------------------------------------------------ *)

Lemma bytes_add_ok a b : bytes_ok a -> bytes_ok b -> bytes_ok (bytes_add a b).
Proof.
  unfold bytes_ok, bytes_add. intros Ha; revert b; induction Ha as [|x t Hx Ht IH]; intros b Hb.
  - constructor.
  - destruct Hb as [|y t2 Hy Ht2]; cbn [map2]; constructor; [apply lxor_lt_256; assumption | apply IH; assumption].
Qed.

Lemma bytes_mul_ok c a : bytes_ok a -> bytes_ok (bytes_mul c a).
Proof.
  unfold bytes_ok, bytes_mul. intros Ha; induction Ha as [|x t Hx Ht IH]; cbn [map]; constructor.
  - apply mulN_lt_any; exact Hx.
  - exact IH.
Qed.

Lemma bytes_fma_ok c a b : bytes_ok a -> bytes_ok b -> bytes_ok (bytes_fma c a b).
Proof.
  unfold bytes_ok, bytes_fma. intros Ha; revert b; induction Ha as [|x t Hx Ht IH]; intros b Hb.
  - constructor.
  - destruct Hb as [|y t2 Hy Ht2]; cbn [map2]; constructor.
    + apply lxor_lt_256; [exact Hx | apply mulN_lt_any; exact Hy].
    + apply IH; assumption.
Qed.

Lemma op_kernel_wf ss o a b : sym_wf ss a -> sym_wf ss b -> sym_wf ss (op_kernel o a b).
Proof.
  intros [La Ha] [Lb Hb]. destruct o as [d r|d c|d r c|ord]; cbn [op_kernel]; split.
  - unfold bytes_add. rewrite map2_length, La, Lb. apply Nat.min_id.
  - apply bytes_add_ok; assumption.
  - unfold bytes_mul. rewrite map_length. exact La.
  - apply bytes_mul_ok; assumption.
  - unfold bytes_fma. rewrite map2_length, La, Lb. apply Nat.min_id.
  - apply bytes_fma_ok; assumption.
  - exact La.
  - exact Ha.
Qed.

(* scaling commutes with every kernel *)
Lemma scale_kernel c o a b : c < 256 -> bytes_ok a -> bytes_ok b ->
  bytes_mul c (op_kernel o a b) = op_kernel o (bytes_mul c a) (bytes_mul c b).
Proof.
  intros Hc Ha Hb. destruct o as [d r|d k|d r k|ord]; cbn [op_kernel].
  - unfold bytes_mul, bytes_add.
    apply (map_map2_ext (fun x => x < 256)); [|exact Ha|exact Hb].
    intros x y Hx Hy. apply mulN_distr_r; assumption.
  - unfold bytes_mul. rewrite !map_map. apply map_ext_in. intros x Hx.
    apply mulN_swap; [exact Hc|]. unfold bytes_ok in Ha. rewrite Forall_forall in Ha. apply Ha. exact Hx.
  - unfold bytes_mul, bytes_fma.
    apply (map_map2_ext (fun x => x < 256) (mulN c) (fun x y => N.lxor x (mulN k y))
             (fun x y => N.lxor x (mulN k y))); [|exact Ha|exact Hb].
    intros x y Hx Hy. cbv beta.
    rewrite mulN_distr_r; [|exact Hc|exact Hx|apply mulN_lt_any; exact Hy].
    rewrite (mulN_swap c k y Hc Hy). reflexivity.
  - reflexivity.
Qed.

(* xor of symbols commutes with every kernel *)
Lemma xor_kernel o a1 a2 b1 b2 : bytes_ok a1 -> bytes_ok a2 -> bytes_ok b1 -> bytes_ok b2 ->
  op_kernel o (bytes_add a1 a2) (bytes_add b1 b2) = bytes_add (op_kernel o a1 b1) (op_kernel o a2 b2).
Proof.
  intros H1 H2 H3 H4. destruct o as [d r|d k|d r k|ord]; cbn [op_kernel].
  - unfold bytes_add.
    apply (map2_interchange (fun _ => True)).
    + intros. apply lxor_interchange.
    + apply Forall_forall; auto.
    + apply Forall_forall; auto.
    + apply Forall_forall; auto.
    + apply Forall_forall; auto.
  - unfold bytes_mul, bytes_add.
    apply (map_map2_ext (fun x => x < 256)); [|exact H1|exact H2].
    intros x y Hx Hy. apply mulN_distr_any; assumption.
  - unfold bytes_fma, bytes_add.
    apply (map2_interchange (fun x => x < 256) (fun x y => N.lxor x (mulN k y)) N.lxor N.lxor N.lxor
             (fun x y => N.lxor x (mulN k y)) (fun x y => N.lxor x (mulN k y))); try assumption.
    intros x1 x2 y1 y2 Hx1 Hx2 Hy1 Hy2. cbv beta.
    rewrite mulN_distr_any by assumption. apply lxor_interchange.
  - reflexivity.
Qed.

(* the column projection commutes with every kernel, unconditionally *)
Lemma col_kernel j o a b : col j (op_kernel o a b) = op_kernel o (col j a) (col j b).
Proof.
  unfold col. destruct o as [d r|d k|d r k|ord]; cbn [op_kernel].
  - unfold bytes_add. rewrite skipn_map2, firstn_map2. reflexivity.
  - unfold bytes_mul. rewrite skipn_map, firstn_map. reflexivity.
  - unfold bytes_fma. rewrite skipn_map2, firstn_map2. reflexivity.
  - reflexivity.
Qed.

Lemma col_nth j v : (j < length v)%nat -> col j v = [nth j v 0].
Proof.
  unfold col. revert j; induction v as [|x t IH]; intros [|j] H; cbn [length] in *; try lia.
  - cbn [skipn firstn nth]. reflexivity.
  - cbn [skipn nth]. apply IH. lia.
Qed.

Lemma col_wf j ss v : sym_wf ss v -> (j < ss)%nat -> sym_wf 1 (col j v).
Proof.
  intros [L H] Hj. rewrite col_nth by lia. split; [reflexivity|].
  constructor; [|constructor]. unfold bytes_ok in H. apply Forall_nth_lt; [exact H | lia].
Qed.

(* ------------------------------------------------------------------------------------------ *)
(* perform_op factors through the index plan                                                  *)
(* ------------------------------------------------------------------------------------------ *)

Lemma phys_eq s i : phys s i = phys_of (sl_map s) i.
Proof. reflexivity. Qed.

Lemma pair_idx_ok cnt mp d r pd ps :
  pair_idx cnt mp d r = Ok (pd, ps) -> (N.to_nat pd < cnt)%nat /\ (N.to_nat ps < cnt)%nat.
Proof.
  unfold pair_idx. destruct (phys_of mp d) as [x|e]; cbn [obind]; [|discriminate].
  destruct (phys_of mp r) as [y|e]; cbn [obind]; [|discriminate].
  destruct (x =? y); [discriminate|].
  destruct (Nat.ltb (N.to_nat x) cnt) eqn:E1; cbn [negb]; [|discriminate].
  destruct (Nat.ltb (N.to_nat y) cnt) eqn:E2; cbn [negb]; [|discriminate].
  intros H; inversion H; subst. apply Nat.ltb_lt in E1, E2. split; assumption.
Qed.

Lemma op_idx_ok m cnt mp o pd ps : op_idx m cnt mp o = Ok (pd, ps) -> idx_ok o cnt pd ps.
Proof.
  destruct o as [d r|d c|d r c|ord]; cbn [op_idx idx_ok].
  - apply pair_idx_ok.
  - destruct (phys_of mp d) as [x|e]; cbn [obind]; [|discriminate].
    destruct (Nat.ltb (N.to_nat x) cnt) eqn:E1; [|discriminate].
    intros H; inversion H; subst. apply Nat.ltb_lt in E1. split; assumption.
  - destruct (pair_idx cnt mp d r) as [[x y]|e] eqn:E; cbn [obind]; [|discriminate].
    apply pair_idx_ok in E.
    destruct m; [|destruct ((c =? 0) || (c =? 1)); [discriminate|]]; intros H; inversion H; subst; exact E.
  - trivial.
Qed.

Lemma slab_pair_eq s d r :
  slab_pair s d r =
  omap (fun p => (fst p, nth (N.to_nat (fst p)) (sl_data s) [], nth (N.to_nat (snd p)) (sl_data s) []))
       (pair_idx (slab_count s) (sl_map s) d r).
Proof.
  unfold slab_pair, pair_idx. rewrite !phys_eq.
  destruct (phys_of (sl_map s) d) as [x|e]; cbn [obind omap]; [|reflexivity].
  destruct (phys_of (sl_map s) r) as [y|e]; cbn [obind omap]; [|reflexivity].
  destruct (x =? y); [reflexivity|].
  destruct (Nat.ltb (N.to_nat x) (slab_count s)) eqn:E1; cbn [negb]; [|reflexivity].
  destruct (Nat.ltb (N.to_nat y) (slab_count s)) eqn:E2; cbn [negb]; [|reflexivity].
  apply Nat.ltb_lt in E1, E2. unfold slab_count in E1, E2.
  rewrite (nth_ok_lt _ _ [] E1), (nth_ok_lt _ _ [] E2). reflexivity.
Qed.

Theorem perform_op_eq m o s :
  perform_op m o s =
  omap (fun p => step o s (fst p) (snd p)) (op_idx m (slab_count s) (sl_map s) o).
Proof.
  destruct o as [d r|d c|d r c|ord]; cbn [perform_op op_idx].
  - unfold slab_add_assign. rewrite slab_pair_eq.
    destruct (pair_idx (slab_count s) (sl_map s) d r) as [[x y]|e]; reflexivity.
  - unfold slab_mulassign. rewrite phys_eq.
    destruct (phys_of (sl_map s) d) as [x|e]; cbn [obind omap]; [|reflexivity].
    destruct (Nat.ltb (N.to_nat x) (slab_count s)) eqn:E1.
    + apply Nat.ltb_lt in E1. unfold slab_count in E1. rewrite (nth_ok_lt _ _ [] E1). reflexivity.
    + apply Nat.ltb_ge in E1. unfold slab_count in E1. rewrite (nth_ok_ge _ _ E1). reflexivity.
  - unfold slab_fma. rewrite slab_pair_eq.
    destruct (pair_idx (slab_count s) (sl_map s) d r) as [[x y]|e]; cbn [obind omap fst snd]; [|reflexivity].
    destruct m; [reflexivity|]. destruct ((c =? 0) || (c =? 1)); reflexivity.
  - reflexivity.
Qed.

(* ------------------------------------------------------------------------------------------ *)
(* what a step does to the shape                                                              *)
(* ------------------------------------------------------------------------------------------ *)

Lemma step_count o s pd ps : slab_count (step o s pd ps) = slab_count s.
Proof.
  destruct o; cbn [step]; unfold slab_count, slab_put, slab_set_reorder; cbn [sl_data];
    try apply list_set_length; reflexivity.
Qed.

Lemma step_ss o s pd ps : sl_ss (step o s pd ps) = sl_ss s.
Proof. destruct o; reflexivity. Qed.

Lemma step_mapping o s pd ps :
  sl_map (step o s pd ps) = match o with SReorder ord => Some ord | _ => sl_map s end.
Proof. destruct o; reflexivity. Qed.

Lemma step_same_index o s1 s2 pd ps pd' ps' :
  same_index s1 s2 -> same_index (step o s1 pd ps) (step o s2 pd' ps').
Proof.
  intros [Hc Hm]. split.
  - rewrite !step_count. exact Hc.
  - rewrite !step_mapping. destruct o; auto.
Qed.

Lemma replay_ss m ops : forall s r, replay m ops s = Ok r -> sl_ss r = sl_ss s.
Proof.
  induction ops as [|o t IH]; intros s r H; cbn [replay] in H.
  - inversion H; reflexivity.
  - rewrite perform_op_eq in H.
    destruct (op_idx m (slab_count s) (sl_map s) o) as [[pd ps]|e]; cbn [omap obind fst snd] in H; [|discriminate].
    rewrite (IH _ _ H). apply step_ss.
Qed.

(* panic behaviour and resulting (count, mapping) depend on (count, mapping) only *)
Theorem replay_index m ops : forall s1 s2, same_index s1 s2 ->
  outcome_rel same_index (replay m ops s1) (replay m ops s2).
Proof.
  induction ops as [|o t IH]; intros s1 s2 HI; cbn [replay].
  - exact HI.
  - rewrite !perform_op_eq. destruct HI as [Hc Hm]. rewrite <- Hc, <- Hm.
    destruct (op_idx m (slab_count s1) (sl_map s1) o) as [[pd ps]|e]; cbn [omap obind fst snd].
    + apply IH. apply step_same_index. split; assumption.
    + reflexivity.
Qed.

Lemma same_shape_index s1 s2 : same_shape s1 s2 -> same_index s1 s2.
Proof. intros (Hc & _ & Hm). split; assumption. Qed.

Theorem replay_shape m ops s1 s2 : same_shape s1 s2 ->
  outcome_rel same_shape (replay m ops s1) (replay m ops s2).
Proof.
  intros HS. pose proof (replay_index m ops s1 s2 (same_shape_index _ _ HS)) as H.
  destruct (replay m ops s1) as [r1|c1] eqn:E1; destruct (replay m ops s2) as [r2|c2] eqn:E2;
    cbn [outcome_rel] in *; try exact H.
  destruct H as [Hc Hm]. destruct HS as (_ & Hss & _).
  repeat split; try assumption.
  rewrite (replay_ss _ _ _ _ E1), (replay_ss _ _ _ _ E2). exact Hss.
Qed.

Lemma outcome_rel_panic_iff {A B} (R : A -> B -> Prop) x y :
  outcome_rel R x y -> forall c, x = Panic c <-> y = Panic c.
Proof.
  destruct x as [a|c1]; destruct y as [b|c2]; cbn [outcome_rel]; intros H c; try contradiction.
  - split; discriminate.
  - subst. split; intros E; inversion E; reflexivity.
Qed.

Lemma outcome_rel_ok {A B} (R : A -> B -> Prop) x y a b :
  outcome_rel R x y -> x = Ok a -> y = Ok b -> R a b.
Proof. intros H -> ->. exact H. Qed.

Lemma outcome_rel_is_panic {A B} (R : A -> B -> Prop) x y :
  outcome_rel R x y -> is_panic x = is_panic y.
Proof. destruct x, y; cbn [outcome_rel]; intros H; try contradiction; reflexivity. Qed.

(* ------------------------------------------------------------------------------------------ *)
(* invariants on the data, data morphisms, and sums                                           *)
(* ------------------------------------------------------------------------------------------ *)

Section Inv.
  Variable P : list N -> Prop.
  Hypothesis P_kernel : forall o a b, P a -> P b -> P (op_kernel o a b).

  Lemma step_inv o s pd ps :
    data_inv P s -> idx_ok o (slab_count s) pd ps -> data_inv P (step o s pd ps).
  Proof.
    unfold data_inv, slab_count. intros H HI.
    destruct o as [d r|d c|d r c|ord]; cbn [step idx_ok] in *; try exact H;
      unfold slab_put; cbn [sl_data]; destruct HI as [H1 H2];
      (apply Forall_list_set; [exact H | apply P_kernel; apply Forall_nth_lt; assumption]).
  Qed.

  Lemma replay_inv m ops : forall s r, data_inv P s -> replay m ops s = Ok r -> data_inv P r.
  Proof.
    induction ops as [|o t IH]; intros s r HI H; cbn [replay] in H.
    - inversion H; subst; exact HI.
    - rewrite perform_op_eq in H.
      destruct (op_idx m (slab_count s) (sl_map s) o) as [[pd ps]|e] eqn:E; cbn [omap obind fst snd] in H;
        [|discriminate].
      apply (IH _ _ (step_inv o s pd ps HI (op_idx_ok _ _ _ _ _ _ E)) H).
  Qed.

  (* ---- unary data morphisms ---- *)
  Section Morph.
    Variable phi : list N -> list N.
    Variable fss : nat -> nat.
    Hypothesis phi_kernel : forall o a b, P a -> P b -> phi (op_kernel o a b) = op_kernel o (phi a) (phi b).

    Lemma step_map o s pd ps :
      data_inv P s -> idx_ok o (slab_count s) pd ps ->
      step o (slab_map phi fss s) pd ps = slab_map phi fss (step o s pd ps).
    Proof.
      unfold data_inv, slab_count. intros H HI.
      destruct o as [d r|d c|d r c|ord]; cbn [step idx_ok] in *; try reflexivity;
        destruct HI as [H1 H2]; unfold slab_map, slab_put; cbn [sl_data sl_ss sl_map]; f_equal;
        rewrite (nth_map_lt phi _ _ [] [] H1), (nth_map_lt phi _ _ [] [] H2);
        rewrite <- phi_kernel by (apply Forall_nth_lt; assumption);
        apply list_set_map.
    Qed.

    Lemma replay_map m ops : forall s, data_inv P s ->
      replay m ops (slab_map phi fss s) = omap (slab_map phi fss) (replay m ops s).
    Proof.
      induction ops as [|o t IH]; intros s HI; cbn [replay].
      - reflexivity.
      - rewrite !perform_op_eq.
        replace (slab_count (slab_map phi fss s)) with (slab_count s)
          by (unfold slab_count, slab_map; cbn [sl_data]; rewrite map_length; reflexivity).
        change (sl_map (slab_map phi fss s)) with (sl_map s).
        destruct (op_idx m (slab_count s) (sl_map s) o) as [[pd ps]|e] eqn:E; cbn [omap obind fst snd].
        + pose proof (op_idx_ok _ _ _ _ _ _ E) as HK.
          rewrite (step_map o s pd ps HI HK). apply IH. apply step_inv; assumption.
        + reflexivity.
    Qed.
  End Morph.

  (* ---- sums ---- *)
  Section Sum.
    Hypothesis P_xor : forall o a1 a2 b1 b2, P a1 -> P a2 -> P b1 -> P b2 ->
      op_kernel o (bytes_add a1 a2) (bytes_add b1 b2) = bytes_add (op_kernel o a1 b1) (op_kernel o a2 b2).

    Lemma step_xor o s1 s2 pd ps :
      data_inv P s1 -> data_inv P s2 -> slab_count s1 = slab_count s2 ->
      idx_ok o (slab_count s1) pd ps ->
      step o (slab_xor s1 s2) pd ps = slab_xor (step o s1 pd ps) (step o s2 pd ps).
    Proof.
      unfold data_inv, slab_count. intros HA HB Hc HI.
      destruct o as [d r|d c|d r c|ord]; cbn [step idx_ok] in *; try reflexivity;
        destruct HI as [H1 H2]; unfold slab_xor, slab_put; cbn [sl_data sl_ss sl_map]; f_equal;
        pose proof H1 as H1'; pose proof H2 as H2'; rewrite Hc in H1', H2';
        rewrite (nth_map2 bytes_add _ _ _ [] [] [] H1 H1'), (nth_map2 bytes_add _ _ _ [] [] [] H2 H2');
        rewrite P_xor by (apply Forall_nth_lt; assumption);
        apply list_set_map2.
    Qed.

    Lemma replay_xor m ops : forall s1 s2, data_inv P s1 -> data_inv P s2 -> same_index s1 s2 ->
      replay m ops (slab_xor s1 s2) = omap2 slab_xor (replay m ops s1) (replay m ops s2).
    Proof.
      induction ops as [|o t IH]; intros s1 s2 HA HB [Hc Hm]; cbn [replay].
      - reflexivity.
      - rewrite !perform_op_eq.
        replace (slab_count (slab_xor s1 s2)) with (slab_count s1)
          by (unfold slab_count in *; unfold slab_xor; cbn [sl_data]; rewrite map2_length, <- Hc;
              symmetry; apply Nat.min_id).
        change (sl_map (slab_xor s1 s2)) with (sl_map s1).
        rewrite <- Hc, <- Hm.
        destruct (op_idx m (slab_count s1) (sl_map s1) o) as [[pd ps]|e] eqn:E; cbn [omap obind fst snd].
        + pose proof (op_idx_ok _ _ _ _ _ _ E) as HK.
          rewrite (step_xor o s1 s2 pd ps HA HB Hc HK). apply IH.
          * apply step_inv; assumption.
          * apply step_inv; [assumption | rewrite <- Hc; assumption].
          * apply step_same_index. split; assumption.
        + reflexivity.
    Qed.
  End Sum.
End Inv.

(* ------------------------------------------------------------------------------------------ *)
(* instances                                                                                  *)
(* ------------------------------------------------------------------------------------------ *)

Lemma slab_wf_inv s : slab_wf s <-> data_inv (sym_wf (sl_ss s)) s.
Proof. reflexivity. Qed.

(* replay preserves well-formedness -- for any scalars, see mulN_big *)
Theorem replay_wf_any m ops s r : slab_wf s -> replay m ops s = Ok r -> slab_wf r.
Proof.
  intros H E. unfold slab_wf. rewrite (replay_ss _ _ _ _ E).
  exact (replay_inv (sym_wf (sl_ss s)) (op_kernel_wf (sl_ss s)) m ops s r H E).
Qed.

Theorem replay_wf m ops s r : ops_wf ops -> slab_wf s -> replay m ops s = Ok r -> slab_wf r.
Proof. intros _. apply replay_wf_any. Qed.

Lemma slab_scale_map c s : slab_scale c s = slab_map (bytes_mul c) (fun n => n) s.
Proof. reflexivity. Qed.

Lemma slab_column_map j s : slab_column j s = slab_map (col j) (fun _ => 1%nat) s.
Proof. reflexivity. Qed.

Theorem replay_scale m ops c s : c < 256 -> slab_wf s ->
  replay m ops (slab_scale c s) = omap (slab_scale c) (replay m ops s).
Proof.
  intros Hc H.
  exact (replay_map (sym_wf (sl_ss s)) (op_kernel_wf (sl_ss s)) (bytes_mul c) (fun n => n)
           (fun o a b Ha Hb => scale_kernel c o a b Hc (proj2 Ha) (proj2 Hb)) m ops s H).
Qed.

(* the column statement needs no hypothesis at all *)
Theorem replay_column_any m ops j s :
  replay m ops (slab_column j s) = omap (slab_column j) (replay m ops s).
Proof.
  refine (replay_map (fun _ => True) (fun _ _ _ _ _ => I) (col j) (fun _ => 1%nat)
            (fun o a b _ _ => col_kernel j o a b) m ops s _).
  unfold data_inv. apply Forall_forall. auto.
Qed.

Theorem replay_column m ops j s : slab_wf s -> (j < sl_ss s)%nat ->
  replay m ops (slab_column j s) = omap (slab_column j) (replay m ops s).
Proof. intros _ _. apply replay_column_any. Qed.

Lemma slab_column_wf j s : slab_wf s -> (j < sl_ss s)%nat -> slab_wf (slab_column j s).
Proof.
  unfold slab_wf, slab_column. cbn [sl_data sl_ss]. intros H Hj.
  apply Forall_map. eapply Forall_impl; [|exact H]. intros v Hv. apply (col_wf j (sl_ss s)); assumption.
Qed.

Lemma slab_scale_wf c s : slab_wf s -> slab_wf (slab_scale c s).
Proof.
  unfold slab_wf, slab_scale. cbn [sl_data sl_ss]. intros H.
  apply Forall_map. eapply Forall_impl; [|exact H]. intros v [L Hv]. split.
  - unfold bytes_mul. rewrite map_length. exact L.
  - apply bytes_mul_ok. exact Hv.
Qed.

Lemma slab_xor_wf s1 s2 : slab_wf s1 -> slab_wf s2 -> same_shape s1 s2 -> slab_wf (slab_xor s1 s2).
Proof.
  unfold slab_wf, slab_xor, same_shape. cbn [sl_data sl_ss]. intros H1 H2 (_ & Hss & _).
  rewrite <- Hss in H2. revert H2. generalize (sl_data s2).
  induction H1 as [|a t Ha Ht IH]; intros l2 H2; cbn [map2]; [constructor|].
  destruct H2 as [|b t2 Hb Ht2]; constructor.
  - apply (op_kernel_wf (sl_ss s1) (SAdd 0 0)); assumption.
  - apply IH. exact Ht2.
Qed.

Theorem replay_additive m ops s1 s2 : slab_wf s1 -> slab_wf s2 -> same_shape s1 s2 ->
  replay m ops (slab_xor s1 s2) = omap2 slab_xor (replay m ops s1) (replay m ops s2).
Proof.
  intros H1 H2 HS. pose proof HS as (Hc & Hss & Hm).
  unfold slab_wf in H2. rewrite <- Hss in H2.
  exact (replay_xor (sym_wf (sl_ss s1)) (op_kernel_wf (sl_ss s1))
           (fun o a1 a2 b1 b2 A1 A2 B1 B2 => xor_kernel o a1 a2 b1 b2 (proj2 A1) (proj2 A2) (proj2 B1) (proj2 B2))
           m ops s1 s2 H1 H2 (same_shape_index _ _ HS)).
Qed.

(* ------------------------------------------------------------------------------------------ *)
(* reading out through the mapping                                                            *)
(* ------------------------------------------------------------------------------------------ *)

Lemma slab_get_map phi fss s i : slab_get (slab_map phi fss s) i = omap phi (slab_get s i).
Proof.
  unfold slab_get. rewrite !phys_eq. change (sl_map (slab_map phi fss s)) with (sl_map s).
  destruct (phys_of (sl_map s) i) as [p|e]; cbn [obind omap]; [|reflexivity].
  unfold slab_map; cbn [sl_data]. apply nth_ok_map.
Qed.

Lemma slab_read_map phi fss s n : forall from,
  slab_read (slab_map phi fss s) n from = omap (map phi) (slab_read s n from).
Proof.
  induction n as [|n IH]; intros from; cbn [slab_read].
  - reflexivity.
  - rewrite slab_get_map. destruct (slab_get s from) as [x|e]; cbn [obind omap]; [|reflexivity].
    rewrite IH. destruct (slab_read s n (from + 1)) as [l|e]; reflexivity.
Qed.

Lemma slab_get_xor s1 s2 i : same_index s1 s2 ->
  slab_get (slab_xor s1 s2) i = omap2 bytes_add (slab_get s1 i) (slab_get s2 i).
Proof.
  intros [Hc Hm]. unfold slab_get. rewrite !phys_eq. change (sl_map (slab_xor s1 s2)) with (sl_map s1).
  rewrite <- Hm. destruct (phys_of (sl_map s1) i) as [p|e]; cbn [obind omap2]; [|reflexivity].
  unfold slab_xor; cbn [sl_data]. apply nth_ok_map2. exact Hc.
Qed.

Lemma slab_read_xor s1 s2 n : same_index s1 s2 -> forall from,
  slab_read (slab_xor s1 s2) n from = omap2 syms_xor (slab_read s1 n from) (slab_read s2 n from).
Proof.
  intros HI. induction n as [|n IH]; intros from; cbn [slab_read].
  - reflexivity.
  - rewrite (slab_get_xor _ _ _ HI).
    pose proof HI as [Hc Hm].
    assert (HP : outcome_rel (fun _ _ => True) (slab_get s1 from) (slab_get s2 from)).
    { unfold slab_get. rewrite !phys_eq, <- Hm.
      destruct (phys_of (sl_map s1) from) as [p|e]; cbn [obind outcome_rel]; [|reflexivity].
      unfold nth_ok. unfold slab_count in Hc.
      destruct (nth_error (sl_data s1) (N.to_nat p)) eqn:E1; destruct (nth_error (sl_data s2) (N.to_nat p)) eqn:E2;
        cbn [outcome_rel]; auto.
      - apply nth_error_None in E2. assert (nth_error (sl_data s1) (N.to_nat p) <> None) as Hn by congruence.
        apply nth_error_Some in Hn. lia.
      - apply nth_error_None in E1. assert (nth_error (sl_data s2) (N.to_nat p) <> None) as Hn by congruence.
        apply nth_error_Some in Hn. lia. }
    destruct (slab_get s1 from) as [x|e]; destruct (slab_get s2 from) as [y|e2];
      cbn [outcome_rel] in HP; try contradiction; cbn [obind omap2].
    + rewrite IH.
      destruct (slab_read s1 n (from + 1)) as [l1|e1]; destruct (slab_read s2 n (from + 1)) as [l2|e2];
        reflexivity.
    + reflexivity.
Qed.

Theorem read_scale c s n from :
  slab_read (slab_scale c s) n from = omap (syms_scale c) (slab_read s n from).
Proof. rewrite slab_scale_map. apply slab_read_map. Qed.

Theorem read_column j s n from :
  slab_read (slab_column j s) n from = omap (syms_column j) (slab_read s n from).
Proof. rewrite slab_column_map. apply slab_read_map. Qed.

Theorem read_xor s1 s2 n from : same_shape s1 s2 ->
  slab_read (slab_xor s1 s2) n from = omap2 syms_xor (slab_read s1 n from) (slab_read s2 n from).
Proof. intros HS. apply slab_read_xor. apply same_shape_index. exact HS. Qed.

(* ------------------------------------------------------------------------------------------ *)
(* statements in the form pinned by Props/C09.v                                               *)
(* ------------------------------------------------------------------------------------------ *)

Theorem replay_shape_explicit : forall m ops s1 s2, same_shape s1 s2 ->
  (forall c, replay m ops s1 = Panic c <-> replay m ops s2 = Panic c) /\
  (forall r1 r2, replay m ops s1 = Ok r1 -> replay m ops s2 = Ok r2 -> same_shape r1 r2).
Proof.
  intros m ops s1 s2 HS. pose proof (replay_shape m ops s1 s2 HS) as H. split.
  - exact (outcome_rel_panic_iff _ _ _ H).
  - intros r1 r2. exact (outcome_rel_ok _ _ _ r1 r2 H).
Qed.

Theorem replay_symbol_size_irrelevant : forall m ops s1 s2,
  slab_count s1 = slab_count s2 -> sl_map s1 = sl_map s2 ->
  (forall c, replay m ops s1 = Panic c <-> replay m ops s2 = Panic c) /\
  is_panic (replay m ops s1) = is_panic (replay m ops s2) /\
  (forall r1 r2, replay m ops s1 = Ok r1 -> replay m ops s2 = Ok r2 ->
     slab_count r1 = slab_count r2 /\ sl_map r1 = sl_map r2 /\
     sl_ss r1 = sl_ss s1 /\ sl_ss r2 = sl_ss s2).
Proof.
  intros m ops s1 s2 Hc Hm. pose proof (replay_index m ops s1 s2 (conj Hc Hm)) as H. split; [|split].
  - exact (outcome_rel_panic_iff _ _ _ H).
  - exact (outcome_rel_is_panic _ _ _ H).
  - intros r1 r2 E1 E2. destruct (outcome_rel_ok _ _ _ r1 r2 H E1 E2) as [H1 H2].
    repeat split; try assumption; eapply replay_ss; eassumption.
Qed.

Theorem replay_additive_explicit : forall m ops s1 s2, slab_wf s1 -> slab_wf s2 -> same_shape s1 s2 ->
  (forall r1 r2, replay m ops s1 = Ok r1 -> replay m ops s2 = Ok r2 ->
     replay m ops (slab_xor s1 s2) = Ok (slab_xor r1 r2)) /\
  (forall c, replay m ops s1 = Panic c \/ replay m ops s2 = Panic c ->
     replay m ops (slab_xor s1 s2) = Panic c).
Proof.
  intros m ops s1 s2 H1 H2 HS. rewrite (replay_additive m ops s1 s2 H1 H2 HS).
  pose proof (replay_shape m ops s1 s2 HS) as HR. split.
  - intros r1 r2 -> ->. reflexivity.
  - intros c [E|E]; rewrite E in *.
    + reflexivity.
    + destruct (replay m ops s1) as [r1|c1]; cbn [outcome_rel] in HR; [contradiction|].
      subst. reflexivity.
Qed.

Theorem structure_wf : forall s1 s2 c j, slab_wf s1 -> slab_wf s2 -> same_shape s1 s2 ->
  slab_wf (slab_xor s1 s2) /\ same_shape (slab_xor s1 s2) s1 /\
  slab_wf (slab_scale c s1) /\ same_shape (slab_scale c s1) s1 /\
  ((j < sl_ss s1)%nat -> slab_wf (slab_column j s1)) /\
  slab_count (slab_column j s1) = slab_count s1 /\ sl_map (slab_column j s1) = sl_map s1.
Proof.
  intros s1 s2 c j H1 H2 HS. pose proof HS as (Hc & Hss & Hm). repeat split.
  - apply slab_xor_wf; assumption.
  - unfold slab_count, slab_xor in *. cbn [sl_data]. rewrite map2_length, <- Hc. apply Nat.min_id.
  - apply slab_scale_wf; assumption.
  - unfold slab_count, slab_scale. cbn [sl_data]. apply map_length.
  - intros Hj. apply slab_column_wf; assumption.
  - unfold slab_count, slab_column. cbn [sl_data]. apply map_length.
Qed.

Theorem read_linear : forall s1 s2 c j n from,
  (same_shape s1 s2 ->
     slab_read (slab_xor s1 s2) n from = omap2 syms_xor (slab_read s1 n from) (slab_read s2 n from)) /\
  slab_read (slab_scale c s1) n from = omap (syms_scale c) (slab_read s1 n from) /\
  slab_read (slab_column j s1) n from = omap (syms_column j) (slab_read s1 n from).
Proof.
  intros s1 s2 c j n from. split; [|split].
  - apply read_xor.
  - apply read_scale.
  - apply read_column.
Qed.
