(* Proofs about Model/SparseMatrix.v, part 8: resize (only while the column index is disabled;
   keeps all of the dense tail or none of it). *)
From Coq Require Import NArith ZArith List Bool Lia Arith Sorted Permutation ZifyBool ZifyN.
From RQ Require Import Base.Outcome Base.Ints Base.ListX Spec.BitMatrix Spec.SparseAdm
  Model.DenseMatrix Model.SparseMatrix Proofs.DenseBits Proofs.DenseMatrixProofs Proofs.DenseQueries
  Proofs.DenseSeq Proofs.SparseVecProofs Proofs.SparseMatrixProofs Proofs.SparseSim
  Proofs.SparseQueries Proofs.SparseQuerySim Proofs.SparseAdd.
Import ListNotations.
Open Scope N_scope.

(* ---------------- collecting the rows by logical number ---------------- *)

Lemma firstn_S_snoc {A} (l : list A) k d : (k < length l)%nat ->
  firstn (S k) l = firstn k l ++ [nth k l d].
Proof.
  revert k. induction l as [|x t IH]; intros k Hk; cbn [length] in Hk; [lia|].
  destruct k as [|k]; [reflexivity|]. cbn [firstn nth app]. f_equal. apply IH. lia.
Qed.

Lemma collect_ok md m nh : sm_inv md m -> nh <= s_height m ->
  forall (k : nat) (ns : list (option svec)), (k <= N.to_nat (s_height m))%nat -> length ns = N.to_nat nh ->
  (forall lr, lr < nh -> nth (N.to_nat lr) ns None =
     if N.of_nat k <=? eword (s_l2p_row m) lr then Some (rowk m (eword (s_l2p_row m) lr)) else None) ->
  exists ns', resize_collect (s_p2l_row m) nh (rev (firstn k (s_rows m))) ns = Ok ns' /\
    length ns' = N.to_nat nh /\
    forall lr, lr < nh -> nth (N.to_nat lr) ns' None = Some (rowk m (eword (s_l2p_row m) lr)).
Proof.
  intros Hinv Hnh. pose proof (inv_rows_len _ _ Hinv) as Hrl. pose proof (inv_rowmaps _ _ Hinv) as Hrm.
  induction k as [|k IH]; intros ns Hk Hlen Hns.
  - cbn [firstn rev resize_collect]. exists ns. split; [reflexivity|]. split; [exact Hlen|].
    intros lr Hlr. rewrite (Hns lr Hlr). cbn [N.of_nat].
    replace (0 <=? eword (s_l2p_row m) lr) with true by (symmetry; apply N.leb_le; lia). reflexivity.
  - rewrite (firstn_S_snoc (s_rows m) k []) by (unfold svec in *; lia).
    rewrite rev_app_distr. cbn [rev app resize_collect].
    rewrite rev_length, firstn_length, Nat.min_l by (unfold svec in *; lia).
    rewrite (p2l_row_ok md m Hinv (N.of_nat k)) by lia. cbn [obind].
    set (lrk := eword (s_p2l_row m) (N.of_nat k)).
    assert (Hlrk : lrk < s_height m) by (apply (perm_p2l_lt _ _ _ _ Hrm); lia).
    assert (Hinvk : eword (s_l2p_row m) lrk = N.of_nat k) by (apply (perm_l2p_p2l _ _ _ _ Hrm); lia).
    assert (Hother : forall lr, lr < s_height m -> lr <> lrk ->
              (N.of_nat k <=? eword (s_l2p_row m) lr) = (N.of_nat (S k) <=? eword (s_l2p_row m) lr)).
    { intros lr Hlr Hne. assert (eword (s_l2p_row m) lr <> N.of_nat k).
      { intros E. apply Hne. rewrite <- (perm_p2l_l2p _ _ _ lr Hrm Hlr), E. reflexivity. }
      destruct (N.of_nat k <=? _) eqn:E1; destruct (N.of_nat (S k) <=? _) eqn:E2; try reflexivity; lia. }
    destruct (lrk <? nh) eqn:Ein.
    + apply N.ltb_lt in Ein. rewrite lset_ok by lia. cbn [obind].
      apply IH; [lia | rewrite upd_length; exact Hlen|].
      intros lr Hlr. rewrite nth_upd_N by lia. destruct (lr =? lrk) eqn:E.
      * apply N.eqb_eq in E. subst lr. rewrite Hinvk, N.leb_refl. unfold rowk. rewrite Nat2N.id. reflexivity.
      * apply N.eqb_neq in E. rewrite (Hns lr Hlr). rewrite (Hother lr) by (try assumption; lia). reflexivity.
    + apply N.ltb_ge in Ein. cbn [obind]. apply IH; [lia | exact Hlen|].
      intros lr Hlr. rewrite (Hns lr Hlr). rewrite (Hother lr) by lia. reflexivity.
Qed.

(* ---------------- the row maps become the identity ---------------- *)

Lemma maps_loop : forall (k : nat) l2p p2l, (k <= length l2p)%nat -> (k <= length p2l)%nat ->
  N.of_nat k <= 2 ^ 32 ->
  exists l2p' p2l', ofold resize_maps_step (range_from 0 (N.of_nat k)) (l2p, p2l) = Ok (l2p', p2l') /\
    length l2p' = length l2p /\ length p2l' = length p2l /\
    (forall i, eword l2p' i = if i <? N.of_nat k then i else eword l2p i) /\
    (forall i, eword p2l' i = if i <? N.of_nat k then i else eword p2l i).
Proof.
  induction k as [|k IH]; intros l2p p2l H1 H2 Hb.
  - exists l2p, p2l. cbn [N.of_nat]. rewrite range_from_nil by lia. cbn [ofold].
    split; [reflexivity|]. split; [reflexivity|]. split; [reflexivity|].
    split; intros i; destruct i; reflexivity.
  - destruct (IH l2p p2l) as [a [b [Hf [La [Lb [Ea Eb]]]]]]; try lia.
    rewrite range_from_0_succ, ofold_app, Hf. cbn [obind ofold]. unfold resize_maps_step.
    rewrite !vset_ok by lia. cbn [obind]. unfold u32. rewrite wrap_small by lia.
    eexists. eexists. split; [reflexivity|]. split; [rewrite upd_length; exact La|].
    split; [rewrite upd_length; exact Lb|].
    split; intros i; rewrite eword_upd by lia; rewrite ?Ea, ?Eb;
      (destruct (i =? N.of_nat k) eqn:E;
       [apply N.eqb_eq in E; subst i;
        replace (N.of_nat k <? N.of_nat (S k)) with true by (symmetry; apply N.ltb_lt; lia); reflexivity|
        apply N.eqb_neq in E;
        replace (i <? N.of_nat (S k)) with (i <? N.of_nat k); [reflexivity|];
        destruct (i <? N.of_nat k) eqn:E2; symmetry; [apply N.ltb_lt | apply N.ltb_ge]; lia]).
Qed.

(* ---------------- copying the dense rows by logical number ---------------- *)

Lemma dense_row_inner de rw pr lr : forall (j : nat) nd,
  pr * rw + N.of_nat j <= N.of_nat (length de) -> lr * rw + N.of_nat j <= N.of_nat (length nd) ->
  Forall lt64 de -> Forall lt64 nd ->
  exists nd', ofold (fun nd word => obind (vget de (pr * rw + word)) (fun x => vset nd (lr * rw + word) x))
                    (range_from 0 (N.of_nat j)) nd = Ok nd' /\
    length nd' = length nd /\ Forall lt64 nd' /\
    forall q, eword nd' q = if (lr * rw <=? q) && (q <? lr * rw + N.of_nat j)
                            then eword de (pr * rw + (q - lr * rw)) else eword nd q.
Proof.
  induction j as [|j IH]; intros nd H1 H2 Hde Hnd.
  - exists nd. cbn [N.of_nat]. rewrite range_from_nil by lia. cbn [ofold].
    split; [reflexivity|]. split; [reflexivity|]. split; [exact Hnd|]. intros q.
    replace ((lr * rw <=? q) && (q <? lr * rw + 0)) with false by (symmetry; apply andb_false_iff; lia).
    reflexivity.
  - destruct (IH nd) as [nd1 [Hf [L1 [A1 E1]]]]; try lia; try assumption.
    rewrite range_from_0_succ, ofold_app, Hf. cbn [obind ofold].
    rewrite vget_ok by lia. cbn [obind]. rewrite vset_ok by lia. cbn [obind].
    eexists. split; [reflexivity|]. split; [rewrite upd_length; exact L1|]. split.
    + apply Forall_upd; [exact A1|]. apply eword_lt64. exact Hde.
    + intros q. rewrite eword_upd by lia. rewrite E1. destruct (q =? lr * rw + N.of_nat j) eqn:E.
      * apply N.eqb_eq in E. subst q.
        replace ((lr * rw <=? lr * rw + N.of_nat j) && (lr * rw + N.of_nat j <? lr * rw + N.of_nat (S j))) with true
          by (symmetry; apply andb_true_iff; lia).
        f_equal. lia.
      * apply N.eqb_neq in E.
        replace ((lr * rw <=? q) && (q <? lr * rw + N.of_nat (S j))) with ((lr * rw <=? q) && (q <? lr * rw + N.of_nat j)); [reflexivity|].
        destruct (lr * rw <=? q) eqn:E2; cbn [andb]; [|reflexivity].
        destruct (q <? lr * rw + N.of_nat j) eqn:E3; symmetry; [apply N.ltb_lt | apply N.ltb_ge]; lia.
Qed.

Lemma dense_rows_outer md m : sm_inv md m -> 1 <= sm_rww m ->
  forall (k : nat) nd0, N.of_nat k <= s_height m -> N.of_nat k * sm_rww m <= N.of_nat (length nd0) ->
  Forall lt64 nd0 ->
  exists nd', ofold (resize_dense_row m) (range_from 0 (N.of_nat k)) nd0 = Ok nd' /\
    length nd' = length nd0 /\ Forall lt64 nd' /\
    forall q, eword nd' q =
      if q <? N.of_nat k * sm_rww m
      then eword (s_dense m) (eword (s_l2p_row m) (q / sm_rww m) * sm_rww m + q mod sm_rww m)
      else eword nd0 q.
Proof.
  intros Hinv Hrw. destruct (inv_dense _ _ Hinv) as [_ [Hall _]].
  induction k as [|k IH]; intros nd0 Hk Hl Hnd.
  - exists nd0. cbn [N.of_nat]. rewrite range_from_nil by lia. cbn [ofold].
    split; [reflexivity|]. split; [reflexivity|]. split; [exact Hnd|]. intros q. rewrite N.mul_0_l.
    destruct q; reflexivity.
  - destruct (IH nd0) as [nd1 [Hf [L1 [A1 E1]]]]; try lia; try assumption.
    rewrite range_from_0_succ, ofold_app, Hf. cbn [obind ofold]. unfold resize_dense_row.
    rewrite (l2p_row_ok md m Hinv (N.of_nat k)) by lia. cbn [obind].
    set (pr := eword (s_l2p_row m) (N.of_nat k)).
    assert (Hpr : pr < s_height m) by (apply (l2p_row_lt md m Hinv); lia).
    pose proof (dense_row_le md m pr Hinv Hpr) as Hprl.
    destruct (dense_row_inner (s_dense m) (sm_rww m) pr (N.of_nat k) (N.to_nat (sm_rww m)) nd1)
      as [nd2 [Hf2 [L2 [A2 E2]]]]; try assumption; try (rewrite N2Nat.id; lia).
    rewrite N2Nat.id in Hf2, E2. rewrite Hf2. cbn [obind].
    exists nd2. split; [reflexivity|]. split; [congruence|]. split; [exact A2|].
    intros q. rewrite E2, E1.
    destruct ((N.of_nat k * sm_rww m <=? q) && (q <? N.of_nat k * sm_rww m + sm_rww m)) eqn:Ein.
    + apply andb_true_iff in Ein. destruct Ein as [Ei1 Ei2]. apply N.leb_le in Ei1. apply N.ltb_lt in Ei2.
      replace (q <? N.of_nat (S k) * sm_rww m) with true by (symmetry; apply N.ltb_lt; lia).
      replace (q / sm_rww m) with (N.of_nat k)
        by (apply (N.div_unique _ (sm_rww m) (N.of_nat k) (q - N.of_nat k * sm_rww m)); lia).
      replace (q mod sm_rww m) with (q - N.of_nat k * sm_rww m)
        by (apply (N.mod_unique _ (sm_rww m) (N.of_nat k)); lia).
      reflexivity.
    + replace (q <? N.of_nat (S k) * sm_rww m) with (q <? N.of_nat k * sm_rww m); [reflexivity|].
      apply andb_false_iff in Ein.
      destruct (q <? N.of_nat k * sm_rww m) eqn:E3; symmetry; [apply N.ltb_lt | apply N.ltb_ge].
      * apply N.ltb_lt in E3. lia.
      * apply N.ltb_ge in E3. destruct Ein as [Ein|Ein]; [apply N.leb_gt in Ein | apply N.ltb_ge in Ein]; lia.
Qed.

(* ---------------- omapM ---------------- *)

Lemma omapM_ok {A B} (f : A -> outcome B) (g : A -> B) l :
  (forall x, In x l -> f x = Ok (g x)) -> omapM f l = Ok (map g l).
Proof.
  induction l as [|x t IH]; intros H; cbn [omapM map]; [reflexivity|].
  rewrite (H x) by (left; reflexivity). rewrite IH by (intros y Hy; apply H; right; exact Hy). reflexivity.
Qed.

Lemma omapM_unwrap_ok {A} (ns : list (option A)) (g : nat -> A) : forall s,
  (forall i, (i < length ns)%nat -> nth i ns None = Some (g (s + i)%nat)) ->
  omapM unwrap ns = Ok (map g (seq s (length ns))).
Proof.
  induction ns as [|x t IH]; intros s H; cbn [omapM length seq map]; [reflexivity|].
  pose proof (H 0%nat ltac:(cbn [length]; lia)) as H0. cbn [nth] in H0. rewrite Nat.add_0_r in H0. subst x.
  cbn [unwrap]. rewrite (IH (S s)); [reflexivity|].
  intros i Hi. specialize (H (S i) ltac:(cbn [length]; lia)). cbn [nth] in H. rewrite H. f_equal. f_equal. lia.
Qed.

(* ---------------- the dense stage ---------------- *)

Lemma resize_dense_stage md m nh nw : sm_inv md m -> nh <= s_height m -> nw <= s_width m ->
  (nw = s_width m \/ nw <= sfd m) ->
  let ctr := s_width m - nw in
  exists ctr' dense' nd',
    (if (ctr =? 0) && (0 <? s_nd m) then
       let rww := sm_rww m in
       obind (ofold (resize_dense_row m) (range_from 0 nh) (repeat 0 (N.to_nat (nh * rww))))
             (fun nd => Ok (ctr, nd, s_nd m))
     else Ok (ctr - s_nd m, [], 0)) = Ok (ctr', dense', nd') /\
    nd' = (if nw =? s_width m then s_nd m else 0) /\
    dense_inv dense' nh nd' /\
    (forall r d, r < nh -> d < nd' ->
       lbit dense' (ceil_div nd' 64) r ((64 - nd' mod 64) mod 64 + d) = sm_dbit m (eword (s_l2p_row m) r) d) /\
    ctr' = sfd m - (nw - nd') /\ nw - nd' <= sfd m /\ (0 < ctr' -> nd' = 0).
Proof.
  intros Hinv Hnh Hnw Hcase ctr. pose proof (inv_nd _ _ Hinv) as Hnd.
  destruct (inv_dense _ _ Hinv) as [Hlen [Hall Hpad]].
  destruct ((ctr =? 0) && (0 <? s_nd m)) eqn:Eb.
  - apply andb_true_iff in Eb. destruct Eb as [E0 End]. apply N.eqb_eq in E0. apply N.ltb_lt in End.
    assert (Enw : nw = s_width m) by (unfold ctr in E0; lia). cbv zeta.
    assert (Hrw : 1 <= sm_rww m) by (pose proof (lpb_nd_m m); pose proof (lpb_lt_m m); lia).
    destruct (dense_rows_outer md m Hinv Hrw (N.to_nat nh) (repeat 0 (N.to_nat (nh * sm_rww m))))
      as [nd1 [Hf [L1 [A1 E1]]]].
    + lia.
    + rewrite repeat_length. lia.
    + apply Forall_repeat. exact lt64_0.
    + rewrite N2Nat.id in Hf, E1. rewrite Hf. cbn [obind].
      exists ctr, nd1, (s_nd m). split; [reflexivity|].
      assert (Eq : (nw =? s_width m) = true) by (apply N.eqb_eq; exact Enw). rewrite Eq.
      split; [reflexivity|].
      assert (Hcell : forall r a, r < nh -> a < sm_rww m ->
                eword nd1 (r * sm_rww m + a) = eword (s_dense m) (eword (s_l2p_row m) r * sm_rww m + a)).
      { intros r a Hr Ha. rewrite E1.
        replace (r * sm_rww m + a <? nh * sm_rww m) with true
          by (symmetry; apply N.ltb_lt; pose proof (row_mul_le r nh (sm_rww m) Hr); lia).
        replace ((r * sm_rww m + a) / sm_rww m) with r by (apply (N.div_unique _ (sm_rww m) r a); lia).
        replace ((r * sm_rww m + a) mod sm_rww m) with a by (apply (N.mod_unique _ (sm_rww m) r); lia).
        reflexivity. }
      split; [|split; [|split; [unfold sfd, ctr in *; lia | split; [unfold sfd; lia | intros; unfold ctr in *; lia]]]].
      * split; [rewrite L1, repeat_length; unfold sm_rww, WORD_WIDTH; lia|]. split; [exact A1|].
        intros p b Hp Hb. unfold ebit. pose proof (Hcell p 0 Hp ltac:(lia)) as Hc0. rewrite !N.add_0_r in Hc0.
        unfold sm_rww, WORD_WIDTH in Hc0. rewrite Hc0.
        apply (Hpad (eword (s_l2p_row m) p)); [apply (l2p_row_lt md m Hinv); lia | exact Hb].
      * intros r d Hr Hd. unfold sm_dbit, lbit, ebit.
        change (ceil_div (s_nd m) 64) with (sm_rww m). change ((64 - s_nd m mod 64) mod 64) with (sm_lpb m).
        rewrite Hcell; [reflexivity | exact Hr|]. apply dense_word_lt. exact Hd.
  - exists (ctr - s_nd m), [], 0. split; [reflexivity|].
    assert (Eq : (nw =? s_width m) = true -> s_nd m = 0).
    { intros E. apply N.eqb_eq in E. apply andb_false_iff in Eb. unfold ctr in Eb.
      destruct Eb as [Eb|Eb]; [apply N.eqb_neq in Eb; lia | apply N.ltb_ge in Eb; lia]. }
    split; [destruct (nw =? s_width m); [symmetry; apply Eq; reflexivity | reflexivity]|].
    split; [split; [change (ceil_div 0 64) with 0; cbn [length N.of_nat]; lia
                   | split; [constructor | intros p b _ Hb; cbn in Hb; lia]]|].
    split; [intros r d _ Hd; lia|].
    rewrite N.sub_0_r. unfold ctr, sfd.
    destruct Hcase as [E|E].
    + subst nw. assert (s_nd m = 0) by (apply Eq; apply N.eqb_refl). split; [lia|]. split; [lia | reflexivity].
    + unfold sfd in E. split; [lia|]. split; [lia | reflexivity].
Qed.

(* ---------------- resize ---------------- *)

Definition keep_col (m : smat) (nw : N) (k : N) : bool := eword (s_p2l_col m) k <? nw.

Lemma sm_resize_ok md m nh nw : sm_inv md m -> s_disabled m = true ->
  nh <= s_height m -> nw <= s_width m -> (nw = s_width m \/ nw <= sfd m) ->
  exists m', sm_resize md m nh nw = Ok m' /\ sm_inv md m' /\
    s_height m' = nh /\ s_width m' = nw /\ s_nd m' = (if nw =? s_width m then s_nd m else 0) /\
    s_l2p_col m' = s_l2p_col m /\ s_p2l_col m' = s_p2l_col m /\
    s_disabled m' = true /\ s_index m' = None /\ s_valid m' = s_valid m /\
    forall r c, r < nh -> c < nw -> sm_bit m' r c = sm_bit m r c.
Proof.
  intros Hinv Hdis Hnh Hnw Hcase.
  pose proof (inv_h _ _ Hinv) as Hh24. pose proof (inv_w _ _ Hinv) as Hw. pose proof (inv_w0 _ _ Hinv) as Hw0.
  pose proof (inv_nd _ _ Hinv) as Hnd. pose proof (inv_rows_len _ _ Hinv) as Hrl.
  pose proof (inv_rowmaps _ _ Hinv) as Hrm. pose proof (index_none md m Hinv Hdis) as Hnone.
  unfold sm_resize.
  assert (E1 : (nh <=? s_height m) = true) by (apply N.leb_le; exact Hnh). rewrite E1. cbn [assert_ok obind].
  rewrite sub_w_ok by exact Hnw. cbn [obind]. set (ctr := s_width m - nw).
  assert (E2 : (ctr =? 0) || (s_nd m <=? ctr) = true).
  { apply orb_true_iff. destruct Hcase as [E|E]; [left; apply N.eqb_eq; unfold ctr; lia|].
    right. apply N.leb_le. unfold ctr, sfd in *. lia. }
  rewrite E2. cbn [assert_ok obind]. rewrite Hdis. cbn [negb].
  (* rows by logical number *)
  destruct (collect_ok md m nh Hinv Hnh (N.to_nat (s_height m)) (repeat None (N.to_nat nh)))
    as [ns [Hcol [Hnsl Hns]]].
  { lia. }
  { apply repeat_length. }
  { intros lr Hlr. rewrite (nth_repeat' (@None svec)). rewrite N2Nat.id.
    pose proof (l2p_row_lt md m Hinv lr ltac:(lia)).
    replace (s_height m <=? eword (s_l2p_row m) lr) with false by (symmetry; apply N.leb_gt; lia). reflexivity. }
  rewrite <- Hrl, firstn_all in Hcol. rewrite Hcol. cbn [obind].
  (* dense stage *)
  destruct (resize_dense_stage md m nh nw Hinv Hnh Hnw Hcase) as
    [ctr' [dense' [nd' [Hds [Pnd [Pinv [Pbit [Pctr [Psfd Pz]]]]]]]]].
  fold ctr in Hds. cbv zeta in Hds. rewrite Hds. cbn [obind].
  (* row maps *)
  destruct (maps_loop (N.to_nat nh) (firstn (N.to_nat nh) (s_l2p_row m)) (firstn (N.to_nat nh) (s_p2l_row m)))
    as [l2p' [p2l' [Hmaps [Ll [Lp [El Ep]]]]]].
  { rewrite firstn_length. pose proof (perm_len_f _ _ _ Hrm). lia. }
  { rewrite firstn_length. pose proof (perm_len_g _ _ _ Hrm). lia. }
  { change (2 ^ 32) with 4294967296. change (2 ^ 24) with 16777216 in Hh24. lia. }
  rewrite N2Nat.id in Hmaps, El, Ep. rewrite Hmaps. cbn [obind].
  assert (Lln : length l2p' = N.to_nat nh).
  { rewrite Ll, firstn_length. pose proof (perm_len_f _ _ _ Hrm). lia. }
  assert (Lpn : length p2l' = N.to_nat nh).
  { rewrite Lp, firstn_length. pose proof (perm_len_g _ _ _ Hrm). lia. }
  (* unwrap *)
  set (g := fun i : nat => rowk m (eword (s_l2p_row m) (N.of_nat i))).
  rewrite (omapM_unwrap_ok ns g 0).
  2:{ intros i Hi. rewrite <- (Nat2N.id i) at 1. rewrite Hns by lia. reflexivity. }
  cbn [obind]. rewrite Hnsl.
  (* retain *)
  set (R := fun r : svec => if 0 <? ctr' then filter (keep_col m nw) r else r).
  assert (Hret : (if 0 <? ctr'
                  then omapM (sv_retain (fun e : N * N =>
                                obind (vget (s_p2l_col m) (fst e)) (fun c => Ok (c <? u16 nw))))
                             (map g (seq 0 (N.to_nat nh)))
                  else Ok (map g (seq 0 (N.to_nat nh)))) = Ok (map R (map g (seq 0 (N.to_nat nh))))).
  { unfold R. destruct (0 <? ctr'); [|rewrite map_id; reflexivity].
    apply omapM_ok. intros r Hr. apply in_map_iff in Hr. destruct Hr as [i [Er Hi]]. apply in_seq in Hi.
    subst r. unfold g.
    destruct (rowk_ok md m Hinv (eword (s_l2p_row m) (N.of_nat i))) as [Hs Hk];
      [apply (l2p_row_lt md m Hinv); lia|].
    apply sv_retain_spec; [|exact Hs]. intros x Hx. cbn [fst]. rewrite Forall_forall in Hk.
    destruct (Hk x Hx) as [Hxw _]. rewrite (p2l_col_ok md m Hinv x Hxw). cbn [obind].
    unfold u16. rewrite wrap_small by lia. reflexivity. }
  rewrite Hret. cbn [obind]. rewrite map_map.
  set (rows' := map (fun i => R (g i)) (seq 0 (N.to_nat nh))).
  set (m' := mksm nh nw rows' dense' (s_index m) l2p' p2l' (s_l2p_col m) (s_p2l_col m) true
                  (s_valid m) nd').
  assert (Hver : sm_verify md m' = Ok tt).
  { unfold sm_verify. destruct md; reflexivity. }
  rewrite Hver. cbn [obind].
  assert (Hrowk : forall r, r < nh -> rowk m' r = R (rowk m (eword (s_l2p_row m) r))).
  { intros r Hr. unfold rowk, m', rows'. sfields.
    rewrite (nth_indep _ [] (R (g 0%nat))) by (rewrite map_length, seq_length; lia).
    rewrite (map_nth (fun i => R (g i)) (seq 0 (N.to_nat nh)) 0%nat).
    rewrite seq_nth by lia. unfold g. cbn [Nat.add]. rewrite N2Nat.id. reflexivity. }
  assert (Hsfd' : sfd m' = nw - nd') by reflexivity.
  assert (Hmem : forall r x, r < nh -> memN x (rowk m' r) = true ->
            memN x (rowk m (eword (s_l2p_row m) r)) = true /\ x < W0 m /\ eword (s_p2l_col m) x < nw - nd').
  { intros r x Hr Hm. rewrite (Hrowk r Hr) in Hm. pose proof (l2p_row_lt md m Hinv r ltac:(lia)) as Hp.
    unfold R in Hm. destruct (0 <? ctr') eqn:Ec.
    - rewrite memN_filter in Hm. apply andb_true_iff in Hm. destruct Hm as [Hm Hkeep].
      destruct (mem_key_ok md m Hinv _ x Hp Hm) as [Hxw Hxl]. split; [exact Hm|]. split; [exact Hxw|].
      unfold keep_col in Hkeep. apply N.ltb_lt in Ec. rewrite (Pz Ec). lia.
    - destruct (mem_key_ok md m Hinv _ x Hp Hm) as [Hxw Hxl]. split; [exact Hm|]. split; [exact Hxw|].
      apply N.ltb_ge in Ec. lia. }
  assert (Hinv' : sm_inv md m').
  { constructor; unfold m'; sfields.
    - lia.
    - unfold rows'. rewrite map_length, seq_length. reflexivity.
    - split; [lia|]. split; [lia|]. split; intros i Hi.
      + rewrite El. replace (i <? nh) with true by (symmetry; apply N.ltb_lt; exact Hi).
        split; [exact Hi|]. rewrite Ep. replace (i <? nh) with true by (symmetry; apply N.ltb_lt; exact Hi). reflexivity.
      + rewrite Ep. replace (i <? nh) with true by (symmetry; apply N.ltb_lt; exact Hi).
        split; [exact Hi|]. rewrite El. replace (i <? nh) with true by (symmetry; apply N.ltb_lt; exact Hi). reflexivity.
    - exact (inv_colmaps _ _ Hinv).
    - unfold W0. sfields. fold (W0 m). lia.
    - exact Hw0.
    - rewrite Pnd. destruct (nw =? s_width m) eqn:E; [apply N.eqb_eq in E; lia | lia].
    - apply Forall_forall. intros r Hr. apply In_nth with (d := []) in Hr. destruct Hr as [n [Hn Er]].
      unfold rows' in Hn. rewrite map_length, seq_length in Hn.
      assert (Hnn : N.of_nat n < nh) by lia.
      pose proof (Hrowk (N.of_nat n) Hnn) as Hrk. unfold rowk, m' in Hrk. sfields_in Hrk. rewrite Nat2N.id, Er in Hrk.
      pose proof (l2p_row_lt md m Hinv (N.of_nat n) ltac:(lia)) as Hp.
      destruct (rowk_ok md m Hinv _ Hp) as [Hs _].
      unfold row_ok. split.
      + rewrite Hrk. unfold R. destruct (0 <? ctr'); [apply ssorted_filter; exact Hs | exact Hs].
      + apply Forall_forall. intros x Hx. apply memN_In in Hx.
        assert (Hm : memN x (rowk m' (N.of_nat n)) = true).
        { unfold rowk, m'. sfields. rewrite Nat2N.id, Er. exact Hx. }
        destruct (Hmem (N.of_nat n) x Hnn Hm) as [_ [Hxw Hxl]].
        unfold W0. sfields. fold (W0 m). unfold sfd. sfields. split; assumption.
    - exact Pinv.
    - unfold index_inv. sfields. rewrite Hnone. reflexivity.
    - exact (inv_valid _ _ Hinv). }
  exists m'. split; [reflexivity|]. split; [exact Hinv'|].
  split; [reflexivity|]. split; [reflexivity|]. split; [exact Pnd|].
  split; [reflexivity|]. split; [reflexivity|]. split; [reflexivity|]. split; [exact Hnone|]. split; [reflexivity|].
  intros r c Hr Hc. unfold sm_bit. rewrite Hsfd'. change (s_l2p_row m') with l2p'.
  change (s_l2p_col m') with (s_l2p_col m). rewrite El.
  replace (r <? nh) with true by (symmetry; apply N.ltb_lt; exact Hr).
  pose proof (l2p_row_lt md m Hinv r ltac:(lia)) as Hp.
  destruct (c <? nw - nd') eqn:Ec.
  - apply N.ltb_lt in Ec. assert (Ec2 : (c <? sfd m) = true) by (apply N.ltb_lt; lia). rewrite Ec2.
    rewrite (Hrowk r Hr). unfold R. destruct (0 <? ctr'); [|reflexivity].
    rewrite memN_filter. unfold keep_col.
    rewrite (perm_p2l_l2p _ _ _ c (inv_colmaps _ _ Hinv)) by lia.
    replace (c <? nw) with true by (symmetry; apply N.ltb_lt; lia). apply andb_true_r.
  - apply N.ltb_ge in Ec.
    assert (Hnd' : nd' = s_nd m /\ nw = s_width m).
    { rewrite Pnd in *. destruct (nw =? s_width m) eqn:E; [apply N.eqb_eq in E; split; [reflexivity | exact E]|]. lia. }
    destruct Hnd' as [End Enw].
    assert (Ec2 : (c <? sfd m) = false) by (apply N.ltb_ge; unfold sfd; lia). rewrite Ec2.
    unfold sm_dbit at 1. change (s_dense m') with dense'. change (sm_rww m') with (ceil_div nd' 64).
    change (sm_lpb m') with ((64 - nd' mod 64) mod 64).
    rewrite Pbit by lia. f_equal. unfold sfd. lia.
Qed.

(* ---------------- refinement ---------------- *)

Lemma ssim_resize md m st nh nw : srefines md m st -> adm_sparse st (OResize nh nw) = true ->
  exists m', sm_resize md m nh nw = Ok m' /\ srefines md m' (fst (ss_step st (OResize nh nw))).
Proof.
  intros Hr Hadm. pose proof (fd_N md m st Hr) as Hfd. pose proof (ref_inv _ _ _ Hr) as Hinv.
  pose proof (ref_h md m _ Hr) as Hh. pose proof (ref_w md m _ Hr) as Hw.
  pose proof (ref_idx md m _ Hr) as Hidx. pose proof (ref_stale_len md m _ Hr) as Hsl.
  pose proof (ref_nd md m _ Hr) as Hgnd. pose proof (ref_w0 md m _ Hr) as Hgw0.
  pose proof (ref_valid md m _ Hr) as Hval. pose proof (ref_cells md m _ Hr) as Hcells.
  unfold adm_sparse in Hadm. destruct st as [a g]. rewrite Hfd in Hadm. cbn [fst snd] in *.
  apply andb_true_iff in Hadm. destruct Hadm as [Ha Hs]. cbn [adm] in Ha. rewrite Hh, Hw, !N2Nat.id in Ha. rewrite Hw, !N2Nat.id in Hs.
  bsplit Ha. bsplit Hs. rewrite Hidx in Hs. apply negb_true_iff in Hs. apply negb_false_iff in Hs.
  destruct (sm_resize_ok md m nh nw Hinv Hs) as
    [m' [Hrs [Hinv' [Fh [Fw [Fnd [Flc [Fpc [Fdis [Fix [Fval Hbit]]]]]]]]]]]; try lia.
  exists m'. split; [exact Hrs|].
  unfold ss_step. cbn [fst snd bm_step sg_step]. unfold bm_resize.
  constructor; cbn [fst snd bm_make bh bw g_nd g_w0 g_indexed g_stale]; try congruence.
  - rewrite Fnd, Hw, N2Nat.id. destruct (nw =? s_width m); [exact Hgnd | reflexivity].
  - intros E. rewrite Fval. apply Hval. exact E.
  - intros i j Hi Hj Hd. rewrite bm_make_def in Hd by assumption. rewrite bm_make_get by assumption.
    unfold sm_bitn. rewrite Hbit by lia. apply Hcells; try assumption; lia.
Qed.
