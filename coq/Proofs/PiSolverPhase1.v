(* PS_invariant: the state invariant of the first phase (section 5.4.2.2, Figure 6) and its
   preservation by one iteration of the loop of `first_phase`, for both build variants.
     G s   the logical matrix denoted by the recorded operations (Proofs/PiSolverG.v)
     - G has the identity block I (rows, columns < i), zeros right of it up to column W-u, zeros
       below it;
     - the stored cells (rows of A, the HDPC rows) agree with G on the columns >= i -- this is the
       `agree` relation: mode Release stops maintaining the cells left of i (errata 11), and nothing
       reads them again;
     - the rows of A are binary;
     - the selection statistics are exact for V (st_inv). *)
From Coq Require Import NArith List Bool Lia Arith.
From RQ Require Import Base.Outcome Base.Ints Base.ListX Model.Octet Model.CMatrix Model.Slab
  Spec.Linear Proofs.OutcomeLemmas Proofs.OctetProofs Proofs.LinearProofs Model.PiSolver
  Proofs.PiSolverBase Proofs.PiSolverStruct Proofs.PiSolverOps Proofs.PiSolverG Proofs.PiSolverInvDefs
  Proofs.PiSolverStats Proofs.PiSolverHist Proofs.PiSolverSwapCols Proofs.PiSolverCells.
Import ListNotations.
Open Scope N_scope.

Section P1.
Variable A0 : list (list N).
Variable M W Hn : N.
Hypothesis A0_wf : wf_mat (N.to_nat W) A0.
Hypothesis A0_len : lenN A0 = M.
Hypothesis W16 : W < 65536.
Hypothesis HM : Hn <= M.
Hypothesis M32 : M < 4294967296.
Local Notation G := (G A0).

Record fp_inv (s : pstate) (st : stats) : Prop := mkFP {
  fi_lite : lite M s;
  fi_dims : dims (ps_A s) M W;
  fi_bin : bin_mat (ps_A s);
  fi_hlen : lenN (hd_rows s) = Hn;
  fi_hrows : Forall (fun r => lenN r = W) (hd_rows s);
  fi_W : ps_W s = W;
  fi_L : ps_L s = W;
  fi_c : permN W (ps_c s);
  fi_iu : ps_i s + ps_u s <= W;
  fi_iH : ps_i s + Hn <= M;
  fi_agreeA : forall k j, k + Hn < M -> ps_i s <= j < W -> cell (ps_A s) k j = G s k j;
  fi_agreeH : forall k j, k < Hn -> ps_i s <= j < W -> cell (hd_rows s) k j = G s (M - Hn + k) j;
  fi_I : forall k j, k < ps_i s -> j < ps_i s -> G s k j = if k =? j then 1 else 0;
  fi_Z : forall k j, k < ps_i s -> ps_i s <= j < W - ps_u s -> G s k j = 0;
  fi_zero : forall k j, ps_i s <= k < M -> j < ps_i s -> G s k j = 0;
  fi_st : st_inv (ps_A s) st (ps_i s) (M - Hn) (ps_i s) (W - ps_u s) }.

Lemma fp_height s st : fp_inv s st -> ps_height s = M.
Proof. intros I. unfold ps_height. apply (fi_dims _ _ I). Qed.

(* ---- a state that differs only in X ---- *)
Lemma fp_inv_frame s s' st : fp_inv s st ->
  ps_A s' = ps_A s -> ps_hd s' = ps_hd s -> ps_d s' = ps_d s -> ps_c s' = ps_c s -> ps_W s' = ps_W s ->
  ps_i s' = ps_i s -> ps_u s' = ps_u s -> ps_L s' = ps_L s -> ps_ops s' = ps_ops s -> fp_inv s' st.
Proof.
  intros I EA Eh Ed Ec EW Ei Eu EL Eo.
  assert (Gs : forall k j, G s' k j = G s k j) by (apply G_frame; assumption).
  assert (Ehr : hd_rows s' = hd_rows s) by (unfold hd_rows; rewrite Eh; reflexivity).
  destruct I. constructor; rewrite ?EA, ?Ehr, ?EW, ?EL, ?Ec, ?Ei, ?Eu; try assumption.
  - destruct fi_lite0. constructor; rewrite ?EA, ?Eh, ?Ed, ?Eo; assumption.
  - intros k j Hk Hj. rewrite Gs. apply fi_agreeA0; assumption.
  - intros k j Hk Hj. rewrite Gs. apply fi_agreeH0; assumption.
  - intros k j Hk Hj. rewrite Gs. apply fi_I0; assumption.
  - intros k j Hk Hj. rewrite Gs. apply fi_Z0; assumption.
  - intros k j Hk Hj. rewrite Gs. apply fi_zero0; assumption.
Qed.

Lemma fp_inv_onX m s f s' st : fp_inv s st -> onX m s f = Ok s' -> fp_inv s' st.
Proof.
  intros I H. destruct (onX_frame _ _ _ _ H) as (EA & Eh & Ed & Ec & EW & Ei & Eu & EL & Eo).
  eapply fp_inv_frame; eassumption.
Qed.

(* ---- exchanging row i with a row of V ---- *)
Lemma fp_inv_swap_rows m s st ch s1 st1 : fp_inv s st -> ps_i s <= ch ->
  ps_swap_rows m s (ps_i s) ch = Ok s1 -> st_swap_rows st (ps_i s) ch = Ok st1 ->
  fp_inv s1 st1 /\ ch + Hn < M /\ ps_i s1 = ps_i s /\ ps_u s1 = ps_u s /\
  nth (N.to_nat (ps_i s)) (st_opr st1) 0 = nth (N.to_nat ch) (st_opr st) 0.
Proof.
  intros I Hch Esw Est.
  destruct (ps_swap_rows_frame _ _ _ _ _ Esw) as (EA & Ed & Eh & Ec & EW & Ei & Eu & EL & Eo & Hb).
  destruct (bm_swap_rows_spec _ _ _ _ _ _ (fi_dims _ _ I) EA) as (D1 & Li & Lch & Hrows).
  assert (Hch2 : ch + Hn < M).
  { destruct (ps_hd s) as [h|] eqn:Ehd.
    - specialize (Hb h eq_refl). pose proof (fi_hlen _ _ I) as Hl. unfold hd_rows in Hl. rewrite Ehd in Hl.
      rewrite (fp_height _ _ I) in Hb. rewrite Hl in Hb. apply Hb. exact HM.
    - pose proof (fi_hlen _ _ I) as Hl. unfold hd_rows in Hl. rewrite Ehd in Hl. cbn in Hl. lia. }
  assert (Hi2 : ps_i s + Hn < M) by lia.
  assert (Gs : forall k j, G s1 k j = G s (trN (ps_i s) ch k) j) by (apply (G_swap_rows A0 m), Esw).
  assert (Ehr : hd_rows s1 = hd_rows s) by (unfold hd_rows; rewrite Eh; reflexivity).
  assert (Cs : forall k j, cell (ps_A s1) k j = cell (ps_A s) (trN (ps_i s) ch k) j).
  { intros k j. unfold cell. rewrite Hrows. reflexivity. }
  split; [|split; [exact Hch2 | split; [exact Ei | split; [exact Eu|]]]].
  - constructor; rewrite ?Ehr, ?EW, ?EL, ?Ec, ?Ei, ?Eu; try apply I; try assumption.
    + eapply lite_ps_swap_rows; [apply I | exact Esw].
    + unfold bm_swap_rows in EA. eapply Forall_swapN; [apply (fi_bin _ _ I) | exact EA].
    + intros k j Hk Hj. rewrite Cs, Gs. apply (fi_agreeA _ _ I); [|exact Hj].
      unfold trN. destruct (k =? ps_i s); [lia|]. destruct (k =? ch); lia.
    + intros k j Hk Hj. rewrite Gs. rewrite trN_other by lia. apply (fi_agreeH _ _ I); assumption.
    + intros k j Hk Hj. rewrite Gs. rewrite trN_other by lia. apply (fi_I _ _ I); assumption.
    + intros k j Hk Hj. rewrite Gs. rewrite trN_other by lia. apply (fi_Z _ _ I); assumption.
    + intros k j Hk Hj. rewrite Gs. apply (fi_zero _ _ I); [|exact Hj].
      apply (trN_range (ps_i s) ch k (ps_i s) M); lia.
    + unfold bm_swap_rows in EA. eapply st_swap_rows_spec; [apply (fi_st _ _ I) | | | exact Est | exact EA].
      * lia.
      * destruct (fi_dims _ _ I) as [Hl _]. lia.
  - unfold st_swap_rows in Est. omon Est. inversion Est; subst st1. cbn [st_opr].
    rewrite (swapN_cell _ _ _ _ 0 (ps_i s) E). rewrite trN_l. reflexivity.
Qed.

(* ---- exchanging two columns of V ---- *)
Lemma fp_inv_swap_cols_all m s st a b s' st' : fp_inv s st ->
  ps_i s <= a < W - ps_u s -> ps_i s <= b < W - ps_u s ->
  swap_cols_all m s st a b = Ok (s', st') ->
  fp_inv s' st' /\ ps_i s' = ps_i s /\ ps_u s' = ps_u s.
Proof.
  intros I Ha Hb H. destruct (swap_cols_all_inv _ _ _ _ _ _ _ H) as (s1 & Esw & Est & EX).
  destruct (ps_swap_cols_frame _ _ _ _ _ Esw) as (EA & Ehd & Ec & Ed & EW & Ei & Eu & EL & Eo).
  destruct (onX_frame _ _ _ _ EX) as (EA' & Eh' & Ed' & Ec' & EW' & Ei' & Eu' & EL' & Eo').
  split; [|split; congruence].
  eapply (fp_inv_onX m s1); [|exact EX].
  pose proof (fi_iu _ _ I) as Hiu.
  destruct (bm_swap_cols_spec _ _ _ _ _ _ _ (fi_dims _ _ I) EA) as [D1 Cs].
  assert (Gs : forall k j, G s1 k j = G s k (trN a b j)) by (intros k j; eapply (G_swap_cols A0); exact Esw).
  assert (HH : lenN (hd_rows s1) = Hn /\ Forall (fun r => lenN r = W) (hd_rows s1) /\
               forall k j, k < Hn -> cell (hd_rows s1) k j = cell (hd_rows s) k (trN a b j)).
  { pose proof (fi_hlen _ _ I) as Hl. pose proof (fi_hrows _ _ I) as Hr. unfold hd_rows in *.
    destruct (ps_hd s) as [h|].
    - destruct Ehd as [h' [Eh1 Eh2]]. rewrite Eh2.
      destruct (bm_swap_cols_spec h Hn W a b 0 h' (conj Hl Hr) Eh1) as [[D2 D3] C2].
      split; [exact D2|]. split; [exact D3|]. intros k j Hk. rewrite (C2 k j Hk). destruct (N.leb_spec 0 k); [reflexivity | lia].
    - rewrite Ehd. cbn in Hl. split; [exact Hl|]. split; [constructor|]. intros k j Hk. lia. }
  destruct HH as (HH1 & HH2 & HH3).
  constructor; rewrite ?EW, ?EL, ?Ei, ?Eu; try apply I; try assumption.
  - eapply lite_ps_swap_cols; [apply I | exact Esw].
  - eapply bm_swap_cols_bin; [apply (fi_bin _ _ I) | exact EA].
  - eapply permN_swap; [apply (fi_c _ _ I) | exact Ec].
  - intros k j Hk Hj. rewrite Gs. rewrite Cs by lia.
    destruct (N.leb_spec (ps_i s) k) as [Hik|Hik].
    + apply (fi_agreeA _ _ I); [exact Hk|]. apply (trN_range a b j (ps_i s) W); lia.
    + rewrite (fi_agreeA _ _ I) by assumption.
      unfold trN. destruct (N.eqb_spec j a) as [->|Hja].
      * rewrite !(fi_Z _ _ I) by lia. reflexivity.
      * destruct (N.eqb_spec j b) as [->|Hjb]; [|reflexivity]. rewrite !(fi_Z _ _ I) by lia. reflexivity.
  - intros k j Hk Hj. rewrite Gs, HH3 by exact Hk. apply (fi_agreeH _ _ I); [exact Hk|].
    apply (trN_range a b j (ps_i s) W); lia.
  - intros k j Hk Hj. rewrite Gs. rewrite trN_other by lia. apply (fi_I _ _ I); assumption.
  - intros k j Hk Hj. rewrite Gs. apply (fi_Z _ _ I); [exact Hk|].
    apply (trN_range a b j (ps_i s) (W - ps_u s)); lia.
  - intros k j Hk Hj. rewrite Gs. rewrite trN_other by lia. apply (fi_zero _ _ I); assumption.
  - eapply st_swap_cols_spec; [apply (fi_st _ _ I) | exact Ha | exact Hb | | exact Est | exact EA]. lia.
Qed.

Lemma fp_inv_swaps_all m sw : forall s st s' st', fp_inv s st ->
  Forall (fun p => (ps_i s <= fst p < W - ps_u s) /\ (ps_i s <= snd p < W - ps_u s)) sw ->
  swaps_all m s st sw = Ok (s', st') ->
  fp_inv s' st' /\ ps_i s' = ps_i s /\ ps_u s' = ps_u s.
Proof.
  induction sw as [|[a b] t IH]; intros s st s' st' I F H; cbn [swaps_all] in H.
  - inversion H; subst. auto.
  - destruct (swap_cols_all m s st a b) as [[s1 st1]|] eqn:E1; [|discriminate].
    inversion F as [|x l [Ha Hb] Ft]; subst. cbn [fst snd] in *.
    destruct (fp_inv_swap_cols_all _ _ _ _ _ _ _ I Ha Hb E1) as (I1 & Ei & Eu).
    destruct (IH s1 st1 s' st' I1) as (I2 & Ei2 & Eu2); [rewrite Ei, Eu; exact Ft | exact H |].
    split; [exact I2|]. split; congruence.
Qed.


(* ---- eliminating column i from the non-HDPC rows below the pivot ---- *)

Definition inb (k : N) (l : list N) : bool := existsb (N.eqb k) l.

Lemma inb_true k l : inb k l = true <-> In k l.
Proof.
  unfold inb. rewrite existsb_exists. split.
  - intros [x [Hx E]]. apply N.eqb_eq in E. subst. exact Hx.
  - intros Hin. exists k. split; [exact Hin | apply N.eqb_refl].
Qed.

Lemma inb_app k l1 l2 : inb k (l1 ++ l2) = inb k l1 || inb k l2.
Proof. unfold inb. apply existsb_app. Qed.

Lemma cnt_ext r r' s e : lenN r = lenN r' ->
  (forall j, s <= j < e -> nth (N.to_nat j) r 0 = nth (N.to_nat j) r' 0) -> cnt r s e = cnt r' s e.
Proof.
  intros Hl Hc. unfold cnt. f_equal. unfold subl.
  apply (nth_ext _ _ 0 0).
  - rewrite !firstn_length, !skipn_length. unfold lenN in Hl. lia.
  - intros t Ht. rewrite firstn_length, skipn_length in Ht.
    rewrite !nth_firstn_lt by lia. rewrite !nth_skipn'.
    specialize (Hc (s + N.of_nat t)). replace (N.to_nat (s + N.of_nat t)) with (N.to_nat s + t)%nat in Hc by lia.
    apply Hc. lia.
Qed.

Lemma filter_len_le {A} (f : A -> bool) l : (length (filter f l) <= length l)%nat.
Proof. induction l as [|x l IH]; cbn; [lia|]. destruct (f x); cbn; lia. Qed.

Lemma cnt_le r s e : cnt r s e <= e - s.
Proof.
  unfold cnt, count1, lenN. pose proof (filter_len_le (fun v => v =? 1) (subl r s e)) as H1.
  unfold subl in *. rewrite firstn_length in H1. lia.
Qed.

(* the state while the rows of pivot_column_ones are processed; b = the state after the column
   exchanges, done = the rows already processed *)
Record el_inv (b : pstate) (ec : N) (done : list N) (s : pstate) (st : stats) : Prop := mkEL {
  ei_lite : lite M s;
  ei_dims : dims (ps_A s) M W;
  ei_bin : bin_mat (ps_A s);
  ei_hd : ps_hd s = ps_hd b;
  ei_d : ps_d s = ps_d b;
  ei_c : ps_c s = ps_c b;
  ei_W : ps_W s = ps_W b;
  ei_i : ps_i s = ps_i b;
  ei_u : ps_u s = ps_u b;
  ei_L : ps_L s = ps_L b;
  ei_G : forall k j, k < M ->
           G s k j = if inb k done then N.lxor (G b k j) (G b (ps_i b) j) else G b k j;
  ei_rows : forall k, ~ In k done -> rowN (ps_A s) k = rowN (ps_A b) k;
  ei_agree : forall k j, k + Hn < M -> ps_i b + 1 <= j < W -> cell (ps_A s) k j = G s k j;
  ei_st : st_inv (ps_A s) st (ps_i b + 1) (M - Hn) (ps_i b + 1) ec }.

Lemma el_step m r tv b stb ec done s st rops row s' st' rops' :
  fp_inv b stb -> ps_i b + Hn < M ->
  1 <= r -> ec = W - ps_u b - (r - 1) -> ps_i b + 1 <= ec -> ps_u b + (r - 1) <= W ->
  (forall j, ps_i b < j < ec -> cell (ps_A b) (ps_i b) j = 0) ->
  ~ In row done -> ps_i b < row -> row + Hn < M -> ~ In (ps_i b) done ->
  el_inv b ec done s st ->
  eliminate_row m r (ps_i b) tv row (s, st, rops) = Ok (s', st', rops') ->
  el_inv b ec (done ++ [row]) s' st'.
Proof.
  intros Ib HiM Hr Hec Hec1 Hur Hshape Hnd Hirow HrowM Hind E H.
  unfold eliminate_row in H. omon H.
  (* the start column *)
  assert (Hsc : a = 0 \/ a = ec).
  { destruct m; [right|left; inversion E0; reflexivity]. omon E0.
    match goal with X : usub Release r 1 = Ok ?v |- _ => apply usub_inv in X; [|exact Hr]; subst v end.
    rewrite (ei_W _ _ _ _ _ E), (fi_W _ _ Ib), (ei_u _ _ _ _ _ E) in E0.
    apply usub_inv in E0; [|exact Hur]. lia. }
  destruct (fma_rows_inv _ _ _ _ _ _ E1) as (s1 & A' & Erec & Eadd & Es' & _).
  assert (HscW : a <= W) by (destruct Hsc; subst; lia).
  destruct (bm_add_rows_spec _ _ _ _ _ _ _ (ei_dims _ _ _ _ _ E) HscW Eadd) as (D' & Hne & Lrow & Li & Hother & Hcells).
  destruct (record_fma_frame _ _ _ _ _ Erec) as (EA1 & Eh1 & Ed1 & Ec1 & EW1 & Ei1 & Eu1 & EL1 & _).
  pose proof (ei_lite _ _ _ _ _ E) as Ls.
  assert (L1 : lite M s1) by (eapply lite_record_fma; [exact Ls | exact Erec | reflexivity | congruence]).
  assert (G1 : forall k j, k < M -> G s1 k j = if k =? row then N.lxor (G s row j) (G s (ps_i b) j) else G s k j).
  { intros k j Hk. rewrite (G_record_fma A0 M W A0_wf A0_len s (ps_i b) row 1 s1 Ls Erec) by (try reflexivity; try lia; congruence).
    destruct (k =? row); [|reflexivity]. rewrite mulN_1_l; [reflexivity | apply (G_byte A0 M W A0_wf A0_len), Ls]. }
  assert (Bin' : bin_mat A') by (eapply bm_add_rows_bin; [apply (ei_bin _ _ _ _ _ E) | exact Eadd]).
  assert (Hrowi : forall j, cell (ps_A s) (ps_i b) j = cell (ps_A b) (ps_i b) j).
  { intros j. unfold cell. rewrite (ei_rows _ _ _ _ _ E) by exact Hind. reflexivity. }
  assert (Hrowb : forall j, ps_i b <= j < W -> cell (ps_A b) (ps_i b) j = G b (ps_i b) j).
  { intros j Hj. apply (fi_agreeA _ _ Ib); [exact HiM | exact Hj]. }
  assert (Gdone : forall k j, k < M -> ~ In k done -> G s k j = G b k j).
  { intros k j Hk Hn'. rewrite (ei_G _ _ _ _ _ E) by exact Hk.
    destruct (inb k done) eqn:Eb; [apply inb_true in Eb; contradiction | reflexivity]. }
  assert (Mrow : row < M) by lia. assert (Mi : ps_i b < M) by lia.
  (* the invariant without the statistics *)
  assert (K : forall st0, st_inv A' st0 (ps_i b + 1) (M - Hn) (ps_i b + 1) ec ->
              el_inv b ec (done ++ [row]) a0 st0).
  { intros st0 Hst0. subst a0. constructor; cbn [set_A ps_A ps_hd ps_d ps_c ps_W ps_i ps_u ps_L ps_ops];
      rewrite ?Eh1, ?Ed1, ?Ec1, ?EW1, ?Ei1, ?Eu1, ?EL1; try apply E; try assumption.
    - apply lite_set_A; [exact L1|]. destruct (bytes_bm_add_rows _ _ _ _ _ (lt_A _ _ Ls) Eadd). assumption.
    - intros k j Hk.
      replace (G (set_A s1 A') k j) with (G s1 k j) by (symmetry; apply G_frame; reflexivity).
      rewrite G1 by exact Hk. rewrite inb_app. cbn [inb existsb]. rewrite orb_false_r.
      destruct (N.eqb_spec k row) as [->|Hkr].
      + rewrite orb_true_r. rewrite !Gdone by assumption. reflexivity.
      + rewrite orb_false_r. apply (ei_G _ _ _ _ _ E). exact Hk.
    - intros k Hk. rewrite Hother; [apply (ei_rows _ _ _ _ _ E)|]; intros X; apply Hk; apply in_or_app; [left; exact X | right; left; auto].
    - intros k j Hk Hj.
      replace (G (set_A s1 A') k j) with (G s1 k j) by (symmetry; apply G_frame; reflexivity).
      rewrite G1 by lia. destruct (N.eqb_spec k row) as [->|Hkr].
      + rewrite Hcells. rewrite (ei_agree _ _ _ _ _ E) by assumption.
        rewrite (Gdone (ps_i b)) by assumption. rewrite Hrowi.
        destruct (N.leb_spec a j) as [Haj|Haj].
        * rewrite Hrowb by lia. reflexivity.
        * destruct Hsc as [->| ->]; [lia|]. rewrite <- Hrowb by lia. rewrite Hshape by lia.
          rewrite N.lxor_0_r. reflexivity.
      + unfold cell. rewrite Hother by auto. apply (ei_agree _ _ _ _ _ E); assumption. }
  destruct (r =? 1) eqn:Er1.
  - inversion H; subst. apply K.
    apply (st_inv_ext st' (ps_A s)); [apply (ei_st _ _ _ _ _ E) | destruct D' as [X _]; destruct (ei_dims _ _ _ _ _ E) as [Y _]; lia|].
    intros k Hk. destruct (N.eq_dec k row) as [->|Hkr]; [|rewrite Hother by auto; reflexivity].
    apply cnt_ext.
    + rewrite (dims_row _ _ _ _ D') by lia. rewrite (dims_row _ _ _ _ (ei_dims _ _ _ _ _ E)) by lia. reflexivity.
    + intros j Hj. fold (cell A' row j). fold (cell (ps_A s) row j). rewrite Hcells.
      destruct (a <=? j); [|reflexivity]. rewrite Hrowi, Hshape by lia. apply N.lxor_0_r.
  - omon H. inversion H; subst. apply K.
    eapply (st_recompute_row_spec m st (ps_A s) A' _ _ _ _ row); [apply (ei_st _ _ _ _ _ E) | lia | lia | | | eassumption].
    + destruct D' as [X _]; destruct (ei_dims _ _ _ _ _ E) as [Y _]; lia.
    + intros k Hk. apply Hother. exact Hk.
Qed.


Lemma el_loop m r tv b stb ec : forall pco done s st rops s' st' rops',
  fp_inv b stb -> ps_i b + Hn < M ->
  1 <= r -> ec = W - ps_u b - (r - 1) -> ps_i b + 1 <= ec -> ps_u b + (r - 1) <= W ->
  (forall j, ps_i b < j < ec -> cell (ps_A b) (ps_i b) j = 0) ->
  NoDup (done ++ pco) -> (forall x, In x (done ++ pco) -> ps_i b < x /\ x + Hn < M) ->
  el_inv b ec done s st ->
  ofold (eliminate_row m r (ps_i b) tv) pco (s, st, rops) = Ok (s', st', rops') ->
  el_inv b ec (done ++ pco) s' st'.
Proof.
  induction pco as [|row t IH]; intros done s st rops s' st' rops' Ib HiM Hr Hec Hec1 Hur Hshape ND Hrange E H.
  - cbn in H. inversion H; subst. rewrite app_nil_r. exact E.
  - apply ofold_cons_inv in H. destruct H as [[[s1 st1] rops1] [E1 E2]].
    assert (Hrow : ps_i b < row /\ row + Hn < M) by (apply Hrange; apply in_or_app; right; left; reflexivity).
    assert (Hnd : ~ In row done).
    { intros X. apply NoDup_remove_2 in ND. apply ND. apply in_or_app. left. exact X. }
    assert (Hind : ~ In (ps_i b) done).
    { intros X. assert (Y : ps_i b < ps_i b) by (apply Hrange; apply in_or_app; left; exact X). lia. }
    pose proof (el_step _ _ _ _ _ _ _ _ _ _ _ _ _ _ Ib HiM Hr Hec Hec1 Hur Hshape Hnd (proj1 Hrow) (proj2 Hrow) Hind E E1) as E'.
    replace (done ++ row :: t) with ((done ++ [row]) ++ t) by (rewrite <- app_assoc; reflexivity).
    eapply IH; try eassumption.
    + rewrite <- app_assoc. exact ND.
    + intros x Hx. apply Hrange. rewrite <- app_assoc in Hx. exact Hx.
Qed.

(* the histogram stays exact while the rows of pivot_column_ones are processed *)
Lemma el_step_hist m r tv b stb ec done s st rops row s' st' rops' :
  fp_inv b stb -> ps_i b + Hn < M ->
  1 <= r -> ec = W - ps_u b - (r - 1) -> ps_i b + 1 <= ec -> ps_u b + (r - 1) <= W ->
  (forall j, ps_i b < j < ec -> cell (ps_A b) (ps_i b) j = 0) ->
  ~ In row done -> ps_i b < row -> row + Hn < M -> ~ In (ps_i b) done ->
  el_inv b ec done s st ->
  eliminate_row m r (ps_i b) tv row (s, st, rops) = Ok (s', st', rops') ->
  hist_ok st -> hist_ok st'.
Proof.
  intros Ib HiM Hr Hec Hec1 Hur Hshape Hnd Hirow HrowM Hind E H Hh.
  pose proof (el_step _ _ _ _ _ _ _ _ _ _ _ _ _ _ Ib HiM Hr Hec Hec1 Hur Hshape Hnd Hirow HrowM Hind E H) as E'.
  unfold eliminate_row in H. omon H. destruct (r =? 1); [inversion H; subst; exact Hh|]. omon H. inversion H; subst.
  destruct (ei_dims _ _ _ _ _ E) as [LA _]. destruct (ei_dims _ _ _ _ _ E') as [LA' _].
  match goal with X : st_recompute_row _ _ _ _ = Ok _ |- _ =>
    eapply (hist_recompute m st (ps_A s) _ (ps_i b + 1) (M - Hn) (ps_i b + 1) _ row st' Hh); [| apply (ei_st _ _ _ _ _ E) | | | | | exact X] end; lia.
Qed.

Lemma el_loop_hist m r tv b stb ec : forall pco done s st rops s' st' rops',
  fp_inv b stb -> ps_i b + Hn < M ->
  1 <= r -> ec = W - ps_u b - (r - 1) -> ps_i b + 1 <= ec -> ps_u b + (r - 1) <= W ->
  (forall j, ps_i b < j < ec -> cell (ps_A b) (ps_i b) j = 0) ->
  NoDup (done ++ pco) -> (forall x, In x (done ++ pco) -> ps_i b < x /\ x + Hn < M) ->
  el_inv b ec done s st ->
  ofold (eliminate_row m r (ps_i b) tv) pco (s, st, rops) = Ok (s', st', rops') ->
  hist_ok st -> hist_ok st'.
Proof.
  induction pco as [|row t IH]; intros done s st rops s' st' rops' Ib HiM Hr Hec Hec1 Hur Hshape ND Hrange E H Hh.
  - cbn in H. inversion H; subst. exact Hh.
  - apply ofold_cons_inv in H. destruct H as [[[s1 st1] rops1] [E1 E2]].
    assert (Hrow : ps_i b < row /\ row + Hn < M) by (apply Hrange; apply in_or_app; right; left; reflexivity).
    assert (Hnd : ~ In row done).
    { intros X. apply NoDup_remove_2 in ND. apply ND. apply in_or_app. left. exact X. }
    assert (Hind : ~ In (ps_i b) done).
    { intros X. assert (Y : ps_i b < ps_i b) by (apply Hrange; apply in_or_app; left; exact X). lia. }
    pose proof (el_step _ _ _ _ _ _ _ _ _ _ _ _ _ _ Ib HiM Hr Hec Hec1 Hur Hshape Hnd (proj1 Hrow) (proj2 Hrow) Hind E E1) as E'.
    pose proof (el_step_hist _ _ _ _ _ _ _ _ _ _ _ _ _ _ Ib HiM Hr Hec Hec1 Hur Hshape Hnd (proj1 Hrow) (proj2 Hrow) Hind E E1 Hh) as Hh'.
    eapply (IH (done ++ [row])); try eassumption.
    + rewrite <- app_assoc. exact ND.
    + intros x Hx. apply Hrange. rewrite <- app_assoc in Hx. exact Hx.
Qed.

(* every column of V has a one in a non-HDPC row >= i *)
Definition cover_s (s : pstate) : Prop :=
  forall j, ps_i s <= j < W - ps_u s -> exists k, (ps_i s <= k /\ k + Hn < M) /\ cell (ps_A s) k j = 1.

Lemma cover_swap_cols_all m s st a b s' st' : fp_inv s st ->
  ps_i s <= a < W - ps_u s -> ps_i s <= b < W - ps_u s ->
  swap_cols_all m s st a b = Ok (s', st') -> cover_s s -> cover_s s'.
Proof.
  intros I Ha Hb H C. destruct (fp_inv_swap_cols_all _ _ _ _ _ _ _ I Ha Hb H) as (_ & Ei & Eu).
  destruct (swap_cols_all_inv _ _ _ _ _ _ _ H) as (s1 & Esw & Est & EX).
  destruct (ps_swap_cols_frame _ _ _ _ _ Esw) as (EA & _).
  destruct (onX_frame _ _ _ _ EX) as (EA' & _).
  destruct (bm_swap_cols_spec _ _ _ _ _ _ _ (fi_dims _ _ I) EA) as [_ Cs].
  intros j Hj. rewrite Ei, Eu in Hj.
  destruct (C (trN a b j)) as (k & Hk & Hc); [apply (trN_range a b j (ps_i s) (W - ps_u s)); lia|].
  exists k. rewrite Ei. split; [exact Hk|]. rewrite EA', Cs by lia.
  destruct (N.leb_spec (ps_i s) k); [exact Hc | lia].
Qed.

Lemma cover_swaps_all m sw : forall s st s' st', fp_inv s st ->
  Forall (fun p => (ps_i s <= fst p < W - ps_u s) /\ (ps_i s <= snd p < W - ps_u s)) sw ->
  swaps_all m s st sw = Ok (s', st') -> (cover_s s -> cover_s s') /\ (hist_ok st -> hist_ok st').
Proof.
  induction sw as [|[a b] t IH]; intros s st s' st' I F H; cbn [swaps_all] in H.
  - inversion H; subst. auto.
  - destruct (swap_cols_all m s st a b) as [[s1 st1]|] eqn:E1; [|discriminate].
    inversion F as [|x l [Ha Hb] Ft]; subst. cbn [fst snd] in *.
    destruct (fp_inv_swap_cols_all _ _ _ _ _ _ _ I Ha Hb E1) as (I1 & Ei & Eu).
    destruct (IH s1 st1 s' st' I1) as (C2 & H2); [rewrite Ei, Eu; exact Ft | exact H |].
    split.
    + intros C. apply C2. exact (cover_swap_cols_all _ _ _ _ _ _ _ I Ha Hb E1 C).
    + intros Hh. apply H2. destruct (swap_cols_all_inv _ _ _ _ _ _ _ E1) as (s2 & _ & Est & _).
      eapply hist_swap_cols; eassumption.
Qed.

(* ---- eliminating column i from the HDPC rows ---- *)

Record hd_inv (b : pstate) (done : list N) (s : pstate) : Prop := mkHD {
  hi_lite : lite M s;
  hi_A : ps_A s = ps_A b;
  hi_d : ps_d s = ps_d b;
  hi_c : ps_c s = ps_c b;
  hi_W : ps_W s = ps_W b;
  hi_i : ps_i s = ps_i b;
  hi_u : ps_u s = ps_u b;
  hi_L : ps_L s = ps_L b;
  hi_hlen : lenN (hd_rows s) = Hn;
  hi_hrows : Forall (fun r => lenN r = W) (hd_rows s);
  hi_G : forall k j, k < M ->
           G s k j = if (M - Hn <=? k) && inb (k - (M - Hn)) done
                     then N.lxor (G b k j) (mulN (G b k (ps_i b)) (G b (ps_i b) j)) else G b k j;
  hi_rows : forall hr, ~ In hr done -> rowN (hd_rows s) hr = rowN (hd_rows b) hr;
  hi_agree : forall hr j, In hr done -> hr < Hn -> ps_i b + 1 <= j < W ->
               cell (hd_rows s) hr j = G s (M - Hn + hr) j }.

Lemma hd_step m tv r b ec pio done s hr s' :
  lite M b -> dims (ps_A b) M W -> ps_W b = W -> ps_i b + Hn < M ->
  tv = 1 -> ec = W - ps_u b - (r - 1) -> ps_i b + 1 <= ec -> ec <= W ->
  pio = skipn (N.to_nat ec) (rowN (ps_A b) (ps_i b)) ->
  (forall j, ps_i b < j < ec -> G b (ps_i b) j = 0) ->
  (forall j, ec <= j < W -> cell (ps_A b) (ps_i b) j = G b (ps_i b) j /\ (G b (ps_i b) j = 0 \/ G b (ps_i b) j = 1)) ->
  (forall x j, x < Hn -> ps_i b <= j < W -> cell (hd_rows b) x j = G b (M - Hn + x) j) ->
  ~ In hr done -> hr < Hn ->
  hd_inv b done s ->
  eliminate_hdpc_row m Hn (ps_i b) tv pio hr s = Ok s' ->
  hd_inv b (done ++ [hr]) s'.
Proof.
  intros Lb Db Wb HiM Htv Hec Hec1 HecW Hpio Hmid Hbits HagH Hnd Hhr E H.
  unfold eliminate_hdpc_row in H.
  pose proof (hi_hlen _ _ _ E) as Hlen. pose proof (hi_hrows _ _ _ E) as Hrws.
  destruct (ps_hd s) as [h|] eqn:Ehd; [|discriminate].
  assert (Ehr : hd_rows s = h) by (unfold hd_rows; rewrite Ehd; reflexivity). rewrite Ehr in *.
  oinvas H as leading El.
  assert (Hlead : leading = G b (M - Hn + hr) (ps_i b)).
  { unfold bm_get in El. omon El. destruct (getN_inv _ _ _ [] E0) as [_ ->]. destruct (getN_inv _ _ _ 0 El) as [_ ->].
    fold (rowN h hr). fold (cell h hr (ps_i b)). unfold cell. rewrite <- Ehr, (hi_rows _ _ _ E) by exact Hnd.
    apply HagH; [exact Hhr | lia]. }
  assert (Gi : forall j, G s (ps_i b) j = G b (ps_i b) j).
  { intros j. rewrite (hi_G _ _ _ E) by lia. destruct (N.leb_spec (M - Hn) (ps_i b)); [lia | reflexivity]. }
  assert (Gk : forall j, G s (M - Hn + hr) j = G b (M - Hn + hr) j).
  { intros j. rewrite (hi_G _ _ _ E) by lia. replace (M - Hn + hr - (M - Hn)) with hr by lia.
    destruct (inb hr done) eqn:Eb; [apply inb_true in Eb; contradiction|]. rewrite andb_false_r. reflexivity. }
  assert (Byte : leading < 256) by (subst leading; apply (G_byte A0 M W A0_wf A0_len), Lb).
  assert (closed : forall s2, (forall k j, k < M -> G s2 k j =
              if k =? M - Hn + hr then N.lxor (G s (M - Hn + hr) j) (mulN leading (G s (ps_i b) j)) else G s k j) ->
            forall k j, k < M ->
            G s2 k j = if (M - Hn <=? k) && inb (k - (M - Hn)) (done ++ [hr])
                       then N.lxor (G b k j) (mulN (G b k (ps_i b)) (G b (ps_i b) j)) else G b k j).
  { intros s2 H2 k j Hk. rewrite H2 by exact Hk. rewrite inb_app. cbn [inb existsb]. rewrite orb_false_r.
    destruct (N.eqb_spec k (M - Hn + hr)) as [->|Hkn].
    - replace (M - Hn + hr - (M - Hn)) with hr by lia. rewrite N.eqb_refl, orb_true_r.
      destruct (N.leb_spec (M - Hn) (M - Hn + hr)); [|lia]. cbn [andb]. rewrite Gk, Gi, Hlead. reflexivity.
    - rewrite (hi_G _ _ _ E) by exact Hk.
      destruct (N.leb_spec (M - Hn) k) as [Hge|Hlt]; [|reflexivity]. cbn [andb].
      destruct (N.eqb_spec (k - (M - Hn)) hr) as [Ex|_]; [lia|]. rewrite orb_false_r. reflexivity. }
  destruct (N.eqb_spec leading 0) as [Hz|Hnz].
  - (* nothing to do: the closed form adds 0 *)
    inversion H; subst s'. destruct E. constructor; try assumption.
    + apply closed. intros k j Hk. destruct (N.eqb_spec k (M - Hn + hr)) as [->|_]; [|reflexivity].
      rewrite Hz. rewrite mulN_0_l, N.lxor_0_r. reflexivity.
    + intros x Hx. apply hi_rows0. intros X. apply Hx. apply in_or_app. left. exact X.
    + intros x j Hx Hxn Hj. apply in_app_or in Hx. destruct Hx as [Hx|[<-|[]]]; [apply hi_agree0; assumption|].
      unfold cell. rewrite hi_rows0 by exact Hnd. fold (cell (hd_rows b) hr j).
      rewrite HagH by (try assumption; lia). symmetry. apply Gk.
  - omon H. destruct (N.eqb_spec tv 0) as [|_]; [discriminate|]. subst tv.
    rewrite divN_1_r in H by exact Byte.
    assert (HM' : ps_height s = M) by (unfold ps_height; rewrite (hi_A _ _ _ E); apply Db).
    rewrite HM' in E1. apply usub_inv in E1; [|exact HM]. subst a0.
    assert (Lpio : lenN pio = W - ec).
    { subst pio. unfold lenN. rewrite skipn_length. pose proof (dims_row _ _ _ (ps_i b) Db) as X. unfold lenN in X. lia. }
    pose proof (lite_fma_rows_with_pi _ _ _ _ _ _ _ _ _ (hi_lite _ _ _ E) Byte H) as Ls'.
    destruct (fma_rows_with_pi_hdpc m s (ps_i b) (hr + (M - Hn)) leading (ps_i b) pio s' h W Ehd) as
      (s1 & h' & Erec & Es' & Hi1 & Hhr1 & Lh' & Rh' & Hoth & Hcells); try assumption; try lia.
    { rewrite (hi_W _ _ _ E). exact Wb. }
    rewrite HM', Hlen in *. replace (hr + (M - Hn) - (M - Hn)) with hr in * by lia.
    destruct (record_fma_frame _ _ _ _ _ Erec) as (EA1 & Eh1 & Ed1 & Ec1 & EW1 & Ei1 & Eu1 & EL1 & _).
    pose proof (hi_lite _ _ _ E) as Ls.
    assert (L1 : lite M s1) by (eapply lite_record_fma; [exact Ls | exact Erec | exact Byte | lia]).
    assert (G1 : forall k j, k < M -> G s1 k j =
              if k =? M - Hn + hr then N.lxor (G s (M - Hn + hr) j) (mulN leading (G s (ps_i b) j)) else G s k j).
    { intros k j Hk. rewrite (G_record_fma A0 M W A0_wf A0_len s (ps_i b) (hr + (M - Hn)) leading s1 Ls Erec Byte) by lia.
      replace (hr + (M - Hn)) with (M - Hn + hr) by lia. reflexivity. }
    assert (G2 : forall k j, G s' k j = G s1 k j) by (subst s'; apply G_frame; reflexivity).
    assert (Ehr' : hd_rows s' = h') by (subst s'; reflexivity).
    subst s'. constructor; cbn [set_hd ps_A ps_hd ps_d ps_c ps_W ps_i ps_u ps_L];
      rewrite ?EA1, ?Ed1, ?Ec1, ?EW1, ?Ei1, ?Eu1, ?EL1; try apply E.
    + exact Ls'.
    + rewrite Ehr'. exact Lh'.
    + rewrite Ehr'. exact Rh'.
    + intros k j Hk. rewrite G2. apply closed; [exact G1 | exact Hk].
    + intros x Hx. rewrite Ehr'. rewrite Hoth; [rewrite <- Ehr; apply (hi_rows _ _ _ E)|];
        intros X; apply Hx; apply in_or_app; [left; exact X | right; left; auto].
    + intros x j Hx Hxn Hj. rewrite Ehr', G2, G1 by lia. apply in_app_or in Hx. destruct Hx as [Hx|[<-|[]]].
      * assert (x <> hr) by (intros ->; contradiction).
        destruct (N.eqb_spec (M - Hn + x) (M - Hn + hr)) as [Ex|_]; [lia|].
        unfold cell. rewrite Hoth by assumption. fold (cell h x j). rewrite <- Ehr. apply (hi_agree _ _ _ E); assumption.
      * rewrite N.eqb_refl. rewrite Hcells by lia. rewrite Gk, Gi.
        assert (Hc0 : cell h hr j = G b (M - Hn + hr) j).
        { unfold cell. rewrite <- Ehr, (hi_rows _ _ _ E) by exact Hnd. apply HagH; [exact Hhr | lia]. }
        rewrite Hc0, Lpio. replace (W - (W - ec)) with ec by lia.
        destruct (N.leb_spec ec j) as [Hej|Hej].
        -- f_equal. subst pio. rewrite nth_skipn'. replace (N.to_nat ec + N.to_nat (j - ec))%nat with (N.to_nat j) by lia.
           fold (cell (ps_A b) (ps_i b) j). destruct (Hbits j) as [Hcj Hb01]; [lia|]. rewrite Hcj.
           destruct Hb01 as [-> | ->]; cbn; [rewrite mulN_0_r; reflexivity | rewrite mulN_1_r by exact Byte; reflexivity].
        -- rewrite Hmid by lia. rewrite mulN_0_r, N.lxor_0_r. reflexivity.
Qed.


Lemma hd_loop m tv r b ec pio : forall l done s s',
  lite M b -> dims (ps_A b) M W -> ps_W b = W -> ps_i b + Hn < M ->
  tv = 1 -> ec = W - ps_u b - (r - 1) -> ps_i b + 1 <= ec -> ec <= W ->
  pio = skipn (N.to_nat ec) (rowN (ps_A b) (ps_i b)) ->
  (forall j, ps_i b < j < ec -> G b (ps_i b) j = 0) ->
  (forall j, ec <= j < W -> cell (ps_A b) (ps_i b) j = G b (ps_i b) j /\ (G b (ps_i b) j = 0 \/ G b (ps_i b) j = 1)) ->
  (forall x j, x < Hn -> ps_i b <= j < W -> cell (hd_rows b) x j = G b (M - Hn + x) j) ->
  NoDup (done ++ l) -> (forall x, In x (done ++ l) -> x < Hn) ->
  hd_inv b done s ->
  ofold (eliminate_hdpc_row m Hn (ps_i b) tv pio) l s = Ok s' ->
  hd_inv b (done ++ l) s'.
Proof.
  induction l as [|hr t IH]; intros done s s' Lb Db Wb HiM Htv Hec Hec1 HecW Hpio Hmid Hbits HagH ND Hr E H.
  - cbn in H. inversion H; subst s'. rewrite app_nil_r. exact E.
  - apply ofold_cons_inv in H. destruct H as [s1 [E1 E2]].
    assert (Hnd : ~ In hr done).
    { intros X. apply NoDup_remove_2 in ND. apply ND. apply in_or_app. left. exact X. }
    assert (Hhr : hr < Hn) by (apply Hr; apply in_or_app; right; left; reflexivity).
    pose proof (hd_step m tv r b ec pio done s hr s1 Lb Db Wb HiM Htv Hec Hec1 HecW Hpio Hmid Hbits HagH Hnd Hhr E E1) as E'.
    replace (done ++ hr :: t) with ((done ++ [hr]) ++ t) by (rewrite <- app_assoc; reflexivity).
    eapply IH; try eassumption.
    + rewrite <- app_assoc. exact ND.
    + intros x Hx. apply Hr. rewrite <- app_assoc in Hx. exact Hx.
Qed.

Lemma bm_get_cell A i j v : bm_get A i j = Ok v -> v = cell A i j.
Proof.
  unfold bm_get. intros H. omon H. destruct (getN_inv _ _ _ [] E) as [_ ->]. destruct (getN_inv _ _ _ 0 H) as [_ ->].
  reflexivity.
Qed.

(* PS_invariant: one iteration of the first phase preserves the invariant *)
Theorem fp_step_inv_pre m s st rops s' st' rops' :
  fp_inv s st -> ps_i s + ps_u s < W ->
  fp_pre_step m s st rops s' st' rops' ->
  fp_inv s' st' /\ ps_i s' = ps_i s + 1 /\ (hist_ok st -> hist_ok st') /\ (cover_s s -> cover_s s').
Proof.
  intros I Hlt H.
  destruct H as (end_row & chosen & r & s1 & s2 & st1 & s3 & st2 & tv & pco & r1 & wu & ec & st3 & s4 & s5 &
    Eer & Esel & Hch & Esw & EX & Est & Esub & Etv & Epco & Er1 & Ewu & Eec & Ers & Eel & Ehd & ->).
  (* end_row *)
  rewrite (fp_height _ _ I), num_hdpc_hd_rows, (fi_hlen _ _ I) in Eer. apply usub_inv in Eer; [|exact HM]. subst end_row.
  (* the selected row *)
  destruct (sel_spec _ _ _ _ _ _ _ _ _ (fi_st _ _ I) ltac:(destruct (fi_dims _ _ I); lia) Esel) as (Hch' & Hopr & Hr).
  destruct (fp_inv_swap_rows _ _ _ _ _ _ I Hch Esw Est) as (I1 & HchM & Ei1 & Eu1 & Hopr1).
  pose proof (fp_inv_onX _ _ _ _ _ I1 EX) as I2.
  destruct (onX_frame _ _ _ _ EX) as (EA2 & Eh2 & Ed2 & Ec2 & EW2 & Ei2 & Eu2 & EL2 & Eo2).
  assert (Ei2' : ps_i s2 = (ps_i s)) by congruence. assert (Eu2' : ps_u s2 = (ps_u s)) by congruence.
  assert (HiM : (ps_i s) + Hn < M) by lia.
  assert (Hcnt : cnt (rowN (ps_A s2) (ps_i s)) (ps_i s) (W - (ps_u s)) = r).
  { pose proof (si_opr _ _ _ _ _ _ (fi_st _ _ I2)) as X. rewrite Ei2', Eu2' in X. rewrite <- X by lia.
    rewrite Hopr1. exact Hopr. }
  assert (Hrle : r <= W - (ps_u s) - (ps_i s)) by (rewrite <- Hcnt; apply cnt_le).
  (* the column exchanges *)
  destruct (substep_spec m s2 st1 r s3 st2) as (sw & Esw2 & Fsw & Hone & Hzeros); try assumption.
  { rewrite (fi_W _ _ I2), Eu2'. lia. }
  { rewrite (fi_W _ _ I2), Eu2', Ei2'. lia. }
  { rewrite Ei2'. rewrite (dims_row _ _ _ _ (fi_dims _ _ I2)) by lia. symmetry. apply (fi_W _ _ I2). }
  { rewrite Ei2'. apply bin_mat_row. apply (fi_bin _ _ I2). }
  { rewrite (fi_W _ _ I2), Eu2', Ei2'. exact Hcnt. }
  rewrite (fi_W _ _ I2), Eu2', Ei2' in *.
  destruct (fp_inv_swaps_all m sw s2 st1 s3 st2 I2) as (I3 & Ei3 & Eu3); [rewrite Ei2', Eu2'; exact Fsw | exact Esw2 |].
  rewrite Ei2' in Ei3. rewrite Eu2' in Eu3.
  (* the pivot *)
  apply bm_get_cell in Etv. rewrite Hone in Etv. subst tv.
  apply usub_inv in Er1; [|exact Hr]. subst r1.
  rewrite (fi_W _ _ I3), Eu3 in Ewu. apply usub_inv in Ewu; [|pose proof (fi_iu _ _ I); lia]. subst wu.
  apply usub_inv in Eec; [|lia]. subst ec. set (ec := W - (ps_u s) - (r - 1)) in *.
  rewrite Ei3 in *.
  destruct (bm_ones_in_col_spec _ _ _ _ _ Epco) as (NDpco & Hpco).
  assert (Hagree3 : forall j, (ps_i s) <= j < W -> cell (ps_A s3) (ps_i s) j = G s3 (ps_i s) j).
  { intros j Hj. apply (fi_agreeA _ _ I3); [exact HiM | rewrite Ei3; exact Hj]. }
  assert (Hshape : forall j, (ps_i s) < j < ec -> cell (ps_A s3) (ps_i s) j = 0) by (intros j Hj; apply Hzeros; unfold ec in Hj; lia).
  (* the statistics for the shrunk V *)
  assert (S3 : st_inv (ps_A s3) st3 ((ps_i s) + 1) (M - Hn) ((ps_i s) + 1) ec).
  { pose proof (fi_st _ _ I3) as X. rewrite Ei3, Eu3 in X.
    assert (Y1 : ps_i s + 1 <= ec) by (unfold ec; lia).
    assert (Y2 : ec <= W - ps_u s) by (unfold ec; lia).
    apply (st_resize_spec m st2 (ps_A s3) M W (ps_i s) (M - Hn) (W - ps_u s) ec pco st3 X
             (fi_dims _ _ I3) (fi_bin _ _ I3)); try assumption; lia. }
  (* the rows below the pivot *)
  assert (E0 : el_inv s3 ec [] s3 st3).
  { apply mkEL; try reflexivity.
    - apply (fi_lite _ _ I3).
    - apply (fi_dims _ _ I3).
    - apply (fi_bin _ _ I3).
    - intros k j Hk Hj. apply (fi_agreeA _ _ I3); [exact Hk | lia].
    - rewrite Ei3. exact S3. }
  assert (P2 : ps_i s3 + Hn < M) by (rewrite Ei3; exact HiM).
  assert (P4 : ec = W - ps_u s3 - (r - 1)) by (rewrite Eu3; reflexivity).
  assert (P5 : ps_i s3 + 1 <= ec) by (rewrite Ei3; unfold ec; lia).
  assert (P6 : ps_u s3 + (r - 1) <= W) by (rewrite Eu3; lia).
  assert (P7 : forall j, ps_i s3 < j < ec -> cell (ps_A s3) (ps_i s3) j = 0) by (rewrite Ei3; exact Hshape).
  assert (P9 : forall x, In x ([] ++ pco) -> ps_i s3 < x /\ x + Hn < M)
    by (intros x Hx; apply Hpco in Hx; rewrite Ei3; lia).
  assert (P11 : ofold (eliminate_row m r (ps_i s3) 1) pco (s3, st3, RSwap (ps_i s) chosen :: rops)
                = Ok (s4, st', rops')) by (rewrite Ei3; exact Eel).
  pose proof (el_loop m r 1 s3 st2 ec pco [] s3 st3 _ s4 st' rops' I3 P2 Hr P4 P5 P6 P7 NDpco P9 E0 P11) as E4.
  assert (Hhist : hist_ok st -> hist_ok st').
  { intros H0h. pose proof (hist_swap_rows _ _ _ _ H0h Est) as H1h.
    destruct (cover_swaps_all m sw s2 st1 s3 st2 I2) as [_ H2h]; [rewrite Ei2', Eu2'; exact Fsw | exact Esw2 |].
    specialize (H2h H1h).
    assert (H3h : hist_ok st3).
    { pose proof (fi_st _ _ I3) as X. rewrite Ei3, Eu3 in X.
      assert (Y1 : ps_i s + 1 <= ec) by (unfold ec; lia).
      assert (Y2 : ec <= W - ps_u s) by (unfold ec; lia).
      assert (Y3 : lenN (ps_A s3) < 4294967296) by (destruct (fi_dims _ _ I3) as [Z _]; lia).
      apply (hist_resize m st2 (ps_A s3) M W (ps_i s) (M - Hn) (W - ps_u s) ec pco st3 H2h Y3 X
               (fi_dims _ _ I3) (fi_bin _ _ I3)); try assumption; lia. }
    exact (el_loop_hist m r 1 s3 st2 ec pco [] s3 st3 _ s4 st' rops' I3 P2 Hr P4 P5 P6 P7 NDpco P9 E0 P11 H3h). }
  cbn [app] in E4.
  assert (G4 : forall k j, k < M -> ~ In k pco -> G s4 k j = G s3 k j).
  { intros k j Hk Hn'. rewrite (ei_G _ _ _ _ _ E4) by exact Hk.
    destruct (inb k pco) eqn:Eb; [apply inb_true in Eb; contradiction | reflexivity]. }
  assert (Hipco : ~ In (ps_i s) pco) by (intros X; apply Hpco in X; lia).
  assert (Hhpco : forall x, x < Hn -> ~ In (M - Hn + x) pco) by (intros x Hx X; apply Hpco in X; lia).
  (* the HDPC rows *)
  assert (E5 : hd_inv s4 (seqN 0 Hn) s5).
  { assert (E40 : hd_inv s4 [] s4).
    { constructor; try reflexivity.
      - apply (ei_lite _ _ _ _ _ E4).
      - unfold hd_rows. rewrite (ei_hd _ _ _ _ _ E4). apply (fi_hlen _ _ I3).
      - unfold hd_rows. rewrite (ei_hd _ _ _ _ _ E4). apply (fi_hrows _ _ I3).
      - intros k j Hk. rewrite andb_false_r. reflexivity.
      - intros hr j [] . }
    unfold eliminate_hdpc in Ehd. rewrite num_hdpc_hd_rows, (fi_hlen _ _ I) in Ehd.
    destruct (N.ltb_spec 0 Hn) as [Hpos|Hzero].
    - omon Ehd. rewrite (ei_W _ _ _ _ _ E4), (fi_W _ _ I3), (ei_u _ _ _ _ _ E4), Eu3 in E.
      apply usub_inv in E; [|lia]. replace (W - ((ps_u s) + r - 1)) with ec in E by (unfold ec; lia). subst a.
      unfold bm_sub_row in E1. omon E1. destruct (N.leb_spec ec (lenN a)); [|discriminate]. inversion E1; subst a0. clear E1.
      destruct (getN_inv _ _ _ [] E) as [_ Ha]. fold (rowN (ps_A s4) (ps_i s)) in Ha. subst a.
      pose proof (ei_i _ _ _ _ _ E4) as Ei4. rewrite Ei3 in Ei4. pose proof (ei_u _ _ _ _ _ E4) as Eu4. rewrite Eu3 in Eu4.
      assert (Q1 : lite M s4) by apply (ei_lite _ _ _ _ _ E4).
      assert (Q2 : dims (ps_A s4) M W) by apply (ei_dims _ _ _ _ _ E4).
      assert (Q3 : ps_W s4 = W) by (rewrite (ei_W _ _ _ _ _ E4); apply (fi_W _ _ I3)).
      assert (Q4 : ps_i s4 + Hn < M) by (rewrite Ei4; exact HiM).
      assert (Q6 : ec = W - ps_u s4 - (r - 1)) by (rewrite Eu4; reflexivity).
      assert (Q7 : ps_i s4 + 1 <= ec) by (rewrite Ei4; unfold ec; lia).
      assert (Q8 : ec <= W) by (unfold ec; lia).
      assert (Q9 : skipn (N.to_nat ec) (rowN (ps_A s4) (ps_i s)) = skipn (N.to_nat ec) (rowN (ps_A s4) (ps_i s4)))
        by (rewrite Ei4; reflexivity).
      assert (Q10 : forall j, ps_i s4 < j < ec -> G s4 (ps_i s4) j = 0).
      { rewrite Ei4. intros j Hj. rewrite G4 by (try lia; exact Hipco).
        rewrite <- Hagree3 by (unfold ec in Hj; lia). apply Hshape. exact Hj. }
      assert (Q11 : forall j, ec <= j < W -> cell (ps_A s4) (ps_i s4) j = G s4 (ps_i s4) j /\
                                           (G s4 (ps_i s4) j = 0 \/ G s4 (ps_i s4) j = 1)).
      { rewrite Ei4. intros j Hj. unfold cell. rewrite (ei_rows _ _ _ _ _ E4) by exact Hipco.
        fold (cell (ps_A s3) (ps_i s) j).
        rewrite G4 by (try lia; exact Hipco). rewrite Hagree3 by (unfold ec in Hj; lia). split; [reflexivity|].
        rewrite <- Hagree3 by (unfold ec in Hj; lia). apply bin_cell. apply (fi_bin _ _ I3). }
      assert (Q12 : forall x j, x < Hn -> ps_i s4 <= j < W -> cell (hd_rows s4) x j = G s4 (M - Hn + x) j).
      { rewrite Ei4. intros x j Hx Hj. unfold hd_rows. rewrite (ei_hd _ _ _ _ _ E4). fold (hd_rows s3).
        rewrite G4 by (try lia; apply Hhpco; exact Hx). apply (fi_agreeH _ _ I3); [exact Hx | rewrite Ei3; exact Hj]. }
      assert (Q13 : NoDup ([] ++ seqN 0 Hn)) by (cbn [app]; apply seqN_NoDup).
      assert (Q14 : forall x, In x ([] ++ seqN 0 Hn) -> x < Hn) by (intros x Hx; cbn [app] in Hx; apply seqN_in in Hx; lia).
      rewrite <- Ei4 in Ehd at 1.
      exact (hd_loop m 1 r s4 ec _ (seqN 0 Hn) [] s4 s5 Q1 Q2 Q3 Q4 eq_refl Q6 Q7 Q8 Q9 Q10 Q11 Q12 Q13 Q14 E40 Ehd).
    - inversion Ehd; subst s5. replace Hn with 0 by lia. exact E40. }
  (* assembling the invariant for (ps_i s) + 1 *)
  assert (G5 : forall k j, G (advance s5 (r - 1)) k j = G s5 k j) by (intros; apply G_frame; reflexivity).
  assert (G5lo : forall k j, k + Hn < M -> G s5 k j = G s4 k j).
  { intros k j Hk. rewrite (hi_G _ _ _ E5) by lia. destruct (N.leb_spec (M - Hn) k); [lia | reflexivity]. }
  assert (A5 : ps_A s5 = ps_A s4) by apply (hi_A _ _ _ E5).
  assert (Gi3 : forall j, j < (ps_i s) -> G s3 (ps_i s) j = 0) by (intros j Hj; apply (fi_zero _ _ I3); rewrite Ei3; lia).
  assert (Gii : G s3 (ps_i s) (ps_i s) = 1) by (rewrite <- Hagree3 by lia; exact Hone).
  assert (Hcov : cover_s s -> cover_s (advance s5 (r - 1))).
  { intros C0.
    (* rows i and chosen exchanged *)
    assert (C1 : cover_s s1).
    { destruct (ps_swap_rows_frame _ _ _ _ _ Esw) as (EA1 & _).
      destruct (bm_swap_rows_spec _ _ _ _ _ _ (fi_dims _ _ I) EA1) as (_ & _ & _ & Hrows1).
      intros j Hj. rewrite Ei1, Eu1 in Hj. destruct (C0 j Hj) as (k & Hk & Hc).
      exists (trN (ps_i s) chosen k). rewrite Ei1. split.
      - unfold trN. destruct (k =? ps_i s); [lia|]. destruct (k =? chosen); lia.
      - unfold cell. rewrite Hrows1, trN_invol. exact Hc. }
    assert (C2 : cover_s s2).
    { intros j Hj. rewrite Ei2', Eu2' in Hj. rewrite <- Ei1, <- Eu1 in Hj. destruct (C1 j Hj) as (k & Hk & Hc).
      exists k. rewrite Ei2', EA2. rewrite Ei1 in Hk. split; assumption. }
    destruct (cover_swaps_all m sw s2 st1 s3 st2 I2) as [C3f _]; [rewrite Ei2', Eu2'; exact Fsw | exact Esw2 |].
    pose proof (C3f C2) as C3.
    intros j Hj. cbn [advance ps_i ps_u ps_A] in *.
    rewrite (hi_i _ _ _ E5), (hi_u _ _ _ E5), (ei_i _ _ _ _ _ E4), (ei_u _ _ _ _ _ E4), Ei3, Eu3 in Hj.
    destruct (C3 j) as (k & Hk & Hc); [rewrite Ei3, Eu3; lia|]. rewrite Ei3 in Hk.
    assert (Hki : k <> ps_i s).
    { intros ->. rewrite Hshape in Hc by (unfold ec; lia). discriminate. }
    exists k. rewrite (hi_i _ _ _ E5), (ei_i _ _ _ _ _ E4), Ei3. split; [lia|].
    rewrite A5. rewrite (ei_agree _ _ _ _ _ E4) by (rewrite ?Ei3; lia).
    rewrite (ei_G _ _ _ _ _ E4) by lia. rewrite Ei3.
    rewrite <- (fi_agreeA _ _ I3 k j) by (rewrite ?Ei3; lia). rewrite Hc.
    destruct (inb k pco); [|reflexivity].
    rewrite <- Hagree3 by lia. rewrite Hshape by (unfold ec; lia). reflexivity. }
  split; [|split; [cbn; rewrite (hi_i _ _ _ E5), (ei_i _ _ _ _ _ E4), Ei3; reflexivity | split; [exact Hhist | exact Hcov]]].
  constructor; cbn [advance ps_A ps_W ps_hd ps_X ps_c ps_d ps_i ps_u ps_L ps_ops];
    rewrite ?(hi_i _ _ _ E5), ?(hi_u _ _ _ E5), ?(hi_W _ _ _ E5), ?(hi_L _ _ _ E5), ?(hi_c _ _ _ E5),
            ?(ei_i _ _ _ _ _ E4), ?(ei_u _ _ _ _ _ E4), ?(ei_W _ _ _ _ _ E4), ?(ei_L _ _ _ _ _ E4), ?(ei_c _ _ _ _ _ E4),
            ?Ei3, ?Eu3.
  - apply lite_advance. apply (hi_lite _ _ _ E5).
  - rewrite A5. apply (ei_dims _ _ _ _ _ E4).
  - rewrite A5. apply (ei_bin _ _ _ _ _ E4).
  - apply (hi_hlen _ _ _ E5).
  - apply (hi_hrows _ _ _ E5).
  - apply (fi_W _ _ I3).
  - apply (fi_L _ _ I3).
  - apply (fi_c _ _ I3).
  - lia.
  - lia.
  - intros k j Hk Hj. rewrite G5, G5lo by exact Hk. rewrite A5. apply (ei_agree _ _ _ _ _ E4); [exact Hk | rewrite Ei3; exact Hj].
  - intros k j Hk Hj. rewrite G5. change (hd_rows (advance s5 (r - 1))) with (hd_rows s5).
    apply (hi_agree _ _ _ E5); [apply seqN_in; lia | exact Hk | rewrite (ei_i _ _ _ _ _ E4), Ei3; exact Hj].
  - intros k j Hk Hj. rewrite G5, G5lo by lia. rewrite G4 by (try lia; intros X; apply Hpco in X; lia).
    destruct (N.eq_dec k (ps_i s)) as [->|Hki].
    + destruct (N.eq_dec j (ps_i s)) as [->|Hji]; [rewrite N.eqb_refl; exact Gii|].
      destruct (N.eqb_spec (ps_i s) j); [lia|]. apply Gi3. lia.
    + destruct (N.eq_dec j (ps_i s)) as [->|Hji].
      * destruct (N.eqb_spec k (ps_i s)); [lia|]. apply (fi_Z _ _ I3); rewrite ?Ei3, ?Eu3; lia.
      * apply (fi_I _ _ I3); rewrite Ei3; lia.
  - intros k j Hk Hj. rewrite G5, G5lo by lia. rewrite G4 by (try lia; intros X; apply Hpco in X; lia).
    destruct (N.eq_dec k (ps_i s)) as [->|Hki].
    + rewrite <- Hagree3 by lia. apply Hshape. unfold ec. lia.
    + apply (fi_Z _ _ I3); rewrite ?Ei3, ?Eu3; lia.
  - intros k j Hk Hj. rewrite G5.
    destruct (N.ltb_spec (k + Hn) M) as [Hlo|Hhi].
    + rewrite G5lo by exact Hlo. rewrite (ei_G _ _ _ _ _ E4) by lia. rewrite Ei3.
      assert (Hk0 : forall j', j' < (ps_i s) -> G s3 k j' = 0) by (intros j' Hj'; apply (fi_zero _ _ I3); rewrite Ei3; lia).
      destruct (N.eq_dec j (ps_i s)) as [->|Hji].
      * destruct (inb k pco) eqn:Eb.
        -- apply inb_true in Eb. apply Hpco in Eb. destruct Eb as [_ Eb].
           rewrite <- (fi_agreeA _ _ I3) by (rewrite ?Ei3; lia). rewrite Eb, Gii. reflexivity.
        -- rewrite <- (fi_agreeA _ _ I3) by (rewrite ?Ei3; lia).
           destruct (bin_cell (ps_A s3) k (ps_i s) (fi_bin _ _ I3)) as [X|X]; [exact X|].
           exfalso. assert (Y : In k pco) by (apply Hpco; split; [lia | exact X]). apply inb_true in Y. congruence.
      * destruct (inb k pco); [rewrite Hk0, Gi3 by lia; reflexivity | apply Hk0; lia].
    + rewrite (hi_G _ _ _ E5) by lia. rewrite (ei_i _ _ _ _ _ E4), Ei3.
      destruct (N.leb_spec (M - Hn) k); [|lia]. cbn [andb].
      assert (Hin : inb (k - (M - Hn)) (seqN 0 Hn) = true) by (apply inb_true, seqN_in; lia). rewrite Hin.
      assert (Hkp : ~ In k pco) by (intros X; apply Hpco in X; lia).
      rewrite !G4 by (try lia; assumption).
      assert (Hk0 : forall j', j' < (ps_i s) -> G s3 k j' = 0) by (intros j' Hj'; apply (fi_zero _ _ I3); rewrite Ei3; lia).
      destruct (N.eq_dec j (ps_i s)) as [->|Hji].
      * rewrite Gii, mulN_1_r by (apply (G_byte A0 M W A0_wf A0_len), (fi_lite _ _ I3)). apply N.lxor_nilpotent.
      * rewrite Hk0, Gi3 by lia. rewrite mulN_0_r. reflexivity.
  - rewrite A5. replace (W - ((ps_u s) + (r - 1))) with ec by (unfold ec; lia).
    pose proof (ei_st _ _ _ _ _ E4) as X. rewrite Ei3 in X. exact X.
Qed.

Theorem fp_step_inv m s st rops s' st' rops' :
  fp_inv s st -> ps_i s + ps_u s < W ->
  first_phase_step m s st rops = Ok (Some (s', st', rops')) ->
  fp_inv s' st' /\ ps_i s' = ps_i s + 1 /\ (hist_ok st -> hist_ok st') /\ (cover_s s -> cover_s s').
Proof.
  intros I Hlt H. apply first_phase_step_inv in H. destruct H as [H _].
  exact (fp_step_inv_pre _ _ _ _ _ _ _ I Hlt H).
Qed.

End P1.
