(* The matrix the recorded operations denote.
   B s    = the ORIGINAL matrix A0 after the operations recorded so far (Spec/Linear.apply_ops),
   G s k j = B s [d[k]] [c[j]]: the current logical matrix read through the row permutation d and
             the column permutation c.
   G depends on the fields ps_ops, ps_d, ps_c only.  The lemmas below say how each recording
   function transforms it; the solver state (A, the HDPC rows, the second-phase submatrix) is then
   related to G cell by cell in Proofs/PiSolverPhase*.v. *)
From Coq Require Import NArith List Bool Lia Arith.
From RQ Require Import Base.Outcome Base.Ints Base.ListX Model.Octet Model.CMatrix Model.Slab
  Spec.Linear Proofs.OutcomeLemmas Proofs.OctetProofs Proofs.LinearProofs Model.PiSolver
  Proofs.PiSolverBase Proofs.PiSolverStruct Proofs.PiSolverOps.
Import ListNotations.
Open Scope N_scope.

(* cell (k, j) of a list-of-rows matrix, 0 outside *)
Definition rowN (A : list (list N)) (k : N) : list N := nth (N.to_nat k) A [].
Definition cell (A : list (list N)) (k j : N) : N := nth (N.to_nat j) (rowN A k) 0.

(* the transposition (a b) on machine integers *)
Definition trN (a b k : N) : N := if k =? a then b else if k =? b then a else k.

Lemma trN_nat a b k : tr (N.to_nat a) (N.to_nat b) (N.to_nat k) = N.to_nat (trN a b k).
Proof.
  unfold tr, trN. destruct (N.eqb_spec k a) as [->|Ha].
  - rewrite Nat.eqb_refl. reflexivity.
  - destruct (Nat.eqb_spec (N.to_nat k) (N.to_nat a)) as [E|_]; [lia|].
    destruct (N.eqb_spec k b) as [->|Hb].
    + rewrite Nat.eqb_refl. reflexivity.
    + destruct (Nat.eqb_spec (N.to_nat k) (N.to_nat b)) as [E|_]; [lia | reflexivity].
Qed.

Lemma trN_invol a b k : trN a b (trN a b k) = k.
Proof.
  apply N2Nat.inj. rewrite <- !trN_nat. apply tr_invol.
Qed.
Lemma trN_l a b : trN a b a = b.
Proof. unfold trN. rewrite N.eqb_refl. reflexivity. Qed.
Lemma trN_r a b : trN a b b = a.
Proof. unfold trN. rewrite N.eqb_refl. destruct (N.eqb_spec b a); [auto | reflexivity]. Qed.
Lemma trN_other a b k : k <> a -> k <> b -> trN a b k = k.
Proof. intros H1 H2. unfold trN. apply N.eqb_neq in H1, H2. rewrite H1, H2. reflexivity. Qed.
Lemma trN_range a b k lo hi : lo <= a < hi -> lo <= b < hi -> (lo <= k < hi <-> lo <= trN a b k < hi).
Proof. intros Ha Hb. unfold trN. destruct (N.eqb_spec k a); [subst; lia|]. destruct (N.eqb_spec k b); [subst; lia | tauto]. Qed.
Lemma trN_inj a b k k' : trN a b k = trN a b k' -> k = k'.
Proof. intros H. rewrite <- (trN_invol a b k), H. apply trN_invol. Qed.

Lemma swapN_cell {A} (l : list A) i j l' d k : swapN l i j = Ok l' ->
  nth (N.to_nat k) l' d = nth (N.to_nat (trN i j k)) l d.
Proof. intros H. destruct (swapN_inv _ _ _ _ d H) as [_ [_ [_ Hn]]]. rewrite Hn, trN_nat. reflexivity. Qed.

Lemma swapN_lenN {A} (l : list A) i j l' : swapN l i j = Ok l' -> lenN l' = lenN l /\ i < lenN l /\ j < lenN l.
Proof.
  intros H. destruct l as [|d0 l0].
  - unfold swapN in H. oinvas H as x Ex. unfold getN, nth_ok in Ex. destruct (N.to_nat i); discriminate.
  - destruct (swapN_inv _ _ _ _ d0 H) as [Li [Lj [Len _]]]. unfold lenN. rewrite Len. lia.
Qed.

Section G.
Variable A0 : list (list N).
Variable M W : N.
Hypothesis A0_wf : wf_mat (N.to_nat W) A0.
Hypothesis A0_len : lenN A0 = M.

Definition sops (s : pstate) : list symop := map sym_of (rev (ps_ops s)).
Definition Bmat (s : pstate) : list (list N) := apply_ops mulN (sops s) A0.
Definition dat (s : pstate) (k : N) : N := nth (N.to_nat k) (ps_d s) 0.
Definition cat (s : pstate) (j : N) : N := nth (N.to_nat j) (ps_c s) 0.
Definition G (s : pstate) (k j : N) : N := cell (Bmat s) (dat s k) (cat s j).

Lemma G_frame s s' : ps_ops s' = ps_ops s -> ps_d s' = ps_d s -> ps_c s' = ps_c s ->
  forall k j, G s' k j = G s k j.
Proof. intros Eo Ed Ec k j. unfold G, Bmat, sops, dat, cat. rewrite Eo, Ed, Ec. reflexivity. Qed.

Lemma sops_valid s : forallb (sop_valid M) (ps_ops s) = true ->
  forallb (op_valid (length A0)) (sops s) = true.
Proof.
  intros H. unfold sops. rewrite forallb_forall in *. intros o Ho. apply in_map_iff in Ho.
  destruct Ho as [so [<- Hso]]. apply in_rev in Hso. specialize (H so Hso).
  replace (length A0) with (N.to_nat M) by (unfold lenN in A0_len; lia). apply sop_valid_op_valid, H.
Qed.

Lemma Bmat_wf s : lite M s -> wf_mat (N.to_nat W) (Bmat s).
Proof.
  intros L. unfold Bmat. eapply (apply_ops_wf mulN inv8 mulN_field); [|exact A0_wf].
  apply sops_valid. apply (lt_ops _ _ L).
Qed.

Lemma Bmat_len s : length (Bmat s) = N.to_nat M.
Proof. unfold Bmat. rewrite apply_ops_length. unfold lenN in A0_len. lia. Qed.

Lemma G_byte s k j : lite M s -> G s k j < 256.
Proof.
  intros L. unfold G, cell, rowN. pose proof (Bmat_wf s L) as Hw.
  destruct (Nat.ltb_spec (N.to_nat (dat s k)) (length (Bmat s))) as [Lk|Lk].
  - destruct (wf_mat_nth _ _ _ Hw Lk) as [_ Hv]. apply bytes_nth. exact Hv.
  - rewrite (nth_overflow _ _ Lk). destruct (N.to_nat (cat s j)); reflexivity.
Qed.

Lemma Bmat_row_len s k : lite M s -> k < M -> length (rowN (Bmat s) k) = N.to_nat W.
Proof.
  intros L Hk. unfold rowN. apply (wf_mat_nth _ _ _ (Bmat_wf s L)). rewrite Bmat_len. lia.
Qed.

(* pointwise vector operations *)
Lemma nth_vadd u v j : length u = length v -> nth j (vadd u v) 0 = N.lxor (nth j u 0) (nth j v 0).
Proof.
  revert v j; induction u as [|x u IH]; intros [|y v] j H; cbn in *; try discriminate.
  - destruct j; reflexivity.
  - destruct j; [reflexivity|]. apply IH. lia.
Qed.

Lemma nth_vscale c v j : nth j (vscale mulN c v) 0 = mulN c (nth j v 0).
Proof.
  unfold vscale. destruct (Nat.ltb_spec j (length v)) as [L|L].
  - rewrite (nth_indep _ 0 (mulN c 0)) by (rewrite map_length; exact L). apply map_nth.
  - rewrite !nth_overflow by (rewrite ?map_length; exact L). rewrite mulN_0_r. reflexivity.
Qed.

Lemma sops_snoc s o : sops (set_ops s (o :: ps_ops s)) = sops s ++ [sym_of o].
Proof. unfold sops. cbn. rewrite map_app. reflexivity. Qed.

Lemma Bmat_snoc s o : Bmat (set_ops s (o :: ps_ops s)) = apply_op mulN (sym_of o) (Bmat s).
Proof. unfold Bmat. rewrite sops_snoc. unfold apply_ops. rewrite fold_left_app. reflexivity. Qed.

Lemma dat_lt s k : lite M s -> k < M -> dat s k < M.
Proof.
  intros L Hk. destruct (lt_d _ _ L) as [Hl [_ Hb]]. unfold dat. rewrite Forall_forall in Hb.
  apply Hb. apply nth_In. unfold lenN in Hl. lia.
Qed.

Lemma dat_inj s k k' : lite M s -> k < M -> k' < M -> dat s k = dat s k' -> k = k'.
Proof.
  intros L Hk Hk' E. destruct (lt_d _ _ L) as [Hl [ND _]]. unfold dat in E. unfold lenN in Hl.
  apply (proj1 (NoDup_nth _ 0) ND) in E; lia.
Qed.

Lemma getN_dat s k x : getN (ps_d s) k = Ok x -> x = dat s k.
Proof. intros H. destruct (getN_inv _ _ _ 0 H) as [_ ->]. reflexivity. Qed.

Lemma getN_lt_len {A} (l : list A) k x : getN l k = Ok x -> k < lenN l.
Proof.
  intros H. destruct l as [|d0 l0]; [unfold getN, nth_ok in H; destruct (N.to_nat k); discriminate|].
  destruct (getN_inv _ _ _ d0 H) as [Lk _]. unfold lenN. lia.
Qed.

(* record_fma_rows: row ip becomes row ip + beta * row i *)
Lemma G_record_fma s i ip beta s' : lite M s -> record_fma_rows s i ip beta = Ok s' ->
  beta < 256 -> i <> ip ->
  forall k j, k < M -> G s' k j = if k =? ip then N.lxor (G s ip j) (mulN beta (G s i j)) else G s k j.
Proof.
  intros L H Hb Hne k j Hk. unfold record_fma_rows in H.
  oinvas H as dp Edp. oinvas H as di Edi. inversion H; subst s'. clear H.
  pose proof (getN_lt_len _ _ _ Edp) as Lip. pose proof (getN_lt_len _ _ _ Edi) as Li.
  destruct (lt_d _ _ L) as [Hl _]. rewrite Hl in Lip, Li.
  apply getN_dat in Edp, Edi. subst dp di.
  unfold G. rewrite Bmat_snoc.
  replace (dat (set_ops s _) k) with (dat s k) by reflexivity.
  replace (cat (set_ops s _) j) with (cat s j) by reflexivity.
  pose proof (dat_lt s ip L Lip) as Dip. pose proof (dat_lt s i L Li) as Di. pose proof (dat_lt s k L Hk) as Dk.
  pose proof (Bmat_len s) as BL.
  assert (Er : forall x, x < M -> nth_error (Bmat s) (N.to_nat x) = Some (rowN (Bmat s) x)).
  { intros x Hx. unfold rowN. apply nth_error_nth'. lia. }
  assert (Hrow : forall newrow,
     cell (upd_nth (N.to_nat (dat s ip)) newrow (Bmat s)) (dat s k) (cat s j) =
     if k =? ip then nth (N.to_nat (cat s j)) newrow 0 else cell (Bmat s) (dat s k) (cat s j)).
  { intros newrow. unfold cell, rowN. destruct (N.eqb_spec k ip) as [->|Hkn].
    - rewrite nth_upd_same by lia. reflexivity.
    - rewrite nth_upd_other; [reflexivity|]. intros E. apply Hkn. symmetry. apply (dat_inj s); try assumption. lia. }
  assert (Elen : length (rowN (Bmat s) (dat s ip)) = length (rowN (Bmat s) (dat s i))).
  { rewrite !Bmat_row_len by assumption. reflexivity. }
  destruct (beta =? 1) eqn:Eb1; cbn [sym_of apply_op]; rewrite (Er _ Dip), (Er _ Di), Hrow;
    destruct (k =? ip); try reflexivity.
  - apply N.eqb_eq in Eb1. subst beta. rewrite nth_vadd by exact Elen. unfold cell. f_equal.
    rewrite mulN_1_l; [reflexivity|]. apply bytes_nth. apply (wf_mat_nth _ _ _ (Bmat_wf s L)). lia.
  - rewrite nth_vadd by (rewrite vscale_length; exact Elen). rewrite nth_vscale. reflexivity.
Qed.

(* record_mul_row: row i is scaled *)
Lemma G_record_mul s i beta s' : lite M s -> record_mul_row s i beta = Ok s' ->
  forall k j, k < M -> G s' k j = if k =? i then mulN beta (G s i j) else G s k j.
Proof.
  intros L H k j Hk. unfold record_mul_row in H.
  oinvas H as di Edi. destruct (ps_hd s); [discriminate|]. inversion H; subst s'. clear H.
  pose proof (getN_lt_len _ _ _ Edi) as Li. destruct (lt_d _ _ L) as [Hl _]. rewrite Hl in Li.
  apply getN_dat in Edi. subst di.
  unfold G. rewrite Bmat_snoc.
  replace (dat (set_ops s _) k) with (dat s k) by reflexivity.
  replace (cat (set_ops s _) j) with (cat s j) by reflexivity.
  pose proof (dat_lt s i L Li) as Di. pose proof (dat_lt s k L Hk) as Dk. pose proof (Bmat_len s) as BL.
  cbn [sym_of apply_op].
  replace (nth_error (Bmat s) (N.to_nat (dat s i))) with (Some (rowN (Bmat s) (dat s i)))
    by (symmetry; unfold rowN; apply nth_error_nth'; lia).
  unfold cell, rowN. destruct (N.eqb_spec k i) as [->|Hkn].
  - rewrite nth_upd_same by lia. apply nth_vscale.
  - rewrite nth_upd_other; [reflexivity|]. intros E. apply Hkn. symmetry. apply (dat_inj s); try assumption. lia.
Qed.

(* ps_swap_rows: rows i and ip exchanged *)
Lemma G_swap_rows m s i ip s' : ps_swap_rows m s i ip = Ok s' ->
  forall k j, G s' k j = G s (trN i ip k) j.
Proof.
  unfold ps_swap_rows. intros H k j. omon H. inversion H; subst s'. clear H.
  unfold G, dat, cat, Bmat, sops. cbn [ps_d ps_c ps_ops].
  rewrite (swapN_cell _ _ _ _ 0 k E1). reflexivity.
Qed.

(* ps_swap_cols: columns j1 and j2 exchanged *)
Lemma G_swap_cols s j1 j2 sr s' : ps_swap_cols s j1 j2 sr = Ok s' ->
  forall k j, G s' k j = G s k (trN j1 j2 j).
Proof.
  unfold ps_swap_cols. intros H k j. omon H. inversion H; subst s'. clear H.
  unfold G, dat, cat, Bmat, sops. cbn [ps_d ps_c ps_ops].
  rewrite (swapN_cell _ _ _ _ 0 j E1). reflexivity.
Qed.

End G.
