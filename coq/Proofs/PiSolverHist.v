(* The ones_histogram of FirstPhaseRowSelectionStats is exact (it counts, for every r, the rows whose
   ones_per_row entry is r), hence `first_phase_selection` answers "no row" only when no row of V has
   a one. *)
From Coq Require Import NArith List Bool Lia Arith Permutation.
From RQ Require Import Base.Outcome Base.Ints Base.ListX Model.Octet Model.CMatrix Model.Slab
  Spec.Linear Proofs.OutcomeLemmas Proofs.LinearProofs Model.PiSolver
  Proofs.PiSolverBase Proofs.PiSolverStruct Proofs.PiSolverOps Proofs.PiSolverG Proofs.PiSolverInvDefs
  Proofs.PiSolverStats.
Import ListNotations.
Open Scope N_scope.

Definition hist_ok (st : stats) : Prop :=
  forall r, h_get (st_hist st) r = lenN (filter (fun v => v =? r) (st_opr st)).


(* ================= counting the entries equal to r ================= *)

Definition cntv (r : N) (l : list N) : N := lenN (filter (fun v => v =? r) l).

(* the histogram `hist` is exact for the list `opr` *)
Definition HK (opr hist : list N) : Prop := forall r, h_get hist r = cntv r opr.

Lemma hist_ok_HK st : hist_ok st <-> HK (st_opr st) (st_hist st).
Proof. unfold hist_ok, HK, cntv. tauto. Qed.

Lemma cntv_nil r : cntv r [] = 0.
Proof. reflexivity. Qed.

Lemma cntv_cons r a l : cntv r (a :: l) = (if a =? r then 1 else 0) + cntv r l.
Proof. unfold cntv, lenN. cbn [filter]. destruct (a =? r); cbn [length]; lia. Qed.

Lemma cntv_app r l1 l2 : cntv r (l1 ++ l2) = cntv r l1 + cntv r l2.
Proof. unfold cntv, lenN. rewrite filter_app, app_length. lia. Qed.

Lemma cntv_rev r l : cntv r (rev l) = cntv r l.
Proof.
  induction l as [|a t IH]; [reflexivity|]. cbn [rev]. rewrite cntv_app, IH, !cntv_cons, cntv_nil. lia.
Qed.

Lemma cntv_le r l : cntv r l <= lenN l.
Proof.
  induction l as [|a t IH]; [unfold cntv, lenN; cbn; lia|].
  rewrite cntv_cons. unfold lenN in *. cbn [length]. destruct (a =? r); lia.
Qed.

(* replacing entry k (old value nth k l) by v *)
Lemma cntv_upd r l : forall k v, (k < length l)%nat ->
  cntv r (upd_nth k v l) + (if nth k l 0 =? r then 1 else 0) = cntv r l + (if v =? r then 1 else 0).
Proof.
  induction l as [|a t IH]; intros k v L; cbn [length] in L; [lia|].
  destruct k as [|k]; cbn [upd_nth nth]; rewrite !cntv_cons.
  - lia.
  - specialize (IH k v ltac:(lia)). lia.
Qed.

Lemma cntv_pos r l k : (k < length l)%nat -> nth k l 0 = r -> 1 <= cntv r l.
Proof.
  intros L E. pose proof (cntv_upd r l k (r + 1) L) as H. rewrite E, N.eqb_refl in H.
  replace (r + 1 =? r) with false in H by (symmetry; apply N.eqb_neq; lia). lia.
Qed.

(* ================= h_get after h_grow / h_inc / h_dec ================= *)

Lemma h_get_grow h k r : h_get (h_grow h k) r = h_get h r.
Proof.
  unfold h_grow. destruct (k <? lenN h); [reflexivity|]. unfold h_get.
  destruct (Nat.lt_ge_cases (N.to_nat r) (length h)) as [L|L].
  - apply app_nth1. exact L.
  - rewrite app_nth2 by exact L. rewrite nth_repeat. rewrite nth_overflow by exact L. reflexivity.
Qed.

Lemma h_grow_length h k : (N.to_nat k < length (h_grow h k))%nat.
Proof.
  unfold h_grow. destruct (N.ltb_spec k (lenN h)) as [L|L]; unfold lenN in *.
  - lia.
  - rewrite app_length, repeat_length. lia.
Qed.

Lemma h_get_upd h k v r : (N.to_nat k < length h)%nat ->
  h_get (upd_nth (N.to_nat k) v h) r = if r =? k then v else h_get h r.
Proof. intros L. unfold h_get. apply nth_upd_N. exact L. Qed.

Lemma add_w_small m w a b : a + b < 2 ^ w -> add_w m w a b = Ok (a + b).
Proof. intros H. unfold add_w. cbv zeta. apply N.ltb_lt in H. rewrite H. reflexivity. Qed.

Lemma p32 : 2 ^ 32 = 4294967296.
Proof. reflexivity. Qed.

Lemma add32 m a b : a + b < 4294967296 -> add_w m 32 a b = Ok (a + b).
Proof. intros H. apply add_w_small. rewrite p32. exact H. Qed.

Lemma sub_w_ge m w a b : b <= a -> sub_w m w a b = Ok (a - b).
Proof. intros H. unfold sub_w. apply N.leb_le in H. rewrite H. reflexivity. Qed.

Lemma h_inc_spec m h k h' : h_inc m h k = Ok h' -> h_get h k + 1 < 4294967296 ->
  forall r, h_get h' r = if r =? k then h_get h k + 1 else h_get h r.
Proof.
  unfold h_inc. cbv zeta. intros H Hb. oinvas H as v Ev. oinvas H as v' Ev'.
  destruct (getN_inv _ _ _ 0 Ev) as [L Hv].
  assert (Hv' : v = h_get h k). { rewrite <- (h_get_grow h k k). exact Hv. }
  clear Hv. subst v. rewrite add32 in Ev' by exact Hb.
  injection Ev' as <-. apply putN_inv in H. destruct H as [_ ->].
  intros r. rewrite h_get_upd by exact L. rewrite h_get_grow. reflexivity.
Qed.

Lemma h_dec_spec m h k h' : h_dec m h k = Ok h' -> 1 <= h_get h k ->
  forall r, h_get h' r = if r =? k then h_get h k - 1 else h_get h r.
Proof.
  unfold h_dec. cbv zeta. intros H Hb. oinvas H as v Ev. oinvas H as v' Ev'.
  destruct (getN_inv _ _ _ 0 Ev) as [L Hv].
  assert (Hv' : v = h_get h k). { rewrite <- (h_get_grow h k k). exact Hv. }
  clear Hv. subst v. rewrite sub_w_ge in Ev' by exact Hb.
  injection Ev' as <-. apply putN_inv in H. destruct H as [_ ->].
  intros r. rewrite h_get_upd by exact L. rewrite h_get_grow. reflexivity.
Qed.

(* one row changes its count from `old` to `new`: h_dec at old, h_inc at new *)
Lemma hist_step m opr hist k old new h1 h2 :
  HK opr hist -> lenN opr < 4294967296 -> (k < length opr)%nat -> nth k opr 0 = old ->
  h_dec m hist old = Ok h1 -> h_inc m h1 new = Ok h2 ->
  HK (upd_nth k new opr) h2.
Proof.
  intros K Len L Eo Hd Hi.
  pose proof (cntv_pos old opr k L Eo) as Pos.
  pose proof (h_dec_spec _ _ _ _ Hd ltac:(rewrite K; exact Pos)) as D.
  pose proof (cntv_upd new opr k new L) as Un. rewrite Eo, N.eqb_refl in Un.
  pose proof (cntv_le new (upd_nth k new opr)) as Le. unfold lenN in Le, Len. rewrite upd_nth_length in Le.
  assert (B : h_get h1 new + 1 < 4294967296).
  { rewrite D, !K. destruct (N.eqb_spec new old) as [->|Hn].
    - rewrite N.eqb_refl in Un. lia.
    - replace (old =? new) with false in Un by (symmetry; apply N.eqb_neq; congruence). lia. }
  pose proof (h_inc_spec _ _ _ _ Hi B) as I.
  intros r. rewrite I, !D, !K.
  pose proof (cntv_upd r opr k new L) as U. rewrite Eo in U.
  destruct (N.eqb_spec r new) as [->|N1].
  - rewrite N.eqb_refl in U. destruct (N.eqb_spec new old) as [->|N2].
    + rewrite N.eqb_refl in U. lia.
    + replace (old =? new) with false in U by (symmetry; apply N.eqb_neq; congruence). lia.
  - replace (new =? r) with false in U by (symmetry; apply N.eqb_neq; congruence).
    destruct (N.eqb_spec r old) as [->|N2].
    + rewrite N.eqb_refl in U. lia.
    + replace (old =? r) with false in U by (symmetry; apply N.eqb_neq; congruence). lia.
Qed.

Lemma HK_set_g st g : hist_ok st -> hist_ok (st_set_g st g).
Proof. intros H. exact H. Qed.

(* ================= st_new ================= *)

Lemma HK_init : HK [] [0].
Proof. intros r. unfold h_get. destruct (N.to_nat r) as [|[|n]]; reflexivity. Qed.

Lemma hist_new m A ec er st : lenN A < 4294967296 -> ec < 65536 ->
  st_new m A ec er = Ok st -> hist_ok st.
Proof.
  intros HA Hec H. unfold st_new in H. oinvas H as r Er. destruct r as [[opr hist] single].
  destruct (rebuild_cc_frame _ _ _ _ _ _ H) as [g ->]. apply HK_set_g. clear H.
  apply hist_ok_HK. cbn [st_opr st_hist].
  assert (P : HK opr hist /\ length opr = length (seqN 0 (lenN A))).
  { refine (ofold_inv_pre (fun pre (acc : list N * list N * list N) =>
        HK (fst (fst acc)) (snd (fst acc)) /\ length (fst (fst acc)) = length pre) _ _ _ _ _ _ Er).
    - intros pre a post [[o h] s] [[o' h'] s'] El [Hk Hl] Hstep. cbn [fst snd] in *.
      omon Hstep. inversion Hstep; subst o' h' s'; clear Hstep.
      match goal with E : bm_count_ones _ _ _ _ = Ok ?v |- _ =>
        apply bm_count_ones_inv in E; rename v into ones; rename E into Eones end.
      match goal with E : h_inc _ _ _ = Ok _ |- _ => rename E into Ei end.
      assert (Hu : u16 ones = ones) by (rewrite Eones; apply u16_cnt; exact Hec).
      rewrite Hu. split.
      + assert (B : h_get h ones + 1 < 4294967296).
        { rewrite Hk. pose proof (cntv_le ones o) as Le. unfold lenN in Le. rewrite Hl in Le.
          assert (Ll : length (seqN 0 (lenN A)) = (length pre + S (length post))%nat).
          { rewrite El, app_length. reflexivity. }
          rewrite seqN_length in Ll. lia. }
        pose proof (h_inc_spec _ _ _ _ Ei B) as I.
        intros r. rewrite I, cntv_cons, !Hk. rewrite (N.eqb_sym ones r).
        destruct (N.eqb_spec r ones) as [->|_]; lia.
      + cbn [length]. rewrite app_length. cbn [length]. lia.
    - split; [exact HK_init | reflexivity]. }
  destruct P as [P _]. intros r. rewrite cntv_rev. apply P.
Qed.

Lemma cntv_swapN r l i j l' : swapN l i j = Ok l' -> cntv r l' = cntv r l.
Proof.
  unfold swapN. intros H. oinvas H as x Ex. oinvas H as y Ey. oinvas H as l1 E1.
  destruct (getN_inv _ _ _ 0 Ex) as [Li Hx]. destruct (getN_inv _ _ _ 0 Ey) as [Lj Hy].
  destruct (putN_inv _ _ _ _ E1) as [_ H1]. destruct (putN_inv _ _ _ _ H) as [L2 H2]. subst l1 l'.
  pose proof (cntv_upd r l (N.to_nat i) y Li) as U1. rewrite <- Hx in U1.
  pose proof (cntv_upd r _ (N.to_nat j) x L2) as U2.
  assert (Ej : nth (N.to_nat j) (upd_nth (N.to_nat i) y l) 0 = y).
  { destruct (Nat.eq_dec (N.to_nat i) (N.to_nat j)) as [e|ne].
    - rewrite <- e. apply nth_upd_same. exact Li.
    - rewrite nth_upd_other by exact ne. symmetry. exact Hy. }
  rewrite Ej in U2. lia.
Qed.

Lemma hist_swap_rows st i j st' : hist_ok st -> st_swap_rows st i j = Ok st' -> hist_ok st'.
Proof.
  intros K H. unfold st_swap_rows in H. omon H. injection H as <-.
  apply hist_ok_HK. cbn [st_opr st_hist]. apply hist_ok_HK in K.
  intros r. rewrite K. symmetry. eapply cntv_swapN. eassumption.
Qed.

Lemma hist_swap_cols st a b st' : hist_ok st -> st_swap_cols st a b = Ok st' -> hist_ok st'.
Proof.
  intros K H. unfold st_swap_cols in H. omon H. injection H as <-. apply HK_set_g. exact K.
Qed.

(* ================= resize ================= *)

Lemma st_lose_one_hist m row opr hist single cand opr' hist' single' cand' :
  st_lose_one m row (opr, hist, single, cand) = Ok (opr', hist', single', cand') ->
  1 <= nth (N.to_nat row) opr 0 -> HK opr hist -> lenN opr < 4294967296 ->
  HK opr' hist'.
Proof.
  intros H Hv K Len. unfold st_lose_one in H. omon H.
  match goal with E : am_dec _ _ _ _ = Ok _ |- _ => apply am_dec_inv in E; [destruct E as [L ->] | exact Hv] end.
  match goal with E : getN _ _ = Ok ?o |- _ =>
    apply (getN_inv _ _ _ 0) in E; destruct E as [_ Eo]; rewrite nth_upd_same in Eo by exact L;
    rename o into ones end.
  injection H as <- <- <- <-. rewrite <- Eo.
  assert (Eold : nth (N.to_nat row) opr 0 = ones + 1) by lia.
  match goal with Ed : h_dec _ _ _ = Ok ?h1, Ei : h_inc _ ?h1 _ = Ok _ |- _ =>
    exact (hist_step _ _ _ _ _ _ _ _ K Len L Eold Ed Ei) end.
Qed.

Lemma fold_lose_hist m i rows : forall opr hist single cand opr' hist' single' cand',
  ofold (st_lose_one m) rows (opr, hist, single, cand) = Ok (opr', hist', single', cand') ->
  NoDup rows -> (forall x, In x rows -> i <= x /\ 1 <= nth (N.to_nat x) opr 0) -> SI i opr single ->
  HK opr hist -> lenN opr < 4294967296 -> HK opr' hist'.
Proof.
  induction rows as [|a t IH]; intros opr hist single cand opr' hist' single' cand' H ND Hpre HS K Len.
  - cbn in H. injection H as <- <- <- <-. exact K.
  - apply ofold_cons_inv in H. destruct H as [[[[o1 h1] s1] c1] [E1 E2]].
    inversion ND as [|? ? Hnin ND']; subst.
    destruct (Hpre a (or_introl eq_refl)) as [Ha Hva].
    destruct (st_lose_one_inv _ i _ _ _ _ _ _ _ _ _ E1 HS Ha Hva) as [L [Eo HS1]].
    pose proof (st_lose_one_hist _ _ _ _ _ _ _ _ _ _ E1 Hva K Len) as K1.
    assert (Hother : forall x, x <> a -> nth (N.to_nat x) o1 0 = nth (N.to_nat x) opr 0).
    { intros x Hx. subst o1. rewrite nth_upd_N by exact L. apply N.eqb_neq in Hx. rewrite Hx. reflexivity. }
    apply (IH _ _ _ _ _ _ _ _ E2 ND'); [|exact HS1|exact K1|].
    + intros x Hx. destruct (Hpre x (or_intror Hx)) as [P1 P2]. split; [exact P1|].
      rewrite Hother; [exact P2|]. intros ->. contradiction.
    + subst o1. unfold lenN in *. rewrite upd_nth_length. exact Len.
Qed.

Lemma cols_loop_hist m A i er ec ec' : forall n col opr hist single cand g opr' hist' single' cand' g',
  n = N.to_nat (ec - col) -> ec' <= col -> col <= ec ->
  ofold (fun col (st : (list N * list N * list N * list N) * ccg) =>
         let '(acc, g) := st in
         obind (bm_ones_in_col A col i er) (fun rows =>
         obind (ofold (st_lose_one m) rows acc) (fun acc =>
         obind (g_remove_node m g col) (fun g => Ok (acc, g))))) (seqN col ec) (opr, hist, single, cand, g) = Ok (opr', hist', single', cand', g') ->
  SI i opr single ->
  (forall k, i <= k < er ->
     nth (N.to_nat k) opr 0 = cnt (rowN A k) (i + 1) ec' + cnt (rowN A k) col ec) ->
  HK opr hist -> lenN opr < 4294967296 -> HK opr' hist'.
Proof.
  induction n as [|n IH]; intros col opr hist single cand g opr' hist' single' cand' g' En L1 L2 H HS Hinv K Len.
  - rewrite seqN_nil in H by lia. cbn in H. injection H as <- <- <- <- <-. exact K.
  - rewrite seqN_cons in H by lia. apply ofold_cons_inv in H.
    destruct H as [[[[[o1 h1] s1] c1] g1] [E1 E2]]. cbv beta iota in E1. omon E1.
    injection E1 as -> -> -> -> ->.
    match goal with E : bm_ones_in_col _ _ _ _ = Ok ?r |- _ =>
      apply bm_ones_in_col_spec in E; destruct E as [NDr HIr]; rename r into rows end.
    match goal with E : ofold (st_lose_one m) _ _ = Ok _ |- _ => rename E into Ef end.
    assert (Hc : forall k, cnt (rowN A k) col ec =
                 (if cell A k col =? 1 then 1 else 0) + cnt (rowN A k) (col + 1) ec).
    { intros k. apply cnt_first. lia. }
    assert (Hpre : forall x, In x rows -> i <= x /\ 1 <= nth (N.to_nat x) opr 0).
    { intros x Hx. apply HIr in Hx. destruct Hx as [Hx Hcx]. split; [lia|].
      rewrite Hinv by exact Hx. rewrite Hc, Hcx, N.eqb_refl. lia. }
    destruct (fold_lose _ i _ _ _ _ _ _ _ _ _ Ef NDr Hpre HS) as [Len1 [HS1 [K1 K2]]].
    pose proof (fold_lose_hist _ i _ _ _ _ _ _ _ _ _ Ef NDr Hpre HS K Len) as Kh.
    apply (IH (col + 1) _ _ _ _ _ _ _ _ _ _ ltac:(lia) ltac:(lia) ltac:(lia) E2 HS1); [|exact Kh|].
    + intros k Hk. destruct (in_dec N.eq_dec k rows) as [Hin|Hnin].
      * rewrite K1 by exact Hin. rewrite Hinv by exact Hk. rewrite Hc.
        apply HIr in Hin. destruct Hin as [_ Hcx]. rewrite Hcx, N.eqb_refl. lia.
      * rewrite K2 by exact Hnin. rewrite Hinv by exact Hk. rewrite Hc.
        destruct (N.eqb_spec (cell A k col) 1) as [Hcx|_]; [|lia].
        exfalso. apply Hnin. apply HIr. split; [exact Hk | exact Hcx].
    + unfold lenN in *. rewrite Len1. exact Len.
Qed.

Lemma edges_fold_frame_h m A sc ec cand : forall s1 s2,
  ofold (fun row s1 =>
          obind (getN (st_opr s1) row) (fun o =>
          if o =? 2 then st_add_graph_edge m s1 A row sc ec else Ok s1)) cand s1 = Ok s2 ->
  st_opr s2 = st_opr s1 /\ st_hist s2 = st_hist s1.
Proof.
  induction cand as [|a t IH]; intros s1 s2 H.
  - cbn in H. injection H as <-. split; reflexivity.
  - apply ofold_cons_inv in H. destruct H as [sm [E1 E2]]. cbv beta in E1. omon E1.
    destruct (IH _ _ E2) as [F1 F2]. rewrite F1, F2.
    destruct (_ =? 2).
    + destruct (st_add_graph_edge_frame _ _ _ _ _ _ _ E1) as [g ->]. split; reflexivity.
    + injection E1 as <-. split; reflexivity.
Qed.

Lemma hist_resize m st A Mn Wn i er ec ec' pco st' :
  hist_ok st -> lenN A < 4294967296 ->
  st_inv A st i er i ec -> dims A Mn Wn -> bin_mat A ->
  i < er -> er <= Mn -> i + 1 <= ec' -> ec' <= ec -> ec <= Wn -> Wn < 65536 ->
  bm_ones_in_col A i (i + 1) er = Ok pco ->
  (forall j, i < j < ec' -> cell A i j = 0) ->
  st_resize m st A (i + 1) er (i + 1) ec' pco = Ok st' ->
  hist_ok st'.
Proof.
  intros K HA [H1 H2 H3 H4 H5 H6 H7] _ _ Hier _ Hec1 Hec2 _ _ Hpco Hrow H.
  apply hist_ok_HK in K.
  assert (Len : lenN (st_opr st) < 4294967296) by (rewrite H4; exact HA).
  unfold st_resize in H. rewrite H1, H2, H3 in H. omon H.
  injection H as <-.
  match goal with E : bm_get A i i = Ok ?v |- _ => apply bm_get_inv in E; subst v end.
  match goal with E : ofold (st_lose_one m) pco (?a, ?b, ?c, []) = Ok (?a', ?b', ?c', ?d') |- _ =>
    rename E into Ep; rename a into opr0; rename b into hist0; rename c into single0;
    rename a' into opr1; rename b' into hist1; rename c' into single1; rename d' into cand1 end.
  match goal with E : (if cell A i i =? 1 then _ else _) = Ok _ |- _ => rename E into Es end.
  match goal with E : ofold _ (seqN ec' ec) _ = Ok (?a, ?b, ?c, ?d, ?g) |- _ =>
    rename E into Ec; rename a into opr2; rename b into hist2; rename c into single2 end.
  match goal with E : ofold _ _ _ = Ok ?s |- hist_ok (mkSt (st_od ?s) _ _ _ _ _ _ _) =>
    apply edges_fold_frame_h in E; cbn [st_opr st_hist] in E; destruct E as [Eo2 Eh2] end.
  apply hist_ok_HK. cbn [st_opr st_hist]. rewrite Eo2, Eh2. clear Eo2 Eh2.
  assert (Hc : forall k, cnt (rowN A k) i ec =
               (if cell A k i =? 1 then 1 else 0) + cnt (rowN A k) (i + 1) ec).
  { intros k. apply cnt_first. lia. }
  (* the one of row i in column i *)
  assert (S0 : length opr0 = length (st_opr st) /\ SI i opr0 single0 /\ HK opr0 hist0 /\
               nth (N.to_nat i) opr0 0 = cnt (rowN A i) (i + 1) ec /\
               forall k, k <> i -> nth (N.to_nat k) opr0 0 = nth (N.to_nat k) (st_opr st) 0).
  { assert (HS : SI i (st_opr st) (st_single st)) by (split; assumption).
    pose proof (H5 i ltac:(lia)) as Hi. rewrite Hc in Hi.
    destruct (N.eqb_spec (cell A i i) 1) as [C1|C1].
    - omon Es. injection Es as <- <- <-.
      match goal with E : am_dec _ _ _ _ = Ok _ |- _ => apply am_dec_inv in E; [destruct E as [L ->] | lia] end.
      match goal with E : getN _ _ = Ok ?o |- _ =>
        apply (getN_inv _ _ _ 0) in E; destruct E as [_ Eo]; rewrite nth_upd_same in Eo by exact L;
        rename o into ones end.
      assert (Eold : nth (N.to_nat i) (st_opr st) 0 = ones + 1) by lia.
      match goal with Ed : h_dec _ _ _ = Ok ?h1, Ei : h_inc _ ?h1 _ = Ok _ |- _ =>
        pose proof (hist_step _ _ _ _ _ _ _ _ K Len L Eold Ed Ei) as K0 end.
      rewrite <- Eo.
      destruct (SI_dec i (st_opr st) (st_single st) i ones HS ltac:(lia) L ltac:(lia)) as [D0 [Dn _]].
      split; [apply upd_nth_length|]. split; [|split; [exact K0|]].
      + destruct (N.eqb_spec ones 0) as [Z|NZ]; [apply D0; exact Z | apply Dn; exact NZ].
      + split.
        * rewrite nth_upd_same by exact L. lia.
        * intros k Hk. apply nth_upd_other. lia.
    - injection Es as <- <- <-. split; [reflexivity|]. split; [exact HS|]. split; [exact K|].
      split; [lia | reflexivity]. }
  destruct S0 as [Len0 [HS0 [K0 [V0 O0]]]].
  assert (LenN0 : lenN opr0 < 4294967296) by (unfold lenN in *; rewrite Len0; exact Len).
  (* the other rows with a one in column i *)
  pose proof (bm_ones_in_col_spec _ _ _ _ _ Hpco) as [NDp HIp].
  assert (Hpre : forall x, In x pco -> i <= x /\ 1 <= nth (N.to_nat x) opr0 0).
  { intros x Hx. apply HIp in Hx. destruct Hx as [Hx Hcx]. split; [lia|].
    rewrite O0 by lia. rewrite H5 by lia. rewrite Hc, Hcx, N.eqb_refl. lia. }
  destruct (fold_lose _ i _ _ _ _ _ _ _ _ _ Ep NDp Hpre HS0) as [Len1 [HS1 [K1 K2]]].
  pose proof (fold_lose_hist _ i _ _ _ _ _ _ _ _ _ Ep NDp Hpre HS0 K0 LenN0) as Kh1.
  assert (LenN1 : lenN opr1 < 4294967296) by (unfold lenN in *; rewrite Len1; exact LenN0).
  (* the removed columns *)
  apply (cols_loop_hist m A i er ec ec' _ ec' _ _ _ _ _ _ _ _ _ _ eq_refl (N.le_refl ec') Hec2 Ec HS1);
    [|exact Kh1|exact LenN1].
  intros k Hk. rewrite <- (cnt_split _ (i + 1) ec' ec) by lia.
  destruct (in_dec N.eq_dec k pco) as [Hin|Hnin].
  - rewrite K1 by exact Hin. apply HIp in Hin. destruct Hin as [Hk' Hcx].
    rewrite O0 by lia. rewrite H5 by lia. rewrite Hc, Hcx, N.eqb_refl. lia.
  - rewrite K2 by exact Hnin. destruct (N.eq_dec k i) as [->|Hki]; [exact V0|].
    rewrite O0 by exact Hki. rewrite H5 by lia. rewrite Hc.
    destruct (N.eqb_spec (cell A k i) 1) as [Hcx|_]; [|lia].
    exfalso. apply Hnin. apply HIp. split; [lia | exact Hcx].
Qed.

(* ================= recompute row ================= *)

Lemma hist_recompute m st A A' i er sc ec row st' :
  hist_ok st -> lenN A < 4294967296 ->
  st_inv A st i er sc ec -> i <= row < er -> er <= lenN A -> ec < 65536 ->
  lenN A' = lenN A ->
  st_recompute_row m st A' row = Ok st' -> hist_ok st'.
Proof.
  intros K HA [H1 H2 H3 H4 H5 H6 H7] Hrow Her Hec HL H. apply hist_ok_HK in K.
  assert (Len : lenN (st_opr st) < 4294967296) by (rewrite H4; exact HA).
  unfold st_recompute_row in H. omon H.
  match goal with E : bm_count_ones _ _ _ _ = Ok ?o |- _ =>
    apply bm_count_ones_inv in E; rewrite H1, H2 in E; rename o into ones; rename E into Eones end.
  match goal with E : putN _ _ _ = Ok ?o |- _ =>
    apply putN_inv in E; destruct E as [Lr Eo]; rename o into opr end.
  rewrite Eones, u16_cnt in Eo by exact Hec. rewrite <- Eones in Eo.
  match goal with E : getN (st_opr st) row = Ok ?o |- _ =>
    apply (getN_inv _ _ _ 0) in E; destruct E as [_ Eold]; rename o into old end.
  symmetry in Eold.
  match goal with Ed : h_dec _ _ _ = Ok ?h1, Ei : h_inc _ ?h1 _ = Ok _ |- _ =>
    pose proof (hist_step _ _ _ _ _ _ _ _ K Len Lr Eold Ed Ei) as K1 end.
  rewrite <- Eo in K1.
  destruct (ones =? 2).
  - destruct (st_add_graph_edge_frame _ _ _ _ _ _ _ H) as [g ->]. apply HK_set_g.
    apply hist_ok_HK. exact K1.
  - injection H as <-. apply hist_ok_HK. exact K1.
Qed.

(* ================= selection answers None ================= *)

Lemma find_r_none h ks : find_r h ks = None -> forall k, In k ks -> h_get h k = 0.
Proof.
  induction ks as [|a t IH]; cbn [find_r]; intros H k Hin; [destruct Hin|].
  destruct (N.ltb_spec 0 (h_get h a)) as [L|L]; [discriminate|].
  destruct Hin as [<-|Hin]; [lia | exact (IH H k Hin)].
Qed.

(* no row selected: every row of V is zero on the columns of V *)
Lemma sel_none_spec m st A i er sc ec :
  st_inv A st i er sc ec -> hist_ok st -> er <= lenN A ->
  first_phase_selection m st A i er = Ok None ->
  forall k, i <= k < er -> cnt (rowN A k) sc ec = 0.
Proof.
  intros I K Her H k Hk. apply hist_ok_HK in K. unfold first_phase_selection in H.
  destruct (find_r _ _) as [r0|] eqn:Ef.
  - exfalso. destruct (r0 =? 2); omon H; discriminate.
  - pose proof (si_opr _ _ _ _ _ _ I k Hk) as Ek.
    rewrite (si_sc _ _ _ _ _ _ I), (si_ec _ _ _ _ _ _ I) in Ef.
    pose proof (si_len _ _ _ _ _ _ I) as Hl.
    destruct (N.eq_dec (cnt (rowN A k) sc ec) 0) as [Z|NZ]; [exact Z|]. exfalso.
    pose proof (cnt_le (rowN A k) sc ec) as Le.
    assert (Hin : In (cnt (rowN A k) sc ec) (seqN 1 (ec - sc + 1))) by (apply seqN_in; lia).
    pose proof (find_r_none _ _ Ef _ Hin) as Z. rewrite K in Z.
    assert (L : (N.to_nat k < length (st_opr st))%nat) by (unfold lenN in *; lia).
    pose proof (cntv_pos _ (st_opr st) (N.to_nat k) L Ek) as Pos. unfold cntv in Pos. lia.
Qed.
