(* Proofs about Model/DenseMatrix.v, part 4: the refinement relation between a dense matrix and an
   abstract bit matrix (agreement on the cells the interface defines), its preservation by every
   admissible operation, equality of all query answers, and the lifting to operation sequences. *)
From Coq Require Import NArith ZArith List Bool Lia Arith ZifyBool ZifyN.
From RQ Require Import Base.Outcome Base.Ints Base.ListX Spec.BitMatrix Model.DenseMatrix
  Proofs.DenseBits Proofs.DenseMatrixProofs Proofs.DenseQueries Proofs.DenseResize.
Import ListNotations.
Open Scope N_scope.

Definition refines (m : dmat) (a : bitmat) : Prop :=
  dm_inv m /\ bh a = N.to_nat (height m) /\ bw a = N.to_nat (width m) /\
  forall i j, (i < bh a)%nat -> (j < bw a)%nat -> bm_def a i j = true -> bm_get a i j = dm_bitn m i j.

(* restrictions that are specific to the dense implementation (not part of the interface):
   - resize to width 0 with rows remaining trips resize's own final assert;
   - get_ones_in_column returns rows as u32 *)
Definition dense_ok (o : op) (a : bitmat) : bool :=
  match o with
  | OResize nh nw => (0 <? nw) || (nh =? 0) || (N.of_nat (bw a) =? 0)
  | OOnesInCol _ _ _ => N.of_nat (bh a) <=? 2 ^ 32
  | _ => true
  end.

Lemma refines_abs m : dm_inv m -> refines m (dm_abs m).
Proof.
  intros H. split; [exact H|]. split; [reflexivity|]. split; [reflexivity|].
  intros i j Hi Hj _. rewrite abs_bh in Hi. rewrite abs_bw in Hj. apply abs_get_nat; assumption.
Qed.

Lemma refines_make m h w f d :
  dm_inv m -> h = N.to_nat (height m) -> w = N.to_nat (width m) ->
  (forall i j, (i < h)%nat -> (j < w)%nat -> d i j = true -> f i j = dm_bitn m i j) ->
  refines m (bm_make h w f d).
Proof.
  intros Hinv Hh Hw Hc. split; [exact Hinv|]. split; [exact Hh|]. split; [exact Hw|].
  cbn [bm_make bh bw]. intros i j Hi Hj Hd.
  rewrite bm_make_def in Hd by assumption. rewrite bm_make_get by assumption. apply Hc; assumption.
Qed.

(* when every cell of the abstract result is defined, refinement is equality with the abstraction *)
Lemma refines_all_def_eq m h w f d :
  refines m (bm_make h w f d) -> (forall i j, (i < h)%nat -> (j < w)%nat -> d i j = true) ->
  dm_abs m = bm_make h w f d.
Proof.
  intros [Hinv [Hh [Hw Hc]]] Hd. cbn [bm_make bh bw] in Hh, Hw, Hc. unfold dm_abs.
  rewrite <- Hh, <- Hw. apply bm_make_ext; intros i j Hi Hj.
  - specialize (Hc i j Hi Hj). rewrite bm_make_def, bm_make_get in Hc by assumption.
    symmetry. apply Hc. apply Hd; assumption.
  - symmetry. apply Hd; assumption.
Qed.

Lemma eqb_nat_N x y : (N.of_nat x =? y) = Nat.eqb x (N.to_nat y).
Proof.
  destruct (Nat.eqb x (N.to_nat y)) eqn:E.
  - apply Nat.eqb_eq in E. apply N.eqb_eq. lia.
  - apply Nat.eqb_neq in E. apply N.eqb_neq. lia.
Qed.

Lemma swp_nat_N i j r : N.of_nat (swp (N.to_nat i) (N.to_nat j) r) = swpN i j (N.of_nat r).
Proof.
  unfold swp, swpN. rewrite !eqb_nat_N.
  destruct (Nat.eqb r (N.to_nat i)); [lia|]. destruct (Nat.eqb r (N.to_nat j)); lia.
Qed.

Lemma swp_lt i j r n : (i < n)%nat -> (j < n)%nat -> (r < n)%nat -> (swp i j r < n)%nat.
Proof. intros. unfold swp. destruct (Nat.eqb r i); [assumption|]. destruct (Nat.eqb r j); assumption. Qed.

Lemma nz_b2n b : nz (b2n b) = b. Proof. destruct b; reflexivity. Qed.

Lemma all_def_row_spec a row s e c :
  all_def_row a row s e = true -> (s <= c < e)%nat -> bm_def a row c = true.
Proof.
  intros H Hc. unfold all_def_row in H. rewrite forallb_forall in H. apply H. apply in_seq. lia.
Qed.
Lemma all_def_col_spec a col s e r :
  all_def_col a col s e = true -> (s <= r < e)%nat -> bm_def a r col = true.
Proof.
  intros H Hc. unfold all_def_col in H. rewrite forallb_forall in H. apply H. apply in_seq. lia.
Qed.

Ltac bsplit H :=
  repeat match type of H with
  | (_ && _) = true => let H2 := fresh H in apply andb_true_iff in H; destruct H as [H H2]
  end.

(* ---------------- mutating operations ---------------- *)

Lemma sim_set m a i j v : refines m a -> adm (OSet i j v) a = true ->
  exists m', dm_set m i j v = Ok m' /\ refines m' (bm_set a (N.to_nat i) (N.to_nat j) (negb (v =? 0))).
Proof.
  intros [Hinv [Hh [Hw Hc]]] Hadm. cbn [adm] in Hadm. rewrite Hh, Hw, !N2Nat.id in Hadm. bsplit Hadm.
  destruct (dm_set_ok m i j v Hinv) as [m' [Hs [Hinv' [Hh' [Hw' Hb]]]]]; try lia.
  exists m'. split; [exact Hs|]. unfold bm_set.
  apply refines_make; try assumption; try congruence.
  intros r c Hr Hcc Hd. unfold dm_bitn. rewrite Hb by lia. rewrite !eqb_nat_N.
  destruct (Nat.eqb r (N.to_nat i) && Nat.eqb c (N.to_nat j)); [reflexivity|].
  apply Hc; assumption.
Qed.

Lemma sim_swap_rows m a i j : refines m a -> adm (OSwapRows i j) a = true ->
  exists m', dm_swap_rows m i j = Ok m' /\ refines m' (bm_swap_rows a (N.to_nat i) (N.to_nat j)).
Proof.
  intros [Hinv [Hh [Hw Hc]]] Hadm. cbn [adm] in Hadm. rewrite Hh, !N2Nat.id in Hadm. bsplit Hadm.
  destruct (dm_swap_rows_ok m i j Hinv) as [m' [Hs [Hinv' [Hh' [Hw' Hb]]]]]; try lia.
  exists m'. split; [exact Hs|]. unfold bm_swap_rows.
  apply refines_make; try assumption; try congruence.
  intros r c Hr Hcc Hd. unfold dm_bitn. rewrite Hb by lia.
  fold (swpN i j (N.of_nat r)). rewrite <- swp_nat_N.
  apply Hc; try assumption. apply swp_lt; lia.
Qed.

Lemma hint_ok_spec a i j hint r : hint_ok a i j hint = true -> (r < hint)%nat -> (r < bh a)%nat ->
  bm_def a r i = bm_def a r j /\ (bm_def a r i = true -> bm_get a r i = bm_get a r j).
Proof.
  intros H Hr Hrh. unfold hint_ok in H. rewrite forallb_forall in H.
  specialize (H r ltac:(apply in_seq; lia)). apply andb_true_iff in H. destruct H as [H1 H2].
  apply eqb_prop in H1. split; [exact H1|]. intros Hd. rewrite Hd in H2. cbn [negb orb] in H2.
  apply eqb_prop in H2. exact H2.
Qed.

Lemma sim_swap_columns m a i j hint : refines m a -> adm (OSwapCols i j hint) a = true ->
  exists m', dm_swap_columns m i j hint = Ok m' /\
    refines m' (bm_swap_columns a (N.to_nat i) (N.to_nat j) (N.to_nat (N.min hint (N.of_nat (bh a))))).
Proof.
  intros [Hinv [Hh [Hw Hc]]] Hadm. cbn [adm] in Hadm. bsplit Hadm.
  rewrite Hw, N2Nat.id in Hadm, Hadm1.
  destruct (dm_swap_columns_ok m i j hint Hinv) as [m' [Hs [Hinv' [Hh' [Hw' Hb]]]]]; try lia.
  exists m'. split; [exact Hs|]. unfold bm_swap_columns.
  apply refines_make; try assumption; try congruence.
  intros r c Hr Hcc Hd. unfold dm_bitn. rewrite Hb by lia.
  destruct (hint <=? N.of_nat r) eqn:E.
  - rewrite <- swp_nat_N. apply Hc; try assumption. apply swp_lt; lia.
  - apply N.leb_gt in E.
    destruct (hint_ok_spec a (N.to_nat i) (N.to_nat j) _ r Hadm0) as [Hd1 Hd2]; [lia | lia |].
    unfold swp in *.
    destruct (Nat.eqb c (N.to_nat i)) eqn:E1.
    + apply Nat.eqb_eq in E1. subst c. rewrite <- Hd2 by congruence. apply Hc; try lia; try congruence.
    + destruct (Nat.eqb c (N.to_nat j)) eqn:E2.
      * apply Nat.eqb_eq in E2. subst c. rewrite Hd2 by exact Hd. apply Hc; try lia; try congruence.
      * apply Hc; assumption.
Qed.

Lemma sim_add_rows m a d s c : refines m a -> adm (OAddRows d s c) a = true ->
  exists m', dm_add_assign_rows m d s c = Ok m' /\
    refines m' (bm_add_assign_rows a (N.to_nat d) (N.to_nat s) (N.to_nat c)) /\
    (* the dense matrix keeps ALL cells exact, also those the interface leaves undefined *)
    (forall i j, (i < bh a)%nat -> (j < bw a)%nat ->
       dm_bitn m' i j = if Nat.eqb i (N.to_nat d) then xorb (dm_bitn m (N.to_nat d) j) (dm_bitn m (N.to_nat s) j)
                        else dm_bitn m i j).
Proof.
  intros [Hinv [Hh [Hw Hc]]] Hadm. cbn [adm] in Hadm. rewrite Hh, Hw, !N2Nat.id in Hadm. bsplit Hadm.
  destruct (dm_add_assign_rows_ok m d s c Hinv) as [m' [Hs [Hinv' [Hh' [Hw' Hb]]]]]; try lia.
  exists m'. split; [exact Hs|].
  assert (Hx : forall i j, (i < bh a)%nat -> (j < bw a)%nat ->
       dm_bitn m' i j = if Nat.eqb i (N.to_nat d) then xorb (dm_bitn m (N.to_nat d) j) (dm_bitn m (N.to_nat s) j)
                        else dm_bitn m i j).
  { intros i j Hi Hj. unfold dm_bitn. rewrite Hb by lia. rewrite eqb_nat_N, !N2Nat.id. reflexivity. }
  split; [|exact Hx]. unfold bm_add_assign_rows.
  apply refines_make; try assumption; try congruence.
  intros i j Hi Hj Hd. rewrite Hx by congruence.
  destruct (Nat.eqb i (N.to_nat d)) eqn:E; [|apply Hc; assumption].
  destruct (Nat.ltb j (N.to_nat c)); [discriminate|].
  apply andb_true_iff in Hd. destruct Hd as [Hd1 Hd2].
  rewrite (Hc (N.to_nat d) j), (Hc (N.to_nat s) j) by (try assumption; lia). reflexivity.
Qed.

Lemma sim_resize m a nh nw : refines m a -> adm (OResize nh nw) a = true ->
  dense_ok (OResize nh nw) a = true ->
  exists m', dm_resize m nh nw = Ok m' /\ refines m' (bm_resize a (N.to_nat nh) (N.to_nat nw)).
Proof.
  intros [Hinv [Hh [Hw Hc]]] Hadm Hok. cbn [adm] in Hadm. cbn [dense_ok] in Hok.
  rewrite Hh, Hw, !N2Nat.id in *. bsplit Hadm.
  destruct (dm_resize_ok m nh nw Hinv) as [m' [Hs [Hinv' [Hh' [Hw' Hb]]]]]; try lia.
  exists m'. split; [exact Hs|]. unfold bm_resize.
  apply refines_make; try assumption; try congruence.
  intros r c Hr Hcc Hd. unfold dm_bitn. rewrite Hb by lia. apply Hc; try assumption; lia.
Qed.

(* ---------------- queries ---------------- *)

Lemma sim_get m a i j : refines m a -> adm (OGet i j) a = true ->
  dm_get m i j = Ok (b2n (bm_get a (N.to_nat i) (N.to_nat j))).
Proof.
  intros [Hinv [Hh [Hw Hc]]] Hadm. cbn [adm] in Hadm. rewrite Hh, Hw, !N2Nat.id in Hadm. bsplit Hadm.
  rewrite dm_get_ok by (try assumption; lia). rewrite Hc by (try assumption; lia).
  unfold dm_bitn. rewrite !N2Nat.id. reflexivity.
Qed.

Lemma q_count_ones_ext f g row s e :
  (forall c, (s <= c < e)%nat -> f row c = g row c) -> q_count_ones f row s e = q_count_ones g row s e.
Proof.
  intros H. unfold q_count_ones. f_equal. apply filter_ext_in'. intros c Hc. apply in_seq in Hc.
  apply H. lia.
Qed.

Lemma sim_count_ones fixed m a row s e : refines m a -> adm (OCountOnes row s e) a = true ->
  (fixed = true \/ s < e \/ e < width m \/ width m mod 64 <> 0 \/
   (row + 1) * row_word_width m < N.of_nat (length (elements m))) ->
  dm_count_ones fixed m row s e = Ok (N.of_nat (bm_count_ones a (N.to_nat row) (N.to_nat s) (N.to_nat e))).
Proof.
  intros [Hinv [Hh [Hw Hc]]] Hadm Hx. cbn [adm] in Hadm. rewrite Hh, Hw, !N2Nat.id in Hadm. bsplit Hadm.
  rewrite dm_count_ones_ok by (try assumption; lia). do 2 f_equal. unfold bm_count_ones.
  symmetry. apply q_count_ones_ext. intros c Hcr.
  apply Hc; try lia. apply (all_def_row_spec _ _ _ _ _ Hadm0). exact Hcr.
Qed.

Lemma row_iter_convert m a row s e : refines m a -> adm (ORowIter row s e) a = true ->
  map (fun c => (c, b2n (dm_bit m row c))) (range_from s e) =
  map (fun cb => (N.of_nat (fst cb), b2n (snd cb))) (bm_row a (N.to_nat row) (N.to_nat s) (N.to_nat e)).
Proof.
  intros [Hinv [Hh [Hw Hc]]] Hadm. cbn [adm] in Hadm. rewrite Hh, Hw, !N2Nat.id in Hadm. bsplit Hadm.
  unfold bm_row, q_row. rewrite range_from_nat, !map_map. apply map_ext_in. intros c Hcr.
  apply in_seq in Hcr. cbn [fst snd]. f_equal. f_equal.
  rewrite Hc; try lia.
  - unfold dm_bitn. rewrite N2Nat.id. reflexivity.
  - apply (all_def_row_spec _ _ _ _ _ Hadm0). lia.
Qed.

Lemma sim_row_iter_fixed m a row s e : refines m a -> adm (ORowIter row s e) a = true ->
  dm_get_row_iter true m row s e =
  Ok (map (fun cb => (N.of_nat (fst cb), b2n (snd cb))) (bm_row a (N.to_nat row) (N.to_nat s) (N.to_nat e))).
Proof.
  intros Hr Hadm. rewrite <- (row_iter_convert m a row s e Hr Hadm).
  destruct Hr as [Hinv [Hh [Hw Hc]]]. cbn [adm] in Hadm. rewrite Hh, Hw, !N2Nat.id in Hadm. bsplit Hadm.
  apply dm_get_row_iter_fixed_ok; try assumption; lia.
Qed.

Lemma sim_row_iter_pinned m a row s e : refines m a -> adm (ORowIter row s e) a = true ->
  (e < width m \/ width m mod 64 <> 0 \/ (row + 1 < height m /\ 0 < width m) \/
   (row + 1) * row_word_width m < N.of_nat (length (elements m))) ->
  dm_get_row_iter false m row s e =
  Ok (map (fun cb => (N.of_nat (fst cb), b2n (snd cb))) (bm_row a (N.to_nat row) (N.to_nat s) (N.to_nat e))).
Proof.
  intros Hr Hadm Hx. rewrite <- (row_iter_convert m a row s e Hr Hadm).
  destruct Hr as [Hinv [Hh [Hw Hc]]]. cbn [adm] in Hadm. rewrite Hh, Hw, !N2Nat.id in Hadm. bsplit Hadm.
  apply dm_get_row_iter_pinned_ok; try assumption; try lia.
  destruct Hx as [Hx|[Hx|[[Hx1 Hx2]|Hx]]]; auto.
  right. right. apply slack_from_next_row; assumption.
Qed.

Lemma sim_ones_in_column m a col s e : refines m a -> adm (OOnesInCol col s e) a = true ->
  dense_ok (OOnesInCol col s e) a = true ->
  dm_get_ones_in_column m col s e =
  Ok (map N.of_nat (bm_ones_in_column a (N.to_nat col) (N.to_nat s) (N.to_nat e))).
Proof.
  intros [Hinv [Hh [Hw Hc]]] Hadm Hok. cbn [adm] in Hadm. cbn [dense_ok] in Hok.
  rewrite Hh, Hw, !N2Nat.id in *. bsplit Hadm.
  rewrite dm_get_ones_in_column_ok by (try assumption; lia). do 2 f_equal.
  unfold bm_ones_in_column, q_ones_in_column. apply filter_ext_in'. intros r Hr. apply in_seq in Hr.
  symmetry. apply Hc; try lia. apply (all_def_col_spec _ _ _ _ _ Hadm0). lia.
Qed.

Lemma sim_non_zero_columns m a row s : refines m a -> adm (ONonZeroCols row s) a = true ->
  dm_query_non_zero_columns m row s =
  Ok (map N.of_nat (bm_non_zero_columns a (N.to_nat row) (N.to_nat s))).
Proof.
  intros [Hinv [Hh [Hw Hc]]] Hadm. cbn [adm] in Hadm. rewrite Hh, Hw, !N2Nat.id in Hadm. bsplit Hadm.
  rewrite dm_query_non_zero_columns_ok by (try assumption; lia). do 2 f_equal.
  unfold bm_non_zero_columns, q_non_zero_columns. rewrite Hw.
  apply filter_ext_in'. intros c Hcr. apply in_seq in Hcr.
  symmetry. apply Hc; try lia. apply (all_def_row_spec _ _ _ _ _ Hadm0). lia.
Qed.

Lemma sim_sub_row m a row s : refines m a -> adm (OSubRow row s) a = true ->
  exists ws, dm_get_sub_row_as_octets m row s = Ok (ws, width m - s) /\
    N.of_nat (length ws) = ceil_div (width m - s) 64 /\
    bov_to_octet_vec ws (width m - s) = Ok (map b2n (bm_sub_row a (N.to_nat row) (N.to_nat s))).
Proof.
  intros [Hinv [Hh [Hw Hc]]] Hadm. cbn [adm] in Hadm. rewrite Hh, !N2Nat.id in Hadm.
  bsplit Hadm. rewrite Hw, N2Nat.id in Hadm1.
  destruct (dm_get_sub_row_ok m row s Hinv) as [ws [H1 [H2 [_ H3]]]]; try lia.
  exists ws. split; [exact H1|]. split; [exact H2|]. rewrite H3. do 2 f_equal.
  unfold bm_sub_row, q_sub_row. rewrite Hw. apply map_ext_in. intros c Hcr. apply in_seq in Hcr.
  symmetry. apply Hc; try lia. apply (all_def_row_spec _ _ _ _ _ Hadm0). lia.
Qed.

(* ---------------- one step, then sequences ---------------- *)

Lemma map_nz_b2n l : map nz (map b2n l) = l.
Proof. rewrite map_map. rewrite <- (map_id l) at 2. apply map_ext. apply nz_b2n. Qed.

Lemma step_sim m a o : refines m a -> adm o a = true -> dense_ok o a = true ->
  exists m', dm_step true m o = Ok (m', snd (bm_step a o)) /\ refines m' (fst (bm_step a o)).
Proof.
  intros Hr Hadm Hok. destruct o; cbn [dm_step bm_step fst snd].
  - destruct (sim_set m a i j v Hr Hadm) as [m' [H1 H2]]. rewrite H1. cbn [obind]. eauto.
  - rewrite (sim_get m a i j Hr Hadm). cbn [obind]. rewrite nz_b2n. eauto.
  - destruct (sim_swap_rows m a i j Hr Hadm) as [m' [H1 H2]]. rewrite H1. cbn [obind]. eauto.
  - destruct (sim_swap_columns m a i j hint Hr Hadm) as [m' [H1 H2]]. rewrite H1. cbn [obind]. eauto.
  - destruct (sim_add_rows m a dest src start_col Hr Hadm) as [m' [H1 [H2 _]]]. rewrite H1. cbn [obind]. eauto.
  - destruct (sim_resize m a new_h new_w Hr Hadm Hok) as [m' [H1 H2]]. rewrite H1. cbn [obind]. eauto.
  - rewrite (sim_count_ones true m a row s e Hr Hadm) by (left; reflexivity). cbn [obind].
    rewrite Nat2N.id. eauto.
  - rewrite (sim_row_iter_fixed m a row s e Hr Hadm). cbn [obind].
    rewrite map_map. cbn [fst snd].
    exists m. split; [|exact Hr]. do 4 f_equal. rewrite <- (map_id (bm_row _ _ _ _)) at 2.
    apply map_ext. intros [c b]. cbn [fst snd]. rewrite Nat2N.id, nz_b2n. reflexivity.
  - rewrite (sim_ones_in_column m a col s e Hr Hadm Hok). cbn [obind].
    exists m. split; [|exact Hr]. do 4 f_equal. rewrite map_map.
    rewrite <- (map_id (bm_ones_in_column _ _ _ _)) at 2. apply map_ext. intros x. apply Nat2N.id.
  - destruct (sim_sub_row m a row s Hr Hadm) as [ws [H1 [_ H3]]]. rewrite H1. cbn [obind].
    rewrite H3. cbn [obind]. rewrite map_nz_b2n. eauto.
  - rewrite (sim_non_zero_columns m a row s Hr Hadm). cbn [obind].
    exists m. split; [|exact Hr]. do 4 f_equal. rewrite map_map.
    rewrite <- (map_id (bm_non_zero_columns _ _ _)) at 2. apply map_ext. intros x. apply Nat2N.id.
  - eauto.
  - eauto.
  - eauto.
Qed.

Fixpoint dense_ok_seq (a : bitmat) (ops : list op) : bool :=
  match ops with
  | [] => true
  | o :: t => dense_ok o a && dense_ok_seq (fst (bm_step a o)) t
  end.

Lemma exec_sim ops : forall m a, refines m a -> adm_seq a ops = true -> dense_ok_seq a ops = true ->
  exists m', dm_exec true m ops = Ok (m', snd (bm_exec a ops)) /\ refines m' (fst (bm_exec a ops)).
Proof.
  induction ops as [|o t IH]; intros m a Hr Hadm Hok; cbn [dm_exec bm_exec fst snd].
  - eauto.
  - cbn [adm_seq dense_ok_seq] in Hadm, Hok.
    apply andb_true_iff in Hadm. destruct Hadm as [Ha1 Ha2].
    apply andb_true_iff in Hok. destruct Hok as [Ho1 Ho2].
    destruct (step_sim m a o Hr Ha1 Ho1) as [m1 [H1 H2]]. rewrite H1. cbn [obind].
    destruct (bm_step a o) as [a1 r] eqn:Es. cbn [fst snd] in *.
    destruct (IH m1 a1 H2 Ha2 Ho2) as [m2 [H3 H4]]. rewrite H3. cbn [obind].
    destruct (bm_exec a1 t) as [a2 rs]. cbn [fst snd] in *. eauto.
Qed.

(* the executable entry points agree on admissible sequences *)
Lemma run_sim ops : forall m a, refines m a ->
  (forall l, In l ops -> decode_op l <> None) ->
  adm_seq a (fold_right (fun l acc => match decode_op l with Some o => o :: acc | None => acc end) [] ops) = true ->
  dense_ok_seq a (fold_right (fun l acc => match decode_op l with Some o => o :: acc | None => acc end) [] ops) = true ->
  dm_run_from true m ops = bm_run_from a ops.
Proof.
  induction ops as [|l t IH]; intros m a Hr Hdec Hadm Hok; cbn [dm_run_from bm_run_from]; [reflexivity|].
  cbn [fold_right] in Hadm, Hok.
  destruct (decode_op l) as [o|] eqn:Ed; [| exfalso; apply (Hdec l); [left; reflexivity | exact Ed]].
  cbn [adm_seq dense_ok_seq] in Hadm, Hok.
  apply andb_true_iff in Hadm. destruct Hadm as [Ha1 Ha2].
  apply andb_true_iff in Hok. destruct Hok as [Ho1 Ho2].
  rewrite Ha1. destruct (step_sim m a o Hr Ha1 Ho1) as [m1 [H1 H2]]. rewrite H1.
  destruct (bm_step a o) as [a1 r]. cbn [fst snd] in *. f_equal.
  apply IH; try assumption. intros l' Hl'. apply Hdec. right. exact Hl'.
Qed.

(* ---------------- corollaries in terms of the abstraction function ---------------- *)

Lemma refines_agree m a : refines m a -> bm_agree (dm_abs m) a.
Proof.
  intros [Hinv [Hh [Hw Hc]]]. split; [rewrite abs_bh; congruence|]. split; [rewrite abs_bw; congruence|].
  intros i j Hi Hj Hd. rewrite abs_get_nat by lia. symmetry. apply Hc; assumption.
Qed.

Lemma refines_inv m a : refines m a -> dm_inv m.
Proof. intros [H _]. exact H. Qed.

Lemma abs_set_eq m i j v : dm_inv m -> adm (OSet i j v) (dm_abs m) = true ->
  exists m', dm_set m i j v = Ok m' /\ dm_inv m' /\
    dm_abs m' = bm_set (dm_abs m) (N.to_nat i) (N.to_nat j) (negb (v =? 0)).
Proof.
  intros Hinv Hadm. destruct (sim_set m _ i j v (refines_abs m Hinv) Hadm) as [m' [H1 H2]].
  exists m'. split; [exact H1|]. split; [exact (refines_inv _ _ H2)|].
  apply refines_all_def_eq; [exact H2|]. intros r c Hr Hc. cbv beta.
  destruct (_ && _); [reflexivity|]. apply abs_def_nat; assumption.
Qed.

Lemma abs_swap_rows_eq m i j : dm_inv m -> adm (OSwapRows i j) (dm_abs m) = true ->
  exists m', dm_swap_rows m i j = Ok m' /\ dm_inv m' /\
    dm_abs m' = bm_swap_rows (dm_abs m) (N.to_nat i) (N.to_nat j).
Proof.
  intros Hinv Hadm. destruct (sim_swap_rows m _ i j (refines_abs m Hinv) Hadm) as [m' [H1 H2]].
  exists m'. split; [exact H1|]. split; [exact (refines_inv _ _ H2)|].
  apply refines_all_def_eq; [exact H2|]. intros r c Hr Hc. cbv beta.
  cbn [adm] in Hadm. rewrite abs_bh, N2Nat.id in Hadm. rewrite abs_bh in Hr. rewrite abs_bw in Hc.
  apply abs_def_nat; [|assumption]. apply swp_lt; lia.
Qed.

Lemma abs_swap_columns_eq m i j hint : dm_inv m -> adm (OSwapCols i j hint) (dm_abs m) = true ->
  exists m', dm_swap_columns m i j hint = Ok m' /\ dm_inv m' /\
    dm_abs m' = bm_swap_columns (dm_abs m) (N.to_nat i) (N.to_nat j) (N.to_nat (N.min hint (height m))).
Proof.
  intros Hinv Hadm. destruct (sim_swap_columns m _ i j hint (refines_abs m Hinv) Hadm) as [m' [H1 H2]].
  exists m'. split; [exact H1|]. split; [exact (refines_inv _ _ H2)|].
  rewrite abs_bh, N2Nat.id in H2.
  apply refines_all_def_eq; [exact H2|]. intros r c Hr Hc. cbv beta.
  cbn [adm] in Hadm. rewrite abs_bw, N2Nat.id in Hadm. rewrite abs_bh in Hr. rewrite abs_bw in Hc.
  apply abs_def_nat; [assumption|]. apply swp_lt; lia.
Qed.

Lemma abs_resize_eq m nh nw : dm_inv m -> adm (OResize nh nw) (dm_abs m) = true ->
  (0 < nw \/ nh = 0 \/ width m = 0) ->
  exists m', dm_resize m nh nw = Ok m' /\ dm_inv m' /\
    dm_abs m' = bm_resize (dm_abs m) (N.to_nat nh) (N.to_nat nw).
Proof.
  intros Hinv Hadm Hz.
  assert (Hok : dense_ok (OResize nh nw) (dm_abs m) = true).
  { cbn [dense_ok]. rewrite abs_bw, N2Nat.id. lia. }
  destruct (sim_resize m _ nh nw (refines_abs m Hinv) Hadm Hok) as [m' [H1 H2]].
  exists m'. split; [exact H1|]. split; [exact (refines_inv _ _ H2)|].
  apply refines_all_def_eq; [exact H2|]. intros r c Hr Hc.
  cbn [adm] in Hadm. rewrite abs_bh, abs_bw, !N2Nat.id in Hadm.
  apply abs_def_nat; lia.
Qed.

Lemma abs_add_rows m d s c : dm_inv m -> adm (OAddRows d s c) (dm_abs m) = true ->
  exists m', dm_add_assign_rows m d s c = Ok m' /\ dm_inv m' /\
    cell (dm_abs m') = cell (bm_add_assign_rows (dm_abs m) (N.to_nat d) (N.to_nat s) (N.to_nat c)) /\
    bm_agree (dm_abs m') (bm_add_assign_rows (dm_abs m) (N.to_nat d) (N.to_nat s) (N.to_nat c)).
Proof.
  intros Hinv Hadm. pose proof (refines_abs m Hinv) as Hr0.
  destruct (sim_add_rows m _ d s c Hr0 Hadm) as [m' [H1 [H2 H3]]].
  exists m'. split; [exact H1|]. split; [exact (refines_inv _ _ H2)|]. split; [|exact (refines_agree _ _ H2)].
  destruct H2 as [_ [Hh [Hw _]]]. cbn [bm_add_assign_rows bm_make bh bw] in Hh, Hw.
  unfold dm_abs at 1. unfold bm_add_assign_rows. cbn [bm_make cell]. rewrite <- Hh, <- Hw.
  cbn [adm] in Hadm. rewrite abs_bh, abs_bw, !N2Nat.id in Hadm.
  apply tab_ext. intros i j Hi Hj. fold (dm_bitn m' i j). rewrite H3 by assumption.
  rewrite abs_bh in Hi. rewrite abs_bw in Hj.
  rewrite !abs_get_nat by lia. reflexivity.
Qed.

(* ---------------- statements pinned in Props/C16.v whose proofs are longer than two lines ---------------- *)

Lemma row_iter_pinned_refuted : exists m row,
  dm_inv m /\ adm (ORowIter row 0 64) (dm_abs m) = true /\
  dm_get_row_iter false m row 0 64 = Panic PIndex.
Proof.
  destruct (conj (dm_new_inv 64 64) (dm_new_abs 64 64)) as [Hinv _].
  destruct (abs_resize_eq (dm_new 64 64) 64 64 Hinv) as [m [Hr [Hinv' Habs]]];
    [vm_compute; reflexivity | left; reflexivity |].
  exists m, 63. split; [exact Hinv'|].
  assert (Em : m = mkdm 64 64 (repeat 0 64)).
  { assert (E : dm_resize (dm_new 64 64) 64 64 = Ok (mkdm 64 64 (repeat 0 64))) by (vm_compute; reflexivity).
    rewrite E in Hr. inversion Hr. reflexivity. }
  subst m. split; vm_compute; reflexivity.
Qed.

Lemma dense_sequence : forall h w ops,
  adm_seq (bm_new (N.to_nat h) (N.to_nat w)) ops = true ->
  dense_ok_seq (bm_new (N.to_nat h) (N.to_nat w)) ops = true ->
  exists m',
    dm_exec true (dm_new h w) ops = Ok (m', snd (bm_exec (bm_new (N.to_nat h) (N.to_nat w)) ops)) /\
    dm_inv m' /\
    bm_agree (dm_abs m') (fst (bm_exec (bm_new (N.to_nat h) (N.to_nat w)) ops)).
Proof.
  intros h w ops Hadm Hok. pose proof (dm_new_inv h w) as Hinv. pose proof (dm_new_abs h w) as Habs.
  pose proof (refines_abs _ Hinv) as Hr. rewrite Habs in Hr.
  destruct (exec_sim ops _ _ Hr Hadm Hok) as [m' [H1 H2]].
  exists m'. split; [exact H1|]. split; [exact (refines_inv _ _ H2) | exact (refines_agree _ _ H2)].
Qed.

Lemma dense_run : forall h w ops,
  let decoded := fold_right (fun l acc => match decode_op l with Some o => o :: acc | None => acc end) [] ops in
  (forall l, In l ops -> decode_op l <> None) ->
  adm_seq (bm_new (N.to_nat h) (N.to_nat w)) decoded = true ->
  dense_ok_seq (bm_new (N.to_nat h) (N.to_nat w)) decoded = true ->
  dm_run true h w ops = bm_run h w ops.
Proof.
  intros h w ops decoded Hdec Hadm Hok. unfold dm_run, bm_run.
  pose proof (dm_new_inv h w) as Hinv. pose proof (dm_new_abs h w) as Habs.
  pose proof (refines_abs _ Hinv) as Hr. rewrite Habs in Hr.
  exact (run_sim ops _ _ Hr Hdec Hadm Hok).
Qed.
