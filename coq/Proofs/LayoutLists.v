(* Pure list facts used by Proofs/LayoutProofs.v: slices (firstn / skipn) characterised by nth,
   and the sub-block interleave [symr] / its inverse bookkeeping [mix] at the level of nat lengths. *)
From Coq Require Import NArith List Bool Lia Arith.
Import ListNotations.

Section Gen.
Context {A : Type}.

Lemma firstn_add_split (a b : nat) (l : list A) :
  firstn (a + b) l = firstn a l ++ firstn b (skipn a l).
Proof.
  revert l; induction a as [|a IH]; intros l; [reflexivity|].
  destruct l as [|x t]; cbn [Nat.add firstn skipn app].
  - destruct b; reflexivity.
  - rewrite IH. reflexivity.
Qed.

Lemma skipn_skipn' (a b : nat) (l : list A) : skipn a (skipn b l) = skipn (b + a) l.
Proof.
  revert l; induction b as [|b IH]; intros l; [reflexivity|].
  destruct l as [|x t]; cbn [skipn Nat.add]; [apply skipn_nil | apply IH].
Qed.

Lemma nth_skipn' (a i : nat) (l : list A) (d : A) : nth i (skipn a l) d = nth (a + i) l d.
Proof.
  revert l; induction a as [|a IH]; intros l; [reflexivity|].
  destruct l as [|x t]; cbn [skipn Nat.add nth].
  - destruct i; reflexivity.
  - apply IH.
Qed.

Lemma nth_firstn' (n i : nat) (l : list A) (d : A) : i < n -> nth i (firstn n l) d = nth i l d.
Proof.
  revert i l; induction n as [|n IH]; intros i l H; [lia|].
  destruct l as [|x t]; [destruct i; reflexivity|].
  destruct i as [|i]; cbn [firstn nth]; [reflexivity|]. apply IH. lia.
Qed.

(* a slice that stays inside the list, as a map over its index range *)
Lemma slice_as_map (a n : nat) (l : list A) (d : A) :
  a + n <= length l -> firstn n (skipn a l) = map (fun i => nth (a + i) l d) (seq 0 n).
Proof.
  intros H. apply (nth_ext _ _ d d).
  - rewrite map_length, seq_length, firstn_length, skipn_length. lia.
  - intros i Hi. rewrite firstn_length, skipn_length in Hi.
    assert (Hin : i < n) by lia.
    rewrite (nth_firstn' n i _ d Hin), nth_skipn'.
    rewrite (nth_indep (map (fun i => nth (a + i) l d) (seq 0 n)) d (nth (a + 0) l d))
      by (rewrite map_length, seq_length; exact Hin).
    rewrite (map_nth (fun i => nth (a + i) l d) (seq 0 n) 0 i), seq_nth by exact Hin. reflexivity.
Qed.

Lemma firstn_skipn_length (a n : nat) (l : list A) :
  a + n <= length l -> length (firstn n (skipn a l)) = n.
Proof. intros H. rewrite firstn_length, skipn_length. lia. Qed.

(* overwrite of a window: firstn a (P ++ X ++ C) ++ src ++ skipn (a + |src|) (P ++ X ++ C) *)
Lemma upd_window (P X C src : list A) (a : nat) :
  a = length P -> length X = length src ->
  firstn a (P ++ X ++ C) ++ src ++ skipn (a + length src) (P ++ X ++ C) = P ++ src ++ C.
Proof.
  intros -> HX. f_equal.
  - rewrite firstn_app, Nat.sub_diag, firstn_all. cbn [firstn]. apply app_nil_r.
  - f_equal. rewrite skipn_app.
    rewrite (skipn_all2 P) by lia. cbn [app].
    replace (length P + length src - length P) with (length X) by lia.
    rewrite skipn_app, Nat.sub_diag, skipn_all. reflexivity.
Qed.

(* consecutive windows of a list concatenate to a prefix *)
Lemma concat_windows (f : nat -> nat) (l : list A) (n : nat) :
  f 0 = 0 -> (forall j, j < n -> f j <= f (S j)) ->
  concat (map (fun j => firstn (f (S j) - f j) (skipn (f j) l)) (seq 0 n)) = firstn (f n) l.
Proof.
  intros H0 Hm. induction n as [|n IH]; [rewrite H0; reflexivity|].
  rewrite seq_S, map_app, concat_app, IH by (intros j Hj; apply Hm; lia).
  cbn [map concat Nat.add]. rewrite app_nil_r.
  pose proof (Hm n (Nat.lt_succ_diag_r n)) as Hn.
  replace (f (S n)) with (f n + (f (S n) - f n)) at 2 by lia.
  symmetry. apply firstn_add_split.
Qed.

Lemma nth_app_repeat (l : list A) (d : A) (k i : nat) : nth i (l ++ repeat d k) d = nth i l d.
Proof.
  destruct (Nat.lt_ge_cases i (length l)) as [H|H].
  - apply app_nth1; exact H.
  - rewrite app_nth2 by exact H. rewrite (nth_overflow l) by exact H.
    destruct (Nat.lt_ge_cases (i - length l) k) as [H1|H1].
    + apply nth_repeat.
    + apply nth_overflow. rewrite repeat_length. exact H1.
Qed.

Lemma map_seq_ext (f g : nat -> A) (a n : nat) :
  (forall i, a <= i < a + n -> f i = g i) -> map f (seq a n) = map g (seq a n).
Proof. intros H. apply map_ext_in. intros i Hi. apply in_seq in Hi. apply H. exact Hi. Qed.

Lemma repeat_as_map (x : A) (n : nat) : repeat x n = map (fun _ => x) (seq 0 n).
Proof.
  generalize 0. induction n as [|n IH]; intros a; [reflexivity|].
  cbn [repeat seq map]. f_equal. apply IH.
Qed.

End Gen.

Lemma list_sum_cons (x : nat) (l : list nat) : list_sum (x :: l) = x + list_sum l.
Proof. reflexivity. Qed.

Lemma list_sum_const (x a n : nat) : list_sum (map (fun _ => x) (seq a n)) = n * x.
Proof.
  revert a; induction n as [|n IH]; intros a; [reflexivity|].
  cbn [seq map]. rewrite list_sum_cons, IH. lia.
Qed.

(* ------------------------------------------------------------------------------------------ *)
(* Sub-block interleave in recursive form.  A block B of K * (sum lens) bytes consists of
   sub-blocks, sub-block s being K cells of [lens_s] bytes.  [symr B K lens m] is the
   concatenation over s of cell m of sub-block s. *)
Fixpoint symr {A} (B : list A) (K : nat) (lens : list nat) (m : nat) : list A :=
  match lens with
  | [] => []
  | b :: rest => firstn b (skipn (m * b) B) ++ symr (skipn (K * b) B) K rest m
  end.

(* the block that agrees with B on cells 0..m-1 of every sub-block and with R elsewhere *)
Fixpoint mix {A} (B R : list A) (K m : nat) (lens : list nat) : list A :=
  match lens with
  | [] => []
  | b :: rest =>
      firstn (m * b) B ++ firstn ((K - m) * b) (skipn (m * b) R)
      ++ mix (skipn (K * b) B) (skipn (K * b) R) K m rest
  end.

Section Interleave.
Context {A : Type}.

Lemma cell_bound (K m b r : nat) : m < K -> m * b + b <= K * (b + r).
Proof. intros H. nia. Qed.

Lemma symr_length (B : list A) K lens m :
  m < K -> length B = K * list_sum lens -> length (symr B K lens m) = list_sum lens.
Proof.
  intros Hm. revert B; induction lens as [|b rest IH]; intros B HB; [reflexivity|].
  cbn [symr]. rewrite list_sum_cons in *. rewrite app_length.
  rewrite firstn_skipn_length by (rewrite HB; apply cell_bound; exact Hm).
  rewrite IH; [reflexivity|]. rewrite skipn_length, HB. nia.
Qed.

Lemma mix_length (B R : list A) K m lens :
  m <= K -> length B = K * list_sum lens -> length R = K * list_sum lens ->
  length (mix B R K m lens) = K * list_sum lens.
Proof.
  intros Hm. revert B R; induction lens as [|b rest IH]; intros B R HB HR; [cbn; lia|].
  cbn [mix]. rewrite list_sum_cons in *. rewrite !app_length.
  rewrite firstn_length, (firstn_skipn_length (m * b) ((K - m) * b) R) by nia.
  rewrite IH by (rewrite skipn_length; nia). nia.
Qed.

Lemma mix_0 (B R : list A) K lens : length R = K * list_sum lens -> mix B R K 0 lens = R.
Proof.
  revert B R; induction lens as [|b rest IH]; intros B R HR.
  - cbn in *. destruct R; [reflexivity|]. cbn in HR. lia.
  - cbn [mix]. rewrite list_sum_cons in *.
    cbn [Nat.mul firstn skipn app]. rewrite Nat.sub_0_r.
    rewrite IH by (rewrite skipn_length; nia). apply firstn_skipn.
Qed.

Lemma mix_K (B R : list A) K lens : length B = K * list_sum lens -> mix B R K K lens = B.
Proof.
  revert B R; induction lens as [|b rest IH]; intros B R HB.
  - cbn in *. destruct B; [reflexivity|]. cbn in HB. lia.
  - cbn [mix]. rewrite list_sum_cons in *.
    rewrite Nat.sub_diag. cbn [Nat.mul firstn app].
    rewrite IH by (rewrite skipn_length; nia). apply firstn_skipn.
Qed.

(* [symr] as a concatenation over the sub-block index of explicit windows: cell m of sub-block s
   starts at K * (sum of the earlier sub-symbol sizes) + m * (its own size) *)
Lemma symr_as_concat (len : nat -> nat) (B : list A) K m s0 n :
  symr B K (map len (seq s0 n)) m =
  concat (map (fun s => firstn (len s)
                          (skipn (K * list_sum (map len (seq s0 (s - s0))) + m * len s) B))
              (seq s0 n)).
Proof.
  revert s0 B; induction n as [|n IH]; intros s0 B; [reflexivity|].
  cbn [seq map symr concat]. f_equal.
  - rewrite Nat.sub_diag. cbn [seq map list_sum fold_right]. rewrite Nat.mul_0_r. reflexivity.
  - rewrite IH. f_equal. apply map_seq_ext. intros s Hs. f_equal.
    rewrite skipn_skipn'. f_equal.
    replace (s - s0) with (S (s - S s0)) by lia.
    cbn [seq map]. rewrite list_sum_cons. nia.
Qed.

End Interleave.
