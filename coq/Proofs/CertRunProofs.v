(* C06: from one checked fact `cert_ok K plan = true` to the property for that K.
   Part 1  replaying a valid operation list on a slab without mapping is Spec.Linear.apply_ops fmul on
           its data, and reading the reordered slab is Spec.Linear.read_out;
   Part 2  what cert_ok establishes (cert_core);
   Part 3  existence / uniqueness / injectivity from the certificate theorems of Proofs/LinearInst.v;
   Part 4  the constraint matrix does not depend on the build mode;
   Part 5  the direct solve (gauss_solve) returns the same symbols. *)
From Coq Require Import NArith List Bool Lia Arith.
From RQ Require Import Base.Outcome Base.Ints Base.ListX Gen.Consts Gen.SysTables Proofs.SysConstProofs Model.Octet Proofs.OctetProofs
  Model.FieldFast Proofs.FieldFastProofs Spec.Linear Proofs.LinearProofs Proofs.LinearInst
  Model.CertFast Proofs.CertFastProofs Model.SysConst Model.Tuple Model.CMatrix Model.Slab
  Spec.Layout Model.Layout Model.Encoder Model.CertRun Proofs.CMatrixMode Proofs.CertSparseProofs.
Import ListNotations.
Open Scope N_scope.

(* ------------------------------------------------------------------------------------------ *)
(* Part 1: replay = apply_ops                                                                 *)
(* ------------------------------------------------------------------------------------------ *)

Lemma list_set_upd_nth {A} (l : list A) i v : list_set l i v = upd_nth i v l.
Proof. revert i; induction l as [|x t IH]; intros [|i]; cbn [list_set upd_nth]; try reflexivity. rewrite IH. reflexivity. Qed.

Lemma bytes_add_vadd a b : bytes_add a b = vadd a b.
Proof.
  unfold bytes_add. revert b; induction a as [|x a IH]; intros [|y b]; cbn [Slab.map2 vadd]; try reflexivity.
  rewrite IH. reflexivity.
Qed.

Lemma bytes_mul_vscale c a : c < 256 -> wf_vec a -> bytes_mul c a = vscale fmul c a.
Proof.
  intros Hc Ha. unfold bytes_mul, vscale. apply map_ext_in. intros x Hx.
  unfold wf_vec in Ha. rewrite Forall_forall in Ha. symmetry. apply fmul_mulN; [exact Hc | apply Ha; exact Hx].
Qed.

Lemma bytes_fma_vadd c a b : c < 256 -> wf_vec b -> bytes_fma c a b = vadd a (vscale fmul c b).
Proof.
  intros Hc Hb. unfold bytes_fma, vscale. revert a; induction Hb as [|y b Hy Hb IH]; intros [|x a];
    cbn [Slab.map2 vadd map]; try reflexivity.
  rewrite IH. rewrite (fmul_mulN c y Hc Hy). reflexivity.
Qed.

Lemma nth_ok_some {A} (l : list A) i x : nth_error l i = Some x -> nth_ok l i = Ok x.
Proof. intros H. unfold nth_ok. rewrite H. reflexivity. Qed.

Lemma nth_error_some_lt {A} (l : list A) i : (i < length l)%nat -> exists x, nth_error l i = Some x.
Proof. intros H. destruct (nth_error l i) eqn:E; [eauto|]. apply nth_error_None in E. lia. Qed.

Lemma fop_valid_op_valid M o : fop_valid M o = true -> op_valid (N.to_nat M) (op_of o) = true.
Proof. intros H. exact (proj1 (fop_valid_spec M o H)). Qed.

(* one operation *)
Lemma perform_op_apply m T D o :
  wf_mat T D -> fop_valid (N.of_nat (length D)) o = true ->
  (m = Checked -> fma_scalar_ok o = true) ->
  perform_op m (sop_of o) (mkSlab D T None) = Ok (mkSlab (apply_op fmul (op_of o) D) T None).
Proof.
  intros WD V Hs.
  destruct o as [d s|d c|d s c]; cbn [sop_of op_of perform_op apply_op].
  - (* add *)
    cbn [fop_valid] in V. apply andb_true_iff in V. destruct V as [V V3].
    apply andb_true_iff in V. destruct V as [V1 V2].
    apply N.ltb_lt in V1, V2. apply negb_true_iff in V3.
    assert (Hd : (N.to_nat d < length D)%nat) by lia.
    assert (Hsr : (N.to_nat s < length D)%nat) by lia.
    destruct (nth_error_some_lt D _ Hd) as [rd Ed]. destruct (nth_error_some_lt D _ Hsr) as [rs Es].
    rewrite Ed, Es.
    unfold slab_add_assign, slab_pair, phys, slab_count. cbn [sl_map sl_data sl_ss obind].
    rewrite V3.
    replace (N.to_nat d <? length D)%nat with true by (symmetry; apply Nat.ltb_lt; exact Hd).
    replace (N.to_nat s <? length D)%nat with true by (symmetry; apply Nat.ltb_lt; exact Hsr).
    cbn [negb]. rewrite (nth_ok_some _ _ _ Ed), (nth_ok_some _ _ _ Es). cbn [obind].
    unfold slab_put. cbn [sl_map sl_data sl_ss].
    rewrite list_set_upd_nth, bytes_add_vadd. reflexivity.
  - (* mul *)
    cbn [fop_valid] in V. apply andb_true_iff in V. destruct V as [V V3].
    apply andb_true_iff in V. destruct V as [V1 V2].
    apply N.ltb_lt in V1, V2.
    assert (Hd : (N.to_nat d < length D)%nat) by lia.
    destruct (nth_error_some_lt D _ Hd) as [rd Ed]. rewrite Ed.
    unfold slab_mulassign, phys. cbn [sl_map sl_data sl_ss obind].
    rewrite (nth_ok_some _ _ _ Ed). cbn [obind].
    unfold slab_put. cbn [sl_map sl_data sl_ss].
    rewrite list_set_upd_nth.
    rewrite (bytes_mul_vscale c rd V2 (proj2 (wf_mat_nth_error _ _ _ _ WD Ed))). reflexivity.
  - (* fma *)
    cbn [fop_valid] in V. apply andb_true_iff in V. destruct V as [V V4].
    apply andb_true_iff in V. destruct V as [V V3].
    apply andb_true_iff in V. destruct V as [V1 V2].
    apply N.ltb_lt in V1, V2, V4. apply negb_true_iff in V3.
    assert (Hd : (N.to_nat d < length D)%nat) by lia.
    assert (Hsr : (N.to_nat s < length D)%nat) by lia.
    destruct (nth_error_some_lt D _ Hd) as [rd Ed]. destruct (nth_error_some_lt D _ Hsr) as [rs Es].
    rewrite Ed, Es.
    unfold slab_fma, slab_pair, phys, slab_count. cbn [sl_map sl_data sl_ss obind].
    rewrite V3.
    replace (N.to_nat d <? length D)%nat with true by (symmetry; apply Nat.ltb_lt; exact Hd).
    replace (N.to_nat s <? length D)%nat with true by (symmetry; apply Nat.ltb_lt; exact Hsr).
    cbn [negb]. rewrite (nth_ok_some _ _ _ Ed), (nth_ok_some _ _ _ Es). cbn [obind].
    assert (R : Ok (slab_put (mkSlab D T None) d (bytes_fma c rd rs)) =
                Ok (mkSlab (upd_nth (N.to_nat d) (vadd rd (vscale fmul c rs)) D) T None)).
    { unfold slab_put. cbn [sl_map sl_data sl_ss]. rewrite list_set_upd_nth.
      rewrite (bytes_fma_vadd c rd rs V4 (proj2 (wf_mat_nth_error _ _ _ _ WD Es))). reflexivity. }
    destruct m; [exact R|].
    specialize (Hs eq_refl). cbn [fma_scalar_ok] in Hs. apply andb_true_iff in Hs. destruct Hs as [H0 H1].
    apply negb_true_iff in H0, H1. rewrite H0, H1. cbn [orb]. exact R.
Qed.

Lemma replay_app m a b s : replay m (a ++ b) s = obind (replay m a s) (replay m b).
Proof.
  revert s; induction a as [|o a IH]; intros s; cbn [app replay obind]; [reflexivity|].
  destruct (perform_op m o s) as [s'|c]; cbn [obind]; [apply IH | reflexivity].
Qed.

Lemma replay_apply_ops m T ops : forall D,
  wf_mat T D -> forallb (fop_valid (N.of_nat (length D))) ops = true ->
  (m = Checked -> forallb fma_scalar_ok ops = true) ->
  replay m (map sop_of ops) (mkSlab D T None) = Ok (mkSlab (apply_ops fmul (map op_of ops) D) T None).
Proof.
  induction ops as [|o ops IH]; intros D WD V Hs; [reflexivity|].
  cbn [forallb] in V. apply andb_true_iff in V. destruct V as [V1 V2].
  assert (Hs1 : m = Checked -> fma_scalar_ok o = true).
  { intros E. specialize (Hs E). cbn [forallb] in Hs. apply andb_true_iff in Hs. tauto. }
  assert (Hs2 : m = Checked -> forallb fma_scalar_ok ops = true).
  { intros E. specialize (Hs E). cbn [forallb] in Hs. apply andb_true_iff in Hs. tauto. }
  cbn [map replay]. rewrite (perform_op_apply m T D o WD V1 Hs1). cbn [obind].
  rewrite apply_ops_cons.
  assert (WD' : wf_mat T (apply_op fmul (op_of o) D)).
  { apply (apply_op_wf fmul finv gf_field_ok T (length D)); [|exact WD].
    rewrite <- (Nat2N.id (length D)). apply fop_valid_op_valid. exact V1. }
  apply IH; [exact WD' | rewrite apply_op_length; exact V2 | exact Hs2].
Qed.

(* reading a reordered slab *)
Lemma slab_read_reordered D T ord : forall n from,
  (from + n <= length ord)%nat ->
  Forall (fun i => (N.to_nat i < length D)%nat) ord ->
  slab_read (mkSlab D T (Some ord)) n (N.of_nat from) =
  Ok (map (fun i => nth (N.to_nat i) D []) (firstn n (skipn from ord))).
Proof.
  induction n as [|n IH]; intros from Hlen Hall; [reflexivity|].
  cbn [slab_read]. unfold slab_get, phys. cbn [sl_map sl_data].
  rewrite Nat2N.id.
  assert (Hf : (from < length ord)%nat) by lia.
  destruct (nth_error_some_lt ord from Hf) as [p Ep].
  rewrite (nth_ok_some _ _ _ Ep). cbn [obind].
  assert (Hp : (N.to_nat p < length D)%nat).
  { rewrite Forall_forall in Hall. apply Hall. eapply nth_error_In. exact Ep. }
  destruct (nth_error_some_lt D _ Hp) as [x Ex].
  rewrite (nth_ok_some _ _ _ Ex). cbn [obind].
  replace (N.of_nat from + 1) with (N.of_nat (S from)) by lia.
  rewrite IH by (try assumption; lia). cbn [obind].
  assert (Esk : skipn from ord = p :: skipn (S from) ord).
  { clear -Ep. revert from Ep; induction ord as [|a ord IH]; intros [|from] Ep; cbn in Ep; try discriminate.
    - inversion Ep. reflexivity.
    - cbn [skipn]. rewrite (IH from Ep). reflexivity. }
  rewrite Esk. cbn [firstn map]. rewrite (nth_error_nth _ _ [] Ex). reflexivity.
Qed.

Theorem replay_plan_readout m T D ops ord :
  wf_mat T D -> forallb (fop_valid (N.of_nat (length D))) ops = true ->
  (m = Checked -> forallb fma_scalar_ok ops = true) ->
  Forall (fun i => (N.to_nat i < length D)%nat) ord ->
  exists s', replay m (map sop_of ops ++ [SReorder ord]) (mkSlab D T None) = Ok s' /\
    slab_read s' (length ord) 0 = Ok (read_out (map N.to_nat ord) (apply_ops fmul (map op_of ops) D)).
Proof.
  intros WD V Hs Hord.
  exists (mkSlab (apply_ops fmul (map op_of ops) D) T (Some ord)). split.
  - rewrite replay_app, (replay_apply_ops m T ops D WD V Hs). reflexivity.
  - change 0 with (N.of_nat 0).
    rewrite slab_read_reordered; [| lia | rewrite apply_ops_length; exact Hord].
    cbn [skipn]. rewrite firstn_all. unfold read_out. rewrite map_map. reflexivity.
Qed.

(* ------------------------------------------------------------------------------------------ *)
(* Part 2: what cert_ok establishes                                                           *)
(* ------------------------------------------------------------------------------------------ *)

Record cert_core (K : N) (v : list N) (sp : sysparams) (A : list (list N))
  (ops : list fop) (ord : list N) : Prop := {
  cc_decode : decode_plan v = Some (ops, ord);
  cc_sp : sys_params K = Ok sp;
  cc_A : enc_matrix K = Ok A;
  cc_K : K <= spK sp;
  cc_L : spS sp + spH sp + spK sp = spL sp;
  cc_lenA : length A = N.to_nat (spL sp);
  cc_wfA : wf_mat (N.to_nat (spL sp)) A;
  cc_check : check_cert fmul (N.to_nat (spL sp)) A (map op_of ops) (map N.to_nat ord) = true;
  cc_nodup : NoDup (map N.to_nat ord);
  cc_valid : forallb (fop_valid (spL sp)) ops = true;
  cc_fma : forallb fma_scalar_ok ops = true
}.

Lemma check_cert_fast_valid L M A ops ord :
  check_cert_fast L M A ops ord = true -> forallb (fop_valid M) ops = true.
Proof.
  unfold check_cert_fast. intros H.
  apply andb_true_iff in H. destruct H as [H _]. apply andb_true_iff in H. destruct H as [H _].
  apply andb_true_iff in H. destruct H as [_ H]. exact H.
Qed.

Theorem cert_ok_dense_core K v : cert_ok_dense K v = true ->
  exists sp A ops ord, cert_core K v sp A ops ord.
Proof.
  unfold cert_ok_dense. intros H.
  destruct (decode_plan v) as [[ops ord]|] eqn:Ed; [|discriminate].
  destruct (sys_params K) as [sp|] eqn:Esp; [|discriminate].
  destruct (enc_matrix K) as [A|] eqn:EA; [|discriminate].
  cbv zeta in H.
  apply andb_true_iff in H. destruct H as [H Hfma].
  apply andb_true_iff in H. destruct H as [H Hnd].
  apply andb_true_iff in H. destruct H as [H Hchk].
  apply andb_true_iff in H. destruct H as [H Hwf].
  apply andb_true_iff in H. destruct H as [H HlenA].
  apply andb_true_iff in H. destruct H as [HK HL].
  apply N.leb_le in HK. apply N.eqb_eq in HL, HlenA.
  apply wf_matb_ok in Hwf. apply nodup_fast_ok in Hnd.
  assert (LA : length A = N.to_nat (spL sp)) by lia.
  exists sp, A, ops, ord. constructor; try assumption; try reflexivity.
  - apply check_cert_fast_dense; [exact Hwf|].
    rewrite N2Nat.id, LA, N2Nat.id. exact Hchk.
  - exact (check_cert_fast_valid _ _ _ _ _ Hchk).
Qed.

Theorem cert_ok_core K v : cert_ok K v = true ->
  exists sp A ops ord, cert_core K v sp A ops ord.
Proof.
  unfold cert_ok. intros H.
  destruct (decode_plan v) as [[ops ord]|] eqn:Ed; [|discriminate].
  destruct (sys_params K) as [sp|] eqn:Esp; [|discriminate].
  destruct (enc_matrix_sparse K) as [As|] eqn:EA; [|discriminate].
  cbv zeta in H.
  apply andb_true_iff in H. destruct H as [H Hfma].
  apply andb_true_iff in H. destruct H as [H Hnd].
  apply andb_true_iff in H. destruct H as [H Hchk].
  apply andb_true_iff in H. destruct H as [HK HL].
  apply N.leb_le in HK. apply N.eqb_eq in HL. apply nodup_fast_ok in Hnd.
  destruct (enc_matrix_sparse_dense K sp As Esp EA) as [EA' _].
  destruct (check_cert_fast_sound _ _ _ _ _ Hchk) as [C1 [C2 C3]].
  exists sp, (dense (spL sp) (spL sp) As), ops, ord. constructor; try assumption; try reflexivity.
  exact (check_cert_fast_valid _ _ _ _ _ Hchk).
Qed.

Section Core.
Variables (K : N) (v : list N) (sp : sysparams) (A : list (list N)) (ops : list fop) (ord : list N).
Hypothesis CC : cert_core K v sp A ops ord.

Let L := N.to_nat (spL sp).

Lemma core_plan_ops : plan_ops v = map op_of ops.
Proof. unfold plan_ops. rewrite (cc_decode _ _ _ _ _ _ CC). reflexivity. Qed.
Lemma core_plan_order : plan_order v = map N.to_nat ord.
Proof. unfold plan_order. rewrite (cc_decode _ _ _ _ _ _ CC). reflexivity. Qed.
Lemma core_plan_symbol_ops : plan_symbol_ops v = map sop_of ops ++ [SReorder ord].
Proof. unfold plan_symbol_ops. rewrite (cc_decode _ _ _ _ _ _ CC). reflexivity. Qed.

Lemma core_ord_len : length ord = L.
Proof.
  destruct (check_cert_spec fmul _ _ _ _ (cc_check _ _ _ _ _ _ CC)) as [_ [H _]].
  rewrite map_length in H. exact H.
Qed.

Lemma core_ord_lt : Forall (fun i => (N.to_nat i < L)%nat) ord.
Proof.
  destruct (check_cert_spec fmul _ _ _ _ (cc_check _ _ _ _ _ _ CC)) as [_ [Hl [H _]]].
  rewrite map_length in Hl. rewrite (cc_lenA _ _ _ _ _ _ CC) in H.
  apply Forall_forall. intros i Hi. destruct (In_nth _ _ 0 Hi) as [t [Ht <-]].
  specialize (H t). fold L in Hl, H. rewrite <- (map_nth N.to_nat). apply H. lia.
Qed.

Lemma core_ops_valid : forallb (op_valid L) (map op_of ops) = true.
Proof. apply ops_valid_map. exact (cc_valid _ _ _ _ _ _ CC). Qed.

(* ---- the right-hand side ---- *)

Variables (T : nat) (syms : list (list N)).
Hypothesis Hlen : lenN syms = K.
Hypothesis Hsyms : wf_mat T syms.

Let D := create_d sp syms T.

Lemma zero_syms_wf n : wf_mat T (repeat (repeat 0 T) n).
Proof.
  apply Forall_forall. intros r Hr. apply repeat_spec in Hr. subst r. split; [apply repeat_length|].
  apply Forall_forall. intros x Hx. apply repeat_spec in Hx. subst x. reflexivity.
Qed.

Lemma core_D_wf : wf_mat T D.
Proof.
  unfold D, create_d, wf_mat. apply Forall_app. split; [apply zero_syms_wf|].
  apply Forall_app. split; [exact Hsyms | apply zero_syms_wf].
Qed.

Lemma core_D_len : length D = L.
Proof.
  unfold D, create_d. rewrite !app_length, !repeat_length.
  pose proof (cc_K _ _ _ _ _ _ CC) as HK. pose proof (cc_L _ _ _ _ _ _ CC) as HL.
  unfold lenN in Hlen. unfold L. lia.
Qed.

Let C := plan_solution v D.

Lemma core_C_eq : C = read_out (map N.to_nat ord) (apply_ops fmul (map op_of ops) D).
Proof. unfold C, plan_solution. rewrite core_plan_ops, core_plan_order. reflexivity. Qed.

Lemma core_C_len : length C = L.
Proof. rewrite core_C_eq, read_out_length, map_length. apply core_ord_len. Qed.

Lemma core_C_wf : wf_mat T C.
Proof.
  rewrite core_C_eq. unfold read_out.
  pose proof (apply_ops_wf fmul finv gf_field_ok T L _ D core_ops_valid core_D_wf) as W.
  apply Forall_forall. intros r Hr. apply in_map_iff in Hr. destruct Hr as [i [<- Hi]].
  apply in_map_iff in Hi. destruct Hi as [i' [<- Hi']].
  pose proof core_ord_lt as OL. rewrite Forall_forall in OL. specialize (OL i' Hi').
  apply (wf_mat_nth T _ _ W). rewrite apply_ops_length, core_D_len. exact OL.
Qed.

(* ---- Part 3: existence, uniqueness, injectivity ---- *)

Theorem core_solves : solves fmul T A C D.
Proof.
  rewrite core_C_eq.
  apply (cert_sound_exists_gf T L A); try exact core_D_wf; try exact core_D_len.
  - exact (cc_check _ _ _ _ _ _ CC).
  - exact (cc_lenA _ _ _ _ _ _ CC).
  - exact (cc_nodup _ _ _ _ _ _ CC).
  - exact (cc_wfA _ _ _ _ _ _ CC).
Qed.

Theorem core_unique C' : wf_mat T C' -> length C' = L -> solves fmul T A C' D -> C' = C.
Proof.
  intros W Len S. rewrite core_C_eq. symmetry.
  exact (cert_sound_unique_gf T L A _ _ C' D (cc_check _ _ _ _ _ _ CC) (cc_wfA _ _ _ _ _ _ CC) W Len S).
Qed.

Theorem core_injective : injective fmul L A.
Proof. exact (cert_injective_gf L A _ _ (cc_check _ _ _ _ _ _ CC) (cc_wfA _ _ _ _ _ _ CC)). Qed.

(* ---- replay ---- *)

Theorem core_replay m :
  exists s', replay m (plan_symbol_ops v) (mkSlab D T None) = Ok s' /\ slab_read s' L 0 = Ok C.
Proof.
  rewrite core_plan_symbol_ops, core_C_eq, <- core_ord_len.
  apply replay_plan_readout.
  - exact core_D_wf.
  - rewrite core_D_len. unfold L. rewrite N2Nat.id. exact (cc_valid _ _ _ _ _ _ CC).
  - intros _. exact (cc_fma _ _ _ _ _ _ CC).
  - rewrite core_D_len. exact core_ord_lt.
Qed.

(* ---- the rows of the system, one by one ---- *)

Lemma core_row i : (i < L)%nat -> lincomb fmul T (nth i A []) C = nth i D [].
Proof.
  intros Hi. pose proof core_solves as S. unfold solves in S.
  apply (Forall2_nth _ _ _ i [] [] S). rewrite (cc_lenA _ _ _ _ _ _ CC). exact Hi.
Qed.

Lemma nth_repeat_any {X} (x : X) n i d : (i < n)%nat -> nth i (repeat x n) d = x.
Proof. revert i; induction n as [|n IH]; intros [|i] H; cbn [repeat nth]; try lia; [reflexivity | apply IH; lia]. Qed.

Theorem core_rows :
  (forall i, i < spS sp + spH sp -> lincomb fmul T (nth (N.to_nat i) A []) C = repeat 0 T) /\
  (forall i, i < K -> lincomb fmul T (nth (N.to_nat (spS sp + spH sp + i)) A []) C = nth (N.to_nat i) syms []) /\
  (forall i, K <= i < spK sp -> lincomb fmul T (nth (N.to_nat (spS sp + spH sp + i)) A []) C = repeat 0 T).
Proof.
  pose proof (cc_K _ _ _ _ _ _ CC) as HK. pose proof (cc_L _ _ _ _ _ _ CC) as HL.
  unfold lenN in Hlen.
  split; [|split]; intros i Hi.
  - rewrite core_row by (unfold L; lia). unfold D, create_d.
    rewrite app_nth1 by (rewrite repeat_length; lia). apply nth_repeat_any. lia.
  - rewrite core_row by (unfold L; lia). unfold D, create_d.
    rewrite app_nth2 by (rewrite repeat_length; lia). rewrite repeat_length.
    rewrite app_nth1 by lia. f_equal. lia.
  - rewrite core_row by (unfold L; lia). unfold D, create_d.
    rewrite app_nth2 by (rewrite repeat_length; lia). rewrite repeat_length.
    rewrite app_nth2 by lia. apply nth_repeat_any. lia.
Qed.

End Core.

(* ------------------------------------------------------------------------------------------ *)
(* Part 5: the direct solve                                                                    *)
(* ------------------------------------------------------------------------------------------ *)

Lemma rangeN_lt32 n : N.of_nat n < 2 ^ 32 -> Forall (fun x => x < 2 ^ 32) (rangeN n).
Proof. intros H. apply Forall_forall. intros x Hx. apply rangeN_in in Hx. lia. Qed.

(* the matrix in mode m is the matrix of enc_matrix *)
Lemma enc_matrix_any_mode m K A : enc_matrix K = Ok A -> enc_matrix_m m K = Ok A.
Proof.
  unfold enc_matrix, enc_matrix_m. destruct (sys_params K) as [sp|c] eqn:Hsp; cbn [obind]; [|discriminate].
  destruct (sys_params_facts K sp Hsp) as [_ [HL [_ [HL16 _]]]].
  rewrite (generate_constraint_matrix_mode m K); [auto|].
  apply rangeN_lt32. rewrite N2Nat.id. assert (P16 : 65536 < 2 ^ 32) by reflexivity. lia.
Qed.

Theorem core_direct K v sp A ops ord T syms m :
  cert_core K v sp A ops ord -> lenN syms = K -> wf_mat T syms ->
  gen_intermediate_symbols m syms T = Ok (plan_solution v (create_d sp syms T)).
Proof.
  intros CC Hlen Hsyms. unfold gen_intermediate_symbols. cbv zeta. rewrite Hlen.
  pose proof (enc_matrix_any_mode m K A (cc_A _ _ _ _ _ _ CC)) as EA. unfold enc_matrix_m in EA.
  rewrite (cc_sp _ _ _ _ _ _ CC) in *. cbn [obind] in *.
  destruct (generate_constraint_matrix m K (rangeN (N.to_nat (spK sp)))) as [[bin hdpc]|c];
    cbn [obind] in *; [|discriminate].
  inversion EA as [EA']. clear EA. rewrite EA'.
  pose proof (core_D_wf sp T syms Hsyms) as WD.
  pose proof (core_D_len K v sp A ops ord CC T syms Hlen) as LD.
  destruct (gauss_solve fmul finv T (N.to_nat (spL sp)) A (create_d sp syms T)) as [C2|] eqn:EG.
  - destruct (gauss_solve_exists_gf _ _ _ _ _ EG (cc_lenA _ _ _ _ _ _ CC) LD (cc_wfA _ _ _ _ _ _ CC) WD)
      as [S2 [W2 L2]].
    f_equal. exact (core_unique K v sp A ops ord CC T syms C2 W2 L2 S2).
  - exfalso.
    pose proof (core_injective K v sp A ops ord CC) as Inj.
    apply (gauss_rank_full_iff_injective_gf _ _ (cc_wfA _ _ _ _ _ _ CC)) in Inj.
    apply (proj2 (gauss_solve_some_iff_gf T _ A (create_d sp syms T))) in Inj. apply Inj. exact EG.
Qed.

(* ------------------------------------------------------------------------------------------ *)
(* Part 6: a certificate for K' = extended_source_block_symbols K is a certificate for K      *)
(* ------------------------------------------------------------------------------------------ *)

Lemma first_ge_char K keys : forall i, (i < length keys)%nat -> K <= nth i keys 0 ->
  (forall j, (j < i)%nat -> nth j keys 0 < K) -> first_ge K keys = Some i.
Proof.
  induction keys as [|k t IH]; intros i Hi Hge Hlt; cbn [length] in Hi; [lia|].
  cbn [first_ge]. destruct i as [|i]; cbn [nth] in Hge.
  - apply N.leb_le in Hge. rewrite Hge. reflexivity.
  - pose proof (Hlt O ltac:(lia)) as H0. cbn [nth] in H0. apply N.leb_gt in H0. rewrite H0.
    rewrite (IH i); [reflexivity | lia | exact Hge |].
    intros j Hj. apply (Hlt (S j)). lia.
Qed.

Lemma lookups_same K K' : extended_source_block_symbols K = Ok K' ->
  K <= K' /\ (forall sel, lookup5 sel K' = lookup5 sel K) /\ calculate_p1 K' = calculate_p1 K.
Proof.
  intros E. pose proof (lookup_ok_le K _ E) as HK. change 56403 with MAX_SOURCE_SYMBOLS_PER_BLOCK in HK.
  unfold extended_source_block_symbols, lookup5 in E.
  pose proof HK as HKb. apply N.leb_le in HKb. rewrite HKb in E.
  rewrite scan_tab_first_ge in E.
  destruct (first_ge K (map r_k TABLE2)) as [i|] eqn:Ei; [|discriminate].
  destruct (first_ge_some _ _ _ Ei) as [Hlen [Hge Hbefore]].
  remember (nth i (map r_k TABLE2) 0) as x eqn:Ex. injection E as EK'. subst x.
  assert (HK' : K' <= MAX_SOURCE_SYMBOLS_PER_BLOCK).
  { rewrite <- EK', <- keys_last. apply incr_nth; [exact keys_incr|]. rewrite keys_length in *. lia. }
  assert (Ei' : first_ge K' (map r_k TABLE2) = Some i).
  { apply first_ge_char; [exact Hlen | rewrite EK'; lia |].
    intros j Hj. specialize (Hbefore j Hj). rewrite <- EK'. lia. }
  apply N.leb_le in HK'.
  split; [rewrite <- EK'; exact Hge|]. split.
  - intros sel. unfold lookup5. rewrite HK', HKb, !scan_tab_first_ge, Ei, Ei'. reflexivity.
  - unfold calculate_p1. rewrite HK', HKb, !scan_tab_first_ge, keys_agree, Ei, Ei'. reflexivity.
Qed.

Lemma sys_params_same K K' : extended_source_block_symbols K = Ok K' -> sys_params K' = sys_params K.
Proof.
  intros E. destruct (lookups_same K K' E) as [_ [Hs Hp]].
  unfold sys_params, num_intermediate_symbols, num_pi_symbols, num_intermediate_symbols,
    extended_source_block_symbols, num_ldpc_symbols, num_hdpc_symbols, num_lt_symbols.
  rewrite !Hs. reflexivity.
Qed.

Lemma enc_matrix_same m K K' : extended_source_block_symbols K = Ok K' -> enc_matrix_m m K' = enc_matrix_m m K.
Proof.
  intros E. unfold enc_matrix_m, generate_constraint_matrix. rewrite (sys_params_same K K' E). reflexivity.
Qed.

Lemma enc_matrix_sparse_same K K' : extended_source_block_symbols K = Ok K' ->
  enc_matrix_sparse K' = enc_matrix_sparse K.
Proof. intros E. unfold enc_matrix_sparse. rewrite (sys_params_same K K' E). reflexivity. Qed.

Theorem cert_ok_extended K K' v :
  extended_source_block_symbols K = Ok K' -> cert_ok K' v = true -> cert_ok K v = true.
Proof.
  intros E. destruct (lookups_same K K' E) as [HKK' _].
  unfold cert_ok. rewrite (enc_matrix_sparse_same K K' E), (sys_params_same K K' E).
  destruct (decode_plan v) as [[ops ord]|]; [|auto].
  destruct (sys_params K) as [sp|] eqn:Hsp; [|auto].
  destruct (enc_matrix_sparse K) as [A|]; [|auto].
  destruct (sys_params_inv K sp Hsp) as [E1 _]. rewrite E in E1. inversion E1 as [EK].
  cbv zeta. rewrite <- EK.
  replace (K <=? K') with true by (symmetry; apply N.leb_le; exact HKK').
  rewrite N.leb_refl. auto.
Qed.

Theorem cert_ok_dense_extended K K' v :
  extended_source_block_symbols K = Ok K' -> cert_ok_dense K' v = true -> cert_ok_dense K v = true.
Proof.
  intros E. destruct (lookups_same K K' E) as [HKK' _].
  unfold cert_ok_dense, enc_matrix. rewrite (enc_matrix_same Release K K' E), (sys_params_same K K' E).
  destruct (decode_plan v) as [[ops ord]|]; [|auto].
  destruct (sys_params K) as [sp|] eqn:Hsp; [|auto].
  destruct (enc_matrix_m Release K) as [A|]; [|auto].
  destruct (sys_params_inv K sp Hsp) as [E1 _]. rewrite E in E1. inversion E1 as [EK].
  cbv zeta. rewrite <- EK.
  replace (K <=? K') with true by (symmetry; apply N.leb_le; exact HKK').
  rewrite N.leb_refl. auto.
Qed.

(* ------------------------------------------------------------------------------------------ *)
(* Part 7: the statements pinned in Props/C06.v                                               *)
(* ------------------------------------------------------------------------------------------ *)

Lemma cert_ok_core_at K v sp A : cert_ok K v = true -> sys_params K = Ok sp -> enc_matrix K = Ok A ->
  exists ops ord, cert_core K v sp A ops ord.
Proof.
  intros H Hsp HA. destruct (cert_ok_core K v H) as [sp' [A' [ops [ord CC]]]].
  pose proof (cc_sp _ _ _ _ _ _ CC) as E1. pose proof (cc_A _ _ _ _ _ _ CC) as E2.
  rewrite Hsp in E1. rewrite HA in E2. injection E1 as <-. injection E2 as <-.
  exists ops, ord. exact CC.
Qed.

Theorem cert_params K v : cert_ok K v = true ->
  exists sp A, sys_params K = Ok sp /\ (forall m, enc_matrix_m m K = Ok A) /\
    length A = N.to_nat (spL sp) /\ wf_mat (N.to_nat (spL sp)) A /\
    K <= spK sp /\ spL sp = spS sp + spH sp + spK sp.
Proof.
  intros H. destruct (cert_ok_core K v H) as [sp [A [ops [ord CC]]]]. exists sp, A.
  split; [exact (cc_sp _ _ _ _ _ _ CC)|].
  split; [intros m; apply enc_matrix_any_mode; exact (cc_A _ _ _ _ _ _ CC)|].
  split; [exact (cc_lenA _ _ _ _ _ _ CC)|]. split; [exact (cc_wfA _ _ _ _ _ _ CC)|].
  split; [exact (cc_K _ _ _ _ _ _ CC) | symmetry; exact (cc_L _ _ _ _ _ _ CC)].
Qed.

Theorem cert_plan_decoded K v : cert_ok K v = true ->
  exists ops ord, decode_plan v = Some (ops, ord) /\
    plan_symbol_ops v = map sop_of ops ++ [SReorder ord] /\
    plan_ops v = map op_of ops /\ plan_order v = map N.to_nat ord /\
    (forall sp, sys_params K = Ok sp ->
       forallb (fop_valid (spL sp)) ops = true /\ lenN ord = spL sp /\
       Forall (fun i => i < spL sp) ord /\ NoDup ord) /\
    forallb fma_scalar_ok ops = true.
Proof.
  intros H. destruct (cert_ok_core K v H) as [sp [A [ops [ord CC]]]]. exists ops, ord.
  split; [exact (cc_decode _ _ _ _ _ _ CC)|].
  split; [exact (core_plan_symbol_ops _ _ _ _ _ _ CC)|].
  split; [exact (core_plan_ops _ _ _ _ _ _ CC)|].
  split; [exact (core_plan_order _ _ _ _ _ _ CC)|].
  split; [|exact (cc_fma _ _ _ _ _ _ CC)].
  intros sp' Hsp'. pose proof (cc_sp _ _ _ _ _ _ CC) as E. rewrite Hsp' in E. injection E as ->.
  split; [exact (cc_valid _ _ _ _ _ _ CC)|].
  split; [unfold lenN; rewrite (core_ord_len _ _ _ _ _ _ CC); apply N2Nat.id|].
  split.
  - pose proof (core_ord_lt _ _ _ _ _ _ CC) as OL. eapply Forall_impl; [|exact OL].
    cbv beta. intros i Hi. lia.
  - pose proof (cc_nodup _ _ _ _ _ _ CC) as ND. revert ND. clear. induction ord as [|a l IH]; cbn [map]; intros ND.
    + constructor.
    + inversion ND as [|x y Hn ND']. subst. constructor; [|apply IH; exact ND'].
      intros Hin. apply Hn. apply in_map. exact Hin.
Qed.

Section Pinned.
Variables (K : N) (v : list N) (sp : sysparams) (A : list (list N)).
Hypothesis Hok : cert_ok K v = true.
Hypothesis Hsp : sys_params K = Ok sp.
Hypothesis HA : enc_matrix K = Ok A.
Variables (T : nat) (syms : list (list N)).
Hypothesis Hlen : lenN syms = K.
Hypothesis Hsyms : wf_mat T syms.

Theorem pinned_gives_solution :
  let D := create_d sp syms T in
  let C := plan_solution v D in
  solves fmul T A C D /\ length C = N.to_nat (spL sp) /\ wf_mat T C.
Proof.
  destruct (cert_ok_core_at K v sp A Hok Hsp HA) as [ops [ord CC]]. cbv zeta.
  split; [exact (core_solves _ _ _ _ _ _ CC T syms Hlen Hsyms)|].
  split; [exact (core_C_len _ _ _ _ _ _ CC T syms) | exact (core_C_wf _ _ _ _ _ _ CC T syms Hlen Hsyms)].
Qed.

Theorem pinned_rows :
  let C := plan_solution v (create_d sp syms T) in
  (forall i, i < spS sp + spH sp -> lincomb fmul T (nth (N.to_nat i) A []) C = repeat 0 T) /\
  (forall i, i < K -> lincomb fmul T (nth (N.to_nat (spS sp + spH sp + i)) A []) C = nth (N.to_nat i) syms []) /\
  (forall i, K <= i < spK sp -> lincomb fmul T (nth (N.to_nat (spS sp + spH sp + i)) A []) C = repeat 0 T).
Proof.
  destruct (cert_ok_core_at K v sp A Hok Hsp HA) as [ops [ord CC]].
  exact (core_rows _ _ _ _ _ _ CC T syms Hlen Hsyms).
Qed.

Theorem pinned_unique : forall C', wf_mat T C' -> length C' = N.to_nat (spL sp) ->
  solves fmul T A C' (create_d sp syms T) -> C' = plan_solution v (create_d sp syms T).
Proof.
  destruct (cert_ok_core_at K v sp A Hok Hsp HA) as [ops [ord CC]].
  exact (core_unique _ _ _ _ _ _ CC T syms).
Qed.

Theorem pinned_injective : injective fmul (N.to_nat (spL sp)) A.
Proof.
  destruct (cert_ok_core_at K v sp A Hok Hsp HA) as [ops [ord CC]].
  exact (core_injective _ _ _ _ _ _ CC).
Qed.

Theorem pinned_replay : forall m, exists s',
  replay m (plan_symbol_ops v) (mkSlab (create_d sp syms T) T None) = Ok s' /\
  slab_read s' (N.to_nat (spL sp)) 0 = Ok (plan_solution v (create_d sp syms T)).
Proof.
  destruct (cert_ok_core_at K v sp A Hok Hsp HA) as [ops [ord CC]].
  exact (core_replay _ _ _ _ _ _ CC T syms Hlen Hsyms).
Qed.

Theorem pinned_direct : forall m,
  gen_intermediate_symbols m syms T = Ok (plan_solution v (create_d sp syms T)).
Proof.
  destruct (cert_ok_core_at K v sp A Hok Hsp HA) as [ops [ord CC]].
  intros m. exact (core_direct K v sp A ops ord T syms m CC Hlen Hsyms).
Qed.

End Pinned.

Theorem pinned_encoder_builds K v : cert_ok K v = true ->
  forall m T syms, lenN syms = K -> wf_mat T syms ->
  exists C, gen_intermediate_symbols m syms T = Ok C.
Proof.
  intros H m T syms Hlen Hsyms. destruct (cert_ok_core K v H) as [sp [A [ops [ord CC]]]].
  eexists. exact (core_direct K v sp A ops ord T syms m CC Hlen Hsyms).
Qed.

(* SourceBlockEncoder::new / with_encoding_plan: the block encoder is built, from the plan's symbols *)
Theorem pinned_sbe_new K v sp : cert_ok K v = true -> sys_params K = Ok sp ->
  forall m id c block syms, create_symbols c block = Ok syms -> lenN syms = K ->
  wf_mat (N.to_nat (cT c)) syms ->
  sbe_new m id c block =
  Ok (mkSBE id syms (plan_solution v (create_d sp syms (N.to_nat (cT c)))) (N.to_nat (cT c))).
Proof.
  intros H Hsp m id c block syms Hcs Hlen Hsyms.
  destruct (cert_ok_core K v H) as [sp' [A [ops [ord CC]]]].
  pose proof (cc_sp _ _ _ _ _ _ CC) as E. rewrite Hsp in E. injection E as <-.
  unfold sbe_new. rewrite Hcs. cbn [obind].
  rewrite (core_direct K v sp A ops ord _ syms m CC Hlen Hsyms). reflexivity.
Qed.

(* everything at once, for every K served by the block size K' of the certificate *)
Theorem pinned_all K' v : cert_ok K' v = true ->
  forall K, extended_source_block_symbols K = Ok K' ->
  exists sp A,
    sys_params K = Ok sp /\ spK sp = K' /\ (forall m, enc_matrix_m m K = Ok A) /\
    injective fmul (N.to_nat (spL sp)) A /\
    forall T syms, lenN syms = K -> wf_mat T syms ->
      let D := create_d sp syms T in
      let C := plan_solution v D in
      (forall m, gen_intermediate_symbols m syms T = Ok C) /\
      (forall m, exists s', replay m (plan_symbol_ops v) (mkSlab D T None) = Ok s' /\
                            slab_read s' (N.to_nat (spL sp)) 0 = Ok C) /\
      solves fmul T A C D /\ length C = N.to_nat (spL sp) /\ wf_mat T C /\
      (forall C', wf_mat T C' -> length C' = N.to_nat (spL sp) -> solves fmul T A C' D -> C' = C) /\
      (forall i, i < spS sp + spH sp -> lincomb fmul T (nth (N.to_nat i) A []) C = repeat 0 T) /\
      (forall i, i < K ->
         lincomb fmul T (nth (N.to_nat (spS sp + spH sp + i)) A []) C = nth (N.to_nat i) syms []) /\
      (forall i, K <= i < K' ->
         lincomb fmul T (nth (N.to_nat (spS sp + spH sp + i)) A []) C = repeat 0 T).
Proof.
  intros H' K E. pose proof (cert_ok_extended K K' v E H') as H.
  destruct (cert_ok_core K v H) as [sp [A [ops [ord CC]]]]. exists sp, A.
  pose proof (cc_sp _ _ _ _ _ _ CC) as Hsp.
  destruct (sys_params_inv K sp Hsp) as [E1 _]. rewrite E in E1. injection E1 as EK.
  split; [exact Hsp|]. split; [symmetry; exact EK|].
  split; [intros m; apply enc_matrix_any_mode; exact (cc_A _ _ _ _ _ _ CC)|].
  split; [exact (core_injective _ _ _ _ _ _ CC)|].
  intros T syms Hlen Hsyms. cbv zeta.
  split; [intros m; exact (core_direct K v sp A ops ord T syms m CC Hlen Hsyms)|].
  split; [exact (core_replay _ _ _ _ _ _ CC T syms Hlen Hsyms)|].
  split; [exact (core_solves _ _ _ _ _ _ CC T syms Hlen Hsyms)|].
  split; [exact (core_C_len _ _ _ _ _ _ CC T syms)|].
  split; [exact (core_C_wf _ _ _ _ _ _ CC T syms Hlen Hsyms)|].
  split; [exact (core_unique _ _ _ _ _ _ CC T syms)|].
  rewrite EK. exact (core_rows _ _ _ _ _ _ CC T syms Hlen Hsyms).
Qed.
