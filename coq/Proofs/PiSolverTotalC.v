(* PS_no_panic, part 3 (mode Checked = debug_assertions): the whole run never panics, including
   the *_verify assertions. *)
From Coq Require Import NArith List Bool Lia Arith.
From RQ Require Import Base.Outcome Base.Ints Base.ListX Model.Octet Model.CMatrix Model.Slab
  Model.FieldFast
  Spec.Linear Proofs.OutcomeLemmas Proofs.OctetProofs Proofs.LinearProofs Model.PiSolver
  Proofs.PiSolverBase Proofs.PiSolverStruct Proofs.PiSolverOps Proofs.PiSolverG Proofs.PiSolverInvDefs
  Proofs.PiSolverStats Proofs.PiSolverHist Proofs.PiSolverGraph Proofs.PiSolverXStats
  Proofs.PiSolverSwapCols Proofs.PiSolverPhase2 Proofs.PiSolverPhase345 Proofs.PiSolverPhaseTotal
  Proofs.PiSolverSingular Proofs.PiSolverCells Proofs.PiSolverPhase1 Proofs.PiSolverSound
  Proofs.PiSolverElimTotal Proofs.PiSolverNoPanic Proofs.PiSolverFA Proofs.PiSolverXRel
  Proofs.PiSolverCheckedTail Proofs.PiSolverTotal.
Import ListNotations.
Open Scope N_scope.

Section CTot.
Variable A0 : list (list N).
Variable M W Hn : N.
Hypothesis A0_wf : wf_mat (N.to_nat W) A0.
Hypothesis A0_len : lenN A0 = M.
Hypothesis W16 : W < 65536.
Hypothesis HM : Hn <= M.
Hypothesis WM : W <= M.
Hypothesis M32 : M < 4294967296.
Local Notation G := (G A0).
Local Notation fp_inv := (fp_inv A0 M W Hn).
Local Notation np_inv := (np_inv A0 M W Hn).
Local Notation fa_inv := (fa_inv A0 M W Hn).
Local Notation er_inv := (er_inv A0 M W Hn).

Record ck_inv (N0 : N) (s : pstate) (st : stats) (rops : list rowop) : Prop := mkCK {
  ck_np : np_inv Checked N0 s st;
  ck_fa : fa_inv s;
  ck_er : er_inv s rops;
  ck_good : good M (ps_i s) rops }.

Lemma ck_step N0 s st rops : ck_inv N0 s st rops -> ps_i s + ps_u s < W ->
  first_phase_step Checked s st rops = Ok None \/
  exists s' st' rops', first_phase_step Checked s st rops = Ok (Some (s', st', rops')) /\
    ck_inv N0 s' st' rops' /\ ps_i s + ps_u s < ps_i s' + ps_u s'.
Proof.
  intros [NI FA ER Gd] Hlt. pose proof (ni_fp _ _ _ _ _ _ _ _ NI) as I.
  destruct (np_step_pre A0 M W Hn A0_wf A0_len W16 HM M32 Checked N0 s st rops NI Gd Hlt)
    as [En|(s1 & st1 & rops1 & Pre & NI1 & Gd1 & Hm)]; [left; exact En|]. right.
  pose proof (fa_step A0 M W Hn A0_wf A0_len W16 HM M32 s st rops s1 st1 rops1 I FA Hlt Pre) as FA1.
  pose proof (er_step A0 M W Hn A0_wf A0_len W16 HM M32 Checked s st rops s1 st1 rops1 I ER Gd Hlt Pre) as ER1.
  pose proof (fa_verify A0 M W Hn A0_len W16 HM M32 s1 st1 (ni_fp _ _ _ _ _ _ _ _ NI1) FA1) as Vf.
  exists s1, st1, rops1. split; [|split; [constructor; assumption | exact Hm]].
  rewrite (fp_pre_step_run _ _ _ _ _ _ _ Pre). unfold verify_of. rewrite Vf. reflexivity.
Qed.

Lemma ck_loop N0 fuel : forall s st rops,
  ck_inv N0 s st rops -> (N.to_nat (W - (ps_i s + ps_u s)) < fuel)%nat ->
  exists r, first_phase_loop Checked fuel s st rops = Ok r /\
    forall s' rops', r = Some (s', rops') ->
      (exists st', ck_inv N0 s' st' rops') /\ ps_i s' + ps_u s' = W.
Proof.
  induction fuel as [|k IH]; intros s st rops CK Hf; [lia|].
  cbn [first_phase_loop]. pose proof (ni_fp _ _ _ _ _ _ _ _ (ck_np _ _ _ _ CK)) as I.
  rewrite (fi_L _ _ _ _ _ _ I). pose proof (fi_iu _ _ _ _ _ _ I) as Hiu.
  destruct (N.ltb_spec (ps_i s + ps_u s) W) as [Hlt|Hge].
  - destruct (ck_step N0 s st rops CK Hlt) as [En|(s1 & st1 & rops1 & E1 & CK1 & Hm)].
    + rewrite En. cbn [obind]. eexists. split; [reflexivity|]. intros s' rops' X. discriminate.
    + rewrite E1. cbn [obind]. apply (IH s1 st1 rops1 CK1). lia.
  - eexists. split; [reflexivity|]. intros s' rops' X. inversion X; subst. split; [eauto | lia].
Qed.

(* the whole run from an initial state *)
Lemma execute_checked_total s :
  (forall st, st_inv (ps_A s) st (ps_i s) (M - Hn) (ps_i s) (W - ps_u s) -> fp_inv s st) ->
  ps_i s = 0 -> ps_u s <= W -> ps_W s = W -> ps_L s = W -> dims (ps_A s) M W -> lenN (hd_rows s) = Hn ->
  (forall k j, M - Hn <= k < M -> j < W - ps_u s -> cell (ps_A s) k j = 0) -> W - ps_u s < 65535 ->
  ps_ops s = [] -> dims (ps_X s) M (W - ps_u s) ->
  (forall k, rowN (ps_X s) k = firstn (N.to_nat (W - ps_u s)) (rowN (ps_A s) k)) ->
  exists r, execute Checked s = Ok r.
Proof.
  intros Hinv Hi0 Hu HW HL DA Hh Hz Hod Hops DX HXA.
  rewrite execute_tail. unfold first_phase.
  rewrite HW, usub_total by exact Hu. cbn [obind].
  unfold ps_height. rewrite (proj1 DA), num_hdpc_hd_rows, Hh, usub_total by exact HM. cbn [obind].
  assert (Hz' : forall k, M - Hn <= k < M -> cnt (rowN (ps_A s) k) 0 (W - ps_u s) = 0).
  { intros k Hk. apply cnt_zero. intros j Hj. fold (cell (ps_A s) k j). rewrite Hz by lia. discriminate. }
  destruct (xst_new Checked (ps_A s) M W (W - ps_u s) (M - Hn) DA M32 ltac:(lia) W16 ltac:(lia) Hz') as (st & Est & X).
  rewrite Est. cbn [obind].
  assert (I : fp_inv s st) by (apply Hinv; rewrite Hi0; apply (xs_st _ _ _ _ _ _ _ X)).
  assert (Gi : forall k j, G s k j = cell A0 (dat s k) (cat s j)) by (intros; apply G_initial; exact Hops).
  assert (NI : np_inv Checked (W - ps_u s) s st).
  { constructor.
    - exact I.
    - rewrite Hi0. exact X.
    - lia.
    - exact DX.
    - exact (st_new_od _ _ _ _ _ Hod Est).
    - intros _ k j Hk Hj. unfold cell at 1. rewrite HXA. rewrite nth_firstn_lt by lia.
      fold (cell (ps_A s) k j). rewrite <- Gi. apply (fi_agreeA _ _ _ _ _ _ I); [exact Hk | rewrite Hi0; lia].
    - exact Hz. }
  assert (CK : ck_inv (W - ps_u s) s st []).
  { constructor; [exact NI | | apply (er_init A0 M W Hn A0_wf A0_len W16 HM M32); exact Hops | exact Logic.I].
    constructor.
    - intros k j Hk Hj. apply (fi_agreeA _ _ _ _ _ _ I); [exact Hk | rewrite Hi0; lia].
    - intros k j Hk Hj. apply (fi_agreeH _ _ _ _ _ _ I); [exact Hk | rewrite Hi0; lia]. }
  destruct (ck_loop (W - ps_u s) (S (N.to_nat (ps_L s))) s st [] CK ltac:(rewrite HL; lia)) as (r & Er & Hr).
  rewrite Er. cbn [obind]. destruct r as [[s1 rops]|]; [|cbv beta iota; cbn [obind]; eauto].
  destruct (Hr s1 rops eq_refl) as ((st1 & [NI1 FA1 ER1 Gd1]) & Hiu1).
  pose proof (ni_fp _ _ _ _ _ _ _ _ NI1) as I1.
  assert (Hh1 : lenN (ps_A s1) = M) by (apply (fi_dims _ _ _ _ _ _ I1)).
  pose proof (fi_iH _ _ _ _ _ _ I1) as HiH.
  destruct (x_elim_total M (ps_i s1) rops (seqN 0 (lenN (ps_A s1))) (ps_i s1) [] Gd1 ltac:(lia) ltac:(lia))
    as (xo & Exo & Fxo).
  { rewrite Hh1. apply permN_seqN. }
  { intros p Hp. rewrite Hh1. apply seqN_nth0. lia. }
  { constructor. }
  cbv beta iota. rewrite Exo. cbn [obind].
  rewrite Hh1 in Exo.
  destruct (x_relation A0 M W Hn A0_wf A0_len W16 HM M32 s1 st1 rops xo I1 ER1 Gd1 Exo) as [Xb Xa].
  destruct (ni_N0 _ _ _ _ _ _ _ _ NI1) as [HN1 HN2].
  pose proof (ni_Xrel _ _ _ _ _ _ _ _ NI1 eq_refl) as Xr.
  pose proof (fi_iu _ _ _ _ _ _ I1) as Hiu.
  assert (P2 : p2_pre A0 M W Hn s1) by (constructor; try apply I1; try assumption).
  apply (checked_tail_fixed A0 M W A0_wf A0_len Hn (W - ps_u s) s1 xo P2 (fi_c _ _ _ _ _ _ I1) HiH).
  - apply (fa_A _ _ _ _ _ FA1).
  - intros k j Hk Hj. apply (ni_ph _ _ _ _ _ _ _ _ NI1); [exact Hk | lia].
  - apply (fi_I _ _ _ _ _ _ I1).
  - exact Fxo.
  - apply (ni_X _ _ _ _ _ _ _ _ NI1).
  - lia.
  - intros k j Hk Hj. rewrite Xr by lia. apply Xa; assumption.
  - intros k j Hk Hj. rewrite <- (Xb k j Hk Hj).
    apply (colapply_ext_lt (ps_i s1) (ps_i s1) xo Fxo ltac:(lia)); [|exact Hk].
    intros k' Hk'. apply Xr; lia.
Qed.

End CTot.
