(* The complete invariant of FirstPhaseRowSelectionStats: besides st_inv (exact ones_per_row,
   rows_with_single_one sound) and hist_ok (exact histogram): rows_with_single_one is complete,
   rows outside V count zero, original_degree has the right length, the component graph is
   well-formed, its assigned nodes are columns of V, both ones of every row with exactly two ones in V
   are assigned nodes, and every assigned node has a one in a row of V with one or two ones.
   Every statistics function is total under it and preserves it; the row selection is total. *)
From Coq Require Import NArith List Bool Lia Arith Permutation.
From RQ Require Import Base.Outcome Base.Ints Base.ListX Model.Octet Model.CMatrix Model.Slab
  Spec.Linear Proofs.OutcomeLemmas Proofs.LinearProofs Model.PiSolver
  Proofs.PiSolverBase Proofs.PiSolverStruct Proofs.PiSolverOps Proofs.PiSolverG Proofs.PiSolverInvDefs
  Proofs.PiSolverStats Proofs.PiSolverHist Proofs.PiSolverGraph.
From RQ Require Import Proofs.PiSolverCells.
Import ListNotations.
Open Scope N_scope.

Definition oprN (st : stats) (k : N) : N := nth (N.to_nat k) (st_opr st) 0.

Record xst_inv (A : bmat) (st : stats) (i er sc ec N0 : N) : Prop := mkXS {
  xs_st : st_inv A st i er sc ec;
  xs_hist : hist_ok st;
  xs_od : lenN (st_od st) = lenN A;
  xs_out : forall k, k < lenN A -> ~ (i <= k < er) -> oprN st k = 0;
  xs_single : forall k, k < lenN A -> oprN st k = 1 -> In k (st_single st);
  xs_g : cg_inv (st_g st) N0 (seqN 0 sc ++ seqN ec N0);
  xs_edge : forall k p, i <= k < er -> oprN st k = 2 -> sc <= p < ec -> cell A k p = 1 -> nzn (st_g st) p;
  xs_wit : forall p, nzn (st_g st) p ->
     exists k, (i <= k < er) /\ cell A k p = 1 /\ (oprN st k = 1 \/ oprN st k = 2) }.

(* ================= generic totality helpers ================= *)

Lemma swapN_ok {A} (l : list A) i j : (N.to_nat i < length l)%nat -> (N.to_nat j < length l)%nat ->
  exists l', swapN l i j = Ok l'.
Proof.
  intros Li Lj. assert (d0 : A) by (destruct l as [|d0 ?]; [cbn in Li; lia | exact d0]).
  unfold swapN. rewrite (getN_ok l i d0 Li). cbn [obind]. rewrite (getN_ok l j d0 Lj). cbn [obind].
  rewrite (putN_ok l i _ Li). cbn [obind]. rewrite putN_ok by (rewrite upd_nth_length; exact Lj). eauto.
Qed.

Lemma ofold_total_in {A St} (Q : St -> Prop) (f : A -> St -> outcome St) l :
  (forall a s, In a l -> Q s -> exists s', f a s = Ok s' /\ Q s') ->
  forall s, Q s -> exists r, ofold f l s = Ok r /\ Q r.
Proof.
  induction l as [|a l IH]; intros Hstep s Hs.
  - exists s. split; [reflexivity | exact Hs].
  - destruct (Hstep a s (or_introl eq_refl) Hs) as [s1 [E1 Q1]].
    destruct (IH (fun a' s0 Hin => Hstep a' s0 (or_intror Hin)) s1 Q1) as [r [Er Qr]].
    exists r. split; [|exact Qr]. cbn [ofold]. rewrite E1. cbn [obind]. exact Er.
Qed.

Lemma ofold_total_pre {A St} (P : list A -> St -> Prop) (f : A -> St -> outcome St) l :
  (forall pre a post s, l = pre ++ a :: post -> P pre s -> exists s', f a s = Ok s' /\ P (pre ++ [a]) s') ->
  forall s, P [] s -> exists r, ofold f l s = Ok r /\ P l r.
Proof.
  intros Hstep.
  assert (G : forall post pre s, l = pre ++ post -> P pre s -> exists r, ofold f post s = Ok r /\ P l r).
  { induction post as [|a post IH]; intros pre s El Hs.
    - exists s. split; [reflexivity|]. rewrite El, app_nil_r. exact Hs.
    - destruct (Hstep pre a post s El Hs) as [s1 [E1 P1]].
      destruct (IH (pre ++ [a]) s1) as [r [Er Pr]]; [rewrite <- app_assoc; exact El | exact P1 |].
      exists r. split; [|exact Pr]. cbn [ofold]. rewrite E1. cbn [obind]. exact Er. }
  intros s Hs. apply (G l [] s eq_refl Hs).
Qed.

Lemma nth_nz_lt (l : list N) k : nth k l 0 <> 0 -> (k < length l)%nat.
Proof. intros H. destruct (Nat.lt_ge_cases k (length l)) as [L|L]; [exact L|]. rewrite nth_overflow in H by exact L. congruence. Qed.

(* assigned nodes are columns of V *)
Lemma nzn_range g N0 sc ec p : cg_inv g N0 (seqN 0 sc ++ seqN ec N0) -> nzn g p -> sc <= p < ec.
Proof.
  intros C Hp. destruct (cg_len _ _ _ C) as [Ln _]. destruct (cg_dead _ _ _ C) as [_ Hd].
  assert (L : p < N0). { apply nth_nz_lt in Hp. unfold lenN in Ln. lia. }
  assert (Hn : ~ In p (seqN 0 sc ++ seqN ec N0)). { intros Hin. apply Hd in Hin. tauto. }
  rewrite in_app_iff, !seqN_in in Hn. lia.
Qed.

Lemma not_dead sc ec N0 p : sc <= p < ec -> ~ In p (seqN 0 sc ++ seqN ec N0).
Proof. intros H. rewrite in_app_iff, !seqN_in. lia. Qed.

(* ================= xst_ext ================= *)

(* the same invariant for a matrix that agrees with A on V *)
Lemma xst_ext st A A' i er sc ec N0 : xst_inv A st i er sc ec N0 -> lenN A' = lenN A ->
  (forall k j, i <= k < er -> sc <= j < ec -> cell A' k j = cell A k j) ->
  (forall k, i <= k < er -> lenN (rowN A' k) = lenN (rowN A k)) ->
  xst_inv A' st i er sc ec N0.
Proof.
  intros [I K Xod Xout Xsing Xg Xedge Xwit] HL HC _. constructor.
  - apply (st_inv_ext _ _ _ _ _ _ _ I HL). intros k Hk. apply cnt_ext. intros j Hj.
    apply (HC k j Hk Hj).
  - exact K.
  - congruence.
  - intros k Hk. apply Xout. congruence.
  - intros k Hk. apply Xsing. congruence.
  - exact Xg.
  - intros k p Hk Ho Hp Hc. apply (Xedge k p Hk Ho Hp). rewrite <- HC by assumption. exact Hc.
  - intros p Hp. destruct (Xwit p Hp) as [k [Hk [Hc Ho]]]. exists k. split; [exact Hk|]. split; [|exact Ho].
    rewrite HC; [exact Hc | exact Hk | exact (nzn_range _ _ _ _ _ Xg Hp)].
Qed.

(* ================= swap rows ================= *)

Lemma trN_fix a b k lo hi : lo <= a < hi -> lo <= b < hi -> ~ (lo <= k < hi) -> trN a b k = k.
Proof. intros Ha Hb Hk. apply trN_other; lia. Qed.

Lemma xst_swap_rows st A Mn Wn i er sc ec N0 row A' :
  xst_inv A st i er sc ec N0 -> dims A Mn Wn -> i <= row < er -> er <= Mn ->
  swapN A i row = Ok A' ->
  exists st', st_swap_rows st i row = Ok st' /\ xst_inv A' st' i er sc ec N0.
Proof.
  intros [I K Xod Xout Xsing Xg Xedge Xwit] [DL DR] Hrow Her HA.
  pose proof (si_len _ _ _ _ _ _ I) as Lo.
  destruct (swapN_ok (st_opr st) i row) as [opr Eo]; [unfold lenN in *; lia | unfold lenN in *; lia|].
  destruct (swapN_ok (st_od st) i row) as [od Ed]; [unfold lenN in *; lia | unfold lenN in *; lia|].
  assert (E : st_swap_rows st i row = Ok (mkSt od opr (st_hist st) (st_sc st) (st_ec st) (st_sr st)
     (map (fun r => if r =? i then row else if r =? row then i else r) (st_single st)) (st_g st))).
  { unfold st_swap_rows. rewrite Eo. cbn [obind]. rewrite Ed. reflexivity. }
  eexists. split; [exact E|].
  pose proof (swapN_lenN _ _ _ _ HA) as [LA _]. pose proof (swapN_lenN _ _ _ _ Ed) as [Ld _].
  assert (Hopr : forall k, oprN (mkSt od opr (st_hist st) (st_sc st) (st_ec st) (st_sr st)
     (map (fun r => if r =? i then row else if r =? row then i else r) (st_single st)) (st_g st)) k = oprN st (trN i row k)).
  { intros k. unfold oprN. cbn [st_opr]. apply (swapN_cell _ _ _ _ 0 k Eo). }
  assert (Hcell : forall k p, cell A' k p = cell A (trN i row k) p).
  { intros k p. unfold cell, rowN. rewrite (swapN_cell _ _ _ _ [] k HA). reflexivity. }
  constructor.
  - apply (st_swap_rows_spec st A i er sc ec row _ A' I Hrow ltac:(lia) E HA).
  - apply (hist_swap_rows _ _ _ _ K E).
  - cbn [st_od]. congruence.
  - intros k Hk Hn. rewrite Hopr. rewrite (trN_fix i row k i er) by lia. apply Xout; [lia | exact Hn].
  - intros k Hk Ho. rewrite Hopr in Ho. cbn [st_single].
    apply in_map_iff. exists (trN i row k). split; [apply (trN_invol i row k)|].
    apply Xsing; [|exact Ho]. rewrite LA in Hk.
    unfold trN. destruct (k =? i); [lia|]. destruct (k =? row); lia.
  - exact Xg.
  - intros k p Hk Ho Hp Hc. rewrite Hopr in Ho. rewrite Hcell in Hc. cbn [st_g].
    apply (Xedge (trN i row k) p); try assumption. apply (trN_range i row k i er); lia.
  - intros p Hp. cbn [st_g] in Hp. destruct (Xwit p Hp) as [k [Hk [Hc Ho]]].
    exists (trN i row k). split; [apply (trN_range i row k i er); lia|].
    rewrite Hcell, Hopr, trN_invol. split; assumption.
Qed.

(* ================= swap columns ================= *)

Lemma xst_swap_cols st A Mn Wn i er sc ec N0 a b sr A' :
  xst_inv A st i er sc ec N0 -> dims A Mn Wn -> er <= Mn -> ec <= N0 ->
  sc <= a < ec -> sc <= b < ec -> sr <= i ->
  bm_swap_cols A a b sr = Ok A' ->
  exists st', st_swap_cols st a b = Ok st' /\ xst_inv A' st' i er sc ec N0.
Proof.
  intros [I K Xod Xout Xsing Xg Xedge Xwit] D Her Hec Ha Hb Hsr HA.
  destruct (cg_swap _ _ _ a b Xg ltac:(lia) ltac:(lia) (not_dead _ _ _ _ Ha) (not_dead _ _ _ _ Hb))
    as [g' [Eg [Cg Hg]]].
  assert (E : st_swap_cols st a b = Ok (st_set_g st g')).
  { unfold st_swap_cols. rewrite Eg. reflexivity. }
  exists (st_set_g st g'). split; [exact E|].
  destruct (bm_swap_cols_spec _ _ _ _ _ _ _ D HA) as [[DL' DR'] Hc].
  destruct D as [DL DR].
  assert (Hcell : forall k j, i <= k < er -> cell A' k j = cell A k (trN a b j)).
  { intros k j Hk. rewrite Hc by lia. replace (sr <=? k) with true by (symmetry; apply N.leb_le; lia). reflexivity. }
  assert (Hg' : forall p, nzn g' p <-> nzn (st_g st) (trN a b p)) by (intros p; apply Hg).
  constructor.
  - apply (st_swap_cols_spec st A i er sc ec a b sr _ A' I Ha Hb Hsr E HA).
  - apply (hist_swap_cols _ _ _ _ K E).
  - cbn [st_set_g st_od]. congruence.
  - intros k Hk Hn. apply Xout; [congruence | exact Hn].
  - intros k Hk Ho. apply Xsing; [congruence | exact Ho].
  - exact Cg.
  - intros k p Hk Ho Hp Hcp. cbn [st_set_g st_g]. apply Hg'. rewrite Hcell in Hcp by exact Hk.
    apply (Xedge k _ Hk Ho); [|exact Hcp]. apply (trN_range a b p sc ec); lia.
  - intros p Hp. cbn [st_set_g st_g] in Hp. apply Hg' in Hp. destruct (Xwit _ Hp) as [k [Hk [Hcp Ho]]].
    exists k. split; [exact Hk|]. split; [|exact Ho]. rewrite Hcell by exact Hk. exact Hcp.
Qed.

(* ================= totality of the primitives ================= *)

Lemma bm_count_ones_ok A row s e : row < lenN A -> e <= lenN (rowN A row) ->
  bm_count_ones A row s e = Ok (cnt (rowN A row) s e).
Proof.
  intros Hr He. unfold bm_count_ones. destruct (N.leb_spec e s) as [L|L].
  - rewrite cnt_empty by exact L. reflexivity.
  - rewrite (getN_ok A row []) by (unfold lenN in Hr; lia). cbn [obind]. fold (rowN A row).
    replace (e <=? lenN (rowN A row)) with true by (symmetry; apply N.leb_le; exact He). reflexivity.
Qed.

Lemma bm_get_ok A Mn Wn k j : dims A Mn Wn -> k < Mn -> j < Wn -> bm_get A k j = Ok (cell A k j).
Proof.
  intros D Hk Hj. pose proof (dims_row _ _ _ _ D Hk) as Lr. destruct D as [DL DR].
  unfold bm_get. rewrite (getN_ok A k []) by (unfold lenN in DL; lia). cbn [obind]. fold (rowN A k).
  rewrite (getN_ok (rowN A k) j 0) by (unfold lenN in Lr; lia). reflexivity.
Qed.

Lemma col_scan_ok rows col : forall r, Forall (fun row => (col < length row)%nat) rows ->
  exists l, col_scan rows col r = Ok l.
Proof.
  induction rows as [|row t IH]; intros r F; cbn [col_scan]; [eauto|].
  inversion F as [|? ? Hrow Ft]; subst. rewrite (nth_ok_some row col 0 Hrow). cbn [obind].
  destruct (IH (N.succ r) Ft) as [l El]. rewrite El. cbn [obind]. eauto.
Qed.

Lemma bm_ones_in_col_ok A Mn Wn col s e : dims A Mn Wn -> e <= Mn -> col < Wn ->
  exists l, bm_ones_in_col A col s e = Ok l.
Proof.
  intros [DL DR] He Hc. unfold bm_ones_in_col.
  replace ((e <=? s) || (e <=? lenN A)) with true
    by (symmetry; apply orb_true_iff; right; apply N.leb_le; lia).
  apply col_scan_ok. apply Forall_subl. eapply Forall_impl; [|exact DR].
  intros r Hr. cbv beta in Hr. unfold lenN in Hr. lia.
Qed.

Lemma h_inc_ok m h k : h_get h k + 1 < 4294967296 -> exists h', h_inc m h k = Ok h'.
Proof.
  intros Hb. unfold h_inc. cbv zeta. pose proof (h_grow_length h k) as L.
  rewrite (getN_ok _ k 0 L). cbn [obind].
  change (nth (N.to_nat k) (h_grow h k) 0) with (h_get (h_grow h k) k). rewrite h_get_grow.
  rewrite add32 by exact Hb. cbn [obind]. rewrite putN_ok by exact L. eauto.
Qed.

Lemma h_dec_ok m h k : 1 <= h_get h k -> exists h', h_dec m h k = Ok h'.
Proof.
  intros Hb. unfold h_dec. cbv zeta. pose proof (h_grow_length h k) as L.
  rewrite (getN_ok _ k 0 L). cbn [obind].
  change (nth (N.to_nat k) (h_grow h k) 0) with (h_get (h_grow h k) k). rewrite h_get_grow.
  rewrite sub_w_ge by exact Hb. cbn [obind]. rewrite putN_ok by exact L. eauto.
Qed.

(* one row changes its count from old to new: both histogram updates succeed *)
Lemma hist_step_total m opr hist k old new :
  HK opr hist -> lenN opr < 4294967296 -> (k < length opr)%nat -> nth k opr 0 = old ->
  exists h1 h2, h_dec m hist old = Ok h1 /\ h_inc m h1 new = Ok h2 /\ HK (upd_nth k new opr) h2.
Proof.
  intros K Len L Eo.
  pose proof (cntv_pos old opr k L Eo) as Pos.
  destruct (h_dec_ok m hist old) as [h1 Hd]; [rewrite K; exact Pos|].
  pose proof (h_dec_spec _ _ _ _ Hd ltac:(rewrite K; exact Pos)) as D.
  pose proof (cntv_upd new opr k new L) as Un. rewrite Eo, N.eqb_refl in Un.
  pose proof (cntv_le new (upd_nth k new opr)) as Le. unfold lenN in Le, Len. rewrite upd_nth_length in Le.
  assert (B : h_get h1 new + 1 < 4294967296).
  { rewrite D, !K. destruct (N.eqb_spec new old) as [->|Hn].
    - rewrite N.eqb_refl in Un. lia.
    - replace (old =? new) with false in Un by (symmetry; apply N.eqb_neq; congruence). lia. }
  destruct (h_inc_ok m h1 new B) as [h2 Hi].
  exists h1, h2. split; [exact Hd|]. split; [exact Hi|].
  apply (hist_step m opr hist k old new h1 h2 K); assumption.
Qed.

Lemma am_dec_ok m l key : (N.to_nat key < length l)%nat -> 1 <= nth (N.to_nat key) l 0 ->
  am_dec m 0 l key = Ok (upd_nth (N.to_nat key) (nth (N.to_nat key) l 0 - 1) l).
Proof.
  intros L Hv. unfold am_dec, am_get, am_put.
  replace (key <? 0) with false by (symmetry; apply N.ltb_ge; lia). rewrite N.sub_0_r.
  rewrite (getN_ok l key 0 L). cbn [obind]. rewrite sub_w_ge by exact Hv. cbn [obind].
  apply putN_ok. exact L.
Qed.

(* ================= the ones of a row inside a window ================= *)

Definition ones_in (r : list N) (s e : N) : list N :=
  filter (fun j => nth (N.to_nat j) r 0 =? 1) (seqN s e).

Lemma subl_cons (r : list N) s e : s < e -> e <= lenN r ->
  subl r s e = nth (N.to_nat s) r 0 :: subl r (s + 1) e.
Proof.
  intros H1 H2. unfold subl, lenN in *.
  replace (N.to_nat (e - s)) with (S (N.to_nat (e - (s + 1)))) by lia.
  replace (N.to_nat (s + 1)) with (S (N.to_nat s)) by lia.
  assert (L : (N.to_nat s < length r)%nat) by lia. clear H1 H2.
  generalize (N.to_nat (e - (s + 1))). generalize dependent (N.to_nat s). clear s e.
  induction r as [|x r IH]; intros k L n; cbn [length] in L; [lia|].
  destruct k as [|k]; [reflexivity|]. cbn [skipn nth]. apply IH. lia.
Qed.

Lemma row_iter_ones r s e : e <= lenN r ->
  map fst (filter (fun p : N * N => snd p =? 1) (combine (seqN s e) (subl r s e))) = ones_in r s e.
Proof.
  intros He. unfold ones_in. remember (N.to_nat (e - s)) as n eqn:En. revert s En.
  induction n as [|n IH]; intros s En.
  - rewrite seqN_nil by lia. reflexivity.
  - rewrite seqN_cons by lia. rewrite subl_cons by lia. cbn [combine filter snd fst].
    destruct (nth (N.to_nat s) r 0 =? 1); cbn [map fst]; rewrite IH by lia; reflexivity.
Qed.

Lemma cnt_ones_in r s e : cnt r s e = lenN (ones_in r s e).
Proof.
  unfold ones_in. remember (N.to_nat (e - s)) as n eqn:En. revert s En.
  induction n as [|n IH]; intros s En.
  - rewrite seqN_nil by lia. rewrite cnt_empty by lia. reflexivity.
  - rewrite seqN_cons by lia. rewrite cnt_first by lia. cbn [filter]. rewrite (IH (s + 1)) by lia.
    unfold lenN. destruct (nth (N.to_nat s) r 0 =? 1); cbn [length]; lia.
Qed.

Lemma ones_in_In r s e j : In j (ones_in r s e) <-> s <= j < e /\ nth (N.to_nat j) r 0 = 1.
Proof. unfold ones_in. rewrite filter_In, seqN_in, N.eqb_eq. tauto. Qed.

Lemma ones_in_NoDup r s e : NoDup (ones_in r s e).
Proof. apply NoDup_filter, seqN_NoDup. Qed.

Lemma cnt_pos_ex r s e : 1 <= cnt r s e -> exists j, s <= j < e /\ nth (N.to_nat j) r 0 = 1.
Proof.
  rewrite cnt_ones_in. intros H. destruct (ones_in r s e) as [|j t] eqn:E; [cbn in H; lia|].
  exists j. apply ones_in_In. rewrite E. left. reflexivity.
Qed.

Lemma cnt_ge1 r s e j : s <= j < e -> nth (N.to_nat j) r 0 = 1 -> 1 <= cnt r s e.
Proof.
  intros Hj Hv. rewrite (cnt_split r s j e) by lia. rewrite (cnt_first r j e) by lia.
  rewrite Hv, N.eqb_refl. lia.
Qed.

Lemma cnt_sub_le r s e s' e' : s <= s' -> s' <= e' -> e' <= e -> cnt r s' e' <= cnt r s e.
Proof.
  intros H1 H2 H3. rewrite (cnt_split r s s' e) by lia. rewrite (cnt_split r s' e' e) by lia. lia.
Qed.

(* a row with exactly two ones in the window *)
Lemma two_ones_ok A row s e : row < lenN A -> e <= lenN (rowN A row) -> cnt (rowN A row) s e = 2 ->
  exists a b, two_ones A row s e = Ok (a, b) /\ s <= a < e /\ s <= b < e /\ a <> b /\
    cell A row a = 1 /\ cell A row b = 1 /\
    forall j, s <= j < e -> cell A row j = 1 -> j = a \/ j = b.
Proof.
  intros Hr He Hc. unfold two_ones, bm_row_iter.
  rewrite (getN_ok A row []) by (unfold lenN in Hr; lia). cbn [obind]. fold (rowN A row).
  replace ((e <=? s) || (e <=? lenN (rowN A row))) with true
    by (symmetry; apply orb_true_iff; right; apply N.leb_le; exact He).
  cbn [obind]. rewrite row_iter_ones by exact He.
  rewrite cnt_ones_in in Hc. pose proof (ones_in_NoDup (rowN A row) s e) as ND.
  pose proof (ones_in_In (rowN A row) s e) as HI.
  destruct (ones_in (rowN A row) s e) as [|a [|b [|c t]]]; try (unfold lenN in Hc; cbn [length] in Hc; lia).
  exists a, b. split; [reflexivity|].
  destruct (proj1 (HI a) (or_introl eq_refl)) as [Ra Ca].
  destruct (proj1 (HI b) (or_intror (or_introl eq_refl))) as [Rb Cb].
  split; [exact Ra|]. split; [exact Rb|]. split.
  - inversion ND as [|? ? Hn _]; subst. intros ->. apply Hn. left. reflexivity.
  - split; [exact Ca|]. split; [exact Cb|]. intros j Hj Hcj.
    destruct (proj2 (HI j) (conj Hj Hcj)) as [<-|[<-|[]]]; auto.
Qed.

(* ================= recompute row ================= *)

(* recompute_row after a row addition that does not change the row inside V *)
Lemma xst_recompute m st A A' Mn Wn i er sc ec N0 row :
  xst_inv A st i er sc ec N0 -> dims A Mn Wn -> dims A' Mn Wn -> Mn < 4294967296 ->
  i <= row < er -> er <= Mn -> ec <= N0 -> N0 <= Wn -> Wn < 65536 ->
  (forall k, k <> row -> rowN A' k = rowN A k) ->
  (forall j, sc <= j < ec -> cell A' row j = cell A row j) ->
  exists st', st_recompute_row m st A' row = Ok st' /\ xst_inv A' st' i er sc ec N0.
Proof.
  intros X D D' HM Hrow Her Hec HN0 HW HR HC.
  pose proof X as [I K Xod Xout Xsing Xg Xedge Xwit].
  pose proof I as [H1 H2 H3 H4 H5 H6 H7].
  assert (LA : lenN A = Mn) by apply D. assert (LA' : lenN A' = Mn) by apply D'.
  assert (HcellV : forall k p, sc <= p < ec -> cell A' k p = cell A k p).
  { intros k p Hp. destruct (N.eq_dec k row) as [->|Hn]; [apply HC; exact Hp|].
    unfold cell. rewrite HR by exact Hn. reflexivity. }
  set (ones := cnt (rowN A' row) sc ec).
  assert (Eones : ones = oprN st row).
  { unfold ones, oprN. rewrite H5 by exact Hrow. apply cnt_ext. intros j Hj. apply (HC j Hj). }
  assert (Lr : (N.to_nat row < length (st_opr st))%nat) by (unfold lenN in *; lia).
  assert (Hu : u16 ones = ones) by (apply u16_cnt; lia).
  assert (E1 : bm_count_ones A' row (st_sc st) (st_ec st) = Ok ones).
  { rewrite H1, H2. apply bm_count_ones_ok; [lia|]. rewrite (dims_row _ _ _ _ D') by lia. lia. }
  pose proof (proj1 (hist_ok_HK st) K) as KK.
  destruct (hist_step_total m (st_opr st) (st_hist st) (N.to_nat row) (oprN st row) ones KK
              ltac:(rewrite H4; lia) Lr eq_refl) as [h1 [h2 [Ed [Ei Kh]]]].
  set (single' := if ones =? 1 then single_remove (st_single st) row ++ [row]
                  else single_remove (st_single st) row).
  set (s1 := mkSt (st_od st) (upd_nth (N.to_nat row) ones (st_opr st)) h2 (st_sc st) (st_ec st)
                  (st_sr st) single' (st_g st)).
  assert (G : exists g', (if ones =? 2 then st_add_graph_edge m s1 A' row (st_sc st) (st_ec st) else Ok s1)
                         = Ok (st_set_g s1 g') /\ cg_inv g' N0 (seqN 0 sc ++ seqN ec N0) /\
                         forall p, nzn g' p <-> nzn (st_g st) p).
  { destruct (N.eqb_spec ones 2) as [E2|N2].
    - destruct (two_ones_ok A' row sc ec) as [a [b [Et [Ra [Rb [Nab [Ca [Cb _]]]]]]]];
        [lia | rewrite (dims_row _ _ _ _ D') by lia; lia | exact E2 |].
      destruct (cg_add_edge m _ _ _ a b Xg ltac:(lia) ltac:(lia) Nab (not_dead _ _ _ _ Ra) (not_dead _ _ _ _ Rb))
        as [g' [Eg [Cg Hg]]].
      exists g'. split.
      { unfold st_add_graph_edge. rewrite H1, H2, Et. cbn [obind]. unfold s1 at 1. cbn [st_g].
        rewrite Eg. reflexivity. }
      split; [exact Cg|]. intros p. rewrite Hg. split; [|auto].
      intros [Hp|[->| ->]]; [exact Hp| |].
      + apply (Xedge row a Hrow); [congruence | exact Ra | rewrite <- HC by exact Ra; exact Ca].
      + apply (Xedge row b Hrow); [congruence | exact Rb | rewrite <- HC by exact Rb; exact Cb].
    - exists (st_g st). split; [reflexivity|]. split; [exact Xg | tauto]. }
  destruct G as [g' [Eg [Cg Hg]]].
  assert (E : st_recompute_row m st A' row = Ok (st_set_g s1 g')).
  { unfold st_recompute_row. rewrite E1. cbn [obind]. rewrite (getN_ok _ row 0 Lr). cbn [obind].
    fold (oprN st row). rewrite Ed. cbn [obind]. rewrite Ei. cbn [obind]. rewrite Hu.
    rewrite putN_ok by exact Lr. cbn [obind]. exact Eg. }
  exists (st_set_g s1 g'). split; [exact E|].
  assert (Hopr : forall k, oprN (st_set_g s1 g') k = oprN st k).
  { intros k. unfold oprN, s1. cbn [st_set_g st_opr]. rewrite nth_upd_N by exact Lr.
    destruct (N.eqb_spec k row) as [->|_]; [exact Eones | reflexivity]. }
  constructor.
  - apply (st_recompute_row_spec m st A A' i er sc ec row _ I Hrow ltac:(lia) ltac:(congruence) HR E).
  - apply (hist_recompute m st A A' i er sc ec row _ K ltac:(lia) I Hrow ltac:(lia) ltac:(lia) ltac:(congruence) E).
  - unfold s1. cbn [st_set_g st_od]. congruence.
  - intros k Hk Hn. rewrite Hopr. apply Xout; [congruence | exact Hn].
  - intros k Hk Ho. rewrite Hopr in Ho. unfold s1. cbn [st_set_g st_single].
    destruct (single_remove_spec (st_single st) row H7) as [_ HIn].
    destruct (N.eq_dec k row) as [->|Hn].
    + unfold single'. replace (ones =? 1) with true by (symmetry; apply N.eqb_eq; congruence).
      apply in_or_app. right. left. reflexivity.
    + assert (Hin : In k (single_remove (st_single st) row)).
      { apply HIn. split; [|exact Hn]. apply Xsing; [congruence | exact Ho]. }
      unfold single'. destruct (ones =? 1); [apply in_or_app; left|]; exact Hin.
  - exact Cg.
  - intros k p Hk Ho Hp Hcp. rewrite Hopr in Ho. rewrite HcellV in Hcp by exact Hp.
    unfold s1. cbn [st_set_g st_g]. apply Hg. apply (Xedge k p Hk Ho Hp Hcp).
  - intros p Hp. unfold s1 in Hp. cbn [st_set_g st_g] in Hp. apply Hg in Hp.
    destruct (Xwit p Hp) as [k [Hk [Hcp Ho]]]. exists k. split; [exact Hk|].
    rewrite Hopr. split; [|exact Ho]. rewrite HcellV; [exact Hcp | exact (nzn_range _ _ _ _ _ Xg Hp)].
Qed.

(* ================= st_new ================= *)

Lemma u16_small x : x < 65536 -> u16 x = x.
Proof. intros H. unfold u16. apply wrap_small. change (2 ^ 16) with 65536. exact H. Qed.

Lemma st_new_run m A Mn Wn ec er : dims A Mn Wn -> Mn < 4294967296 -> ec <= Wn -> Wn < 65536 ->
  let f := fun row => cnt (rowN A row) 0 ec in
  let l := seqN 0 (lenN A) in
  exists hist, HK (map f l) hist /\
    st_new m A ec er =
    rebuild_cc m (mkSt (map f l) (map f l) hist 0 ec 0 (filter (fun row => f row =? 1) l) (g_new ec)) A 0 er.
Proof.
  intros D HM Hec HW f l. unfold st_new.
  match goal with |- context [ofold ?F ?L ?S] =>
    destruct (ofold_total_pre (fun pre (acc : list N * list N * list N) =>
        fst (fst acc) = rev (map f pre) /\ snd acc = rev (filter (fun row => f row =? 1) pre) /\
        HK (fst (fst acc)) (snd (fst acc))) F L) with (s := S) as [[[opr hist] single] [Er [Ho [Hs Hk]]]] end.
  - intros pre a post [[o h] s] El [Ho [Hs Hk]]. cbn [fst snd] in *.
    assert (Ha : a < lenN A).
    { assert (Hin : In a (seqN 0 (lenN A))) by (rewrite El; apply in_or_app; right; left; reflexivity).
      apply seqN_in in Hin. lia. }
    assert (Lpre : (length pre < N.to_nat (lenN A))%nat).
    { pose proof (seqN_length 0 (lenN A)) as Ll. rewrite El, app_length in Ll. cbn [length] in Ll. lia. }
    rewrite bm_count_ones_ok; [|exact Ha|rewrite (dims_row _ _ _ _ D) by (destruct D; lia); lia].
    cbn [obind]. fold (f a).
    assert (B : h_get h (f a) + 1 < 4294967296).
    { rewrite Hk. pose proof (cntv_le (f a) o) as Le. unfold lenN in Le.
      assert (Lo : length o = length pre) by (rewrite Ho, rev_length, map_length; reflexivity).
      destruct D as [DL _]. lia. }
    destruct (h_inc_ok m h (f a) B) as [h' Ei]. rewrite Ei. cbn [obind].
    eexists. split; [reflexivity|]. cbn [fst snd].
    assert (Hu : u16 (f a) = f a) by (apply u16_cnt; lia). rewrite Hu.
    rewrite map_app, filter_app, !rev_app_distr. cbn [map filter rev app].
    split; [rewrite Ho; reflexivity|]. split; [rewrite Hs; destruct (f a =? 1); reflexivity|].
    pose proof (h_inc_spec _ _ _ _ Ei B) as I.
    intros r. rewrite I, cntv_cons, !Hk. rewrite (N.eqb_sym (f a) r).
    destruct (N.eqb_spec r (f a)) as [->|_]; lia.
  - cbn [fst snd]. split; [reflexivity|]. split; [reflexivity | exact HK_init].
  - cbn [fst snd] in *. subst opr single. exists hist. split.
    + intros r. rewrite <- cntv_rev. apply Hk.
    + rewrite Er. cbn [obind]. rewrite !rev_involutive. reflexivity.
Qed.

Lemma xst_new m A Mn Wn ec er : dims A Mn Wn -> Mn < 4294967296 -> ec <= Wn -> Wn < 65536 -> er <= Mn ->
  (forall k, er <= k < Mn -> cnt (rowN A k) 0 ec = 0) ->
  exists st, st_new m A ec er = Ok st /\ xst_inv A st 0 er 0 ec ec.
Proof.
  intros D HM Hec HW Her Hz.
  destruct (st_new_run m A Mn Wn ec er D HM Hec HW) as [hist [Kh En]].
  set (f := fun row => cnt (rowN A row) 0 ec) in *. set (l := seqN 0 (lenN A)) in *.
  set (s := mkSt (map f l) (map f l) hist 0 ec 0 (filter (fun row => f row =? 1) l) (g_new ec)) in *.
  assert (LA : lenN A = Mn) by apply D.
  assert (Hnth : forall k, k < Mn -> nth (N.to_nat k) (map f l) 0 = f k).
  { intros k Hk. unfold l. apply nth_map_seqN. lia. }
  assert (Ll : length (map f l) = N.to_nat Mn) by (unfold l; rewrite map_length, seqN_length; lia).
  (* every row with two ones yields its two columns *)
  assert (T2 : forall row, row < Mn -> f row = 2 -> exists a b, two_ones A row 0 ec = Ok (a, b) /\
             a < ec /\ b < ec /\ a <> b /\ cell A row a = 1 /\ cell A row b = 1 /\
             forall j, j < ec -> cell A row j = 1 -> j = a \/ j = b).
  { intros row Hr Hf. destruct (two_ones_ok A row 0 ec) as [a [b [Et [Ra [Rb [Nab [Ca [Cb Hu]]]]]]]];
      [lia | rewrite (dims_row _ _ _ _ D) by lia; lia | exact Hf |].
    exists a, b. split; [exact Et|]. repeat split; try lia; try assumption. intros j Hj. apply Hu. lia. }
  (* the edge list *)
  assert (BA : exists edges, build_adjacency s A 0 er = Ok edges /\
     forall e, In e edges <-> exists row a b, row < er /\ f row = 2 /\ two_ones A row 0 ec = Ok (a, b) /\
                               e = (u16 a, u16 b)).
  { unfold build_adjacency.
    match goal with |- context [ofold ?F ?L ?S] =>
      destruct (ofold_total_pre (fun pre (acc : list (N * N)) =>
          forall e, In e acc <-> exists row a b, In row pre /\ f row = 2 /\ two_ones A row 0 ec = Ok (a, b) /\
                               e = (u16 a, u16 b)) F L) with (s := S) as [r [Er Hr]] end.
    - intros pre a post acc El Hacc.
      assert (Ha : a < er).
      { assert (Hin : In a (seqN 0 er)) by (rewrite El; apply in_or_app; right; left; reflexivity).
        apply seqN_in in Hin. lia. }
      unfold s at 1. cbn [st_opr]. rewrite (getN_ok _ a 0) by lia. cbn [obind]. rewrite Hnth by lia.
      destruct (N.eqb_spec (f a) 2) as [E2|N2]; cbn [negb].
      + destruct (T2 a ltac:(lia) E2) as [x [y [Et _]]]. unfold s. cbn [st_sc st_ec]. rewrite Et. cbn [obind].
        eexists. split; [reflexivity|]. intros e. cbn [In]. rewrite Hacc. split.
        * intros [<-|[row [x' [y' [Hin Hrest]]]]].
          -- exists a, x, y. split; [apply in_or_app; right; left; reflexivity|]. auto.
          -- exists row, x', y'. split; [apply in_or_app; left; exact Hin | exact Hrest].
        * intros [row [x' [y' [Hin [Hf [Et' Ee]]]]]]. apply in_app_or in Hin. destruct Hin as [Hin|[<-|[]]].
          -- right. exists row, x', y'. auto.
          -- left. rewrite Et in Et'. injection Et' as <- <-. symmetry. exact Ee.
      + eexists. split; [reflexivity|]. intros e. rewrite Hacc. split.
        * intros [row [x' [y' [Hin Hrest]]]]. exists row, x', y'. split; [apply in_or_app; left; exact Hin | exact Hrest].
        * intros [row [x' [y' [Hin [Hf Hrest]]]]]. apply in_app_or in Hin. destruct Hin as [Hin|[<-|[]]].
          -- exists row, x', y'. auto.
          -- congruence.
    - intros e. split; [intros [] | intros [row [? [? [[] _]]]]].
    - exists (rev r). rewrite Er. split; [reflexivity|]. intros e. rewrite <- in_rev, Hr. split.
      + intros [row [x [y [Hin Hrest]]]]. exists row, x, y. apply seqN_in in Hin. split; [lia | exact Hrest].
      + intros [row [x [y [Hin Hrest]]]]. exists row, x, y. split; [apply seqN_in; lia | exact Hrest]. }
  destruct BA as [edges [Eb He]].
  destruct (cg_new ec ltac:(lia)) as [C0 Z0].
  destruct (cg_rebuild m s A 0 er ec edges C0 Z0 eq_refl Eb) as [st [Es [Fod [Fopr [Fh [Fsc [Fec [Fsr [Fsing [Cg Hg]]]]]]]]]].
  { intros e Hin. apply He in Hin. destruct Hin as [row [a [b [Hr [Hf [Et ->]]]]]].
    destruct (T2 row ltac:(lia) Hf) as [a' [b' [Et' [Ra [Rb [Nab _]]]]]]. rewrite Et in Et'. injection Et' as <- <-.
    cbn [fst snd]. rewrite !u16_small by lia. auto. }
  exists st. assert (E : st_new m A ec er = Ok st) by (rewrite En; exact Es).
  split; [exact E|].
  assert (Hopr : forall k, k < Mn -> oprN st k = f k).
  { intros k Hk. unfold oprN. rewrite Fopr. unfold s. cbn [st_opr]. apply Hnth. exact Hk. }
  constructor.
  - apply (st_new_spec m A ec er st ltac:(lia) ltac:(lia) E).
  - apply (hist_new m A ec er st ltac:(lia) ltac:(lia) E).
  - rewrite Fod. unfold s. cbn [st_od]. unfold lenN in *. rewrite Ll. lia.
  - intros k Hk Hn. rewrite Hopr by lia. apply Hz. lia.
  - intros k Hk Ho. rewrite Hopr in Ho by lia. rewrite Fsing. unfold s. cbn [st_single].
    apply filter_In. split; [unfold l; apply seqN_in; lia | apply N.eqb_eq; exact Ho].
  - rewrite (seqN_nil 0 0), (seqN_nil ec ec) by lia. exact Cg.
  - intros k p Hk Ho Hp Hc. rewrite Hopr in Ho by lia. apply Hg.
    destruct (T2 k ltac:(lia) Ho) as [a [b [Et [Ra [Rb [Nab [Ca [Cb Hu]]]]]]]].
    exists (u16 a, u16 b). split; [apply He; exists k, a, b; repeat split; [lia | exact Ho | exact Et]|].
    cbn [fst snd]. rewrite !u16_small by lia. apply Hu; [lia | exact Hc].
  - intros p Hp. apply Hg in Hp. destruct Hp as [e [Hin Hp]]. apply He in Hin.
    destruct Hin as [row [a [b [Hr [Hf [Et ->]]]]]].
    destruct (T2 row ltac:(lia) Hf) as [a' [b' [Et' [Ra [Rb [Nab [Ca [Cb _]]]]]]]]. rewrite Et in Et'. injection Et' as <- <-.
    cbn [fst snd] in Hp. rewrite !u16_small in Hp by lia.
    exists row. split; [lia|]. rewrite Hopr by lia. split; [destruct Hp as [->| ->]; assumption | right; exact Hf].
Qed.

(* ================= the row selection never panics ================= *)

Lemma find_r_seq h r : forall n s e, n = N.to_nat (e - s) -> find_r h (seqN s e) = Some r ->
  s <= r < e /\ 0 < h_get h r /\ forall k, s <= k < r -> h_get h k = 0.
Proof.
  induction n as [|n IH]; intros s e En H.
  - rewrite seqN_nil in H by lia. discriminate.
  - rewrite seqN_cons in H by lia. cbn [find_r] in H. destruct (N.ltb_spec 0 (h_get h s)) as [L|L].
    + injection H as <-. split; [lia|]. split; [exact L|]. intros k Hk. lia.
    + destruct (IH (s + 1) e ltac:(lia) H) as [R [P Z]]. split; [lia|]. split; [exact P|].
      intros k Hk. destruct (N.eq_dec k s) as [->|Hn]; [lia | apply Z; lia].
Qed.

Lemma cntv_pos_inv r l : 1 <= cntv r l -> exists k, (k < length l)%nat /\ nth k l 0 = r.
Proof.
  unfold cntv. intros H. destruct (filter (fun v => v =? r) l) as [|x t] eqn:E; [cbn in H; lia|].
  assert (Hin : In x (filter (fun v => v =? r) l)) by (rewrite E; left; reflexivity).
  apply filter_In in Hin. destruct Hin as [Hin Hx]. apply N.eqb_eq in Hx. subst x.
  destruct (In_nth _ _ 0 Hin) as [k [Lk Ek]]. eauto.
Qed.

Lemma first_with2_ok opr rows : (forall x, In x rows -> (N.to_nat x < length opr)%nat) ->
  (exists x, In x rows /\ nth (N.to_nat x) opr 0 = 2) -> exists row, first_with2 opr rows = Ok row.
Proof.
  induction rows as [|x t IH]; intros HL [y [Hy Hv]]; [destruct Hy|].
  cbn [first_with2]. rewrite (getN_ok opr x 0) by (apply HL; left; reflexivity). cbn [obind].
  destruct (N.eqb_spec (nth (N.to_nat x) opr 0) 2) as [E|Nn]; [eauto|].
  apply IH; [intros z Hz; apply HL; right; exact Hz|]. destruct Hy as [->|Hy]; [congruence|]. eauto.
Qed.

Lemma od_pick_ok cands : forall chosen deg,
  (chosen <> None \/ exists row d, In (row, d) cands /\ d < deg) ->
  exists r, od_pick cands chosen deg = Ok r.
Proof.
  induction cands as [|[row d] t IH]; intros chosen deg H; cbn [od_pick].
  - destruct H as [H|[? [? [[] _]]]]. destruct chosen; [eauto | congruence].
  - destruct (N.ltb_spec d deg) as [L|L].
    + apply IH. left. discriminate.
    + apply IH. destruct H as [H|[row' [d' [[E|Hin] Hd]]]]; [left; exact H | | right; eauto].
      injection E as <- <-. lia.
Qed.

Lemma in_combine3 (l1 l2 l3 : list N) j : length l1 = length l2 -> length l2 = length l3 ->
  (j < length l1)%nat -> In (nth j l1 0, (nth j l2 0, nth j l3 0)) (combine l1 (combine l2 l3)).
Proof.
  intros E1 E2 Lj. rewrite <- (combine_nth l2 l3 j 0 0) by assumption.
  rewrite <- (combine_nth l1 (combine l2 l3) j 0 (0, 0)) by (rewrite combine_length; lia).
  apply nth_In. rewrite !combine_length. lia.
Qed.

(* REPAIRED STATEMENT: the extra hypothesis on original_degree (last one) is necessary: od_pick starts
   from u16::MAX = 65535 and only accepts strictly smaller degrees, and xst_inv does not bound the
   entries of original_degree.  st_new establishes it when ec < 65535 (st_new_od below) and the other
   statistics functions preserve it (st_*_od below). *)
Lemma xst_selection_total m st A Mn Wn i er sc ec N0 :
  xst_inv A st i er sc ec N0 -> dims A Mn Wn -> er <= Mn -> ec <= N0 -> N0 <= Wn -> sc <= ec ->
  Forall (fun d => d < 65535) (st_od st) ->
  exists res, first_phase_selection m st A i er = Ok res.
Proof.
  intros [I K Xod Xout Xsing Xg Xedge Xwit] D Her Hec HN0 Hsc Fod.
  pose proof I as [H1 H2 H3 H4 H5 H6 H7]. pose proof (proj1 (hist_ok_HK st) K) as KK.
  assert (LA : lenN A = Mn) by apply D.
  unfold first_phase_selection. destruct (find_r _ _) as [r|] eqn:Ef; [|eauto].
  rewrite H1, H2 in Ef. destruct (find_r_seq _ _ _ _ _ eq_refl Ef) as [Rr [Pr Zr]].
  assert (Hk : exists k, i <= k < er /\ oprN st k = r).
  { rewrite KK in Pr. destruct (cntv_pos_inv r (st_opr st) ltac:(lia)) as [k0 [Lk Ek]].
    exists (N.of_nat k0).
    assert (Ho : oprN st (N.of_nat k0) = r) by (unfold oprN; rewrite Nat2N.id; exact Ek).
    split; [|exact Ho]. assert (Hlt : N.of_nat k0 < lenN A) by (unfold lenN in *; lia).
    destruct (N.le_gt_cases i (N.of_nat k0)) as [G1|G1], (N.lt_ge_cases (N.of_nat k0) er) as [G2|G2];
      try lia; pose proof (Xout _ Hlt ltac:(lia)); lia. }
  destruct Hk as [k [Hk Ho]].
  destruct (N.eqb_spec r 2) as [E2|N2].
  - rewrite E2 in Ho.
    assert (V : (match m with Checked => graph_substep_verify st i er | Release => Ok tt end) = Ok tt).
    { destruct m; [reflexivity|]. unfold graph_substep_verify.
      replace ((er <=? i) || (er <=? lenN (st_opr st))) with true
        by (symmetry; apply orb_true_iff; right; apply N.leb_le; lia).
      replace (existsb (fun o => o =? 2) (subl (st_opr st) i er)) with true; [reflexivity|].
      symmetry. apply existsb_exists. exists 2. split; [|reflexivity].
      rewrite <- Ho. unfold oprN. replace (N.to_nat k) with (N.to_nat i + N.to_nat (k - i))%nat by lia.
      rewrite <- (subl_nth _ i er _ 0) by lia. apply nth_In. rewrite subl_length by lia. lia. }
    rewrite V. cbn [obind]. unfold graph_substep. rewrite H1, H2.
    assert (Hex : exists p, nzn (st_g st) p).
    { pose proof (H5 k Hk) as Ec. fold (oprN st k) in Ec. rewrite Ho in Ec.
      destruct (cnt_pos_ex (rowN A k) sc ec ltac:(lia)) as [p [Hp Hc]]. exists p.
      apply (Xedge k p Hk Ho Hp Hc). }
    destruct (cg_largest _ _ _ sc ec Xg Hec (fun p Hp => nzn_range _ _ _ _ _ Xg Hp) Hex) as [n [En [Rn Zn]]].
    rewrite En. cbn [obind].
    destruct (bm_ones_in_col_ok A Mn Wn n i er D Her ltac:(lia)) as [rows Erows]. rewrite Erows. cbn [obind].
    destruct (bm_ones_in_col_spec _ _ _ _ _ Erows) as [_ HI].
    destruct (first_with2_ok (st_opr st) rows) as [row Erow].
    + intros x Hx. apply HI in Hx. unfold lenN in *. lia.
    + destruct (Xwit n Zn) as [k' [Hk' [Hc' Ho']]]. exists k'. split; [apply HI; auto|].
      destruct Ho' as [O1|O2]; [|exact O2]. exfalso.
      pose proof (Zr 1 ltac:(lia)) as Z1. rewrite KK in Z1.
      pose proof (cntv_pos 1 (st_opr st) (N.to_nat k') ltac:(unfold lenN in *; lia) O1). lia.
    + rewrite Erow. cbn [obind]. eauto.
  - unfold original_degree_substep.
    assert (Hdk : nth (N.to_nat k) (st_od st) 0 < 65535).
    { apply (Forall_nth_N (fun d => d < 65535)); [exact Fod | lia]. }
    destruct (N.eqb_spec r 1) as [E1|N1].
    + rewrite E1 in Ho.
      assert (Hks : In k (st_single st)) by (apply Xsing; [lia | exact Ho]).
      replace (negb (lenN (st_single st) =? 0)) with true.
      2:{ symmetry. apply negb_true_iff. apply N.eqb_neq.
          destruct (st_single st); [destruct Hks | unfold lenN; cbn [length]; lia]. }
      cbn [assert_ok obind].
      assert (Em : omapM (fun row => obind (getN (st_od st) row) (fun d => Ok (row, d))) (st_single st)
                   = Ok (map (fun row => (row, nth (N.to_nat row) (st_od st) 0)) (st_single st))).
      { rewrite <- omapM_ok_pure. apply omapM_ext_in. intros x Hx. destruct (H6 x Hx) as [_ Hv].
        assert (Lx : (N.to_nat x < length (st_opr st))%nat) by (apply nth_nz_lt; rewrite Hv; discriminate).
        rewrite (getN_ok _ x 0) by (unfold lenN in *; lia). reflexivity. }
      rewrite Em. cbn [obind].
      match goal with |- context [od_pick ?c None 65535] =>
        destruct (od_pick_ok c None 65535) as [row Erow] end.
      { right. exists k, (nth (N.to_nat k) (st_od st) 0). split; [|exact Hdk].
        apply in_map_iff. exists k. auto. }
      rewrite Erow. cbn [obind]. eauto.
    + replace ((er <=? i) || ((er <=? lenN (st_opr st)) && (er <=? lenN (st_od st)))) with true.
      2:{ symmetry. apply orb_true_iff. right. apply andb_true_iff. split; apply N.leb_le; lia. }
      cbn [obind].
      match goal with |- context [od_pick ?c None 65535] =>
        destruct (od_pick_ok c None 65535) as [row Erow] end.
      { right. exists k, (nth (N.to_nat k) (st_od st) 0). split; [|exact Hdk].
        apply in_map_iff. exists (k, (oprN st k, nth (N.to_nat k) (st_od st) 0)). split; [reflexivity|].
        apply filter_In. split; [|cbn [fst snd]; apply N.eqb_eq; exact Ho].
        pose proof (in_combine3 (seqN i er) (subl (st_opr st) i er) (subl (st_od st) i er) (N.to_nat (k - i))) as HC.
        rewrite seqN_length, !subl_length in HC by lia.
        specialize (HC eq_refl eq_refl ltac:(lia)).
        rewrite seqN_nth, !subl_nth in HC by lia.
        replace (i + N.of_nat (N.to_nat (k - i))) with k in HC by lia.
        replace (N.to_nat i + N.to_nat (k - i))%nat with (N.to_nat k) in HC by lia. exact HC. }
      rewrite Erow. cbn [obind]. eauto.
Qed.

(* ================= resize ================= *)

(* st_resize cut into named pieces *)
Definition rz_block0 (m : mode) (s : stats) (v : N) : outcome (list N * list N * list N) :=
  if v =? 1 then
    let row := st_sr s in
    obind (am_dec m 0 (st_opr s) row) (fun opr =>
    obind (getN opr row) (fun ones =>
    let single := if ones =? 0 then single_remove (st_single s) row else st_single s in
    obind (h_dec m (st_hist s) (ones + 1)) (fun hist =>
    obind (h_inc m hist ones) (fun hist =>
    Ok (opr, hist, single)))))
  else Ok (st_opr s, st_hist s, st_single s).

Definition rz_cols (m : mode) (A : bmat) (sr er : N) (cols : list N)
  (st : (list N * list N * list N * list N) * ccg) :=
  ofold (fun col (st : (list N * list N * list N * list N) * ccg) =>
         let '(acc, g) := st in
         obind (bm_ones_in_col A col sr er) (fun rows =>
         obind (ofold (st_lose_one m) rows acc) (fun acc =>
         obind (g_remove_node m g col) (fun g => Ok (acc, g))))) cols st.

Definition rz_edges (m : mode) (A : bmat) (sc ec : N) (cand : list N) (s1 : stats) :=
  ofold (fun row s1 =>
          obind (getN (st_opr s1) row) (fun o =>
          if o =? 2 then st_add_graph_edge m s1 A row sc ec else Ok s1)) cand s1.

Lemma st_resize_eq m s A sr er sc ec pco : st_resize m s A sr er sc ec pco =
  obind (assert_ok (ec <=? st_ec s)) (fun _ =>
  obind (usub m sr 1) (fun sr1 =>
  obind (assert_ok (st_sr s =? sr1)) (fun _ =>
  obind (usub m sc 1) (fun sc1 =>
  obind (assert_ok (st_sc s =? sc1)) (fun _ =>
  obind (bm_get A (st_sr s) (st_sc s)) (fun v =>
  obind (rz_block0 m s v) (fun st0 =>
  let '(opr, hist, single) := st0 in
  obind (ofold (st_lose_one m) pco (opr, hist, single, [])) (fun acc =>
  obind (g_remove_node m (st_g s) sc1) (fun g =>
  obind (rz_cols m A (st_sr s) er (seqN ec (st_ec s)) (acc, g)) (fun r =>
  let '((opr, hist, single, cand), g) := r in
  let s1 := mkSt (st_od s) opr hist (st_sc s) (st_ec s) (st_sr s) single g in
  obind (rz_edges m A sc ec cand s1) (fun s2 =>
  Ok (mkSt (st_od s2) (st_opr s2) (st_hist s2) sc ec sr (st_single s2) (st_g s2))))))))))))).
Proof. reflexivity. Qed.

(* the invariant of the accumulator of the two "rows that lose a one" loops, relative to the
   ones_per_row list O0 at the start of the first loop *)
Definition LI (i er : N) (O0 : list N) (acc : list N * list N * list N * list N) : Prop :=
  let '(opr, hist, single, cand) := acc in
  length opr = length O0 /\ SI i opr single /\ HK opr hist /\
  (forall k, k <> i -> nth (N.to_nat k) opr 0 = 1 -> In k single) /\
  (forall k, nth (N.to_nat k) opr 0 = 2 -> nth (N.to_nat k) O0 0 = 2 \/ In k cand) /\
  (forall x, In x cand -> i <= x < er) /\
  (forall k, ~ (i <= k < er) -> nth (N.to_nat k) opr 0 = nth (N.to_nat k) O0 0).

Lemma st_lose_one_total m i er O0 row opr hist single cand :
  LI i er O0 (opr, hist, single, cand) -> lenN O0 < 4294967296 -> i <= row < er ->
  (N.to_nat row < length opr)%nat -> 1 <= nth (N.to_nat row) opr 0 ->
  exists opr' hist' single' cand',
    st_lose_one m row (opr, hist, single, cand) = Ok (opr', hist', single', cand') /\
    opr' = upd_nth (N.to_nat row) (nth (N.to_nat row) opr 0 - 1) opr /\
    LI i er O0 (opr', hist', single', cand').
Proof.
  intros [Len [HS [K [C [T [R Out]]]]]] HL Hrow L Hv.
  set (v := nth (N.to_nat row) opr 0 - 1).
  assert (HLo : lenN opr < 4294967296) by (unfold lenN in *; rewrite Len; exact HL).
  destruct (hist_step_total m opr hist (N.to_nat row) (v + 1) v K HLo L ltac:(unfold v; lia))
    as [h1 [h2 [Ed [Ei Kh]]]].
  assert (E : st_lose_one m row (opr, hist, single, cand) =
     Ok (upd_nth (N.to_nat row) v opr, h2,
         (if v =? 0 then single_remove single row else if v =? 1 then single ++ [row] else single),
         if v =? 2 then cand ++ [row] else cand)).
  { unfold st_lose_one. rewrite am_dec_ok by assumption. cbn [obind].
    rewrite (getN_ok _ row 0) by (rewrite upd_nth_length; exact L). cbn [obind].
    rewrite nth_upd_same by exact L. fold v. rewrite Ed. cbn [obind]. rewrite Ei. reflexivity. }
  do 4 eexists. split; [exact E|]. split; [reflexivity|].
  destruct (st_lose_one_inv _ i _ _ _ _ _ _ _ _ _ E HS ltac:(lia) Hv) as [_ [_ HS']].
  destruct HS as [_ NDs].
  unfold LI. split; [rewrite upd_nth_length; exact Len|]. split; [exact HS'|]. split; [exact Kh|].
  split; [|split; [|split]].
  - intros k Hki Hk1. rewrite nth_upd_N in Hk1 by exact L. destruct (N.eqb_spec k row) as [->|Hn].
    + rewrite Hk1. cbn. apply in_or_app. right. left. reflexivity.
    + pose proof (C k Hki Hk1) as Hin. destruct (v =? 0).
      * apply (single_remove_spec single row NDs). split; assumption.
      * destruct (v =? 1); [apply in_or_app; left|]; exact Hin.
  - intros k Hk2. rewrite nth_upd_N in Hk2 by exact L. destruct (N.eqb_spec k row) as [Ekr|Hn].
    + right. rewrite Ekr, Hk2. cbn. apply in_or_app. right. left. reflexivity.
    + destruct (T k Hk2) as [Hl|Hin]; [left; exact Hl | right].
      destruct (v =? 2); [apply in_or_app; left|]; exact Hin.
  - intros x Hx. destruct (v =? 2); [|apply R; exact Hx].
    apply in_app_or in Hx. destruct Hx as [Hx|[<-|[]]]; [apply R; exact Hx | exact Hrow].
  - intros k Hk. rewrite nth_upd_N by exact L. destruct (N.eqb_spec k row) as [->|_]; [lia | apply Out; exact Hk].
Qed.

Lemma fold_lose_total m i er O0 : lenN O0 < 4294967296 -> forall rows opr hist single cand,
  LI i er O0 (opr, hist, single, cand) -> NoDup rows ->
  (forall x, In x rows -> i <= x < er /\ 1 <= nth (N.to_nat x) opr 0) ->
  er <= lenN O0 ->
  exists opr' hist' single' cand',
    ofold (st_lose_one m) rows (opr, hist, single, cand) = Ok (opr', hist', single', cand') /\
    LI i er O0 (opr', hist', single', cand').
Proof.
  intros HL. induction rows as [|a t IH]; intros opr hist single cand HI ND Hpre Her.
  - do 4 eexists. split; [reflexivity | exact HI].
  - inversion ND as [|? ? Hnin ND']; subst.
    destruct (Hpre a (or_introl eq_refl)) as [Ha Hva].
    assert (Len : length opr = length O0) by (destruct HI as [Len _]; exact Len).
    destruct (st_lose_one_total m i er O0 a opr hist single cand HI HL Ha ltac:(unfold lenN in *; lia) Hva)
      as [o1 [h1 [s1 [c1 [E1 [Eo HI1]]]]]].
    destruct (IH o1 h1 s1 c1 HI1 ND') as [o2 [h2 [s2 [c2 [E2 HI2]]]]]; [|exact Her|].
    + intros x Hx. destruct (Hpre x (or_intror Hx)) as [P1 P2]. split; [exact P1|].
      subst o1. rewrite nth_upd_N by (unfold lenN in *; lia).
      destruct (N.eqb_spec x a) as [->|_]; [contradiction | exact P2].
    + exists o2, h2, s2, c2. split; [|exact HI2]. cbn [ofold]. rewrite E1. cbn [obind]. exact E2.
Qed.

(* the graph while the columns ec' .. col-1 have been removed *)
Definition GI (N0 : N) (g1 : ccg) (D0 : list N) (ec' col : N) (g : ccg) : Prop :=
  exists Dc, cg_inv g N0 Dc /\ (forall p, In p Dc <-> In p D0 \/ ec' <= p < col) /\
    (forall q, nzn g q <-> nzn g1 q /\ ~ (ec' <= q < col)).

Lemma cols_total m A Mn Wn i er ec ec' N0 O0 g1 D0 :
  dims A Mn Wn -> er <= Mn -> ec <= N0 -> N0 <= Wn -> lenN O0 = Mn -> Mn < 4294967296 ->
  (forall p, In p D0 -> ~ (ec' <= p < ec)) ->
  forall n col opr hist single cand g, n = N.to_nat (ec - col) -> ec' <= col -> col <= ec ->
  LI i er O0 (opr, hist, single, cand) ->
  (forall k, i <= k < er ->
     nth (N.to_nat k) opr 0 = cnt (rowN A k) (i + 1) ec' + cnt (rowN A k) col ec) ->
  GI N0 g1 D0 ec' col g ->
  exists opr' hist' single' cand' g',
    rz_cols m A i er (seqN col ec) (opr, hist, single, cand, g) = Ok (opr', hist', single', cand', g') /\
    LI i er O0 (opr', hist', single', cand') /\
    (forall k, i <= k < er -> nth (N.to_nat k) opr' 0 = cnt (rowN A k) (i + 1) ec') /\
    GI N0 g1 D0 ec' ec g'.
Proof.
  intros D Her HecN HN0 LO HM HD0.
  induction n as [|n IH]; intros col opr hist single cand g En L1 L2 HI Hinv HG.
  - rewrite seqN_nil by lia. do 5 eexists. split; [reflexivity|]. split; [exact HI|]. split.
    + intros k Hk. rewrite Hinv by exact Hk. rewrite (cnt_empty _ col ec) by lia. lia.
    + replace ec with col by lia. exact HG.
  - rewrite seqN_cons by lia. unfold rz_cols. cbn [ofold].
    destruct (bm_ones_in_col_ok A Mn Wn col i er D Her ltac:(lia)) as [rows Erows].
    rewrite Erows. cbn [obind].
    destruct (bm_ones_in_col_spec _ _ _ _ _ Erows) as [NDr HIr].
    assert (Hc : forall k, cnt (rowN A k) col ec =
                 (if cell A k col =? 1 then 1 else 0) + cnt (rowN A k) (col + 1) ec).
    { intros k. apply cnt_first. lia. }
    assert (Hpre : forall x, In x rows -> i <= x < er /\ 1 <= nth (N.to_nat x) opr 0).
    { intros x Hx. apply HIr in Hx. destruct Hx as [Hx Hcx]. split; [lia|].
      rewrite Hinv by exact Hx. rewrite Hc, Hcx, N.eqb_refl. lia. }
    destruct (fold_lose_total m i er O0 ltac:(lia) rows opr hist single cand HI NDr Hpre ltac:(lia))
      as [o1 [h1 [s1 [c1 [Ef HI1]]]]].
    rewrite Ef. cbn [obind].
    assert (HS : SI i opr single) by (destruct HI as [_ [HS _]]; exact HS).
    destruct (fold_lose _ i _ _ _ _ _ _ _ _ _ Ef NDr) as [Len1 [_ [K1 K2]]]; [|exact HS|].
    { intros x Hx. destruct (Hpre x Hx). split; [lia | assumption]. }
    destruct HG as [Dc [Cg [HDc Hg]]].
    destruct (cg_remove_node m g N0 Dc col Cg ltac:(lia)) as [g2 [Eg2 [Cg2 Hg2]]].
    { intros Hin. apply HDc in Hin. destruct Hin as [Hin|Hin]; [apply (HD0 col Hin); lia | lia]. }
    rewrite Eg2. cbn [obind].
    apply (IH (col + 1) o1 h1 s1 c1 g2 ltac:(lia) ltac:(lia) ltac:(lia) HI1).
    + intros k Hk. destruct (in_dec N.eq_dec k rows) as [Hin|Hnin].
      * rewrite K1 by exact Hin. rewrite Hinv by exact Hk. rewrite Hc.
        apply HIr in Hin. destruct Hin as [_ Hcx]. rewrite Hcx, N.eqb_refl. lia.
      * rewrite K2 by exact Hnin. rewrite Hinv by exact Hk. rewrite Hc.
        destruct (N.eqb_spec (cell A k col) 1) as [Hcx|_]; [|lia].
        exfalso. apply Hnin. apply HIr. split; [exact Hk | exact Hcx].
    + exists (col :: Dc). split; [exact Cg2|]. split.
      * intros p. cbn [In]. rewrite HDc. split; [intros [<-|[H|H]]; [right; lia | left; exact H | right; lia]|].
        intros [H|H]; [right; left; exact H|]. destruct (N.eq_dec col p) as [E|Nn]; [left; exact E | right; right; lia].
      * intros q. rewrite Hg2, Hg. split.
        -- intros [[Hq Hn] Hne]. split; [exact Hq | lia].
        -- intros [Hq Hn]. split; [split; [exact Hq | lia] | lia].
Qed.

Lemma edges_total m A Mn Wn i er ec' N0 D' : dims A Mn Wn -> er <= Mn -> i + 1 <= ec' -> ec' <= N0 -> N0 <= Wn ->
  D' = seqN 0 (i + 1) ++ seqN ec' N0 ->
  forall cand s1, (forall x, In x cand -> i <= x < er) ->
  (forall k, i <= k < er -> oprN s1 k = cnt (rowN A k) (i + 1) ec') ->
  er <= lenN (st_opr s1) -> cg_inv (st_g s1) N0 D' ->
  exists g', rz_edges m A (i + 1) ec' cand s1 = Ok (st_set_g s1 g') /\ cg_inv g' N0 D' /\
    forall p, nzn g' p <-> nzn (st_g s1) p \/
      exists row a b, In row cand /\ oprN s1 row = 2 /\ two_ones A row (i + 1) ec' = Ok (a, b) /\ (p = a \/ p = b).
Proof.
  intros D Her Hi1 HecN HN0 ED'. induction cand as [|a t IH]; intros s1 Hc Ho Hl Cg.
  - exists (st_g s1). split; [destruct s1; reflexivity|]. split; [exact Cg|].
    intros p. split; [auto | intros [H|[? [? [? [[] _]]]]]; exact H].
  - destruct (Hc a (or_introl eq_refl)) as [Ha1 Ha2].
    unfold rz_edges. cbn [ofold]. rewrite (getN_ok _ a 0) by (unfold lenN in Hl; lia). cbn [obind].
    fold (oprN s1 a).
    destruct (N.eqb_spec (oprN s1 a) 2) as [E2|N2].
    + destruct (two_ones_ok A a (i + 1) ec') as [x [y [Et [Rx [Ry [Nxy _]]]]]];
        [destruct D; lia | rewrite (dims_row _ _ _ _ D) by lia; lia | rewrite <- Ho by lia; exact E2|].
      destruct (cg_add_edge m _ _ _ x y Cg ltac:(lia) ltac:(lia) Nxy) as [g2 [Eg2 [Cg2 Hg2]]];
        [subst D'; apply not_dead; lia | subst D'; apply not_dead; lia|].
      unfold st_add_graph_edge. rewrite Et. cbn [obind]. rewrite Eg2. cbn [obind].
      destruct (IH (st_set_g s1 g2)) as [g' [Ee [Cg' Hg']]];
        [intros z Hz; apply Hc; right; exact Hz | exact Ho | exact Hl | exact Cg2 |].
      exists g'. split; [exact Ee|]. split; [exact Cg'|]. intros p. rewrite Hg'. cbn [st_set_g st_g].
      rewrite Hg2. split.
      * intros [[H|H]|[row [a' [b' [Hin Hr]]]]]; [left; exact H | right; exists a, x, y; split; [left; reflexivity | auto] |].
        right. exists row, a', b'. split; [right; exact Hin | exact Hr].
      * intros [H|[row [a' [b' [[<-|Hin] [Hr2 [Et' Hp]]]]]]]; [left; left; exact H | |].
        -- rewrite Et in Et'. injection Et' as <- <-. left. right. exact Hp.
        -- right. exists row, a', b'. auto.
    + destruct (IH s1) as [g' [Ee [Cg' Hg']]];
        [intros z Hz; apply Hc; right; exact Hz | exact Ho | exact Hl | exact Cg |].
      exists g'. split; [exact Ee|]. split; [exact Cg'|]. intros p. rewrite Hg'. split.
      * intros [H|[row [a' [b' [Hin Hr]]]]]; [left; exact H|]. right. exists row, a', b'. split; [right; exact Hin | exact Hr].
      * intros [H|[row [a' [b' [[<-|Hin] [Hr2 Hr]]]]]]; [left; exact H | congruence |].
        right. exists row, a', b'. auto.
Qed.

Lemma NoDup_app_disj {T} (l1 l2 : list T) : NoDup l1 -> NoDup l2 ->
  (forall x, In x l1 -> ~ In x l2) -> NoDup (l1 ++ l2).
Proof.
  induction l1 as [|a t IH]; intros N1 N2 Hd; [exact N2|].
  inversion N1 as [|? ? Hn N1']; subst. cbn [app]. constructor.
  - intros Hin. apply in_app_or in Hin. destruct Hin as [Hin|Hin]; [exact (Hn Hin)|].
    exact (Hd a (or_introl eq_refl) Hin).
  - apply IH; [exact N1' | exact N2|]. intros x Hx. apply Hd. right. exact Hx.
Qed.

Lemma NoDup_dead a b c : a <= b -> NoDup (seqN 0 a ++ seqN b c).
Proof.
  intros H. apply NoDup_app_disj; try apply seqN_NoDup. intros x Hx Hy. apply seqN_in in Hx, Hy. lia.
Qed.

Lemma xst_resize m st A Mn Wn i er ec ec' N0 pco :
  xst_inv A st i er i ec N0 -> dims A Mn Wn -> bin_mat A -> Mn < 4294967296 ->
  i < er -> er <= Mn -> i + 1 <= ec' -> ec' <= ec -> ec <= N0 -> N0 <= Wn -> Wn < 65536 ->
  bm_ones_in_col A i (i + 1) er = Ok pco ->
  (forall j, i < j < ec' -> cell A i j = 0) ->
  exists st', st_resize m st A (i + 1) er (i + 1) ec' pco = Ok st' /\
    xst_inv A st' (i + 1) er (i + 1) ec' N0.
Proof.
  intros X D B HM Hier Her Hec1 Hec2 HecN HN0 HW Hpco Hrow.
  pose proof X as [I K Xod Xout Xsing Xg Xedge Xwit].
  pose proof I as [H1 H2 H3 H4 H5 H6 H7]. pose proof (proj1 (hist_ok_HK st) K) as KK.
  assert (LA : lenN A = Mn) by apply D.
  assert (Lopr : length (st_opr st) = N.to_nat Mn) by (unfold lenN in *; lia).
  assert (HLo : lenN (st_opr st) < 4294967296) by (rewrite H4; lia).
  assert (Hc : forall k, cnt (rowN A k) i ec =
               (if cell A k i =? 1 then 1 else 0) + cnt (rowN A k) (i + 1) ec).
  { intros k. apply cnt_first. lia. }
  (* the one of row i in column i *)
  assert (B0 : exists opr0 hist0 single0, rz_block0 m st (cell A i i) = Ok (opr0, hist0, single0) /\
     length opr0 = length (st_opr st) /\ SI i opr0 single0 /\ HK opr0 hist0 /\
     nth (N.to_nat i) opr0 0 = cnt (rowN A i) (i + 1) ec /\
     (forall k, k <> i -> nth (N.to_nat k) opr0 0 = nth (N.to_nat k) (st_opr st) 0) /\
     (forall k, k <> i -> In k (st_single st) -> In k single0)).
  { assert (HS : SI i (st_opr st) (st_single st)) by (split; assumption).
    pose proof (H5 i ltac:(lia)) as Hi. rewrite Hc in Hi.
    unfold rz_block0. destruct (cell A i i =? 1) eqn:C1.
    - rewrite H3. cbv zeta.
      assert (L : (N.to_nat i < length (st_opr st))%nat) by lia.
      set (v := nth (N.to_nat i) (st_opr st) 0 - 1).
      destruct (hist_step_total m (st_opr st) (st_hist st) (N.to_nat i) (v + 1) v KK HLo L ltac:(unfold v; lia))
        as [h1 [h2 [Ed [Ei Kh]]]].
      rewrite am_dec_ok by (assumption || lia). cbn [obind].
      rewrite (getN_ok _ i 0) by (rewrite upd_nth_length; exact L). cbn [obind].
      rewrite nth_upd_same by exact L. fold v. rewrite Ed. cbn [obind]. rewrite Ei. cbn [obind].
      do 3 eexists. split; [reflexivity|].
      destruct (SI_dec i (st_opr st) (st_single st) i v HS ltac:(lia) L ltac:(unfold v; lia)) as [D0 [Dn _]].
      split; [apply upd_nth_length|].
      split; [destruct (N.eqb_spec v 0); [apply D0 | apply Dn]; assumption|].
      split; [exact Kh|]. split; [rewrite nth_upd_same by exact L; unfold v; lia|]. split.
      + intros k Hk. apply nth_upd_other. lia.
      + intros k Hk Hin. destruct (v =? 0); [apply (single_remove_spec _ _ H7); auto | exact Hin].
    - do 3 eexists. split; [reflexivity|]. split; [reflexivity|]. split; [exact HS|]. split; [exact KK|].
      split; [lia|]. split; [reflexivity | auto]. }
  destruct B0 as [opr0 [hist0 [single0 [E0 [Len0 [HS0 [K0 [V0 [O0 Sg0]]]]]]]]].
  assert (LO0 : lenN opr0 = Mn) by (unfold lenN in *; lia).
  assert (LI0 : LI i er opr0 (opr0, hist0, single0, [])).
  { unfold LI. split; [reflexivity|]. split; [exact HS0|]. split; [exact K0|]. split; [|split; [|split]].
    - intros k Hk Hv. apply Sg0; [exact Hk|]. rewrite O0 in Hv by exact Hk. apply Xsing; [|exact Hv].
      assert ((N.to_nat k < length (st_opr st))%nat) by (apply nth_nz_lt; rewrite Hv; discriminate).
      unfold lenN in *. lia.
    - intros k Hv. left. exact Hv.
    - intros x [].
    - reflexivity. }
  (* the other rows with a one in column i *)
  pose proof (bm_ones_in_col_spec _ _ _ _ _ Hpco) as [NDp HIp].
  assert (Hpre : forall x, In x pco -> i <= x < er /\ 1 <= nth (N.to_nat x) opr0 0).
  { intros x Hx. apply HIp in Hx. destruct Hx as [Hx Hcx]. split; [lia|].
    rewrite O0 by lia. rewrite H5 by lia. rewrite Hc, Hcx, N.eqb_refl. lia. }
  destruct (fold_lose_total m i er opr0 ltac:(lia) pco opr0 hist0 single0 [] LI0 NDp Hpre ltac:(lia))
    as [opr1 [hist1 [single1 [cand1 [Ep LI1]]]]].
  destruct (fold_lose _ i _ _ _ _ _ _ _ _ _ Ep NDp) as [Len1 [_ [K1 K2]]]; [|exact HS0|].
  { intros x Hx. destruct (Hpre x Hx). split; [lia | assumption]. }
  (* the graph: column i leaves V *)
  destruct (cg_remove_node m _ _ _ i Xg ltac:(lia) (not_dead i ec N0 i ltac:(lia))) as [g1 [Eg1 [Cg1 Hg1]]].
  (* the removed columns *)
  destruct (cols_total m A Mn Wn i er ec ec' N0 opr0 g1 (i :: seqN 0 i ++ seqN ec N0) D Her HecN HN0 LO0 HM)
    with (n := N.to_nat (ec - ec')) (col := ec') (opr := opr1) (hist := hist1) (single := single1)
         (cand := cand1) (g := g1)
    as [opr2 [hist2 [single2 [cand2 [g2 [Ec [LI2 [K' GI2]]]]]]]]; try lia; try exact LI1.
  { intros p [<-|Hp]; [lia|]. apply in_app_or in Hp. rewrite !seqN_in in Hp. lia. }
  { intros k Hk. rewrite <- (cnt_split _ (i + 1) ec' ec) by lia.
    destruct (in_dec N.eq_dec k pco) as [Hin|Hnin].
    - rewrite K1 by exact Hin. apply HIp in Hin. destruct Hin as [Hk' Hcx].
      rewrite O0 by lia. rewrite H5 by lia. rewrite Hc, Hcx, N.eqb_refl. lia.
    - rewrite K2 by exact Hnin. destruct (N.eq_dec k i) as [->|Hki]; [exact V0|].
      rewrite O0 by exact Hki. rewrite H5 by lia. rewrite Hc.
      destruct (N.eqb_spec (cell A k i) 1) as [Hcx|_]; [|lia].
      exfalso. apply Hnin. apply HIp. split; [lia | exact Hcx]. }
  { exists (i :: seqN 0 i ++ seqN ec N0). split; [exact Cg1|]. split.
    - intros p. split; [auto | intros [H|H]; [exact H | lia]].
    - intros q. split; [intros H; split; [exact H | lia] | intros [H _]; exact H]. }
  destruct LI2 as [Len2 [HS2 [Kh2 [C2 [T2 [R2 Out2]]]]]].
  assert (Zi : nth (N.to_nat i) opr2 0 = 0).
  { rewrite K' by lia. apply cnt_zero. intros j Hj. fold (cell A i j). rewrite Hrow by lia. discriminate. }
  (* the assigned nodes after the removals *)
  destruct GI2 as [Dc [Cg2 [HDc Hg2]]].
  assert (Hn2 : forall q, nzn g2 q <-> nzn (st_g st) q /\ i + 1 <= q < ec').
  { intros q. rewrite Hg2, Hg1. split.
    - intros [[Hq Hne] Hnr]. split; [exact Hq|]. pose proof (nzn_range _ _ _ _ _ Xg Hq). lia.
    - intros [Hq Hr]. split; [split; [exact Hq | lia] | lia]. }
  assert (Cg2' : cg_inv g2 N0 (seqN 0 (i + 1) ++ seqN ec' N0)).
  { apply (cg_dead_ext g2 N0 Dc _ Cg2).
    - apply NoDup_dead. lia.
    - intros p Hp. apply HDc in Hp. apply in_or_app. rewrite !seqN_in.
      destruct Hp as [[<-|Hp]|Hp]; [left; lia | | right; lia].
      apply in_app_or in Hp. rewrite !seqN_in in Hp. lia.
    - intros p Hp. apply in_app_or in Hp. rewrite !seqN_in in Hp. split; [lia|].
      intros Hq. apply Hn2 in Hq. lia. }
  (* the new edges *)
  set (s1 := mkSt (st_od st) opr2 hist2 i ec i single2 g2).
  destruct (edges_total m A Mn Wn i er ec' N0 _ D Her Hec1 ltac:(lia) HN0 eq_refl cand2 s1) as [g3 [Ee [Cg3 Hg3]]];
    [exact R2 | intros k Hk; apply K'; exact Hk | unfold s1; cbn [st_opr]; unfold lenN in *; lia | exact Cg2' |].
  cbn [st_g s1] in Hg3.
  (* the run *)
  assert (E : st_resize m st A (i + 1) er (i + 1) ec' pco =
              Ok (mkSt (st_od st) opr2 hist2 (i + 1) ec' (i + 1) single2 g3)).
  { rewrite st_resize_eq. rewrite H1, H2, H3.
    replace (ec' <=? ec) with true by (symmetry; apply N.leb_le; exact Hec2). cbn [assert_ok obind].
    unfold usub. rewrite sub_w_ge by lia. cbn [obind]. replace (i + 1 - 1) with i by lia.
    rewrite N.eqb_refl. cbn [assert_ok obind].
    rewrite (bm_get_ok A Mn Wn) by (assumption || lia). cbn [obind].
    rewrite E0. cbn [obind]. rewrite Ep. cbn [obind]. rewrite Eg1. cbn [obind]. rewrite Ec. cbn [obind].
    fold s1. rewrite Ee. reflexivity. }
  eexists. split; [exact E|].
  set (st' := mkSt (st_od st) opr2 hist2 (i + 1) ec' (i + 1) single2 g3) in *.
  assert (Hopr : forall k, oprN st' k = nth (N.to_nat k) opr2 0) by reflexivity.
  assert (Hcand : forall row, In row cand2 -> nth (N.to_nat row) opr2 0 = 2 ->
            i + 1 <= row < er /\ exists a b, two_ones A row (i + 1) ec' = Ok (a, b) /\
              i + 1 <= a < ec' /\ i + 1 <= b < ec' /\ cell A row a = 1 /\ cell A row b = 1 /\
              forall j, i + 1 <= j < ec' -> cell A row j = 1 -> j = a \/ j = b).
  { intros row Hin Hv. pose proof (R2 row Hin) as Hr.
    assert (row <> i) by (intros ->; rewrite Zi in Hv; discriminate). split; [lia|].
    destruct (two_ones_ok A row (i + 1) ec') as [a [b [Et [Ra [Rb [_ [Ca [Cb Hu]]]]]]]];
      [lia | rewrite (dims_row _ _ _ _ D) by lia; lia | rewrite <- K' by lia; exact Hv |].
    exists a, b. repeat split; try assumption; lia. }
  constructor.
  - apply (st_resize_spec m st A Mn Wn i er ec ec' pco _ I D B Hier Her Hec1 Hec2 ltac:(lia) HW Hpco Hrow E).
  - apply (hist_resize m st A Mn Wn i er ec ec' pco _ K ltac:(lia) I D B Hier Her Hec1 Hec2 ltac:(lia) HW Hpco Hrow E).
  - exact Xod.
  - intros k Hk Hn. rewrite Hopr. destruct (N.eq_dec k i) as [->|Hki]; [exact Zi|].
    rewrite Out2 by lia. rewrite O0 by exact Hki. apply Xout; [exact Hk | lia].
  - intros k Hk Hv. rewrite Hopr in Hv. apply C2; [|exact Hv]. intros ->. rewrite Zi in Hv. discriminate.
  - exact Cg3.
  - intros k p Hk Hv Hp Hcp. rewrite Hopr in Hv. apply Hg3. destruct (T2 k Hv) as [Hold|Hin].
    + left. apply Hn2. split; [|exact Hp]. apply (Xedge k p); [lia | | lia | exact Hcp].
      unfold oprN. rewrite <- O0 by lia. exact Hold.
    + right. destruct (Hcand k Hin Hv) as [_ [a [b [Et [_ [_ [_ [_ Hu]]]]]]]].
      exists k, a, b. split; [exact Hin|]. split; [exact Hv|]. split; [exact Et|]. apply Hu; assumption.
  - intros p Hp. apply Hg3 in Hp. destruct Hp as [Hp|[row [a [b [Hin [Hv [Et Hp]]]]]]].
    + apply Hn2 in Hp. destruct Hp as [Hq Hr]. destruct (Xwit p Hq) as [k [Hk [Hcp Ho]]].
      assert (Hki : k <> i). { intros ->. rewrite Hrow in Hcp by lia. discriminate. }
      exists k. split; [lia|]. split; [exact Hcp|]. rewrite Hopr, K' by lia.
      pose proof (cnt_ge1 (rowN A k) (i + 1) ec' p Hr Hcp) as G1.
      pose proof (cnt_sub_le (rowN A k) i ec (i + 1) ec' ltac:(lia) ltac:(lia) Hec2) as G2.
      unfold oprN in Ho. rewrite H5 in Ho by lia. lia.
    + change (oprN s1 row) with (nth (N.to_nat row) opr2 0) in Hv.
      destruct (Hcand row Hin Hv) as [Hr [a' [b' [Et' [_ [_ [Ca [Cb _]]]]]]]].
      rewrite Et in Et'. injection Et' as <- <-.
      exists row. split; [exact Hr|]. split; [destruct Hp as [->| ->]; assumption | right; exact Hv].
Qed.

(* ================= the bound on original_degree needed by the selection ================= *)

Lemma st_new_od m A ec er st : ec < 65535 -> st_new m A ec er = Ok st -> Forall (fun d => d < 65535) (st_od st).
Proof.
  intros Hec H. unfold st_new in H. oinvas H as r Er. destruct r as [[opr hist] single].
  destruct (rebuild_cc_frame _ _ _ _ _ _ H) as [g ->]. cbn [st_set_g st_od]. clear H.
  apply Forall_rev.
  refine (ofold_inv_in (fun acc : list N * list N * list N => Forall (fun d => d < 65535) (fst (fst acc)))
            _ _ _ _ _ _ Er).
  - intros a [[o h] s] [[o' h'] s'] _ Ho Hstep. cbn [fst] in *. omon Hstep. inversion Hstep; subst; clear Hstep.
    match goal with E : bm_count_ones _ _ _ _ = Ok _ |- _ => apply bm_count_ones_inv in E; subst end.
    constructor; [|exact Ho]. rewrite u16_cnt by lia. pose proof (cnt_le (rowN A a) 0 ec). lia.
  - constructor.
Qed.

Lemma st_swap_rows_od st i j st' : st_swap_rows st i j = Ok st' -> Forall (fun d => d < 65535) (st_od st) -> Forall (fun d => d < 65535) (st_od st').
Proof.
  unfold st_swap_rows. intros H F. omon H. injection H as <-. cbn [st_od].
  eapply Forall_swapN; eassumption.
Qed.

Lemma st_swap_cols_od st a b st' : st_swap_cols st a b = Ok st' -> Forall (fun d => d < 65535) (st_od st) -> Forall (fun d => d < 65535) (st_od st').
Proof. unfold st_swap_cols. intros H F. omon H. injection H as <-. exact F. Qed.

Lemma edges_fold_frame_od m A sc ec cand : forall s1 s2,
  rz_edges m A sc ec cand s1 = Ok s2 -> st_od s2 = st_od s1.
Proof.
  unfold rz_edges. induction cand as [|a t IH]; intros s1 s2 H.
  - cbn in H. injection H as <-. reflexivity.
  - apply ofold_cons_inv in H. destruct H as [sm [E1 E2]]. cbv beta in E1. omon E1.
    rewrite (IH _ _ E2). destruct (_ =? 2).
    + destruct (st_add_graph_edge_frame _ _ _ _ _ _ _ E1) as [g ->]. reflexivity.
    + injection E1 as <-. reflexivity.
Qed.

Lemma st_resize_od m st A sr er sc ec pco st' :
  st_resize m st A sr er sc ec pco = Ok st' -> Forall (fun d => d < 65535) (st_od st) -> Forall (fun d => d < 65535) (st_od st').
Proof.
  rewrite st_resize_eq. intros H F. omon H. cbv zeta in H. omon H. injection H as <-. cbn [st_od].
  match goal with E : rz_edges _ _ _ _ _ _ = Ok _ |- _ => rewrite (edges_fold_frame_od _ _ _ _ _ _ _ E) end.
  exact F.
Qed.

Lemma st_recompute_row_od m st A row st' :
  st_recompute_row m st A row = Ok st' -> Forall (fun d => d < 65535) (st_od st) -> Forall (fun d => d < 65535) (st_od st').
Proof.
  unfold st_recompute_row. intros H F. omon H. destruct (_ =? 2).
  - destruct (st_add_graph_edge_frame _ _ _ _ _ _ _ H) as [g ->]. exact F.
  - injection H as <-. exact F.
Qed.
