(* Second to fifth phase and the final read-out never panic in mode Release (the *_verify functions
   and the X matrix exist only under debug_assertions). *)
From Coq Require Import NArith List Bool Lia Arith.
From RQ Require Import Base.Outcome Base.Ints Base.ListX Model.Octet Model.CMatrix Model.Slab
  Spec.Linear Proofs.OutcomeLemmas Proofs.OctetProofs Proofs.LinearProofs Model.PiSolver
  Proofs.PiSolverBase Proofs.PiSolverStruct Proofs.PiSolverOps Proofs.PiSolverG Proofs.PiSolverInvDefs
  Proofs.PiSolverPhase2 Proofs.PiSolverPhase345.
Import ListNotations.
Open Scope N_scope.

(* ================= generic totality helpers ================= *)

Definition okk {A} (e : outcome A) : Prop := exists a, e = Ok a.

Lemma obind_okk {A B} (P : A -> Prop) (e : outcome A) (k : A -> outcome B) :
  (exists a, e = Ok a /\ P a) -> (forall a, P a -> okk (k a)) -> okk (obind e k).
Proof. intros [a [-> Pa]] H. cbn [obind]. apply H, Pa. Qed.

Lemma ofold_okk {A St} (Q : St -> Prop) (f : A -> St -> outcome St) l :
  (forall a s, In a l -> Q s -> exists s', f a s = Ok s' /\ Q s') ->
  forall s, Q s -> exists r, ofold f l s = Ok r /\ Q r.
Proof.
  induction l as [|a l IH]; intros Hstep s Qs.
  - exists s. split; [reflexivity | exact Qs].
  - destruct (Hstep a s (or_introl eq_refl) Qs) as [s1 [E1 Q1]].
    destruct (IH (fun a' s0 Hin => Hstep a' s0 (or_intror Hin)) s1 Q1) as [r [Er Qr]].
    exists r. split; [|exact Qr]. cbn [ofold]. rewrite E1. cbn [obind]. exact Er.
Qed.

Lemma getN_okN {A} (l : list A) i d : i < lenN l -> getN l i = Ok (nth (N.to_nat i) l d).
Proof. intros H. apply getN_ok. unfold lenN in H. lia. Qed.

Lemma getN_row_ok (A : list (list N)) k : k < lenN A -> getN A k = Ok (rowN A k).
Proof. intros H. unfold rowN. apply getN_okN, H. Qed.

Lemma putN_okN {A} (l : list A) i v : i < lenN l -> putN l i v = Ok (upd_nth (N.to_nat i) v l).
Proof. intros H. apply putN_ok. unfold lenN in H. lia. Qed.

Lemma swapN_okk {A} (l : list A) i j : i < lenN l -> j < lenN l -> exists l', swapN l i j = Ok l'.
Proof.
  intros Hi Hj. destruct l as [|d0 l0]; [unfold lenN in Hi; cbn in Hi; lia|].
  unfold swapN. rewrite (getN_okN _ i d0 Hi), (getN_okN _ j d0 Hj). cbn [obind].
  rewrite (putN_okN _ i _ Hi). cbn [obind]. rewrite putN_okN; [eauto|].
  unfold lenN in *. rewrite upd_nth_length. exact Hj.
Qed.

Lemma record_fma_okk M s a b beta : lite M s -> a < M -> b < M ->
  exists s', record_fma_rows s a b beta = Ok s'.
Proof.
  intros L Ha Hb. destruct (lt_d _ _ L) as [Dl _]. unfold record_fma_rows.
  rewrite (getN_okN _ b 0), (getN_okN _ a 0) by (rewrite Dl; assumption). cbn [obind]. eauto.
Qed.

Lemma bm_add_rows_okk A Mn Wn dest src st : dims A Mn Wn -> dest < Mn -> src < Mn -> dest <> src ->
  exists A', bm_add_rows A dest src st = Ok A'.
Proof.
  intros [DL _] Hd Hs Hne. unfold bm_add_rows. destruct (N.eqb_spec dest src); [contradiction|].
  rewrite (getN_row_ok _ dest), (getN_row_ok _ src) by (rewrite DL; assumption). cbn [obind].
  rewrite putN_okN by (rewrite DL; assumption). eauto.
Qed.

Lemma fma_rows_okk M Wn s a b st : lite M s -> ps_hd s = None -> dims (ps_A s) Wn Wn -> Wn <= M ->
  a < Wn -> b < Wn -> a <> b -> exists s', fma_rows Release s a b st = Ok s'.
Proof.
  intros L Hh D HWM Ha Hb Hne. destruct (record_fma_okk M s a b 1 L) as [s1 E1]; try lia.
  unfold fma_rows. rewrite E1. cbn [obind].
  destruct (record_fma_frame _ _ _ _ _ E1) as (EA & Eh & _). rewrite Eh, Hh, EA.
  destruct (bm_add_rows_okk _ _ _ b a st D Hb Ha) as [A' EA']; [congruence|].
  rewrite EA'. cbn [obind]. eauto.
Qed.

Section PT.
Variable A0 : list (list N).
Variable M W : N.
Hypothesis A0_wf : wf_mat (N.to_nat W) A0.
Hypothesis A0_len : lenN A0 = M.

(* ================= second phase ================= *)

Lemma find_pivot_okk col : forall l j, Forall (fun r : list N => (col < length r)%nat) l ->
  exists pv, find_pivot l col j = Ok pv /\ forall p, pv = Some p -> j <= p < j + lenN l.
Proof.
  induction l as [|row t IH]; intros j F.
  - exists None. split; [reflexivity | discriminate].
  - inversion F as [|x y Hr Ht]; subst. cbn [find_pivot]. rewrite (nth_ok_some row col 0 Hr). cbn [obind].
    destruct (nth col row 0 =? 0).
    + destruct (IH (N.succ j) Ht) as [pv [E Hp]]. exists pv. split; [exact E|].
      intros p Hpv. specialize (Hp p Hpv). unfold lenN in *. cbn [length]. lia.
    + exists (Some j). split; [reflexivity|]. intros p Hp. inversion Hp; subst. unfold lenN. cbn [length]. lia.
Qed.

Lemma ps_swap_rows_okk s Wn a b : lite M s -> ps_hd s = None -> dims (ps_A s) M Wn -> a < M -> b < M ->
  exists s', ps_swap_rows Release s a b = Ok s'.
Proof.
  intros L Hh [DL _] Ha Hb. destruct (lt_d _ _ L) as [Ld _]. unfold ps_swap_rows. rewrite Hh. cbn [obind].
  unfold bm_swap_rows. destruct (swapN_okk (ps_A s) a b) as [A' EA]; try (rewrite DL; assumption).
  destruct (swapN_okk (ps_d s) a b) as [d' Ed]; try (rewrite Ld; assumption).
  rewrite EA. cbn [obind]. rewrite Ed. cbn [obind]. eauto.
Qed.

Lemma record_mul_okk s a beta : lite M s -> ps_hd s = None -> a < M -> exists s', record_mul_row s a beta = Ok s'.
Proof.
  intros L Hh Ha. destruct (lt_d _ _ L) as [Ld _]. unfold record_mul_row.
  rewrite (getN_okN _ a 0) by (rewrite Ld; exact Ha). cbn [obind]. rewrite Hh. eauto.
Qed.

Section PTInv.
Variable s0 : pstate.
Variables i0 u : N.
Hypothesis iuW : i0 + u = W.
Hypothesis WM : W <= M.
Local Notation sinv := (sinv A0 M W s0 i0 u).
Local Notation rinv := (rinv A0 M W s0 i0 u).

Lemma sinv_row_len c s sub k : sinv c s sub -> k < M - i0 -> lenN (rowN sub k) = u.
Proof.
  intros S Hk. apply (Forall_rowN _ _ _ (si_rows _ _ _ _ _ _ _ _ _ S)). rewrite (si_len _ _ _ _ _ _ _ _ _ S). exact Hk.
Qed.

Lemma sinv_cell_byte c s sub k j : sinv c s sub -> cell sub k j < 256.
Proof. intros S. apply bytes_nth, bytes_mat_nth, (si_bytes _ _ _ _ _ _ _ _ _ S). Qed.

Lemma reduce_column_okk c s sub : sinv c s sub -> c < u -> okk (reduce_column Release i0 c (s, sub)).
Proof.
  intros S Hcu. unfold reduce_column.
  pose proof (si_len _ _ _ _ _ _ _ _ _ S) as SL. pose proof (si_rows _ _ _ _ _ _ _ _ _ S) as SR.
  apply (obind_okk (fun pv => forall p, pv = Some p -> c <= p < M - i0)).
  { destruct (find_pivot_okk (N.to_nat c) (skipn (N.to_nat c) sub) c) as [pv [E Hp]].
    - apply Forall_skipn. eapply Forall_impl; [|exact SR]. intros r Hr. cbv beta in Hr. unfold lenN in Hr. lia.
    - exists pv. split; [exact E|]. intros p Hpv. specialize (Hp p Hpv).
      assert (lenN (skipn (N.to_nat c) sub) = M - i0 - c) by (unfold lenN in *; rewrite skipn_length; lia). lia. }
  intros pv Hpv.
  apply (obind_okk (fun st1 : pstate * list (list N) => sinv c (fst st1) (snd st1))).
  { destruct pv as [j|].
    - destruct (Hpv j eq_refl) as [Hcj HjM].
      destruct (swapN_okk sub c j) as [sub1 E1]; try (rewrite SL; lia). rewrite E1. cbn [obind].
      pose proof (si_r _ _ _ _ _ _ _ _ _ S) as R.
      destruct (ps_swap_rows_okk s W (i0 + c) (j + i0) (ri_lite _ _ _ _ _ _ _ R) (ri_hd _ _ _ _ _ _ _ R)
                  (ri_dims _ _ _ _ _ _ _ R)) as [s1 E2]; try lia.
      rewrite E2. cbn [obind]. exists (s1, sub1). split; [reflexivity|]. cbn [fst snd].
      apply (sinv_swap A0 M W A0_len s0 i0 u iuW WM Release c s sub j sub1 s1 S Hcj E1 E2).
    - exists (s, sub). split; [reflexivity | exact S]. }
  intros [s1 sub1] S1. cbn [fst snd] in S1. cbv beta iota.
  pose proof (si_len _ _ _ _ _ _ _ _ _ S1) as SL1.
  assert (Lc : c < lenN sub1) by (rewrite SL1; lia).
  unfold bm_get. rewrite (getN_row_ok sub1 c Lc). cbn [obind].
  rewrite (getN_okN (rowN sub1 c) c 0) by (rewrite (sinv_row_len _ _ _ _ S1); lia). cbn [obind].
  fold (cell sub1 c c).
  destruct (N.eqb_spec (cell sub1 c c) 0) as [Ez|Enz]; [eexists; reflexivity|].
  apply (obind_okk (fun st2 : pstate * list (list N) => sinv c (fst st2) (snd st2))).
  { destruct (N.eqb_spec (cell sub1 c c) 1) as [E1|Hne].
    - exists (s1, sub1). split; [reflexivity | exact S1].
    - cbv zeta.
      pose proof (putN_okN sub1 c (map (mulN (divN 1 (cell sub1 c c))) (rowN sub1 c)) Lc) as EP.
      rewrite EP. cbn [obind].
      pose proof (si_r _ _ _ _ _ _ _ _ _ S1) as R.
      destruct (record_mul_okk s1 (i0 + c) (divN 1 (cell sub1 c c)) (ri_lite _ _ _ _ _ _ _ R) (ri_hd _ _ _ _ _ _ _ R))
        as [s2 E2]; [lia|].
      rewrite E2. cbn [obind]. eexists. split; [reflexivity|]. cbn [fst snd].
      assert (Bv : cell sub1 c c < 256) by apply (sinv_cell_byte _ _ _ _ _ S1).
      assert (Hi : divN 1 (cell sub1 c c) < 256) by (apply divN_lt; [reflexivity | exact Bv | exact Enz]).
      assert (Hnz : divN 1 (cell sub1 c c) <> 0) by (apply divN_1_nz; assumption).
      apply (sinv_mul A0 M W A0_len s0 i0 u iuW WM c s1 sub1 _ _ _ s2 S1 (getN_row_ok sub1 c Lc) EP E2 Hi Hnz). }
  intros [s2 sub2] S2. cbn [fst snd] in S2. cbv beta iota.
  pose proof (si_len _ _ _ _ _ _ _ _ _ S2) as SL2.
  rewrite (getN_row_ok sub2 c) by (rewrite SL2; lia). cbn [obind]. rewrite SL2.
  apply (obind_okk (fun _ => True)); [|intros; eexists; reflexivity].
  match goal with |- context [ofold ?F ?l ?z] =>
    destruct (ofold_okk (fun st : pstate * list (list N) => sinv c (fst st) (snd st) /\ rowN (snd st) c = rowN sub2 c) F l)
      with (s := z) as [r [Er _]] end.
  - intros j [sa suba] Hin [Sa Ra]. cbn [fst snd] in Sa, Ra. apply seqN_in in Hin.
    rewrite <- Ra.
    pose proof (si_len _ _ _ _ _ _ _ _ _ Sa) as SLa.
    assert (Lj : j < lenN suba) by (rewrite SLa; lia).
    rewrite (getN_row_ok suba j Lj). cbn [obind].
    rewrite (getN_okN (rowN suba j) c 0) by (rewrite (sinv_row_len _ _ _ _ Sa); lia). cbn [obind].
    fold (cell suba j c).
    destruct (N.eqb_spec (cell suba j c) 0) as [Ez|Esnz].
    + exists (sa, suba). split; [reflexivity|]. cbn [fst snd]. split; [exact Sa | reflexivity].
    + pose proof (putN_okN suba j (oct_row_fma (rowN suba j) (rowN suba c) (cell suba j c)) Lj) as EP.
      rewrite EP. cbn [obind].
      pose proof (si_r _ _ _ _ _ _ _ _ _ Sa) as R.
      destruct (record_fma_okk M sa (i0 + c) (i0 + j) (cell suba j c) (ri_lite _ _ _ _ _ _ _ R)) as [sb Eb]; try lia.
      rewrite Eb. cbn [obind]. eexists. split; [reflexivity|]. cbn [fst snd].
      assert (Hcj : c < j) by lia.
      destruct (sinv_fma A0 M W A0_wf A0_len s0 i0 u iuW WM c sa suba j _ _ _ sb Sa Hcj Hcu
                  (getN_row_ok suba j Lj) (sinv_cell_byte _ _ _ _ _ Sa) EP Eb) as (Sb & Rb & _).
      split; [exact Sb|]. apply Rb. lia.
  - cbn [fst snd]. split; [exact S2 | reflexivity].
  - exists r. split; [exact Er | exact I].
Qed.

Lemma reduce_loop_okk : forall n c s sub, N.of_nat n + c = u -> sinv c s sub ->
  exists r, reduce_loop Release i0 (seqN c u) (s, sub) = Ok r /\
    forall s' sub', r = Some (s', sub') -> sinv u s' sub'.
Proof.
  assert (K : forall n c s sub, N.of_nat n + c = u -> sinv c s sub ->
            okk (reduce_loop Release i0 (seqN c u) (s, sub))).
  { induction n as [|n IH]; intros c s sub Hn S.
    - rewrite seqN_nil by lia. eexists. reflexivity.
    - rewrite seqN_cons by lia. cbn [reduce_loop].
      destruct (reduce_column_okk c s sub S) as [r Er]; [lia|]. rewrite Er. cbn [obind].
      destruct r as [[s1 sub1]|]; [|eexists; reflexivity].
      apply (IH (c + 1) s1 sub1); [lia|].
      apply (sinv_reduce_column A0 M W A0_wf A0_len s0 i0 u iuW WM Release c s sub s1 sub1 S); [lia | exact Er]. }
  intros n c s sub Hn S. destruct (K n c s sub Hn S) as [r Er]. exists r. split; [exact Er|].
  intros s' sub' ->. apply (sinv_reduce_loop A0 M W A0_wf A0_len s0 i0 u iuW WM Release n c s sub s' sub' Hn S Er).
Qed.

Lemma back_okk s sub : sinv u s sub -> okk (backwards_elimination s sub i0 i0 u).
Proof.
  intros S. unfold backwards_elimination.
  pose proof (si_r _ _ _ _ _ _ _ _ _ S) as R. pose proof (si_len _ _ _ _ _ _ _ _ _ S) as SL.
  apply (obind_okk (fun st => lite M st /\ ps_A st = ps_A s)).
  { apply (ofold_okk (fun st => lite M st /\ ps_A st = ps_A s)); [|split; [apply (ri_lite _ _ _ _ _ _ _ R) | reflexivity]].
    intros c st Hc Q. apply in_rev, seqN_in in Hc.
    apply (ofold_okk (fun st => lite M st /\ ps_A st = ps_A s)); [|exact Q].
    intros j sa Hj [La EA]. apply seqN_in in Hj.
    unfold bm_get. rewrite (getN_row_ok sub j) by (rewrite SL; lia). cbn [obind].
    rewrite (getN_okN (rowN sub j) c 0) by (rewrite (sinv_row_len _ _ _ _ S); lia). cbn [obind].
    fold (cell sub j c).
    destruct (N.eqb_spec (cell sub j c) 0) as [Ez|Enz]; [exists sa; split; [reflexivity | split; assumption]|].
    destruct (record_fma_okk M sa (i0 + c) (i0 + j) (cell sub j c) La) as [sb Eb]; try lia.
    exists sb. split; [exact Eb|]. split.
    - eapply lite_record_fma; [exact La | exact Eb | apply (sinv_cell_byte _ _ _ _ _ S) | lia].
    - destruct (record_fma_frame _ _ _ _ _ Eb) as [EA' _]. congruence. }
  intros s1 [L1 EA1].
  apply (obind_okk (fun _ => True)); [|intros; eexists; reflexivity].
  match goal with |- context [ofold ?F ?l ?z] =>
    destruct (ofold_okk (fun X : list (list N) => dims X M W) F l) with (s := z) as [r [Er _]] end.
  - intros row X Hin XD. apply seqN_in in Hin. pose proof XD as [XL XF].
    assert (Lr : row < lenN X) by (rewrite XL; lia).
    rewrite (getN_row_ok X row Lr). cbn [obind].
    assert (RL : lenN (rowN X row) = W) by (apply (PiSolverPhase2.dims_row X M W row XD); lia).
    rewrite RL. replace ((u =? 0) || (i0 + u <=? W)) with true
      by (symmetry; apply orb_true_iff; right; apply N.leb_le; lia).
    cbn [obind]. cbv zeta. rewrite putN_okN by exact Lr. eexists. split; [reflexivity|].
    destruct (ident_row_spec (rowN X row) i0 u row W RL ltac:(lia) _ eq_refl) as (RL' & _).
    split.
    + unfold lenN in *. rewrite upd_nth_length. exact XL.
    + apply Forall_upd_nth; [exact XF | exact RL'].
  - rewrite EA1. apply (ri_dims _ _ _ _ _ _ _ R).
  - exists r. split; [exact Er | exact I].
Qed.

End PTInv.

Lemma second_phase_total H s xo : p2_pre A0 M W H s -> exists r, second_phase Release s xo = Ok r.
Proof.
  intros P. unfold second_phase. cbn [obind onX]. cbv zeta. fold (hd_rows s).
  set (sI := set_hd s None). set (i0 := ps_i s). set (u := ps_u s).
  pose proof (p2_iu _ _ _ _ _ P) as iuW. fold i0 u in iuW. pose proof (p2_WM _ _ _ _ _ P) as WM.
  pose proof (p2_HM _ _ _ _ _ P) as HM. pose proof (p2_lite _ _ _ _ _ P) as L0.
  assert (LI : lite M sI) by apply lite_set_hd_none, L0.
  assert (GI : forall k j, G A0 sI k j = G A0 s k j) by (intros; apply G_frame; reflexivity).
  assert (RI : rinv A0 M W sI i0 u sI).
  { constructor; cbn [sI set_hd ps_hd ps_c ps_i ps_u ps_W ps_L ps_A]; try reflexivity; try assumption.
    - apply (p2_W _ _ _ _ _ P).
    - apply (p2_L _ _ _ _ _ P).
    - apply (p2_dims _ _ _ _ _ P).
    - apply (p2_bin _ _ _ _ _ P).
    - intros k j Hk Hj. rewrite GI. apply (p2_zero _ _ _ _ _ P); assumption. }
  assert (DI : dims (ps_A sI) M W) by apply (ri_dims _ _ _ _ _ _ _ RI).
  assert (EhI : ps_height sI = M) by (unfold ps_height; apply DI).
  assert (RR : exists r, record_reduce_to_row_echelon Release sI (hd_rows s) i0 i0 u = Ok r /\
                forall sr sub, r = Some (sr, sub) -> sinv A0 M W sI i0 u u sr sub).
  { unfold record_reduce_to_row_echelon. rewrite EhI, (p2_hlen _ _ _ _ _ P).
    unfold usub, sub_w. destruct (N.leb_spec H M) as [_|]; [|lia]. cbn [obind].
    destruct (N.leb_spec i0 M) as [_|]; [|lia]. cbn [obind].
    match goal with |- context [omapM ?F ?l] => destruct (omapM_all_ok F l) as [sub0 E0] end.
    { intros row Hin. apply seqN_in in Hin.
      assert (ER : exists r, (if row <? M - H then getN (ps_A sI) row else getN (hd_rows s) (row - (M - H))) = Ok r
                             /\ lenN r = W).
      { destruct (N.ltb_spec row (M - H)).
        - exists (rowN (ps_A sI) row). destruct DI as [DL DF]. split; [apply getN_row_ok; lia|].
          apply (Forall_rowN _ _ _ DF). lia.
        - exists (rowN (hd_rows s) (row - (M - H))). pose proof (p2_hlen _ _ _ _ _ P) as HL.
          split; [apply getN_row_ok; lia|]. apply (Forall_rowN _ _ _ (p2_hrows _ _ _ _ _ P)). lia. }
      destruct ER as [r [-> Lr]]. cbn [obind]. rewrite Lr.
      replace ((u =? 0) || (i0 + u <=? W)) with true
        by (symmetry; apply orb_true_iff; right; apply N.leb_le; lia).
      eauto. }
    rewrite E0. cbn [obind].
    destruct (sub_init _ _ _ _ _ _ _ _ DI (p2_hrows _ _ _ _ _ P) iuW E0) as (SL & SR & SB & SC).
    assert (S0 : sinv A0 M W sI i0 u 0 sI sub0).
    { constructor.
      - exact RI.
      - exact SL.
      - exact SR.
      - apply SB; [apply (lt_A _ _ LI)|]. pose proof (lt_hd _ _ L0) as X. unfold hd_rows.
        destruct (ps_hd s); [exact X | constructor].
      - intros k' j' Hk' Hj'. rewrite SC by assumption. rewrite GI.
        destruct (N.ltb_spec (i0 + k') (M - H)).
        + cbn [sI set_hd ps_A]. apply (p2_agreeA _ _ _ _ _ P); fold i0; lia.
        + rewrite (p2_agreeH _ _ _ _ _ P) by (fold i0; lia). f_equal. lia.
      - intros c' Hc'. lia. }
    apply (reduce_loop_okk sI i0 u iuW WM (N.to_nat u) 0 sI sub0); [lia | exact S0]. }
  destruct RR as [r [Er Hr]]. rewrite Er. cbn [obind].
  destruct r as [[sr sub]|]; [|eexists; reflexivity].
  specialize (Hr sr sub eq_refl).
  destruct (back_okk sI i0 u iuW WM sr sub Hr) as [sB EB]. rewrite EB. cbn [obind].
  destruct (back_spec A0 M W A0_wf A0_len sI i0 u iuW WM _ _ _ Hr EB) as (_ & _ & _ & _ & BW & BL & [BDL _] & _).
  unfold bm_resize. rewrite BL, BW, BDL.
  destruct (N.leb_spec W M); [|lia]. destruct (N.leb_spec W W); [|lia]. cbn [andb obind]. eauto.
Qed.


(* ================= third, fourth, fifth phase and the read-out ================= *)

Lemma pinv_fma_okk i c s a b : i <= W -> W <= M -> pinv A0 M W i c s -> a < W -> b < W -> a <> b ->
  exists s', fma_rows Release s a b (errata11_start Release s) = Ok s' /\ pinv A0 M W i c s'.
Proof.
  intros HiW HWM P Ha Hb Hne.
  destruct (fma_rows_okk M W s a b (errata11_start Release s) (pv_lite _ _ _ _ _ _ P) (pv_hd _ _ _ _ _ _ P)
              (pv_dims _ _ _ _ _ _ P) HWM Ha Hb Hne) as [s' E].
  exists s'. split; [exact E|].
  assert (Hst : errata11_start Release s <= i) by (cbn [errata11_start]; rewrite (pv_i _ _ _ _ _ _ P); lia).
  apply (pinv_fma A0 M W A0_wf A0_len i c Release s a b _ s' HiW HWM P Hst E).
Qed.

Lemma third_total i c s xo : i <= W -> W <= M -> pinv A0 M W i c s -> Forall (xo_lt i) xo ->
  exists s3, third_phase Release s xo = Ok s3 /\ pinv A0 M W i c s3.
Proof.
  intros HiW HWM P Hxo. unfold third_phase. cbn [obind].
  match goal with |- context [ofold ?F (rev xo) s] =>
    destruct (ofold_okk (pinv A0 M W i c) F (rev xo)) with (s := s) as [s3 [E3 P3]] end.
  - intros op sa Hin Pa. apply in_rev in Hin. rewrite Forall_forall in Hxo. specialize (Hxo op Hin).
    destruct op as [a b|a b]; [|destruct Hxo]. cbn in Hxo.
    apply (pinv_fma_okk i c sa a b HiW HWM Pa); lia.
  - exact P.
  - exists s3. rewrite E3. cbn [obind]. split; [reflexivity | exact P3].
Qed.

Lemma fourth_total i c s : i <= W -> W <= M -> pinv A0 M W i c s ->
  exists s4, fourth_phase Release s = Ok s4 /\ pinv A0 M W i c s4.
Proof.
  intros HiW HWM P. unfold fourth_phase.
  match goal with |- context [ofold ?F (seqN 0 (ps_i s)) s] =>
    destruct (ofold_okk (pinv A0 M W i c) F (seqN 0 (ps_i s))) with (s := s) as [s4 [E4 P4]] end.
  - intros r sa Hin Pa. apply seqN_in in Hin. rewrite (pv_i _ _ _ _ _ _ P) in Hin.
    pose proof (pv_dims _ _ _ _ _ _ Pa) as D. pose proof D as [DL _].
    assert (Hr : r < lenN (ps_A sa)) by (rewrite DL; lia).
    assert (EN : exists cols, bm_nonzero_cols (ps_A sa) r (ps_i sa) = Ok cols) 
      by (unfold bm_nonzero_cols; rewrite (getN_row_ok _ r Hr); cbn [obind]; eauto).
    destruct EN as [cols EN]. rewrite EN. cbn [obind].
    rewrite (pv_i _ _ _ _ _ _ Pa) in EN.
    destruct (nonzero_cols_spec W _ _ _ _ D HiW EN) as [_ [Hcols _]].
    apply (ofold_okk (pinv A0 M W i c)); [|exact Pa].
    intros j sb Hj Pb. rewrite Forall_forall in Hcols. specialize (Hcols j Hj).
    apply (pinv_fma_okk i c sb j r HiW HWM Pb); lia.
  - exact P.
  - exists s4. rewrite E4. cbn [obind]. split; [reflexivity | exact P4].
Qed.

Lemma fifth_total i c s xo : i <= M -> q5 M W c s -> Forall (xo_lt i) xo ->
  exists s5, fifth_phase Release s xo = Ok s5 /\ q5 M W c s5.
Proof.
  intros HiM Q Hxo. unfold fifth_phase.
  match goal with |- context [ofold ?F xo s] =>
    destruct (ofold_okk (q5 M W c) F xo) with (s := s) as [s5 [E5 Q5]] end.
  - intros op sa Hin [La [Hh [Hc HL]]]. rewrite Forall_forall in Hxo. specialize (Hxo op Hin).
    destruct op as [a b|a b]; [|destruct Hxo]. cbn in Hxo.
    destruct (record_fma_okk M sa a b 1 La) as [sb Eb]; try lia.
    exists sb. split; [exact Eb|].
    destruct (record_fma_frame _ _ _ _ _ Eb) as [_ [Eh [_ [Ec [_ [_ [_ [EL _]]]]]]]].
    unfold q5. split; [|split; [congruence | split; congruence]].
    eapply lite_record_fma; [exact La | exact Eb | reflexivity | lia].
  - exact Q.
  - exists s5. rewrite E5. cbn [obind]. split; [reflexivity | exact Q5].
Qed.

Lemma reorder_total s : lite M s -> permN W (ps_c s) -> ps_L s = W -> W <= M ->
  exists ord, reorder_of s = Ok ord.
Proof.
  intros L Pc HL HWM. unfold reorder_of. rewrite HL.
  match goal with |- context [ofold ?F ?l ?z] =>
    destruct (ofold_okk (fun im : list N => lenN im = W) F l) with (s := z) as [ord [E _]] end.
  - intros t im Hin Him. apply seqN_in in Hin. destruct Pc as [Lc Pc']. destruct (lt_d _ _ L) as [Ld _].
    rewrite (getN_okN _ t 0) by (rewrite Lc; lia). cbn [obind].
    rewrite (getN_okN _ t 0) by (rewrite Ld; lia). cbn [obind].
    assert (Hct : nth (N.to_nat t) (ps_c s) 0 < W).
    { destruct Pc' as [_ Hb]. rewrite Forall_forall in Hb. apply Hb, nth_In. unfold lenN in Lc. lia. }
    rewrite putN_okN by (rewrite Him; exact Hct). eexists. split; [reflexivity|].
    unfold lenN in *. rewrite upd_nth_length. exact Him.
  - unfold lenN. rewrite repeat_length. lia.
  - eauto.
Qed.

Lemma phases345_total s xo : p3_pre A0 M W s -> Forall (xo_lt (ps_i s)) xo -> permN W (ps_c s) ->
  exists s3 s4 s5 ord, third_phase Release s xo = Ok s3 /\ fourth_phase Release s3 = Ok s4 /\
    fifth_phase Release s4 xo = Ok s5 /\ reorder_of s5 = Ok ord.
Proof.
  intros P Hxo Pc. destruct P as [L Hh D B HW HL Hiu HWM Ag HI Hlow].
  remember (ps_i s) as i eqn:Ei.
  assert (HiW : i <= W) by lia. assert (HiM : i <= M) by lia.
  assert (P0 : pinv A0 M W i (ps_c s) s) by (constructor; auto).
  destruct (third_total i _ s xo HiW HWM P0 Hxo) as [s3 [E3 P3]].
  destruct (fourth_total i _ s3 HiW HWM P3) as [s4 [E4 P4]].
  assert (Q4 : q5 M W (ps_c s) s4).
  { destruct P4 as [L4 Hh4 _ _ HL4 _ Hc4 _]. unfold q5. split; [exact L4|]. split; [exact Hh4|]. split; assumption. }
  destruct (fifth_total i _ s4 xo HiM Q4 Hxo) as [s5 [E5 [L5 [_ [Hc5 HL5]]]]].
  destruct (reorder_total s5 L5) as [ord Eo]; [rewrite Hc5; exact Pc | exact HL5 | exact HWM|].
  exists s3, s4, s5, ord. auto.
Qed.

End PT.
