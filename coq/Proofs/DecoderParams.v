(* For K <= 56403 the parameter look-ups of Case 3 select one row of the tables, and with that row
   neither constraint-matrix generator can panic on ISIs below 2^32 (C02, panic-freedom part). *)
From Coq Require Import NArith List Bool Arith Lia Permutation.
From RQ Require Import Base.Outcome Base.Ints Base.ListX Gen.Consts Gen.SysTables Spec.Linear
  Spec.Prime Spec.Rand Spec.Tuple Spec.GF256
  Model.Octet Model.SysConst Model.Tuple Model.CMatrix Model.Layout Model.Decoder Model.DecoderSpec
  Proofs.PrimeProofs Proofs.SysConstProofs Proofs.C15Sweep1 Proofs.TupleProofs Proofs.C15Proofs
  Proofs.OctetProofs Proofs.LinearProofs Proofs.DecoderLists Proofs.DecoderMatrix.
Import ListNotations.
Open Scope N_scope.

Arguments N.add : simpl never.
Arguments N.sub : simpl never.
Arguments N.mul : simpl never.
Arguments N.pow : simpl never.
Arguments N.div : simpl never.
Arguments N.modulo : simpl never.

(* ---- keys of the tables are unique ---- *)

Lemma incr_NoDup l : incr l = true -> NoDup l.
Proof.
  induction l as [|a t IH]; intros H; constructor.
  - intros Hin. pose proof (incr_head t a H a Hin). lia.
  - apply IH. exact (incr_tail _ _ H).
Qed.

Lemma table_key_inj r r' : In r TABLE2 -> In r' TABLE2 -> r_k r = r_k r' -> r = r'.
Proof. apply NoDup_map_inj_in. apply incr_NoDup. exact keys_incr. Qed.

Lemma sweep_H_ok : forall_rows (fun K' J S H W P1 => H <=? 256) = true.
Proof. vm_compute. reflexivity. Qed.

Lemma row_H_le K' J S H W P1 : In (K', J, S, H, W) TABLE2 -> In (K', P1) P1_TABLE -> H <= 256.
Proof.
  intros Hr Hp. pose proof sweep_H_ok as S0.
  pose proof (forall_rows_spec _ S0 K' J S H W P1 Hr Hp) as F. cbv beta in F. apply N.leb_le. exact F.
Qed.

(* ---- the parameter row of a block ---- *)

Record row_for (K : N) (sp : sysparams) : Prop := {
  rf_sp : sys_params K = Ok sp;
  rf_ext : extended_source_block_symbols K = Ok (spK sp);
  rf_row : In (spK sp, spJ sp, spS sp, spH sp, spW sp) TABLE2;
  rf_p1 : In (spK sp, spP1 sp) P1_TABLE;
  rf_P : spP sp = spK sp + spS sp + spH sp - spW sp;
  rf_L : spL sp = spK sp + spS sp + spH sp;
  rf_W' : num_lt_symbols (spK sp) = Ok (spW sp);
  rf_P' : num_pi_symbols (spK sp) = Ok (spP sp);
  rf_KK : K <= spK sp
}.

Lemma sys_params_ok K : K <= 56403 -> exists sp, row_for K sp.
Proof.
  intros HK.
  destruct (c15_params K HK) as [K' [J [S [H [W [P1 [[E1 [E2 [E3 [E4 [E5 [E6 [E7 E8]]]]]]] [Hr [Hp [HKK _]]]]]]]]]].
  destruct (row_tuple_facts K' J S H W P1 Hr Hp) as [_ [_ [_ [_ [_ [_ [_ HK']]]]]]].
  destruct (c15_params K' HK') as [K2 [J2 [S2 [H2 [W2 [P2 [[F1 [F2 [F3 [F4 [F5 [F6 [F7 F8]]]]]]] [Hr2 [Hp2 [HKK2 [Hmin2 _]]]]]]]]]]].
  assert (EK : K2 = K').
  { pose proof (Hmin2 (K', J, S, H, W) Hr) as M. cbn [r_k] in M. specialize (M (N.le_refl _)). lia. }
  subst K2.
  pose proof (table_key_inj _ _ Hr2 Hr eq_refl) as Er. injection Er as -> -> -> ->.
  exists (mkSP K' J S H W (K' + S + H - W) P2 (K' + S + H)).
  constructor; cbn [spK spJ spS spH spW spP spP1 spL]; try assumption; try reflexivity.
  unfold sys_params. rewrite E1. cbn [obind]. rewrite E3. cbn [obind]. rewrite E4. cbn [obind].
  rewrite E5. cbn [obind]. rewrite E7. cbn [obind]. rewrite E6. cbn [obind]. rewrite F2. cbn [obind].
  rewrite F8. reflexivity.
Qed.

Lemma row_for_facts K sp : row_for K sp ->
  1 < spS sp /\ spS sp < spW sp /\ 2 <= spH sp <= spP sp /\ spH sp <= 256 /\
  spW sp <= spK sp + spS sp /\ spL sp < 65536 /\ 10 <= spK sp <= 56403 /\
  spW sp + spP sp = spL sp.
Proof.
  intros R. destruct (row_facts _ _ _ _ _ _ (rf_row _ _ R) (rf_p1 _ _ R)).
  pose proof (row_H_le _ _ _ _ _ _ (rf_row _ _ R) (rf_p1 _ _ R)) as HH.
  apply is_prime_spec in ro_S. destruct ro_S as [HS _].
  rewrite (rf_P _ _ R), (rf_L _ _ R). change MAX_SOURCE_SYMBOLS_PER_BLOCK with 56403 in ro_Kmax.
  repeat split; try assumption; lia.
Qed.

(* ---- LDPC rows ---- *)

Lemma ldpc_rows_ok K sp : row_for K sp ->
  exists top, ldpc_rows (spS sp) (spW sp) (spP sp) (N.to_nat (spL sp)) = Ok top.
Proof.
  intros R. destruct (row_for_facts K sp R) as [HS [HSW [[HH HHP] [_ [HWK [_ [_ HWP]]]]]]].
  pose proof (rf_L _ _ R) as EL.
  unfold ldpc_rows.
  destruct (set_ldpc_ok (spS sp) (spW sp - spS sp) (spW sp) (spP sp)
              (zero_matrix (N.to_nat (spS sp)) (N.to_nat (spL sp))) (N.to_nat (spL sp))) as [top [E _]];
    try lia; [apply zero_matrix_shaped|].
  exists top. exact E.
Qed.

(* ---- G_ENC rows ---- *)

Lemma ofold_ok {A St} (Q : St -> Prop) (f : A -> St -> outcome St) l :
  (forall a s, In a l -> Q s -> exists s', f a s = Ok s' /\ Q s') ->
  forall s, Q s -> exists s', ofold f l s = Ok s' /\ Q s'.
Proof.
  induction l as [|a t IH]; intros Hf s HQ; cbn [ofold].
  - exists s. split; [reflexivity | exact HQ].
  - destruct (Hf a s (or_introl eq_refl) HQ) as [s1 [E Q1]]. rewrite E. cbn [obind].
    apply IH; [|exact Q1]. intros a0 s0 Hin. apply Hf. right. exact Hin.
Qed.

Lemma tuple_and_indices K sp m X : row_for K sp -> X < 2 ^ 32 ->
  exists t idx, intermediate_tuple_gen true m X (spW sp) (spJ sp) (spP1 sp) = Ok t /\
    enc_indices m t (spW sp) (spP sp) (spP1 sp) = Ok idx /\
    idx <> [] /\ Forall (fun i => i < spL sp) idx.
Proof.
  intros R HX. pose proof (rf_row _ _ R) as Hr. pose proof (rf_p1 _ _ R) as Hp.
  exists (Tuple (spJ sp) (spW sp) (spP1 sp) X).
  pose proof (c15_tuple_ok true m _ _ _ _ _ _ X Hr Hp HX (or_introl eq_refl)) as Et.
  pose proof (c15_enc_indices m _ _ _ _ _ _ X Hr Hp) as Ei.
  pose proof (c15_tuple_ranges _ _ _ _ _ _ X Hr Hp) as Rg.
  rewrite (rf_P _ _ R), (rf_L _ _ R).
  destruct (Tuple (spJ sp) (spW sp) (spP1 sp) X) as [[[[[dd a] b] d1] a1] b1].
  destruct Ei as [l [Ei [Hlen Hall]]]. exists l. split; [exact Et|]. split; [exact Ei|]. split; [|exact Hall].
  intros ->. cbn [length] in Hlen. destruct Rg as [Rd _]. lia.
Qed.

Lemma enc_row_ok K sp m X : row_for K sp -> X < 2 ^ 32 ->
  exists row, enc_row m (spW sp) (spP sp) (spP1 sp) (spJ sp) (N.to_nat (spL sp)) X = Ok row.
Proof.
  intros R HX. destruct (tuple_and_indices K sp m X R HX) as [t [idx [Et [Ei [_ Hall]]]]].
  unfold enc_row. rewrite Et. cbn [obind]. rewrite Ei. cbn [obind].
  destruct (ofold_ok (fun r : list N => length r = N.to_nat (spL sp))
              (fun j row => list_put row (N.to_nat j) 1) idx) with (s := repeat 0 (N.to_nat (spL sp)))
    as [row [E _]]; [|apply repeat_length|exists row; exact E].
  intros j s Hin Hs. rewrite Forall_forall in Hall. specialize (Hall j Hin).
  rewrite list_put_spec by lia. eexists. split; [reflexivity|]. rewrite upd_nth_length. exact Hs.
Qed.

(* ---- HDPC rows ---- *)

Lemma hdpc_step_ok m H j next : 2 <= H <= 256 -> j + 1 < 2 ^ 32 ->
  length next = N.to_nat H -> wf_vec next ->
  exists col, hdpc_step m H j next = Ok col /\ length col = N.to_nat H /\ wf_vec col.
Proof.
  intros HH Hj Hl Hw. unfold hdpc_step.
  rewrite oct_alpha_ok by reflexivity. cbn [obind].
  assert (Hal : ppow2 (N.to_nat 1) < 256).
  { apply (oct_alpha_byte 1). apply oct_alpha_ok. reflexivity. }
  destruct (omapM_ok_of_all (fun x => oct_mul (ppow2 (N.to_nat 1)) x) next) as [col0 E0].
  { intros x Hx. unfold wf_vec in Hw. rewrite Forall_forall in Hw.
    eexists. apply oct_mul_ok; [exact Hal | apply Hw; exact Hx]. }
  rewrite E0. cbn [obind].
  assert (C0 : colok (N.to_nat H) col0).
  { split; [rewrite (omapM_length _ _ _ E0); exact Hl|].
    eapply omapM_Forall_out; [exact E0|]. intros ? ? _ Hm. eapply oct_mul_byte. exact Hm. }
  assert (P24 : 6 < 2 ^ 24 /\ 7 < 2 ^ 24) by (split; reflexivity).
  rewrite rand_gen_ok; [|lia | exact Hj | apply P24 | left; reflexivity]. cbn [obind].
  rewrite sub_w_ok by lia. cbn [obind].
  rewrite rand_gen_ok; [|lia | exact Hj | apply P24 | left; reflexivity]. cbn [obind].
  rewrite rem_ok_eq by lia. cbn [obind].
  pose proof (Rand_lt (j + 1) 6 H ltac:(lia)) as R6.
  pose proof (N.mod_lt (Rand (j + 1) 6 H + Rand (j + 1) 7 (H - 1) + 1) H ltac:(lia)) as R7.
  destruct (nth_ok_lt col0 (N.to_nat (Rand (j + 1) 6 H))) as [x1 [_ Ex1]]; [rewrite (proj1 C0); lia|].
  rewrite (list_upd_spec _ _ _ _ Ex1). cbn [obind].
  assert (C1 : colok (N.to_nat H) (upd_nth (N.to_nat (Rand (j + 1) 6 H)) (N.lxor x1 1) col0)).
  { eapply list_upd_colok; [apply (list_upd_spec _ _ (fun v => N.lxor v 1) _ Ex1) | exact C0]. }
  set (col1 := upd_nth (N.to_nat (Rand (j + 1) 6 H)) (N.lxor x1 1) col0) in *.
  destruct (nth_ok_lt col1 (N.to_nat ((Rand (j + 1) 6 H + Rand (j + 1) 7 (H - 1) + 1) mod H)))
    as [x2 [_ Ex2]]; [rewrite (proj1 C1); lia|].
  rewrite (list_upd_spec _ _ _ _ Ex2). eexists. split; [reflexivity|].
  eapply list_upd_colok; [apply (list_upd_spec _ _ (fun v => N.lxor v 1) _ Ex2) | exact C1].
Qed.

Lemma hdpc_cols_total m H : 2 <= H <= 256 -> forall n j next acc, j + 1 < 2 ^ 32 ->
  length next = N.to_nat H -> wf_vec next ->
  exists cols, hdpc_cols m H n j next acc = Ok cols.
Proof.
  intros HH. induction n as [|n IH]; intros j next acc Hj Hl Hw; cbn [hdpc_cols].
  - eexists. reflexivity.
  - destruct (hdpc_step_ok m H j next HH Hj Hl Hw) as [col [E [Cl Cw]]]. rewrite E. cbn [obind].
    apply IH; [lia | exact Cl | exact Cw].
Qed.

Lemma hdpc_ok m Kp S H : 2 <= H <= 256 -> 2 <= Kp + S -> Kp + S < 2 ^ 32 ->
  exists hd, generate_hdpc_rows m Kp S H = Ok hd.
Proof.
  intros HH Hn Hn32. unfold generate_hdpc_rows. cbv zeta.
  destruct (omapM_ok_of_all oct_alpha (rangeN (N.to_nat H))) as [last El].
  { intros i Hi. apply rangeN_in in Hi. eexists. apply oct_alpha_ok. lia. }
  rewrite El. cbn [obind].
  destruct (Kp + S <? 2) eqn:E2; [apply N.ltb_lt in E2; lia|]. cbn [obind].
  destruct (hdpc_cols_total m H HH (N.to_nat (Kp + S - 1)) (Kp + S - 2) last [last]) as [cols Ec].
  - lia.
  - rewrite (omapM_length _ _ _ El). unfold rangeN. rewrite map_length, seq_length. reflexivity.
  - eapply omapM_Forall_out; [exact El|]. intros ? ? _ Hb. eapply oct_alpha_byte. exact Hb.
  - rewrite Ec. cbn [obind]. eexists. reflexivity.
Qed.

(* ---- the generators ---- *)

Lemma gcm_ok m K sp isis : row_for K sp -> Forall (fun x => x < 2 ^ 32) isis ->
  spL sp <= spS sp + spH sp + lenN isis ->
  exists bin hd, generate_constraint_matrix m K isis = Ok (bin, hd).
Proof.
  intros R Hi Ha. destruct (row_for_facts K sp R) as [HS [HSW [[HH HHP] [HH256 [HWK [HL16 [[HK10 HKmax] HWP]]]]]]].
  destruct (ldpc_rows_ok K sp R) as [top Et].
  destruct (omapM_ok_of_all (enc_row m (spW sp) (spP sp) (spP1 sp) (spJ sp) (N.to_nat (spL sp))) isis) as [rows Er].
  { intros x Hx. rewrite Forall_forall in Hi. apply (enc_row_ok K sp m x R). apply Hi. exact Hx. }
  assert (P32 : 65536 < 2 ^ 32) by reflexivity. pose proof (rf_L _ _ R) as EL.
  destruct (hdpc_ok m (spK sp) (spS sp) (spH sp)) as [hd Eh]; try lia.
  eexists. exists hd. eapply gcm_build; eauto using (rf_sp _ _ R), (rf_W' _ _ R), (rf_P' _ _ R).
Qed.

(* fidelity: the model's sys_params looks J and P1 up with K' where decoder.rs uses K (and
   constraint_matrix.rs looks W and P up with K'); all of them read the same table row *)
Lemma p1_key_inj k p p' : In (k, p) P1_TABLE -> In (k, p') P1_TABLE -> p = p'.
Proof.
  intros H1 H2.
  assert (ND : NoDup (map (@fst N N) P1_TABLE)) by (rewrite keys_agree; apply incr_NoDup; exact keys_incr).
  pose proof (NoDup_map_inj_in (@fst N N) P1_TABLE (k, p) (k, p') ND H1 H2 eq_refl) as E.
  injection E as ->. reflexivity.
Qed.

Lemma params_K_eq_Kp K : K <= 56403 ->
  exists K', extended_source_block_symbols K = Ok K' /\
    extended_source_block_symbols K' = Ok K' /\
    systematic_index K' = systematic_index K /\ calculate_p1 K' = calculate_p1 K /\
    num_lt_symbols K' = num_lt_symbols K /\ num_pi_symbols K' = num_pi_symbols K /\
    num_ldpc_symbols K' = num_ldpc_symbols K /\ num_hdpc_symbols K' = num_hdpc_symbols K /\
    num_intermediate_symbols K' = num_intermediate_symbols K.
Proof.
  intros HK.
  destruct (c15_params K HK) as [K' [J [S [H [W [P1 [[E1 [E2 [E3 [E4 [E5 [E6 [E7 E8]]]]]]] [Hr [Hp [HKK _]]]]]]]]]].
  destruct (row_tuple_facts K' J S H W P1 Hr Hp) as [_ [_ [_ [_ [_ [_ [_ HK']]]]]]].
  destruct (c15_params K' HK') as [K2 [J2 [S2 [H2 [W2 [P2 [[F1 [F2 [F3 [F4 [F5 [F6 [F7 F8]]]]]]] [Hr2 [Hp2 [HKK2 [Hmin2 _]]]]]]]]]]].
  assert (EK : K2 = K').
  { pose proof (Hmin2 (K', J, S, H, W) Hr) as M. cbn [r_k] in M. specialize (M (N.le_refl _)). lia. }
  subst K2.
  pose proof (table_key_inj _ _ Hr2 Hr eq_refl) as Er. injection Er as -> -> -> ->.
  pose proof (p1_key_inj _ _ _ Hp2 Hp) as ->.
  exists K'. repeat split; congruence.
Qed.
