(* C01 at the object level: Encoder::new / Decoder::new / Decoder::decode.  Every result of
   dec_decode on packets the encoder produced is None or the object itself, and it is the object
   once all source packets of every block have been delivered (g). *)
From Coq Require Import NArith List Bool Lia Arith.
From RQ Require Import Base.Outcome Base.Ints Base.ListX Gen.Consts Gen.SysTables Spec.Linear Spec.Layout
  Model.Octet Model.FieldFast Model.SysConst Model.Tuple Model.CMatrix Model.Layout Model.Slab
  Model.Encoder Model.Decoder
  Proofs.LayoutLists Proofs.LayoutProofs
  Proofs.LinearProofs Proofs.OutcomeLemmas Proofs.RowParams Proofs.EncoderProofs Proofs.RowSem Proofs.SoundProofs Proofs.BlockSound.
Import ListNotations.
Open Scope N_scope.

(* the decoder fed packet after packet, all results collected *)
Fixpoint run_dec (m : mode) (d : decoder) (pkts : list packet)
  : outcome (list (option (list N)) * decoder) :=
  match pkts with
  | [] => Ok ([], d)
  | p :: t =>
      obind (dec_decode m d p) (fun rd =>
      obind (run_dec m (snd rd) t) (fun rs => Ok (fst rd :: fst rs, snd rs)))
  end.

Definition obj_produces (m : mode) (c : cfg) (encs : list sb_encoder) (p : packet) : Prop :=
  exists j e, j < cZ c /\ nth_error encs (N.to_nat j) = Some e /\ enc_produces m e p.

Lemma flat_map_somes {A B} (f : A -> B) l :
  flat_map (fun b : option B => match b with Some x => [x] | None => [] end)
           (map (fun j => Some (f j)) l) = map f l.
Proof. induction l as [|a l IH]; cbn; [reflexivity|]. rewrite IH. reflexivity. Qed.

Lemma Forall2_map_l {A B X} (R : A -> B -> Prop) (f : X -> A) l r :
  Forall2 (fun x b => R (f x) b) l r -> Forall2 R (map f l) r.
Proof. induction 1; cbn; constructor; auto. Qed.

Lemma nth_error_nth_self {A} (l : list A) k e : nth_error l k = Some e -> nth k l e = e.
Proof. intros H. apply nth_error_nth. exact H. Qed.

Section Obj.
Variables (m : mode) (c : cfg) (data : list N).
Hypothesis OK : cfg_ok c data.
Hypothesis HWF : forall j, j < cZ c -> MatWF m (blk_K c j).
Hypothesis HRO : forall j, j < cZ c -> RowsOK m (blk_K c j).
Variable encs : list sb_encoder.
Hypothesis Henc : encoder_new_full m c data = Ok encs.

Let Z := N.to_nat (cZ c).
Let blkj (j : N) : list N := blockP c data j.

Lemma Z_small : cZ c < 256.
Proof. destruct (cfg_facts c data OK) as (_ & _ & _ & _ & _ & _ & _ & _ & _ & _ & _ & _ & _ & HZ8 & _). exact HZ8. Qed.

Lemma u8_small j : j < cZ c -> u8 j = j.
Proof. intros Hj. pose proof Z_small. unfold u8. apply wrap_small. change (2 ^ 8) with 256. lia. Qed.

Lemma data_bytes : Forall (fun b => b < 256) data.
Proof. destruct OK as (_ & _ & _ & _ & _ & _ & _ & _ & _ & _ & _ & _ & _ & Hb). exact Hb. Qed.

Lemma blkj_bytes j : Forall (fun b => b < 256) (blkj j).
Proof.
  unfold blkj, blockP, padded. apply Forall_firstn', Forall_skipn'. apply Forall_app. split.
  - exact data_bytes.
  - apply Forall_forall. intros x Hx. apply repeat_spec in Hx. subst x. reflexivity.
Qed.

(* Encoder::new: one block encoder per block, for the blocks of the layout *)
Lemma encs_spec : length encs = Z /\
  forall j e, j < cZ c -> nth_error encs (N.to_nat j) = Some e -> sbe_new m j c (blkj j) = Ok e.
Proof.
  pose proof Henc as E. unfold encoder_new_full in E.
  rewrite (calculate_block_offsets_ok c data OK) in E. cbn [obind] in E.
  unfold rangeN in E. rewrite map_map in E. change 0 with (N.of_nat 0) in E.
  rewrite (enumerate_from_map (fun x => (blk_off c (N.of_nat x), blk_off c (N.of_nat x) + blk_K c (N.of_nat x) * cT c))) in E.
  rewrite omapM_map in E. apply omapM_Forall2 in E.
  pose proof (Forall2_length' _ _ _ E) as Hlen. rewrite seq_length in Hlen. fold Z in Hlen.
  split; [symmetry; exact Hlen|]. intros j e Hj He.
  pose proof (Forall2_nth_N _ _ _ O e (N.to_nat j) E) as X. rewrite seq_length in X.
  specialize (X ltac:(lia)). cbv beta in X. rewrite seq_nth in X by lia. cbn [fst snd] in X.
  rewrite (nth_error_nth_self _ _ _ He) in X. rewrite Nat.add_0_l, N2Nat.id in X.
  rewrite (encoder_block_ok c data OK j Hj) in X. cbn [obind] in X. rewrite u8_small in X by exact Hj.
  exact X.
Qed.

Definition dsd : sb_decoder := mkSBD 0 c 0 [] [] 0 [] false.

(* Decoder::new: one block decoder per block, sized for the blocks of the layout *)
Lemma dec_new_spec d0 : dec_new c = Ok d0 ->
  dec_cfg d0 = c /\ dec_blocks d0 = repeat None Z /\ length (dec_sbd d0) = Z /\
  forall j, j < cZ c -> sbd_new j c (blk_K c j * cT c) = Ok (nth (N.to_nat j) (dec_sbd d0) dsd).
Proof.
  intros E.
  destruct (cfg_facts c data OK) as (HT & HAl & HZ & HN & Hlen & HF1 & HF2 & HS & HZZ & HKS & HKSL & HKL & HKt & HZ8 & HT16 & HZL0).
  unfold dec_new in E.
  rewrite int_div_ceil_ok in E by (try exact HT; exact HKt). fold (Kt c) in E. cbn [obind] in E.
  rewrite partition_ok in E by (try exact HZ; try exact HKt; rewrite pow32; lia).
  rewrite Partition_Z in E. cbn [obind] in E.
  oinvas E as l1 E1. oinvas E as l2 E2. injection E as <-. cbn [dec_cfg dec_blocks dec_sbd].
  apply omapM_Forall2 in E1, E2.
  pose proof (Forall2_length' _ _ _ E1) as L1. pose proof (Forall2_length' _ _ _ E2) as L2.
  rewrite rangeN_length in L1, L2.
  split; [reflexivity|]. split; [unfold Z; rewrite HZZ; reflexivity|].
  split; [rewrite app_length; unfold Z; lia|].
  intros j Hj. destruct (N.ltb_spec j (ZL c)) as [Hlt|Hge].
  - rewrite app_nth1 by lia.
    pose proof (Forall2_nth_N _ _ _ 0 dsd (N.to_nat j) E1) as X. rewrite rangeN_length in X.
    specialize (X ltac:(lia)). cbv beta in X. rewrite rangeN_nth, N2Nat.id in X by lia.
    rewrite u8_small in X by exact Hj. unfold blk_K.
    replace (j <? ZL c) with true by (symmetry; apply N.ltb_lt; exact Hlt). exact X.
  - rewrite app_nth2 by lia.
    pose proof (Forall2_nth_N _ _ _ 0 dsd (N.to_nat j - length l1)%nat E2) as X. rewrite rangeN_length in X.
    specialize (X ltac:(lia)). cbv beta in X. rewrite rangeN_nth in X by lia.
    replace (ZL c + N.of_nat (N.to_nat j - length l1)) with j in X by lia.
    rewrite u8_small in X by exact Hj. unfold blk_K.
    replace (j <? ZL c) with false by (symmetry; apply N.ltb_ge; exact Hge). exact X.
Qed.

(* ---- the invariant of the object decoder; D = packets fed so far ---- *)

Definition blk_state (D : list packet) (j : N) (e : sb_encoder) (sd : sb_decoder)
           (b : option (list N)) : Prop :=
  blk_ok m c j (blkj j) e (blk_K c j) sd /\
  (b = Some (blkj j) \/
   (b = None /\
    (forall p, In p D -> fst (fst p) = j -> snd (fst p) < blk_K c j -> have sd (snd (fst p))) /\
    ~ (forall i, i < blk_K c j -> have sd i))).

Record obj_inv (D : list packet) (d : decoder) : Prop := {
  oi_cfg : dec_cfg d = c;
  oi_len1 : length (dec_sbd d) = Z;
  oi_len2 : length (dec_blocks d) = Z;
  oi_blk : forall j e, j < cZ c -> nth_error encs (N.to_nat j) = Some e ->
           blk_state D j e (nth (N.to_nat j) (dec_sbd d) dsd) (nth (N.to_nat j) (dec_blocks d) None)
}.

Lemma obj_inv_init d0 : dec_new c = Ok d0 -> obj_inv [] d0.
Proof.
  intros E. destruct (dec_new_spec d0 E) as [H1 [H2 [H3 H4]]]. destruct encs_spec as [_ ES].
  constructor; [exact H1 | exact H3 | rewrite H2; apply repeat_length|].
  intros j e Hj He. pose proof (blk_K_bounds c data OK j) as [HK1 HK2].
  destruct (blk_ok_init m c data j (blk_K c j) (blkj j) e _ OK (blockP_lenN c data OK j Hj)
              (blkj_bytes j) (ES j e Hj He) (HRO j Hj) (H4 j Hj)) as [B1 B2].
  split; [exact B1|]. right. rewrite H2. split; [apply nth_repeat'; unfold Z; lia|].
  split; [intros p []|]. intros Hall. apply (B2 0). apply Hall. lia.
Qed.

Lemma obj_inv_weaken D p d : obj_inv D d ->
  (forall j e, j < cZ c -> nth_error encs (N.to_nat j) = Some e -> fst (fst p) = j ->
     nth (N.to_nat j) (dec_blocks d) None = Some (blkj j) \/
     (snd (fst p) < blk_K c j -> have (nth (N.to_nat j) (dec_sbd d) dsd) (snd (fst p)))) ->
  obj_inv (p :: D) d.
Proof.
  intros I Hp. constructor; [exact (oi_cfg D d I) | exact (oi_len1 D d I) | exact (oi_len2 D d I)|].
  intros j e Hj He. destruct (oi_blk D d I j e Hj He) as [B1 B2]. split; [exact B1|].
  destruct B2 as [B2|[B2 [B3 B4]]]; [left; exact B2|].
  destruct (N.eq_dec (fst (fst p)) j) as [Ej|Nj].
  - destruct (Hp j e Hj He Ej) as [X|X]; [left; exact X|]. right. split; [exact B2|]. split; [|exact B4].
    intros q [<-|Hq] Hq1 Hq2; [apply X; exact Hq2 | apply B3; assumption].
  - right. split; [exact B2|]. split; [|exact B4].
    intros q [<-|Hq] Hq1 Hq2; [congruence | apply B3; assumption].
Qed.

(* one packet *)
Lemma dec_add_sound D d p d' : obj_inv D d -> obj_produces m c encs p ->
  dec_add m d p = Ok d' -> obj_inv (p :: D) d'.
Proof.
  intros I [j [e [Hj [He Hp]]]] E.
  destruct (oi_blk D d I j e Hj He) as [B1 B2].
  destruct (blk_ok_packet_id m c j (blkj j) e (blk_K c j) _ p (HWF j Hj) B1 Hp) as [Hid _].
  pose proof (oi_len1 D d I) as L1. pose proof (oi_len2 D d I) as L2.
  unfold dec_add in E. rewrite Hid in E.
  rewrite (nth_ok_some (dec_blocks d) (N.to_nat j) None) in E by (unfold Z in L2; lia). cbn [obind] in E.
  destruct (nth (N.to_nat j) (dec_blocks d) None) as [bb|] eqn:Eb.
  - injection E as <-. apply obj_inv_weaken; [exact I|]. intros j' e' Hj' He' Ej'.
    rewrite Hid in Ej'. subst j'. left. rewrite Eb. destruct B2 as [B2|[B2 _]]; [exact B2 | discriminate].
  - rewrite (nth_ok_some (dec_sbd d) (N.to_nat j) dsd) in E by (unfold Z in L1; lia). cbn [obind] in E.
    oinvas E as [r sd'] ED. rewrite !list_put_ok in E by (unfold Z in *; lia). cbn [obind] in E.
    injection E as <-.
    destruct (blk_ok_decode m c j (blkj j) e (blk_K c j) _ [p] r sd' (HWF j Hj) B1
                (Forall_cons _ Hp (Forall_nil _)) ED) as [Hr [B1' [M [Dl Hc]]]].
    destruct B2 as [B2|[_ [B3 B4]]]; [discriminate|].
    constructor; cbn [dec_cfg dec_sbd dec_blocks];
      [exact (oi_cfg D d I) | rewrite LinearProofs.upd_nth_length; exact L1
       | rewrite LinearProofs.upd_nth_length; exact L2 |].
    intros j' e' Hj' He'. destruct (N.eq_dec j' j) as [->|Nj].
    + rewrite He in He'. injection He' as <-.
      rewrite !nth_upd_nth_eq by (unfold Z in *; lia). split; [exact B1'|].
      destruct Hr as [->| ->]; [|left; reflexivity]. right. split; [reflexivity|]. split.
      * intros q [<-|Hq] Hq1 Hq2; [apply Dl; [left; reflexivity | exact Hq2] | apply M; apply B3; assumption].
      * intros Hall. specialize (Hc Hall). discriminate.
    + rewrite !nth_upd_nth_ne by (intros X; apply N2Nat.inj in X; congruence).
      destruct (oi_blk D d I j' e' Hj' He') as [C1 C2]. split; [exact C1|].
      destruct C2 as [C2|[C2 [C3 C4]]]; [left; exact C2|]. right. split; [exact C2|]. split; [|exact C4].
      intros q [<-|Hq] Hq1 Hq2; [congruence | apply C3; assumption].
Qed.

(* the result once every block is there *)
Lemma blocks_all_some D d : obj_inv D d ->
  (forall j, j < cZ c -> nth (N.to_nat j) (dec_blocks d) None <> None) ->
  dec_blocks d = map (fun j => Some (blkj j)) (rangeN Z).
Proof.
  intros I Hall. destruct encs_spec as [EL _]. pose proof (oi_len2 D d I) as L2.
  apply (nth_ext _ _ None None); [rewrite map_length, rangeN_length; exact L2|].
  intros k Hk. rewrite L2 in Hk.
  assert (Hke : exists e, nth_error encs k = Some e).
  { destruct (nth_error encs k) eqn:X; [eauto|]. apply nth_error_None in X. lia. }
  destruct Hke as [e He].
  assert (Hkz : N.of_nat k < cZ c) by (unfold Z in Hk; lia).
  pose proof (oi_blk D d I (N.of_nat k) e Hkz) as B. rewrite Nat2N.id in B. specialize (B He).
  destruct B as [_ [B|[B _]]].
  - rewrite B.
    rewrite (nth_indep _ None ((fun j => Some (blkj j)) 0)) by (rewrite map_length, rangeN_length; exact Hk).
    rewrite (map_nth (fun j => Some (blkj j))), rangeN_nth by exact Hk. reflexivity.
  - exfalso. apply (Hall (N.of_nat k) Hkz). rewrite Nat2N.id. exact B.
Qed.

Lemma dec_result_sound D d : obj_inv D d -> dec_result d = None \/ dec_result d = Some data.
Proof.
  intros I. unfold dec_result.
  destruct (forallb _ (dec_blocks d)) eqn:Ef; [|left; reflexivity]. right. f_equal.
  rewrite forallb_forall in Ef.
  rewrite (blocks_all_some D d I).
  - rewrite flat_map_somes, (oi_cfg D d I). apply (reassemble_blocks c data OK).
  - intros j Hj X. pose proof (oi_len2 D d I) as L2.
    assert (Hin : In (nth (N.to_nat j) (dec_blocks d) None) (dec_blocks d)) by (apply nth_In; unfold Z in L2; lia).
    specialize (Ef _ Hin). rewrite X in Ef. discriminate Ef.
Qed.

Lemma dec_result_complete D d : obj_inv D d ->
  (forall j, j < cZ c -> nth (N.to_nat j) (dec_blocks d) None <> None) ->
  dec_result d = Some data.
Proof.
  intros I Hall. unfold dec_result. rewrite (blocks_all_some D d I Hall).
  replace (forallb _ _) with true.
  - rewrite flat_map_somes, (oi_cfg D d I). f_equal. apply (reassemble_blocks c data OK).
  - symmetry. apply forallb_forall. intros x Hx. apply in_map_iff in Hx. destruct Hx as [j [<- _]]. reflexivity.
Qed.

Lemma run_dec_sound pkts : forall D d rs d', obj_inv D d -> Forall (obj_produces m c encs) pkts ->
  run_dec m d pkts = Ok (rs, d') ->
  Forall (fun r => r = None \/ r = Some data) rs /\ obj_inv (rev pkts ++ D) d' /\
  (pkts <> [] -> last rs None = dec_result d').
Proof.
  induction pkts as [|p t IH]; intros D d rs d' I F E; cbn [run_dec] in E.
  - injection E as <- <-. split; [constructor|]. split; [exact I | congruence].
  - oinvas E as [r d1] E1. oinvas E as [rs1 d2] E2. cbn [fst snd] in *. injection E as <- <-.
    unfold dec_decode in E1. oinvas E1 as d1' EA. injection E1 as <- <-.
    pose proof (dec_add_sound D d p d1' I (Forall_inv F) EA) as I1.
    destruct (IH (p :: D) d1' rs1 d2 I1 (Forall_inv_tail F) E2) as [R1 [I2 L]].
    split; [constructor; [apply (dec_result_sound _ _ I1) | exact R1]|].
    split; [cbn [rev]; rewrite <- app_assoc; exact I2|].
    intros _. destruct t as [|q t'].
    + cbn [run_dec] in E2. injection E2 as <- <-. reflexivity.
    + assert (N0 : q :: t' <> []) by discriminate. specialize (L N0).
      destruct rs1 as [|r1 rs1']; [|exact L].
      cbn [run_dec] in E2. oinvas E2 as x Ex. oinvas E2 as y Ey. discriminate E2.
Qed.

(* (g) soundness: every answer is None or the object *)
Theorem object_sound d0 pkts rs d' : dec_new c = Ok d0 -> Forall (obj_produces m c encs) pkts ->
  run_dec m d0 pkts = Ok (rs, d') ->
  Forall (fun r => r = None \/ (r = Some data /\ lenN data = cF c)) rs.
Proof.
  intros E0 F R. destruct (run_dec_sound pkts [] d0 rs d' (obj_inv_init d0 E0) F R) as [R1 _].
  destruct (cfg_facts c data OK) as (_ & _ & _ & _ & Hlen & _).
  eapply Forall_impl; [|exact R1]. intros r [->| ->]; auto.
Qed.

(* (g) completeness: all source packets of every block delivered -> the object *)
Theorem object_complete d0 pkts rs d' : dec_new c = Ok d0 -> Forall (obj_produces m c encs) pkts ->
  run_dec m d0 pkts = Ok (rs, d') ->
  (forall j i, j < cZ c -> i < blk_K c j -> exists p, In p pkts /\ fst p = (j, i)) ->
  dec_result d' = Some data /\ last rs None = Some data.
Proof.
  intros E0 F R Hall. destruct (run_dec_sound pkts [] d0 rs d' (obj_inv_init d0 E0) F R) as [_ [I L]].
  rewrite app_nil_r in I.
  assert (C : dec_result d' = Some data).
  { apply (dec_result_complete _ _ I). intros j Hj X. destruct encs_spec as [EL _].
    assert (Hke : exists e, nth_error encs (N.to_nat j) = Some e).
    { destruct (nth_error encs (N.to_nat j)) eqn:Y; [eauto|]. apply nth_error_None in Y. unfold Z in EL. lia. }
    destruct Hke as [e He]. destruct (oi_blk _ _ I j e Hj He) as [_ [B|[_ [B3 B4]]]]; [congruence|].
    apply B4. intros i Hi. destruct (Hall j i Hj Hi) as [p [Hp Ep]].
    replace i with (snd (fst p)) by (rewrite Ep; reflexivity). apply B3.
    - apply in_rev in Hp. exact Hp.
    - rewrite Ep. reflexivity.
    - rewrite Ep. exact Hi. }
  split; [exact C|]. rewrite <- C. apply L. intros ->.
  pose proof (blk_K_bounds c data OK 0) as [HK1 _].
  destruct (cfg_facts c data OK) as (_ & _ & HZ & _).
  destruct (Hall 0 0 HZ ltac:(lia)) as [p [[] _]].
Qed.

(* no panic, provided the matrix generators do not *)
Hypothesis HGT : forall j, j < cZ c -> GenTotal m (blk_K c j).

Lemma dec_add_total D d p : obj_inv D d -> obj_produces m c encs p -> exists d', dec_add m d p = Ok d'.
Proof.
  intros I [j [e [Hj [He Hp]]]].
  destruct (oi_blk D d I j e Hj He) as [B1 B2].
  destruct (blk_ok_packet_id m c j (blkj j) e (blk_K c j) _ p (HWF j Hj) B1 Hp) as [Hid _].
  pose proof (oi_len1 D d I) as L1. pose proof (oi_len2 D d I) as L2.
  unfold dec_add. rewrite Hid.
  rewrite (nth_ok_some (dec_blocks d) (N.to_nat j) None) by (unfold Z in L2; lia). cbn [obind].
  destruct (nth (N.to_nat j) (dec_blocks d) None) as [bb|]; [eauto|].
  rewrite (nth_ok_some (dec_sbd d) (N.to_nat j) dsd) by (unfold Z in L1; lia). cbn [obind].
  destruct (blk_ok_total m c j (blkj j) e (blk_K c j) _ [p] (HWF j Hj) (HGT j Hj) B1
              (Forall_cons _ Hp (Forall_nil _))) as [r [sd' ED]].
  rewrite ED. cbn [obind]. rewrite !list_put_ok by (unfold Z in *; lia). cbn [obind]. eauto.
Qed.

Lemma run_dec_total pkts : forall D d, obj_inv D d -> Forall (obj_produces m c encs) pkts ->
  exists rs d', run_dec m d pkts = Ok (rs, d').
Proof.
  induction pkts as [|p t IH]; intros D d I F; cbn [run_dec]; [eauto|].
  destruct (dec_add_total D d p I (Forall_inv F)) as [d1 EA].
  unfold dec_decode. rewrite EA. cbn [obind snd fst].
  pose proof (dec_add_sound D d p d1 I (Forall_inv F) EA) as I1.
  destruct (IH _ _ I1 (Forall_inv_tail F)) as [rs [d2 E2]]. rewrite E2. cbn [obind]. eauto.
Qed.

Theorem object_no_panic d0 pkts : dec_new c = Ok d0 -> Forall (obj_produces m c encs) pkts ->
  exists rs d', run_dec m d0 pkts = Ok (rs, d').
Proof. intros E0 F. exact (run_dec_total pkts [] d0 (obj_inv_init d0 E0) F). Qed.

End Obj.
