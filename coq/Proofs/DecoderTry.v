(* The decision part of SourceBlockDecoder::decode (sbd_try): it reads the state only up to the
   [decoded] flag; in Case 3 its answer is None exactly when the full constraint matrix of the
   received ISIs is rank deficient; permuting the repair packets does not change that. *)
From Coq Require Import NArith List Bool Arith Lia Permutation.
From RQ Require Import Base.Outcome Base.Ints Base.ListX Spec.Linear Spec.Layout
  Model.FieldFast Model.SysConst Model.CMatrix Model.Layout Model.Decoder Model.DecoderSpec
  Proofs.LinearProofs Proofs.LinearInst Proofs.DecoderLists Proofs.DecoderProofs Proofs.DecoderMatrix.
Import ListNotations.
Open Scope N_scope.

Arguments N.add : simpl never.
Arguments N.sub : simpl never.
Arguments N.mul : simpl never.
Arguments N.pow : simpl never.

Definition set_dec (d : sb_decoder) (b : bool) : sb_decoder :=
  mkSBD (sbd_id d) (sbd_cfg d) (sbd_K d) (sbd_src d) (sbd_rep d) (sbd_nsrc d) (sbd_esis d) b.

Definition T_of (d : sb_decoder) : nat := N.to_nat (cT (sbd_cfg d)).

Lemma sbd_core_set_dec d b : sbd_core (set_dec d b) = sbd_core d.
Proof. reflexivity. Qed.

(* ---- shape of the reference solver's answer (no field laws needed) ---- *)

Lemma lincomb_len mul T : forall r C, Forall (fun s : list N => length s = T) C ->
  length (lincomb mul T r C) = T.
Proof.
  induction r as [|a r IH]; intros C HC; [apply vzero_length|].
  destruct C as [|c C]; [apply vzero_length|]. cbn [lincomb]. inversion HC; subst.
  rewrite vadd_length, vscale_length, IH by assumption. apply Nat.min_id.
Qed.

Lemma gauss_solve_shape mul inv T : forall L A D C,
  gauss_solve mul inv T L A D = Some C -> length D = length A ->
  Forall (fun d : list N => length d = T) D ->
  length C = L /\ Forall (fun s : list N => length s = T) C.
Proof.
  induction L as [|L IH]; intros A D C H Hl HD; cbn [gauss_solve] in H.
  - injection H as <-. split; [reflexivity | constructor].
  - destruct (pick_row A) as [[p R]|] eqn:Ep; [|discriminate].
    destruct (pick_rhs A D) as [dp RD] eqn:Ed.
    destruct (gauss_solve mul inv T L (map (elim_row mul inv p) R)
                (Linear.map2 (elim_rhs mul inv p dp) R RD)) as [Y|] eqn:Ey; [|discriminate].
    injection H as <-.
    assert (F2 : Forall2 (fun (_ d : list N) => length d = T) A D).
    { clear - Hl HD. revert A Hl. induction HD as [|d D Hd _ IHD]; intros [|a A] Hl; cbn in Hl; try discriminate; constructor.
      - exact Hd.
      - apply IHD. lia. }
    destruct (pick_rhs_spec A D p R dp RD F2 Ep Ed) as [Hdp HRD].
    assert (Hm : length (Linear.map2 (elim_rhs mul inv p dp) R RD) = length (map (elim_row mul inv p) R) /\
                 Forall (fun d : list N => length d = T) (Linear.map2 (elim_rhs mul inv p dp) R RD)).
    { clear - Hdp HRD. induction HRD as [|r d R RD Hd _ IHR]; cbn [Linear.map2 map length]; [split; [reflexivity | constructor]|].
      destruct IHR as [I1 I2]. split; [rewrite I1; reflexivity|]. constructor; [|exact I2].
      unfold elim_rhs. rewrite vadd_length, vscale_length, Hd, Hdp. apply Nat.min_id. }
    destruct (IH _ _ _ Ey (proj1 Hm) (proj2 Hm)) as [Y1 Y2].
    split; [cbn [length]; rewrite Y1; reflexivity|]. constructor; [|exact Y2].
    rewrite vscale_length, vadd_length, Hdp, lincomb_len by exact Y2. apply Nat.min_id.
Qed.

(* ---- sbd_try and the decoded flag ---- *)

Lemma sbd_try_state m d r d' : sbd_try m d = Ok (r, d') -> sbd_core d' = sbd_core d.
Proof.
  unfold sbd_try. cbv zeta. intros H.
  destruct (extended_source_block_symbols (sbd_K d)) as [Kp|]; [|discriminate]. cbn [obind] in H.
  destruct (lenN (sbd_esis d) <? sbd_K d); [injection H as <- <-; reflexivity|].
  destruct (sbd_nsrc d =? sbd_K d).
  { bind_inv H. injection H as <- <-. reflexivity. }
  destruct (sys_params (sbd_K d)) as [sp|]; [|discriminate]. cbn [obind] in H.
  do 2 (match type of H with obind ?x _ = Ok _ => destruct x; cbn [obind] in H; [|discriminate H] end).
  match type of H with obind ?x _ = Ok _ => destruct x as [[r0|]|]; cbn [obind] in H; [| |discriminate H] end.
  - injection H as <- <-. reflexivity.
  - match type of H with obind ?x _ = Ok _ => destruct x as [[bin hd]|]; cbn [obind] in H; [|discriminate H] end.
    match type of H with context [gauss_solve ?a ?b ?c ?e ?f ?g] => destruct (gauss_solve a b c e f g) end.
    + bind_inv H. injection H as <- <-. reflexivity.
    + injection H as <- <-. reflexivity.
Qed.

Lemma sbd_try_core m d1 d2 r d1' :
  sbd_core d1 = sbd_core d2 -> sbd_try m d1 = Ok (r, d1') ->
  exists d2', sbd_try m d2 = Ok (r, d2') /\ sbd_core d2' = sbd_core d1'.
Proof.
  destruct d1 as [i1 c1 K1 s1 r1 n1 e1 b1], d2 as [i2 c2 K2 s2 r2 n2 e2 b2].
  unfold sbd_core. cbn [sbd_id sbd_cfg sbd_K sbd_src sbd_rep sbd_nsrc sbd_esis].
  intros E. injection E as <- <- <- <- <- <- <-. intros H.
  pose proof (sbd_try_state _ _ _ _ H) as Hc.
  revert H. unfold sbd_try. cbv zeta. cbn [sbd_id sbd_cfg sbd_K sbd_src sbd_rep sbd_nsrc sbd_esis].
  destruct (extended_source_block_symbols K1) as [Kp|]; [|discriminate]. cbn [obind].
  destruct (lenN e1 <? K1).
  - intros H. injection H as <- <-. eexists. split; reflexivity.
  - intros H. exists d1'. split; [exact H | reflexivity].
Qed.

Lemma sbd_add_set_dec m d p d' b :
  sbd_add m d p = Ok d' -> sbd_add m (set_dec d b) p = Ok (set_dec d' b).
Proof.
  destruct p as [[sbn esi] payload]. unfold sbd_add, set_dec.
  cbn [sbd_id sbd_cfg sbd_K sbd_src sbd_rep sbd_nsrc sbd_esis sbd_decoded].
  destruct (assert_ok (sbd_id d =? sbn)); cbn [obind]; [|discriminate].
  destruct (mem_N esi (sbd_esis d)); [intros H; injection H as <-; reflexivity|].
  destruct (sbd_K d <=? esi); [intros H; injection H as <-; reflexivity|].
  destruct (list_put (sbd_src d) (N.to_nat esi) (Some payload)); cbn [obind]; [|discriminate].
  destruct (add_w m 32 (sbd_nsrc d) 1); cbn [obind]; [|discriminate].
  intros H; injection H as <-; reflexivity.
Qed.

Lemma core_eq_set_dec d1 d2 : sbd_core d1 = sbd_core d2 -> d2 = set_dec d1 (sbd_decoded d2).
Proof.
  destruct d1, d2. unfold sbd_core, set_dec. cbn. intros E. injection E as <- <- <- <- <- <- <-. reflexivity.
Qed.

Lemma sbd_run_core m pkts : forall d1 d2 d1',
  sbd_core d1 = sbd_core d2 -> sbd_run m d1 pkts = Ok d1' ->
  exists d2', sbd_run m d2 pkts = Ok d2' /\ sbd_core d1' = sbd_core d2'.
Proof.
  induction pkts as [|p t IH]; intros d1 d2 d1' Hc H; unfold sbd_run in *; cbn [ofold] in *.
  - injection H as <-. exists d2. split; [reflexivity | exact Hc].
  - destruct (sbd_add m d1 p) as [da|] eqn:Ea; [|discriminate]. cbn [obind] in H.
    rewrite (core_eq_set_dec d1 d2 Hc). rewrite (sbd_add_set_dec _ _ _ _ (sbd_decoded d2) Ea). cbn [obind].
    apply (IH da); [reflexivity | exact H].
Qed.

(* batching: feeding p1 then p2 through decode() ends where one call with p1 ++ p2 ends *)
Lemma sbd_batching m d p1 p2 r1 d1 r2 d2 :
  sbd_decode m d p1 = Ok (r1, d1) -> sbd_decode m d1 p2 = Ok (r2, d2) ->
  exists d', sbd_decode m d (p1 ++ p2) = Ok (r2, d') /\ sbd_core d' = sbd_core d2.
Proof.
  unfold sbd_decode. fold (sbd_run m d p1). fold (sbd_run m d1 p2). fold (sbd_run m d (p1 ++ p2)).
  intros H1 H2.
  destruct (sbd_run m d p1) as [da|] eqn:R1; [|discriminate]. cbn [obind] in H1.
  destruct (sbd_run m d1 p2) as [db|] eqn:R2; [|discriminate]. cbn [obind] in H2.
  pose proof (sbd_try_state _ _ _ _ H1) as C1.
  destruct (sbd_run_core m p2 d1 da db C1 R2) as [db' [R2' C2]].
  rewrite sbd_run_app, R1. cbn [obind]. rewrite R2'. cbn [obind].
  destruct (sbd_try_core m db db' r2 d2 C2 H2) as [d' [T' C']]. exists d'. split; assumption.
Qed.

(* ---- Case 3 unfolded ---- *)

Definition body_of (T : nat) (npad : N) (srcs reps : list (list N)) : list (list N) :=
  srcs ++ repeat (repeat 0 T) (N.to_nat npad) ++ reps.

Definition case3 (m : mode) (d : sb_decoder) (Kp : N) (sp : sysparams) (srcs reps : list (list N))
  : outcome (option (list N) * sb_decoder) :=
  let T := T_of d in
  let L := spL sp in
  let isis := isis_of d in
  let body := body_of T (Kp - sbd_K d) srcs reps in
  obind (if L <=? spS sp + lenN isis then
           obind (generate_constraint_matrix_no_hdpc m (sbd_K d) isis) (fun A =>
             match gauss_solve fmul finv T (N.to_nat L) A (repeat (repeat 0 T) (N.to_nat (spS sp)) ++ body) with
             | Some C => obind (sbd_finish m d sp C) (fun r => Ok (Some r))
             | None => Ok None
             end)
         else Ok None)
    (fun r3a =>
       match r3a with
       | Some r => Ok (Some r, set_dec d true)
       | None =>
           obind (generate_constraint_matrix m (sbd_K d) isis) (fun bh =>
             match bh with (bin, hdpc) =>
               match gauss_solve fmul finv T (N.to_nat L) (full_matrix (spS sp) (spH sp) bin hdpc)
                       (repeat (repeat 0 T) (N.to_nat (spS sp + spH sp)) ++ body) with
               | Some C => obind (sbd_finish m d sp C) (fun r => Ok (Some r, set_dec d true))
               | None => Ok (None, set_dec d false)
               end
             end)
       end).

Record case3_hyps (d : sb_decoder) (Kp : N) (sp : sysparams) (srcs reps : list (list N)) : Prop := {
  c3_Kp : extended_source_block_symbols (sbd_K d) = Ok Kp;
  c3_not1 : (lenN (sbd_esis d) <? sbd_K d) = false;
  c3_not2 : (sbd_nsrc d =? sbd_K d) = false;
  c3_sp : sys_params (sbd_K d) = Ok sp;
  c3_srcs : omapM (fun x => check_len (T_of d) (snd x)) (present_sources d) = Ok srcs;
  c3_reps : omapM (fun x => check_len (T_of d) (snd x)) (sbd_rep d) = Ok reps
}.

Lemma sbd_try_case3 m d Kp sp srcs reps :
  case3_hyps d Kp sp srcs reps -> sbd_try m d = case3 m d Kp sp srcs reps.
Proof.
  intros [H1 H2 H3 H4 H5 H6]. unfold sbd_try. cbv zeta. rewrite H1. cbn [obind]. rewrite H2, H3, H4.
  cbn [obind]. fold (T_of d). rewrite H5. cbn [obind]. rewrite H6. cbn [obind].
  unfold case3, isis_of, npad_of, Kp_of, body_of. rewrite H1. reflexivity.
Qed.

(* what Ok (None, _) / Ok (Some _, _) can come from *)
Lemma sbd_try_cases m d r d' : sbd_try m d = Ok (r, d') ->
  (exists Kp, extended_source_block_symbols (sbd_K d) = Ok Kp /\
              (lenN (sbd_esis d) <? sbd_K d) = true /\ r = None /\ d' = d) \/
  (exists Kp syms b, extended_source_block_symbols (sbd_K d) = Ok Kp /\
              (lenN (sbd_esis d) <? sbd_K d) = false /\ (sbd_nsrc d =? sbd_K d) = true /\
              omapM (fun o : option (list N) => match o with Some s => Ok s | None => Panic PUnwrap end) (sbd_src d) = Ok syms /\
              block_from_all_source (sbd_cfg d) (sbd_K d) syms = Ok b /\
              r = Some b /\ d' = set_dec d true) \/
  (exists Kp sp srcs reps, case3_hyps d Kp sp srcs reps).
Proof.
  unfold sbd_try. cbv zeta. intros H.
  destruct (extended_source_block_symbols (sbd_K d)) as [Kp|] eqn:E1; [|discriminate]. cbn [obind] in H.
  destruct (lenN (sbd_esis d) <? sbd_K d) eqn:E2.
  { left. injection H as <- <-. exists Kp. repeat split. }
  destruct (sbd_nsrc d =? sbd_K d) eqn:E3.
  { right. left.
    match type of H with obind ?x _ = Ok _ => destruct x as [syms|] eqn:Es; cbn [obind] in H; [|discriminate H] end.
    match type of H with obind ?x _ = Ok _ => destruct x as [b|] eqn:Eb; cbn [obind] in H; [|discriminate H] end.
    injection H as <- <-. exists Kp, syms, b. repeat split; assumption. }
  right. right.
  destruct (sys_params (sbd_K d)) as [sp|] eqn:E4; [|discriminate]. cbn [obind] in H.
  fold (T_of d) in H.
  destruct (omapM (fun x => check_len (T_of d) (snd x)) (present_sources d)) as [srcs|] eqn:E5; [|discriminate].
  cbn [obind] in H.
  destruct (omapM (fun x => check_len (T_of d) (snd x)) (sbd_rep d)) as [reps|] eqn:E6; [|discriminate].
  exists Kp, sp, srcs, reps. constructor; assumption.
Qed.

(* ---- the matrices of Case 3 ---- *)

Section Case3.
Variable m : mode.
Variable d : sb_decoder.
Variables (Kp : N) (sp : sysparams) (srcs reps : list (list N)).
Hypothesis HC : case3_hyps d Kp sp srcs reps.
Variables bin hd : list (list N).
Hypothesis Hg : generate_constraint_matrix m (sbd_K d) (isis_of d) = Ok (bin, hd).

Let Lf := N.to_nat (spL sp).
Let Af := full_matrix (spS sp) (spH sp) bin hd.

Lemma case3_A_of : A_of m d = Af /\ L_of d = Lf.
Proof. unfold A_of, L_of. rewrite (c3_sp _ _ _ _ _ HC), Hg. split; reflexivity. Qed.

Lemma case3_wf : wf_mat Lf Af.
Proof. exact (gcm_wf _ _ _ _ _ _ Hg (c3_sp _ _ _ _ _ HC)). Qed.

(* the matrix of the fast path is made of rows of the full matrix *)
Lemma case3_no_hdpc : spL sp <= spS sp + lenN (isis_of d) ->
  exists A3a, generate_constraint_matrix_no_hdpc m (sbd_K d) (isis_of d) = Ok A3a /\
              incl A3a Af /\ wf_mat Lf A3a.
Proof.
  intros Hc. destruct (gcm_parts _ _ _ _ _ Hg)
    as [sp0 [top [W' [P' [rows [Esp [Ea [Et [EW [EP [Er [Eh [Eb [Ef [St [Sh [Rl Rw]]]]]]]]]]]]]]]]].
  rewrite (c3_sp _ _ _ _ _ HC) in Esp. injection Esp as <-.
  exists (top ++ rows). split; [eapply gcm_no_hdpc_build; eauto using (c3_sp _ _ _ _ _ HC)|].
  split.
  - unfold Af. rewrite Ef. intros r Hr. apply in_app_iff in Hr. apply in_app_iff.
    destruct Hr as [Hr|Hr]; [left; exact Hr | right; apply in_app_iff; right; exact Hr].
  - apply wf_mat_app. split; [exact (proj2 St) | exact Rw].
Qed.

Lemma gauss_none_of_rank T L A D :
  gauss_rank_full fmul finv L A = false -> gauss_solve fmul finv T L A D = None.
Proof.
  intros Hr. destruct (gauss_solve fmul finv T L A D) as [C|] eqn:E; [|reflexivity].
  assert (Hn : gauss_solve fmul finv T L A D <> None) by (rewrite E; discriminate).
  apply gauss_solve_some_iff_gf in Hn. congruence.
Qed.

Lemma gauss_some_of_rank T L A D :
  gauss_rank_full fmul finv L A = true -> exists C, gauss_solve fmul finv T L A D = Some C.
Proof.
  intros Hr. destruct (gauss_solve fmul finv T L A D) as [C|] eqn:E; [exists C; reflexivity|].
  exfalso. apply (proj2 (gauss_solve_some_iff_gf T L A D) Hr). exact E.
Qed.

Lemma rank_of_gauss_some T L A D C :
  gauss_solve fmul finv T L A D = Some C -> gauss_rank_full fmul finv L A = true.
Proof. intros E. apply (gauss_solve_some_iff_gf T L A D). rewrite E. discriminate. Qed.

(* rank deficient full matrix: the answer is None (neither path answers) *)
Lemma case3_none_intro :
  gauss_rank_full fmul finv Lf Af = false -> sbd_try m d = Ok (None, set_dec d false).
Proof.
  intros Hr. rewrite (sbd_try_case3 m d Kp sp srcs reps HC). unfold case3. cbv zeta.
  fold Lf. rewrite Hg.
  assert (H3b : forall D, gauss_solve fmul finv (T_of d) Lf Af D = None)
    by (intros D; apply gauss_none_of_rank; exact Hr).
  destruct (spL sp <=? spS sp + lenN (isis_of d)) eqn:Ec; cbn [obind].
  - apply N.leb_le in Ec. destruct (case3_no_hdpc Ec) as [A3a [E3a [Hincl Hwf]]]. rewrite E3a. cbn [obind].
    rewrite gauss_none_of_rank.
    + cbn [obind]. fold Af. rewrite H3b. reflexivity.
    + destruct (gauss_rank_full fmul finv Lf A3a) eqn:Er; [|reflexivity]. exfalso.
      apply (gauss_rank_full_iff_injective_gf Lf A3a Hwf) in Er.
      apply (injective_incl_gf Lf A3a Af Hincl) in Er.
      apply (gauss_rank_full_iff_injective_gf Lf Af case3_wf) in Er. congruence.
  - fold Af. rewrite H3b. reflexivity.
Qed.

(* full rank: the answer is Some, provided the tail (sbd_finish) does not panic *)
Lemma case3_some_intro :
  gauss_rank_full fmul finv Lf Af = true ->
  (forall C, length C = Lf -> Forall (fun s : list N => length s = T_of d) C ->
             exists r, sbd_finish m d sp C = Ok r) ->
  exists r, sbd_try m d = Ok (Some r, set_dec d true).
Proof.
  intros Hr Hfin. rewrite (sbd_try_case3 m d Kp sp srcs reps HC). unfold case3. cbv zeta.
  fold Lf.
  destruct (gcm_parts _ _ _ _ _ Hg)
    as [sp0 [top [W' [P' [rows [Esp [Ea [Et [EW [EP [Er [Eh [Eb [Ef [St [Sh [Rl Rw]]]]]]]]]]]]]]]]].
  rewrite (c3_sp _ _ _ _ _ HC) in Esp. injection Esp as <-.
  (* shapes of the right-hand sides *)
  assert (Hchk : forall l out, omapM (fun x : N * list N => check_len (T_of d) (snd x)) l = Ok out ->
                   length out = length l /\ Forall (fun s : list N => length s = T_of d) out).
  { intros l out E. split; [eapply omapM_length; exact E|].
    eapply omapM_Forall_out; [exact E|]. intros a b _ Hb. unfold check_len in Hb.
    destruct (Nat.eqb (length (snd a)) (T_of d)) eqn:En; [|discriminate]. injection Hb as <-.
    apply Nat.eqb_eq. exact En. }
  destruct (Hchk _ _ (c3_srcs _ _ _ _ _ HC)) as [Ls Fs].
  destruct (Hchk _ _ (c3_reps _ _ _ _ _ HC)) as [Lr Fr].
  assert (Fz : forall n, Forall (fun s : list N => length s = T_of d) (repeat (repeat 0 (T_of d)) n)).
  { intros n. apply Forall_forall. intros s Hs. apply repeat_spec in Hs. subst s. apply repeat_length. }
  assert (Fb : Forall (fun s : list N => length s = T_of d) (body_of (T_of d) (Kp - sbd_K d) srcs reps)).
  { unfold body_of. apply Forall_app. split; [exact Fs|]. apply Forall_app. split; [apply Fz | exact Fr]. }
  assert (Lb : length (body_of (T_of d) (Kp - sbd_K d) srcs reps) = length (isis_of d)).
  { unfold body_of, isis_of, npad_of, Kp_of. rewrite (c3_Kp _ _ _ _ _ HC).
    rewrite !app_length, !map_length, repeat_length, Ls, Lr. unfold rangeN. rewrite map_length, seq_length. reflexivity. }
  assert (Fin3b : exists r, obind (generate_constraint_matrix m (sbd_K d) (isis_of d)) (fun bh =>
             match bh with (bin, hdpc) =>
               match gauss_solve fmul finv (T_of d) Lf (full_matrix (spS sp) (spH sp) bin hdpc)
                       (repeat (repeat 0 (T_of d)) (N.to_nat (spS sp + spH sp)) ++ body_of (T_of d) (Kp - sbd_K d) srcs reps) with
               | Some C => obind (sbd_finish m d sp C) (fun r => Ok (Some r, set_dec d true))
               | None => Ok (None, set_dec d false)
               end
             end) = Ok (Some r, set_dec d true)).
  { rewrite Hg. cbn [obind]. fold Af.
    destruct (gauss_some_of_rank (T_of d) Lf Af
      (repeat (repeat 0 (T_of d)) (N.to_nat (spS sp + spH sp)) ++ body_of (T_of d) (Kp - sbd_K d) srcs reps) Hr) as [C EC].
    rewrite EC. destruct (gauss_solve_shape _ _ _ _ _ _ _ EC) as [C1 C2].
    - unfold Af. rewrite Ef, !app_length, repeat_length, Lb, (proj1 St), (proj1 Sh), Rl. lia.
    - apply Forall_app. split; [apply Fz | exact Fb].
    - destruct (Hfin C C1 C2) as [r Er']. exists r. rewrite Er'. reflexivity. }
  destruct (spL sp <=? spS sp + lenN (isis_of d)) eqn:Ec; cbn [obind].
  - apply N.leb_le in Ec. destruct (case3_no_hdpc Ec) as [A3a [E3a [Hincl Hwf]]]. rewrite E3a. cbn [obind].
    destruct (gauss_solve fmul finv (T_of d) Lf A3a
                (repeat (repeat 0 (T_of d)) (N.to_nat (spS sp)) ++ body_of (T_of d) (Kp - sbd_K d) srcs reps)) as [C|] eqn:EC.
    + destruct (gauss_solve_shape _ _ _ _ _ _ _ EC) as [C1 C2].
      * pose proof (gcm_no_hdpc_build m (sbd_K d) (isis_of d) sp top W' P' rows (c3_sp _ _ _ _ _ HC) Ec Et EW EP Er) as E3a'.
        rewrite E3a in E3a'. injection E3a' as ->.
        rewrite !app_length, repeat_length, Lb, (proj1 St), Rl. reflexivity.
      * apply Forall_app. split; [apply Fz | exact Fb].
      * destruct (Hfin C C1 C2) as [r Er']. exists r. rewrite Er'. reflexivity.
    + cbn [obind]. exact Fin3b.
  - exact Fin3b.
Qed.

End Case3.

(* an answer None in Case 3 comes from a rank deficient full matrix *)
Lemma case3_none_elim m d Kp sp srcs reps d' :
  case3_hyps d Kp sp srcs reps -> sbd_try m d = Ok (None, d') ->
  exists bin hd, generate_constraint_matrix m (sbd_K d) (isis_of d) = Ok (bin, hd) /\
    gauss_rank_full fmul finv (N.to_nat (spL sp)) (full_matrix (spS sp) (spH sp) bin hd) = false.
Proof.
  intros HC H. rewrite (sbd_try_case3 m d Kp sp srcs reps HC) in H. unfold case3 in H. cbv zeta in H.
  match type of H with obind ?x _ = _ => destruct x as [[r|]|] eqn:E3a end; cbn [obind] in H; try discriminate.
  destruct (generate_constraint_matrix m (sbd_K d) (isis_of d)) as [[bin hd]|] eqn:Eg; [|discriminate].
  cbn [obind] in H. exists bin, hd. split; [reflexivity|].
  match type of H with context [gauss_solve ?a ?b ?c ?e ?f ?g] => destruct (gauss_solve a b c e f g) as [C|] eqn:EC end.
  - bind_inv H. discriminate.
  - destruct (gauss_rank_full fmul finv (N.to_nat (spL sp)) (full_matrix (spS sp) (spH sp) bin hd)) eqn:Er; [|reflexivity].
    exfalso. apply (proj2 (gauss_solve_some_iff_gf _ _ _ _) Er) in EC. exact EC.
Qed.

(* an answer Some in Case 3 comes from a full-rank matrix: that of the fast path or the full one *)
Lemma case3_some_elim m d Kp sp srcs reps r d' :
  case3_hyps d Kp sp srcs reps -> sbd_try m d = Ok (Some r, d') ->
  (exists A3a, generate_constraint_matrix_no_hdpc m (sbd_K d) (isis_of d) = Ok A3a /\
               gauss_rank_full fmul finv (N.to_nat (spL sp)) A3a = true) \/
  (exists bin hd, generate_constraint_matrix m (sbd_K d) (isis_of d) = Ok (bin, hd) /\
    gauss_rank_full fmul finv (N.to_nat (spL sp)) (full_matrix (spS sp) (spH sp) bin hd) = true).
Proof.
  intros HC H. rewrite (sbd_try_case3 m d Kp sp srcs reps HC) in H. unfold case3 in H. cbv zeta in H.
  match type of H with obind ?x _ = _ => destruct x as [[r0|]|] eqn:E3a end; cbn [obind] in H; try discriminate.
  - left. destruct (spL sp <=? spS sp + lenN (isis_of d)); [|discriminate].
    destruct (generate_constraint_matrix_no_hdpc m (sbd_K d) (isis_of d)) as [A3a|]; [|discriminate].
    cbn [obind] in E3a. exists A3a. split; [reflexivity|].
    match type of E3a with context [gauss_solve ?a ?b ?c ?e ?f ?g] => destruct (gauss_solve a b c e f g) as [C|] eqn:EC end;
      [|discriminate]. eapply rank_of_gauss_some. exact EC.
  - right. destruct (generate_constraint_matrix m (sbd_K d) (isis_of d)) as [[bin hd]|] eqn:Eg; [|discriminate].
    cbn [obind] in H. exists bin, hd. split; [reflexivity|].
    match type of H with context [gauss_solve ?a ?b ?c ?e ?f ?g] => destruct (gauss_solve a b c e f g) as [C|] eqn:EC end;
      [|discriminate]. eapply rank_of_gauss_some. exact EC.
Qed.

(* ---- the answer None is a function of the set of packets ---- *)

Lemma isis_perm d1 d2 : sbd_equiv d1 d2 -> Permutation (isis_of d1) (isis_of d2).
Proof.
  intros [_ [_ [EK [Es [_ [_ Pr]]]]]]. unfold isis_of, npad_of, Kp_of, present_sources. rewrite EK, Es.
  apply Permutation_app_head. apply Permutation_app_head. apply Permutation_map. exact Pr.
Qed.

Lemma none_transfer m d1 d2 d1' :
  sbd_inv d1 -> sbd_inv d2 -> sbd_equiv d1 d2 -> sbd_try m d1 = Ok (None, d1') ->
  exists d2', sbd_try m d2 = Ok (None, d2').
Proof.
  intros I1 I2 Eq H. pose proof Eq as [Eid [Ecfg [EK [Es [En [Ee Pr]]]]]].
  assert (Elen : lenN (sbd_esis d1) = lenN (sbd_esis d2)).
  { unfold lenN. f_equal. apply same_set_NoDup_length; [apply (inv_esis_nodup d1 I1) | apply (inv_esis_nodup d2 I2) | exact Ee]. }
  destruct (sbd_try_cases _ _ _ _ H) as [[Kp [E1 [E2 _]]] | [[Kp [syms [b [_ [_ [_ [_ [_ [Hr _]]]]]]]]] | [Kp [sp [srcs [reps HC]]]]]].
  - exists d2. unfold sbd_try. cbv zeta. rewrite <- EK, E1. cbn [obind]. rewrite <- Elen, E2. reflexivity.
  - discriminate.
  - destruct (case3_none_elim m d1 Kp sp srcs reps d1' HC H) as [bin [hd [Eg Hrank]]].
    destruct (omapM_perm _ _ _ _ Pr (c3_reps _ _ _ _ _ HC)) as [reps2 [Er2 _]].
    assert (HC2 : case3_hyps d2 Kp sp srcs reps2).
    { destruct HC as [H1 H2 H3 H4 H5 H6]. unfold T_of in *. unfold present_sources in *.
      constructor; unfold T_of, present_sources; rewrite <- ?EK, <- ?Elen, <- ?En, <- ?Ecfg, <- ?Es; assumption. }
    destruct (gcm_perm m (sbd_K d1) (isis_of d1) (isis_of d2) bin hd (isis_perm d1 d2 Eq) Eg)
      as [sp' [bin2 [Esp' [Eg2 Pm]]]].
    rewrite (c3_sp _ _ _ _ _ HC) in Esp'. injection Esp' as <-. rewrite EK in Eg2.
    exists (set_dec d2 false). apply (case3_none_intro m d2 Kp sp srcs reps2 HC2 bin2 hd Eg2).
    destruct (gauss_rank_full fmul finv (N.to_nat (spL sp)) (full_matrix (spS sp) (spH sp) bin2 hd)) eqn:Er; [|reflexivity].
    exfalso.
    pose proof (gcm_wf _ _ _ _ _ _ Eg (c3_sp _ _ _ _ _ HC)) as W1.
    pose proof (gcm_wf _ _ _ _ _ _ Eg2 (c3_sp _ _ _ _ _ HC2)) as W2.
    apply (gauss_rank_full_iff_injective_gf _ _ W2) in Er.
    apply (injective_perm_gf _ _ _ (Permutation_sym Pm)) in Er.
    apply (gauss_rank_full_iff_injective_gf _ _ W1) in Er. congruence.
Qed.
