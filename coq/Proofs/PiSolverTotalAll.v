(* PS_no_panic / PS_total / PS_complete for pi_solve: both modes, generic matrices and the matrices
   of generate_constraint_matrix(_no_hdpc). *)
From Coq Require Import NArith List Bool Lia Arith.
From RQ Require Import Base.Outcome Base.Ints Base.ListX Model.Octet Model.CMatrix Model.Slab
  Model.FieldFast Model.SysConst
  Spec.Linear Proofs.OutcomeLemmas Proofs.LinearProofs Model.PiSolver
  Proofs.PiSolverBase Proofs.PiSolverStruct Proofs.PiSolverOps Proofs.PiSolverG Proofs.PiSolverInvDefs
  Proofs.PiSolverCells Proofs.PiSolverPhase1 Proofs.PiSolverSound Proofs.PiSolverNoPanic
  Proofs.PiSolverTotal Proofs.PiSolverTotalC Proofs.PiSolverSystem Proofs.PiSolverExamples.
Import ListNotations.
Open Scope N_scope.

Theorem pi_run_no_hdpc_checked_total A L P Mn Wn :
  dims A Mn Wn -> 0 < Mn -> Mn < 4294967296 -> bin_mat A -> L = Wn -> P <= Wn -> Wn < 65536 -> Wn <= Mn ->
  Wn - P < 65535 ->
  exists r, pi_run_no_hdpc Checked A L P = Ok r.
Proof.
  intros D HM0 M32 Bin HL HP W16 HWM Hod. unfold pi_run_no_hdpc.
  destruct (ps_new_common_total Checked A L P Mn Wn D HM0 HWM HP) as (s0 & E0 & HX0 & EA0 & _ & _ & Eo0 & EXA0).
  rewrite E0. cbn [obind].
  destruct (no_hdpc_init_state _ _ _ _ _ _ _ D HM0 Bin HL HP E0) as (_ & Wf & Hinv & Hi & Hu & HW & HA & Hh).
  apply (execute_checked_total A Mn Wn 0 Wf (proj1 D) W16 ltac:(lia) HWM M32 s0 Hinv Hi ltac:(lia) HW); try assumption.
  - unfold ps_new_common in E0. rewrite (dims_hd _ _ _ D HM0) in E0. omon E0. inversion E0; subst; cbn; first [reflexivity | assumption].
  - rewrite HA. exact D.
  - intros k j Hk. lia.
  - rewrite Hu. exact Hod.
  - rewrite Hu. exact HX0.
  - rewrite Hu. apply EXA0. reflexivity.
Qed.

Theorem pi_run_checked_total S H A hdpc L P Mn Wn :
  dims A Mn Wn -> 0 < Mn -> Mn < 4294967296 -> bin_mat A -> dims hdpc H Wn -> bytes_mat hdpc ->
  S + 2 * H <= Mn -> L = Wn -> P <= Wn -> Wn < 65536 -> Wn <= Mn ->
  (forall k j, S <= k < S + H -> j < Wn - P -> cell A k j = 0) -> Wn - P < 65535 ->
  exists r, pi_run Checked S H A hdpc L P = Ok r.
Proof.
  intros D HM0 M32 Bin Dh Bh HS HL HP W16 HWM Hzero Hod. unfold pi_run.
  destruct (ps_new_total Checked S H A hdpc L P Mn Wn D HM0 HWM HP HS) as (s0 & E0 & HX0 & Eo0 & EXA0).
  rewrite E0. cbn [obind].
  destruct (hdpc_init_state _ _ _ _ _ _ _ _ _ _ D HM0 Bin Dh Bh HS HL HP E0)
    as (_ & Wf & A0len & Hinv & Hi & Hu & HW & HA & Hh & Hrows).
  assert (DA : dims (ps_A s0) Mn Wn).
  { split; [exact HA|]. apply Forall_forall. intros r Hr. destruct (In_nth _ _ [] Hr) as (k & Lk & <-).
    assert (Hk : N.of_nat k < Mn) by (unfold lenN in HA; lia).
    pose proof (Hrows (N.of_nat k) Hk) as Er. unfold rowN in Er at 1. rewrite Nat2N.id in Er. rewrite Er.
    apply (dims_row _ _ _ _ D).
    unfold sigma. destruct (N.leb_spec S (N.of_nat k)); destruct (N.ltb_spec (N.of_nat k) (S + H)); cbn [andb]; try lia;
      destruct (N.leb_spec (Mn - H) (N.of_nat k)); destruct (N.ltb_spec (N.of_nat k) (Mn - H + H)); cbn [andb]; lia. }
  assert (EL : ps_L s0 = Wn).
  { unfold ps_new in E0. omon E0. inversion E0; subst s0. cbn.
    match goal with X : ofold _ _ _ = Ok ?a |- ps_L ?a = _ => revert X end.
    apply (ofold_inv_in (fun x => ps_L x = Wn)).
    + intros i sa sb _ Ea Eb. omon Eb.
      match goal with X : ps_swap_rows _ _ _ _ = Ok _ |- _ =>
        destruct (ps_swap_rows_frame _ _ _ _ _ X) as (_ & _ & _ & _ & _ & _ & _ & FL & _) end.
      destruct (onX_frame _ _ _ _ Eb) as (_ & _ & _ & _ & _ & _ & _ & GL & _). congruence.
    + unfold ps_new_common in E. rewrite (dims_hd _ _ _ D HM0) in E. omon E. inversion E; subst; cbn; first [reflexivity | assumption]. }
  apply (execute_checked_total _ Mn Wn H Wf A0len W16 ltac:(lia) HWM M32 s0 Hinv Hi ltac:(lia) HW); try assumption.
  - intros k j Hk Hj. unfold cell. rewrite Hrows by lia. rewrite Hu in Hj.
    fold (cell A (sigma S H Mn H k) j). apply Hzero; [|lia].
    unfold sigma. destruct (N.leb_spec S k); destruct (N.ltb_spec k (S + H)); cbn [andb]; try lia;
      destruct (N.leb_spec (Mn - H) k); destruct (N.ltb_spec k (Mn - H + H)); cbn [andb]; lia.
  - rewrite Hu. exact Hod.
  - rewrite Hu. exact HX0.
  - rewrite Hu. apply EXA0. reflexivity.
Qed.

(* ---- PS_total: the run is always Ok ---- *)
Theorem pi_run_total m S H A hdpc L P Mn Wn :
  dims A Mn Wn -> 0 < Mn -> Mn < 4294967296 -> bin_mat A -> dims hdpc H Wn -> bytes_mat hdpc ->
  S + 2 * H <= Mn -> L = Wn -> P <= Wn -> Wn < 65536 -> Wn <= Mn ->
  (forall k j, S <= k < S + H -> j < Wn - P -> cell A k j = 0) -> Wn - P < 65535 ->
  exists r, pi_run m S H A hdpc L P = Ok r.
Proof. destruct m; [apply pi_run_release_total | apply pi_run_checked_total]. Qed.

Theorem pi_run_no_hdpc_total m A L P Mn Wn :
  dims A Mn Wn -> 0 < Mn -> Mn < 4294967296 -> bin_mat A -> L = Wn -> P <= Wn -> Wn < 65536 -> Wn <= Mn ->
  Wn - P < 65535 ->
  exists r, pi_run_no_hdpc m A L P = Ok r.
Proof. destruct m; [apply pi_run_no_hdpc_release_total | apply pi_run_no_hdpc_checked_total]. Qed.

(* ---- PS_complete for the option-valued entry points ---- *)
Theorem pi_solve_complete m S H A hdpc L P Mn Wn :
  dims A Mn Wn -> 0 < Mn -> Mn < 4294967296 -> bin_mat A -> dims hdpc H Wn -> bytes_mat hdpc ->
  S + 2 * H <= Mn -> L = Wn -> P <= Wn -> Wn < 65536 -> Wn <= Mn ->
  (forall k j, S <= k < S + H -> j < Wn - P -> cell A k j = 0) -> Wn - P < 65535 ->
  (forall j, j < Wn - P -> exists k, k < Mn /\ (k < S \/ S + H <= k) /\ cell A k j = 1) ->
  (pi_solve m S H A hdpc L P = None <-> ~ injective fmul (N.to_nat Wn) (full_matrix S H A hdpc)).
Proof.
  intros D HM0 M32 Bin Dh Bh HS HL HP W16 HWM Hzero Hod Hcov.
  destruct (pi_run_total m S H A hdpc L P Mn Wn D HM0 M32 Bin Dh Bh HS HL HP W16 HWM Hzero Hod) as [r E].
  unfold pi_solve. rewrite E. cbn [unpanic].
  exact (pi_run_complete m S H A hdpc L P r Mn Wn D HM0 M32 Bin Dh Bh HS HL HP W16 Hcov E).
Qed.

Theorem pi_solve_no_hdpc_complete m A L P Mn Wn :
  dims A Mn Wn -> 0 < Mn -> Mn < 4294967296 -> bin_mat A -> L = Wn -> P <= Wn -> Wn < 65536 -> Wn <= Mn ->
  Wn - P < 65535 ->
  (forall j, j < Wn - P -> exists k, k < Mn /\ cell A k j = 1) ->
  (pi_solve_no_hdpc m A L P = None <-> ~ injective fmul (N.to_nat Wn) A).
Proof.
  intros D HM0 M32 Bin HL HP W16 HWM Hod Hcov.
  destruct (pi_run_no_hdpc_total m A L P Mn Wn D HM0 M32 Bin HL HP W16 HWM Hod) as [r E].
  unfold pi_solve_no_hdpc. rewrite E. cbn [unpanic].
  exact (pi_run_no_hdpc_complete m A L P r Mn Wn D HM0 M32 Bin HL HP W16 Hcov E).
Qed.

(* ---- the systems the crate builds ---- *)
Theorem pi_system_total m K isis sp bin hd :
  K <= 56403 -> Forall (fun x => x < 2 ^ 32) isis -> lenN isis < 2 ^ 31 ->
  sys_params K = Ok sp -> generate_constraint_matrix m K isis = Ok (bin, hd) ->
  exists r, pi_system_run m K isis = Ok r /\
    (r = None <-> ~ injective fmul (N.to_nat (spL sp)) (full_matrix (spS sp) (spH sp) bin hd)).
Proof.
  intros HK Hisis Hn Hsys Hgen.
  destruct (system_facts m K isis sp bin hd HK Hisis Hn Hsys Hgen) as (D & HM0 & M32 & Bin & Dh & Bh & HS & HP & W16 & Hcov).
  destruct (system_extra m K isis sp bin hd HK Hisis Hn Hsys Hgen) as (HWM & Hzero & Hod).
  destruct (pi_run_total m (spS sp) (spH sp) bin hd (spL sp) (spP sp) _ _ D HM0 M32 Bin Dh Bh HS eq_refl HP W16 HWM) as [r E];
    [intros k j Hk Hj; apply Hzero; [exact Hk | lia] | exact Hod |].
  assert (Er : pi_system_run m K isis = Ok r).
  { unfold pi_system_run. rewrite Hsys. cbn [obind]. rewrite Hgen. cbn [obind]. exact E. }
  exists r. split; [exact Er|]. exact (pi_system_complete m K isis sp bin hd r HK Hisis Hn Hsys Hgen Er).
Qed.

Theorem pi_system_no_hdpc_total m K isis sp A :
  K <= 56403 -> Forall (fun x => x < 2 ^ 32) isis -> lenN isis < 2 ^ 31 ->
  sys_params K = Ok sp -> generate_constraint_matrix_no_hdpc m K isis = Ok A ->
  exists r, pi_system_run_no_hdpc m K isis = Ok r /\
    (r = None <-> ~ injective fmul (N.to_nat (spL sp)) A).
Proof.
  intros HK Hisis Hn Hsys Hgen.
  destruct (system_no_hdpc_facts m K isis sp A HK Hisis Hn Hsys Hgen) as (D & HM0 & M32 & Bin & HP & W16 & Hcov).
  destruct (system_no_hdpc_extra m K isis sp A HK Hisis Hn Hsys Hgen) as (HWM & Hod).
  destruct (pi_run_no_hdpc_total m A (spL sp) (spP sp) _ _ D HM0 M32 Bin eq_refl HP W16 HWM Hod) as [r E].
  assert (Er : pi_system_run_no_hdpc m K isis = Ok r).
  { unfold pi_system_run_no_hdpc. rewrite Hsys. cbn [obind]. rewrite Hgen. cbn [obind]. exact E. }
  exists r. split; [exact Er|]. exact (pi_system_no_hdpc_complete m K isis sp A r HK Hisis Hn Hsys Hgen Er).
Qed.
