(* Soundness of the fast sparse certificate checker of Model/CertFast.v:
   check_cert_fast = true  ->  Spec.Linear.check_cert fmul on the dense denotation = true. *)
From Coq Require Import NArith PArith List Bool Arith Lia FMapPositive.
From RQ Require Import Model.FieldFast Spec.Linear Proofs.LinearProofs Proofs.LinearInst Model.CertFast.
Import ListNotations.
Open Scope N_scope.

Definition srow_wf (r : srow) : Prop := Forall (fun kv => snd kv < 256) r.
Definition rows_wf (m : smat) : Prop := forall i, srow_wf (get_row m i).

(* ---- xor bookkeeping ---- *)

Ltac xor_bits :=
  apply N.bits_inj; intros ?n; rewrite ?N.lxor_spec, ?N.bits_0;
  repeat match goal with |- context [N.testbit ?x ?n] => destruct (N.testbit x n) end; reflexivity.

Lemma lxor_4 a b c d : N.lxor (N.lxor a b) (N.lxor c d) = N.lxor (N.lxor a c) (N.lxor b d).
Proof. xor_bits. Qed.
Lemma lxor_3l a b c : N.lxor (N.lxor a b) c = N.lxor a (N.lxor b c).
Proof. apply N.lxor_assoc. Qed.
Lemma lxor_3m a b c : N.lxor a (N.lxor b c) = N.lxor b (N.lxor a c).
Proof. xor_bits. Qed.

(* ---- keys ---- *)

Lemma succ_pos_inj a b : N.succ_pos a = N.succ_pos b -> a = b.
Proof.
  intros H. apply N.succ_inj. rewrite <- !N.succ_pos_spec. rewrite H. reflexivity.
Qed.

Lemma ckey_eqb a b : Pos.eqb (ckey a) (ckey b) = (a =? b).
Proof.
  unfold ckey. destruct (N.eqb_spec a b) as [->|Hne].
  - apply Pos.eqb_refl.
  - apply Pos.eqb_neq. intros H. apply Hne. apply succ_pos_inj. exact H.
Qed.

Lemma get_set_same m d r : get_row (set_row m d r) d = r.
Proof. unfold get_row, set_row. rewrite PositiveMap.gss. reflexivity. Qed.

Lemma get_set_other m d r i : i <> d -> get_row (set_row m d r) i = get_row m i.
Proof.
  intros H. unfold get_row, set_row. rewrite PositiveMap.gso; [reflexivity|].
  intros E. apply H. apply succ_pos_inj. exact E.
Qed.

Lemma rows_wf_set m d r : rows_wf m -> srow_wf r -> rows_wf (set_row m d r).
Proof.
  intros Hm Hr i. destruct (N.eq_dec i d) as [->|Hne].
  - rewrite get_set_same. exact Hr.
  - rewrite get_set_other by exact Hne. apply Hm.
Qed.

Lemma smat_wfb_ok m : smat_wfb m = true -> rows_wf m.
Proof.
  unfold smat_wfb. intros H i. unfold get_row.
  destruct (PositiveMap.find (N.succ_pos i) m) as [r|] eqn:E; [|constructor].
  apply PositiveMap.elements_correct in E. rewrite forallb_forall in H. specialize (H _ E).
  cbn [snd] in H. unfold srow_wfb in H. rewrite forallb_forall in H.
  apply Forall_forall. intros kv Hin. apply N.ltb_lt. apply H. exact Hin.
Qed.

(* ---- sparse row arithmetic ---- *)

Lemma sadd_nil_r r : sadd r [] = r.
Proof. destruct r as [|[k v] t]; reflexivity. Qed.

Lemma sadd_cons_cons k1 v1 t1 k2 v2 t2 :
  sadd ((k1, v1) :: t1) ((k2, v2) :: t2) =
  match Pos.compare k1 k2 with
  | Lt => (k1, v1) :: sadd t1 ((k2, v2) :: t2)
  | Eq => if N.lxor v1 v2 =? 0 then sadd t1 t2 else (k1, N.lxor v1 v2) :: sadd t1 t2
  | Gt => (k2, v2) :: sadd ((k1, v1) :: t1) t2
  end.
Proof. reflexivity. Qed.

Lemma sval_cons k k' v t : sval k ((k', v) :: t) = if Pos.eqb k k' then N.lxor v (sval k t) else sval k t.
Proof. reflexivity. Qed.

Lemma sval_sadd k r1 r2 : sval k (sadd r1 r2) = N.lxor (sval k r1) (sval k r2).
Proof.
  revert r2; induction r1 as [|[k1 v1] t1 IH1]; intros r2.
  - cbn [sadd sval]. rewrite N.lxor_0_l. reflexivity.
  - induction r2 as [|[k2 v2] t2 IH2].
    + rewrite sadd_nil_r. cbn [sval]. rewrite N.lxor_0_r. reflexivity.
    + rewrite sadd_cons_cons. destruct (Pos.compare k1 k2) eqn:E.
      * apply Pos.compare_eq in E. subst k2. rewrite !sval_cons.
        destruct (N.lxor v1 v2 =? 0) eqn:Ez.
        -- apply N.eqb_eq in Ez. apply N.lxor_eq in Ez. subst v2. rewrite IH1.
           destruct (Pos.eqb k k1); [|reflexivity].
           rewrite lxor_4, N.lxor_nilpotent, N.lxor_0_l. reflexivity.
        -- rewrite sval_cons, IH1. destruct (Pos.eqb k k1); [|reflexivity]. apply eq_sym, lxor_4.
      * rewrite !sval_cons. rewrite IH1. rewrite sval_cons.
        destruct (Pos.eqb k k1); [|reflexivity]. apply eq_sym, lxor_3l.
      * rewrite sval_cons. rewrite IH2. rewrite !sval_cons.
        destruct (Pos.eqb k k2); [|reflexivity]. apply lxor_3m.
Qed.

Lemma srow_wf_sadd r1 r2 : srow_wf r1 -> srow_wf r2 -> srow_wf (sadd r1 r2).
Proof.
  unfold srow_wf. intros H1. revert r2; induction H1 as [|[k1 v1] t1 Hv1 Ht1 IH1]; intros r2 H2.
  - exact H2.
  - induction H2 as [|[k2 v2] t2 Hv2 Ht2 IH2].
    + rewrite sadd_nil_r. constructor; assumption.
    + rewrite sadd_cons_cons. cbn [snd] in *. destruct (Pos.compare k1 k2).
      * destruct (N.lxor v1 v2 =? 0); [apply IH1; exact Ht2|].
        constructor; [cbn [snd]; apply lxor_byte; assumption | apply IH1; exact Ht2].
      * constructor; [exact Hv1 | apply IH1; constructor; assumption].
      * constructor; [exact Hv2 | exact IH2].
Qed.

Lemma sval_byte k r : srow_wf r -> sval k r < 256.
Proof.
  unfold srow_wf. intros H. induction H as [|[k' v] t Hv Ht IH]; cbn [sval]; [lia|].
  destruct (Pos.eqb k k'); [apply lxor_byte; assumption | exact IH].
Qed.

Lemma srow_wf_sscale c r : c < 256 -> srow_wf r -> srow_wf (sscale c r).
Proof.
  unfold srow_wf. intros Hc H. induction H as [|[k v] t Hv Ht IH]; cbn [sscale]; [constructor|].
  cbn [snd] in Hv. destruct (fmul c v =? 0); [exact IH|].
  constructor; [cbn [snd]; apply (f_closed _ _ gf_field_ok); assumption | exact IH].
Qed.

Lemma sval_sscale k c r : c < 256 -> srow_wf r -> sval k (sscale c r) = fmul c (sval k r).
Proof.
  intros Hc H. pose proof H as H0. unfold srow_wf in H.
  induction H as [|[k' v] t Hv Ht IH]; cbn [sscale sval].
  - symmetry. apply (f_0_r _ _ gf_field_ok). exact Hc.
  - cbn [snd] in Hv. assert (Wt : srow_wf t) by exact Ht. specialize (IH Wt).
    pose proof (sval_byte k t Wt) as Bs.
    destruct (fmul c v =? 0) eqn:Ez.
    + apply N.eqb_eq in Ez. rewrite IH. destruct (Pos.eqb k k'); [|reflexivity].
      rewrite (f_distr_r _ _ gf_field_ok) by assumption. rewrite Ez, N.lxor_0_l. reflexivity.
    + rewrite sval_cons, IH. destruct (Pos.eqb k k'); [|reflexivity].
      rewrite (f_distr_r _ _ gf_field_ok) by assumption. reflexivity.
Qed.

(* ---- dense denotation ---- *)

Lemma vadd_map {A} (f g : A -> N) l : vadd (map f l) (map g l) = map (fun j => N.lxor (f j) (g j)) l.
Proof. induction l as [|a l IH]; cbn; [reflexivity|]. rewrite IH. reflexivity. Qed.

Lemma drow_sadd L r1 r2 : drow L (sadd r1 r2) = vadd (drow L r1) (drow L r2).
Proof. unfold drow. rewrite vadd_map. apply map_ext. intros j. apply sval_sadd. Qed.

Lemma drow_sscale L c r : c < 256 -> srow_wf r -> drow L (sscale c r) = vscale fmul c (drow L r).
Proof.
  intros Hc H. unfold drow, vscale. rewrite map_map. apply map_ext. intros j. apply sval_sscale; assumption.
Qed.

Lemma drow_length L r : length (drow L r) = N.to_nat L.
Proof. unfold drow. rewrite map_length, seq_length. reflexivity. Qed.

Lemma drow_wf L r : srow_wf r -> wf_vec (drow L r).
Proof.
  intros H. unfold wf_vec, drow. apply Forall_forall. intros x Hx. apply in_map_iff in Hx.
  destruct Hx as [j [<- _]]. apply sval_byte. exact H.
Qed.

Lemma drow_unit L j : drow L [(ckey j, 1)] = unit_row (N.to_nat L) (N.to_nat j).
Proof.
  unfold drow, unit_row. apply map_ext. intros t. cbn [sval]. rewrite ckey_eqb.
  destruct (N.eqb_spec (N.of_nat t) j) as [E|E].
  - subst j. rewrite Nat2N.id, Nat.eqb_refl. reflexivity.
  - destruct (Nat.eqb_spec t (N.to_nat j)) as [E'|E']; [|reflexivity].
    exfalso. apply E. subst t. apply N2Nat.id.
Qed.

Lemma dense_length L M m : length (dense L M m) = N.to_nat M.
Proof. unfold dense. rewrite map_length, seq_length. reflexivity. Qed.

Lemma nth_error_seq0 n i : (i < n)%nat -> nth_error (seq 0 n) i = Some i.
Proof.
  intros H. rewrite (Base.ListX.nth_error_nth' (seq 0 n) i O) by (rewrite seq_length; exact H).
  rewrite seq_nth by exact H. reflexivity.
Qed.

Lemma dense_nth_error L M m i : (i < N.to_nat M)%nat ->
  nth_error (dense L M m) i = Some (drow L (get_row m (N.of_nat i))).
Proof.
  intros H. unfold dense. apply (map_nth_error (fun i => drow L (get_row m (N.of_nat i)))).
  apply nth_error_seq0. exact H.
Qed.

Lemma dense_nth_error_N L M m d : d < M ->
  nth_error (dense L M m) (N.to_nat d) = Some (drow L (get_row m d)).
Proof. intros H. rewrite dense_nth_error by lia. rewrite N2Nat.id. reflexivity. Qed.

Lemma dense_wf L M m : rows_wf m -> wf_mat (N.to_nat L) (dense L M m).
Proof.
  intros H. unfold wf_mat, dense. apply Forall_forall. intros r Hr. apply in_map_iff in Hr.
  destruct Hr as [i [<- _]]. split; [apply drow_length | apply drow_wf; apply H].
Qed.

Lemma nth_error_ext' {A} (l l' : list A) : (forall i, nth_error l i = nth_error l' i) -> l = l'.
Proof.
  revert l'; induction l as [|a l IH]; intros [|b l'] H.
  - reflexivity.
  - specialize (H O). discriminate.
  - specialize (H O). discriminate.
  - pose proof (H O) as H0. cbn in H0. injection H0 as <-. f_equal. apply IH.
    intros i. apply (H (S i)).
Qed.

Lemma dense_set L M m d r : d < M ->
  dense L M (set_row m d r) = upd_nth (N.to_nat d) (drow L r) (dense L M m).
Proof.
  intros Hd. apply nth_error_ext'. intros i.
  destruct (Nat.lt_ge_cases i (N.to_nat M)) as [Hi|Hi].
  - rewrite dense_nth_error by exact Hi.
    destruct (Nat.eq_dec i (N.to_nat d)) as [E|E].
    + subst i. rewrite N2Nat.id, get_set_same.
      rewrite nth_error_upd_same by (rewrite dense_length; exact Hi). reflexivity.
    + rewrite get_set_other by lia.
      rewrite nth_error_upd_other by (intros E'; apply E; symmetry; exact E').
      rewrite dense_nth_error by exact Hi. reflexivity.
  - assert (E1 : nth_error (dense L M (set_row m d r)) i = None)
      by (apply nth_error_None; rewrite dense_length; exact Hi).
    assert (E2 : nth_error (upd_nth (N.to_nat d) (drow L r) (dense L M m)) i = None)
      by (apply nth_error_None; rewrite upd_nth_length, dense_length; exact Hi).
    rewrite E1, E2. reflexivity.
Qed.

(* ---- operations ---- *)

Lemma fop_valid_spec M o : fop_valid M o = true ->
  op_valid (N.to_nat M) (op_of o) = true /\
  match o with
  | FAdd d s => d < M /\ s < M
  | FMul d c => d < M /\ c < 256
  | FFMA d s c => d < M /\ s < M /\ c < 256
  end.
Proof.
  destruct o as [d s|d c|d s c]; cbn [fop_valid op_of op_valid]; intros H.
  - apply andb_true_iff in H. destruct H as [H H3]. apply andb_true_iff in H. destruct H as [H1 H2].
    apply N.ltb_lt in H1, H2. apply negb_true_iff in H3. apply N.eqb_neq in H3.
    split; [|auto]. apply andb_true_iff; split; [apply andb_true_iff; split|].
    + apply Nat.ltb_lt. lia.
    + apply Nat.ltb_lt. lia.
    + apply negb_true_iff. apply Nat.eqb_neq. lia.
  - apply andb_true_iff in H. destruct H as [H H3]. apply andb_true_iff in H. destruct H as [H1 H2].
    pose proof H1 as H1'. pose proof H2 as H2'. apply N.ltb_lt in H1', H2'.
    split; [|auto]. rewrite H2, H3. rewrite !andb_true_r. apply Nat.ltb_lt. lia.
  - apply andb_true_iff in H. destruct H as [H H4]. apply andb_true_iff in H. destruct H as [H H3].
    apply andb_true_iff in H. destruct H as [H1 H2].
    pose proof H4 as H4'. apply N.ltb_lt in H1, H2, H4'. apply negb_true_iff in H3. apply N.eqb_neq in H3.
    split; [|auto]. rewrite H4, andb_true_r.
    apply andb_true_iff; split; [apply andb_true_iff; split|].
    + apply Nat.ltb_lt. lia.
    + apply Nat.ltb_lt. lia.
    + apply negb_true_iff. apply Nat.eqb_neq. lia.
Qed.

Lemma fapply_wf M o m : fop_valid M o = true -> rows_wf m -> rows_wf (fapply o m).
Proof.
  intros V H. destruct (fop_valid_spec M o V) as [_ B].
  destruct o as [d s|d c|d s c]; cbn [fapply]; apply rows_wf_set; try exact H.
  - apply srow_wf_sadd; apply H.
  - apply srow_wf_sscale; [tauto | apply H].
  - apply srow_wf_sadd; [apply H | apply srow_wf_sscale; [tauto | apply H]].
Qed.

Lemma fapply_dense L M o m : fop_valid M o = true -> rows_wf m ->
  dense L M (fapply o m) = apply_op fmul (op_of o) (dense L M m).
Proof.
  intros V H. destruct (fop_valid_spec M o V) as [_ B].
  destruct o as [d s|d c|d s c]; cbn [fapply op_of apply_op].
  - destruct B as [Hd Hs]. rewrite !dense_nth_error_N by assumption.
    rewrite dense_set by exact Hd. rewrite drow_sadd. reflexivity.
  - destruct B as [Hd Hc]. rewrite !dense_nth_error_N by assumption.
    rewrite dense_set by exact Hd. rewrite drow_sscale by (try assumption; apply H). reflexivity.
  - destruct B as [Hd [Hs Hc]]. rewrite !dense_nth_error_N by assumption.
    rewrite dense_set by exact Hd. rewrite drow_sadd.
    rewrite drow_sscale by (try assumption; apply H). reflexivity.
Qed.

Lemma fapply_ops_dense L M ops m : forallb (fop_valid M) ops = true -> rows_wf m ->
  dense L M (fapply_ops ops m) = apply_ops fmul (map op_of ops) (dense L M m) /\
  rows_wf (fapply_ops ops m).
Proof.
  revert m; induction ops as [|o ops IH]; intros m V H; [split; [reflexivity | exact H]|].
  cbn [forallb] in V. apply andb_true_iff in V. destruct V as [V1 V2].
  unfold fapply_ops. cbn [fold_left map]. fold (fapply_ops ops (fapply o m)).
  rewrite apply_ops_cons. rewrite <- (fapply_dense L M o m V1 H).
  apply IH; [exact V2 | eapply fapply_wf; eassumption].
Qed.

Lemma ops_valid_map M ops : forallb (fop_valid M) ops = true ->
  forallb (op_valid (N.to_nat M)) (map op_of ops) = true.
Proof.
  induction ops as [|o ops IH]; intros V; [reflexivity|].
  cbn [forallb map] in *. apply andb_true_iff in V. destruct V as [V1 V2].
  apply andb_true_iff. split; [apply (fop_valid_spec M o V1) | apply IH; exact V2].
Qed.

(* ---- the final unit-row test ---- *)

Lemma srow_is_unit_ok j r : srow_is_unit j r = true -> r = [(ckey j, 1)].
Proof.
  destruct r as [|[k v] [|? ?]]; cbn; try discriminate. intros H.
  apply andb_true_iff in H. destruct H as [H1 H2]. apply Pos.eqb_eq in H1. apply N.eqb_eq in H2.
  subst. reflexivity.
Qed.

Lemma check_units_spec m M j order : check_units m M j order = true ->
  forall t, (t < length order)%nat ->
    nth t order 0 < M /\ get_row m (nth t order 0) = [(ckey (j + N.of_nat t), 1)].
Proof.
  revert j; induction order as [|i order IH]; intros j H t Ht; cbn [length] in Ht; [lia|].
  cbn [check_units] in H. apply andb_true_iff in H. destruct H as [H H3].
  apply andb_true_iff in H. destruct H as [H1 H2]. apply N.ltb_lt in H1. apply srow_is_unit_ok in H2.
  destruct t as [|t]; cbn [nth].
  - rewrite N.add_0_r. auto.
  - replace (j + N.of_nat (S t)) with (N.succ j + N.of_nat t) by lia. apply IH; [exact H3 | lia].
Qed.

(* ---- main theorem ---- *)

(* the checks after smat_wfb, for any matrix whose rows are known to be well-formed *)
Lemma check_cert_fast_core A : rows_wf A -> forall L M ops order,
  forallb (fop_valid M) ops && (N.of_nat (length order) =? L) &&
  check_units (fapply_ops ops A) M 0 order = true ->
  check_cert fmul (N.to_nat L) (dense L M A) (map op_of ops) (map N.to_nat order) = true.
Proof.
  intros W L M ops order H.
  apply andb_true_iff in H. destruct H as [H H4]. apply andb_true_iff in H. destruct H as [H2 H3].
  apply N.eqb_eq in H3.
  destruct (fapply_ops_dense L M ops A H2 W) as [ED W'].
  pose proof (check_units_spec _ _ _ _ H4) as U.
  unfold check_cert. rewrite dense_length.
  apply andb_true_iff; split; [apply andb_true_iff; split; [apply andb_true_iff; split|]|].
  - apply ops_valid_map. exact H2.
  - apply Nat.eqb_eq. rewrite map_length. lia.
  - apply forallb_forall. intros i Hi. apply in_map_iff in Hi. destruct Hi as [i' [<- Hi']].
    destruct (In_nth _ _ 0 Hi') as [t [Ht <-]]. apply Nat.ltb_lt.
    destruct (U t Ht) as [U1 _]. lia.
  - apply forallb_forall. intros t Ht. apply in_seq in Ht.
    assert (Ht' : (t < length order)%nat) by lia.
    destruct (U t Ht') as [U1 U2]. rewrite N.add_0_l in U2.
    rewrite <- ED.
    replace (nth t (map N.to_nat order) O) with (N.to_nat (nth t order 0)).
    2:{ rewrite <- (map_nth N.to_nat). reflexivity. }
    rewrite (nth_error_nth _ _ [] (dense_nth_error_N L M _ _ U1)).
    rewrite U2, drow_unit, Nat2N.id. apply vec_eqb_refl.
Qed.

Theorem check_cert_fast_sound L M A ops order :
  check_cert_fast L M A ops order = true ->
  check_cert fmul (N.to_nat L) (dense L M A) (map op_of ops) (map N.to_nat order) = true /\
  wf_mat (N.to_nat L) (dense L M A) /\ length (dense L M A) = N.to_nat M.
Proof.
  unfold check_cert_fast. intros H.
  rewrite <- !andb_assoc in H. apply andb_true_iff in H. destruct H as [H1 H].
  rewrite andb_assoc in H.
  pose proof (smat_wfb_ok A H1) as W.
  split; [exact (check_cert_fast_core A W L M ops order H)|].
  split; [apply dense_wf; exact W | apply dense_length].
Qed.

Corollary check_cert_fast_check L M A ops order :
  check_cert_fast L M A ops order = true ->
  check_cert fmul (N.to_nat L) (dense L M A) (map op_of ops) (map N.to_nat order) = true.
Proof. intros H. apply (check_cert_fast_sound L M A ops order H). Qed.

(* ---- sparse representation of a dense matrix ---- *)

Lemma sval_of_dense_from j r k :
  sval (ckey k) (srow_of_dense_from j r) = if k <? j then 0 else nth (N.to_nat (k - j)) r 0.
Proof.
  revert j; induction r as [|v t IH]; intros j; cbn [srow_of_dense_from].
  - cbn [sval]. destruct (k <? j); [reflexivity|]. destruct (N.to_nat (k - j)); reflexivity.
  - assert (Step : (if k <? N.succ j then 0 else nth (N.to_nat (k - N.succ j)) t 0) =
                   if k =? j then 0 else if k <? j then 0 else nth (N.to_nat (k - j)) (v :: t) 0).
    { destruct (N.eqb_spec k j) as [E|E].
      - subst k. destruct (N.ltb_spec j (N.succ j)); [reflexivity | lia].
      - destruct (N.ltb_spec k j) as [Hlt|Hge].
        + destruct (N.ltb_spec k (N.succ j)); [reflexivity | lia].
        + destruct (N.ltb_spec k (N.succ j)); [lia|].
          replace (N.to_nat (k - j)) with (S (N.to_nat (k - N.succ j))) by lia. reflexivity. }
    destruct (v =? 0) eqn:Ev.
    + apply N.eqb_eq in Ev. subst v. rewrite IH, Step.
      destruct (N.eqb_spec k j) as [E|E]; [|reflexivity].
      subst k. rewrite N.ltb_irrefl, N.sub_diag. reflexivity.
    + rewrite sval_cons, ckey_eqb, IH, Step.
      destruct (N.eqb_spec k j) as [E|E]; [|reflexivity].
      subst k. rewrite N.ltb_irrefl, N.sub_diag, N.lxor_0_r. reflexivity.
Qed.

Lemma map_nth_seq0 (r : list N) : map (fun j => nth j r 0) (seq 0 (length r)) = r.
Proof.
  apply (nth_ext _ _ 0 0); [rewrite map_length, seq_length; reflexivity|].
  intros i Hi. rewrite map_length, seq_length in Hi.
  rewrite (nth_indep _ 0 (nth O r 0)) by (rewrite map_length, seq_length; exact Hi).
  rewrite (map_nth (fun j => nth j r 0)). rewrite seq_nth by exact Hi. reflexivity.
Qed.

Lemma drow_of_dense L r : length r = N.to_nat L -> drow L (srow_of_dense r) = r.
Proof.
  intros H. unfold drow, srow_of_dense. rewrite <- H. rewrite <- (map_nth_seq0 r) at 2.
  apply map_ext. intros j. rewrite sval_of_dense_from.
  destruct (N.ltb_spec (N.of_nat j) 0) as [Hlt|_]; [lia|]. rewrite N.sub_0_r, Nat2N.id. reflexivity.
Qed.

Lemma srow_of_dense_wf j r : wf_vec r -> srow_wf (srow_of_dense_from j r).
Proof.
  unfold wf_vec, srow_wf. intros H. revert j; induction H as [|v t Hv Ht IH]; intros j; cbn [srow_of_dense_from].
  - constructor.
  - destruct (v =? 0); [apply IH|]. constructor; [exact Hv | apply IH].
Qed.

Lemma get_row_empty k : get_row (PositiveMap.empty srow) k = [].
Proof. unfold get_row. rewrite PositiveMap.gempty. reflexivity. Qed.

Lemma get_row_of_rows_from i rows m k :
  get_row (smat_of_rows_from i rows m) k =
  if (i <=? k) && (k <? i + N.of_nat (length rows)) then nth (N.to_nat (k - i)) rows [] else get_row m k.
Proof.
  revert i m; induction rows as [|r t IH]; intros i m; cbn [smat_of_rows_from length].
  - destruct (N.leb_spec i k); destruct (N.ltb_spec k (i + N.of_nat 0)); cbn [andb]; try reflexivity; lia.
  - rewrite IH.
    destruct (N.leb_spec (N.succ i) k) as [H1|H1];
    destruct (N.ltb_spec k (N.succ i + N.of_nat (length t))) as [H2|H2];
    destruct (N.leb_spec i k) as [H3|H3];
    destruct (N.ltb_spec k (i + N.of_nat (S (length t)))) as [H4|H4]; cbn [andb]; try lia;
    first [ apply get_set_other; lia
          | replace (N.to_nat (k - i)) with (S (N.to_nat (k - N.succ i))) by lia; reflexivity
          | assert (k = i) by lia; subst k; rewrite get_set_same, N.sub_diag; reflexivity ].
Qed.

Lemma get_row_of_rows rows k : get_row (smat_of_rows rows) k = nth (N.to_nat k) rows [].
Proof.
  unfold smat_of_rows. rewrite get_row_of_rows_from, get_row_empty, N.sub_0_r.
  destruct (N.leb_spec 0 k); [|lia].
  destruct (N.ltb_spec k (0 + N.of_nat (length rows))); cbn [andb]; [reflexivity|].
  rewrite nth_overflow by lia. destruct k; reflexivity.
Qed.

Lemma rows_wf_of_rows rows : Forall srow_wf rows -> rows_wf (smat_of_rows rows).
Proof.
  intros H i. rewrite get_row_of_rows.
  destruct (Nat.lt_ge_cases (N.to_nat i) (length rows)) as [Hi|Hi].
  - rewrite Forall_forall in H. apply H. apply nth_In. exact Hi.
  - rewrite nth_overflow by exact Hi. constructor.
Qed.

Theorem dense_of_dense L M A : wf_mat (N.to_nat L) A -> length A = N.to_nat M ->
  dense L M (smat_of_dense A) = A.
Proof.
  intros HA Hl. apply (nth_ext _ _ [] []); [rewrite dense_length; lia|].
  intros i Hi. rewrite dense_length in Hi.
  rewrite (nth_error_nth _ _ [] (dense_nth_error L M _ i Hi)).
  unfold smat_of_dense. rewrite get_row_of_rows, Nat2N.id.
  change [] with (srow_of_dense []) at 1. rewrite (map_nth srow_of_dense).
  apply drow_of_dense. apply (wf_mat_nth _ A i HA). lia.
Qed.

(* a dense well-formed matrix A, checked through its sparse representation *)
Theorem check_cert_fast_dense L A ops order :
  wf_mat L A ->
  check_cert_fast (N.of_nat L) (N.of_nat (length A)) (smat_of_dense A) ops order = true ->
  check_cert fmul L A (map op_of ops) (map N.to_nat order) = true.
Proof.
  intros HA H. pose proof (check_cert_fast_check _ _ _ _ _ H) as C.
  rewrite Nat2N.id in C. rewrite dense_of_dense in C; [exact C | rewrite Nat2N.id; exact HA | rewrite Nat2N.id; reflexivity].
Qed.

(* ---- duplicate-freeness ---- *)

Lemma nodup_from_ok seen l : nodup_from seen l = true ->
  NoDup l /\ forall i, In i l -> PositiveMap.find (N.succ_pos i) seen = None.
Proof.
  revert seen; induction l as [|a l IH]; intros seen H; cbn [nodup_from] in H.
  - split; [constructor | intros i []].
  - destruct (PositiveMap.find (N.succ_pos a) seen) eqn:E; [discriminate|].
    destruct (IH _ H) as [ND Hn]. split.
    + constructor; [|exact ND]. intros Hin. specialize (Hn a Hin).
      rewrite PositiveMap.gss in Hn. discriminate.
    + intros i [<-|Hin]; [exact E|]. specialize (Hn i Hin).
      destruct (N.eq_dec i a) as [->|Hne]; [rewrite PositiveMap.gss in Hn; discriminate|].
      rewrite PositiveMap.gso in Hn; [exact Hn|]. intros E'. apply Hne. apply succ_pos_inj. exact E'.
Qed.

Theorem nodup_fast_ok l : nodup_fast l = true -> NoDup (map N.to_nat l).
Proof.
  intros H. destruct (nodup_from_ok _ _ H) as [ND _]. clear H.
  induction ND as [|a l Hn ND IH]; cbn [map]; constructor; [|exact IH].
  intros Hin. apply in_map_iff in Hin. destruct Hin as [b [E Hb]].
  apply N2Nat.inj in E. subst b. contradiction.
Qed.

(* ---- example: the 3 x 3 system of Proofs/LinearInst.v through the fast checker ---- *)

Definition exFops : list fop :=
  [ FMul 1 (finv 3); FFMA 2 1 5; FMul 0 (finv 2); FFMA 1 0 (finv 3);
    FFMA 2 0 (N.lxor 200 (fmul 5 (finv 3)));
    FMul 2 (finv (N.lxor 1 (fmul (N.lxor 200 (fmul 5 (finv 3))) (fmul 7 (finv 2)))));
    FFMA 0 2 (fmul 7 (finv 2));
    FFMA 1 2 (fmul (finv 3) (fmul 7 (finv 2))) ].

Example ex_fast : check_cert_fast 3 3 (smat_of_dense exA) exFops [1; 0; 2] = true.
Proof. vm_compute. reflexivity. Qed.

Example ex_fast_ops : map op_of exFops = exOps /\ map N.to_nat [1; 0; 2] = exOrder.
Proof. vm_compute. split; reflexivity. Qed.

Example ex_fast_sparse :
  check_cert_fast 3 3 (smat_of_rows (map srow_of_list [[(1,2);(2,7)]; [(0,3);(1,1)]; [(0,5);(1,200);(2,1)]]))
    exFops [1; 0; 2] = true /\ nodup_fast [1; 0; 2] = true /\ nodup_fast [1; 0; 1] = false.
Proof. vm_compute. repeat split; reflexivity. Qed.

Example ex_fast_wrong_order : check_cert_fast 3 3 (smat_of_dense exA) exFops [0; 1; 2] = false.
Proof. vm_compute. reflexivity. Qed.
