(* C02: the block decoder answers exactly when all source symbols are there or the full constraint
   matrix of the received ISIs has full rank over GF(256). *)
From Coq Require Import NArith List Bool Arith Lia Permutation.
From RQ Require Import Base.Outcome Base.Ints Base.ListX Spec.Linear Spec.Layout
  Model.FieldFast Model.SysConst Model.CMatrix Model.Layout Model.Decoder Model.DecoderSpec
  Proofs.LinearProofs Proofs.LinearInst Proofs.DecoderLists Proofs.DecoderProofs Proofs.DecoderMatrix
  Proofs.DecoderTry Proofs.DecoderParams Proofs.DecoderFinish.
Import ListNotations.
Open Scope N_scope.

Arguments N.add : simpl never.
Arguments N.sub : simpl never.
Arguments N.mul : simpl never.
Arguments N.pow : simpl never.

(* ---- counting ---- *)

Lemma NoDup_app_intro {A} (l1 l2 : list A) :
  NoDup l1 -> NoDup l2 -> (forall x, In x l1 -> ~ In x l2) -> NoDup (l1 ++ l2).
Proof.
  induction l1 as [|a t IH]; intros N1 N2 Hd; [exact N2|]. cbn [app]. inversion N1; subst.
  constructor.
  - intros Hin. apply in_app_iff in Hin. destruct Hin as [Hin|Hin]; [contradiction|].
    apply (Hd a (or_introl eq_refl)). exact Hin.
  - apply IH; [assumption | assumption | intros x Hx; apply Hd; right; exact Hx].
Qed.

Lemma esis_length d : sbd_inv d ->
  length (sbd_esis d) = (count_some (sbd_src d) + length (sbd_rep d))%nat.
Proof.
  intros I.
  rewrite (same_set_NoDup_length (sbd_esis d) (map fst (present_sources d) ++ map fst (sbd_rep d))).
  - rewrite app_length, !map_length, present_sources_pres, pres_length. reflexivity.
  - apply (inv_esis_nodup d I).
  - apply NoDup_app_intro; [rewrite present_sources_pres; apply pres_fst_NoDup | apply (inv_rep_nodup d I)|].
    intros e H1 H2. rewrite present_sources_pres in H1. apply pres_fst_in in H1.
    destruct H1 as [k [x [E Hn]]].
    assert (k < length (sbd_src d))%nat by (apply nth_error_Some; rewrite Hn; discriminate).
    rewrite (inv_len d I) in H. pose proof (inv_rep_ge d I e H2). lia.
  - apply (inv_esis d I).
Qed.

Lemma isis_length d :
  length (isis_of d) = (count_some (sbd_src d) + N.to_nat (npad_of d) + length (sbd_rep d))%nat.
Proof.
  unfold isis_of. rewrite !app_length, !map_length, present_sources_pres, pres_length.
  unfold rangeN. rewrite map_length, seq_length. lia.
Qed.

Lemma Kp_of_row d sp : row_for (sbd_K d) sp -> Kp_of d = spK sp.
Proof. intros R. unfold Kp_of. rewrite (rf_ext _ _ R). reflexivity. Qed.

Lemma L_of_row d sp : row_for (sbd_K d) sp -> L_of d = N.to_nat (spL sp).
Proof. intros R. unfold L_of. rewrite (rf_sp _ _ R). reflexivity. Qed.

Lemma isis_bound d sp : row_for (sbd_K d) sp -> sbd_inv d -> sized d ->
  Forall (fun x => x < 2 ^ 32) (isis_of d).
Proof.
  intros R I Hs. destruct (row_for_facts _ _ R) as [_ [_ [_ [_ [_ [_ [[_ HKmax] _]]]]]]].
  pose proof (rf_KK _ _ R) as HKK.
  assert (P : 2 ^ 24 + 56403 < 2 ^ 32) by reflexivity.
  unfold isis_of, npad_of. rewrite (Kp_of_row d sp R). apply Forall_app. split; [|apply Forall_app; split].
  - apply Forall_forall. intros x Hx. apply in_map_iff in Hx. destruct Hx as [[e y] [<- Hin]].
    rewrite present_sources_pres in Hin. pose proof (pres_lt d I e y Hin). cbn [fst]. lia.
  - apply Forall_forall. intros x Hx. apply in_map_iff in Hx. destruct Hx as [i [<- Hin]].
    apply rangeN_in in Hin. lia.
  - apply Forall_forall. intros x Hx. apply in_map_iff in Hx. destruct Hx as [[e y] [<- Hin]].
    unfold sized in Hs. rewrite Forall_forall in Hs. destruct (Hs (e, y)) as [_ H2].
    { apply abs_in. right. exact Hin. }
    cbn [fst] in *. lia.
Qed.

Lemma omapM_in_out {A B} (f : A -> outcome B) l bs b :
  omapM f l = Ok bs -> In b bs -> exists a, In a l /\ f a = Ok b.
Proof.
  intros H. apply omapM_Forall2 in H. induction H as [|a0 b0 l bs Hab _ IH]; intros Hin; [destruct Hin|].
  destruct Hin as [<-|Hin]; [exists a0; split; [left; reflexivity | exact Hab]|].
  destruct (IH Hin) as [a [H1 H2]]. exists a. split; [right; exact H1 | exact H2].
Qed.

(* ---- setting up Case 3 ---- *)

Lemma check_len_all T (l : list (N * list N)) :
  (forall x, In x l -> length (snd x) = T) ->
  exists out, omapM (fun x : N * list N => check_len T (snd x)) l = Ok out.
Proof.
  intros H. apply omapM_ok_of_all. intros x Hx. exists (snd x). unfold check_len.
  rewrite (H x Hx), Nat.eqb_refl. reflexivity.
Qed.

Lemma not_all_source_nsrc d : sbd_inv d -> ~ all_source d -> (sbd_nsrc d =? sbd_K d) = false.
Proof.
  intros I Hn. apply N.eqb_neq. intros E. apply Hn. apply count_some_full.
  rewrite (inv_nsrc d I) in E. rewrite (inv_len d I). lia.
Qed.

Lemma case3_setup m d sp :
  sbd_inv d -> sized d -> row_for (sbd_K d) sp -> ~ all_source d -> sbd_K d <= lenN (sbd_esis d) ->
  exists srcs reps bin hd,
    case3_hyps d (spK sp) sp srcs reps /\
    generate_constraint_matrix m (sbd_K d) (isis_of d) = Ok (bin, hd).
Proof.
  intros I Hs R Hn Hk.
  assert (Hsz : forall x, In x (abs d) -> length (snd x) = T_of d).
  { intros x Hx. unfold sized in Hs. rewrite Forall_forall in Hs. apply (Hs x Hx). }
  destruct (check_len_all (T_of d) (present_sources d)) as [srcs Es].
  { intros x Hx. apply Hsz. unfold abs. apply in_app_iff. left. exact Hx. }
  destruct (check_len_all (T_of d) (sbd_rep d)) as [reps Er].
  { intros x Hx. apply Hsz. unfold abs. apply in_app_iff. right. exact Hx. }
  destruct (gcm_ok m (sbd_K d) sp (isis_of d) R (isis_bound d sp R I Hs)) as [bin [hd Eg]].
  { unfold lenN in *. rewrite isis_length. rewrite (esis_length d I) in Hk.
    unfold npad_of. rewrite (Kp_of_row d sp R). pose proof (rf_KK _ _ R). rewrite (rf_L _ _ R). lia. }
  exists srcs, reps, bin, hd. split; [|exact Eg].
  constructor; try assumption.
  - apply (rf_ext _ _ R).
  - apply N.ltb_ge. exact Hk.
  - apply not_all_source_nsrc; assumption.
  - apply (rf_sp _ _ R).
Qed.

(* ---- C02 ---- *)

Lemma L_pos K sp : row_for K sp -> (0 < N.to_nat (spL sp))%nat.
Proof.
  intros R. destruct (row_for_facts _ _ R) as [_ [_ [_ [_ [_ [_ [[HK10 _] _]]]]]]].
  rewrite (rf_L _ _ R). lia.
Qed.

Lemma empty_not_injective K sp : row_for K sp -> ~ injective fmul (N.to_nat (spL sp)) [].
Proof. intros R. apply fewer_rows_not_injective_gf; [constructor | apply (L_pos K sp R)]. Qed.

(* Case 1: with fewer than K distinct ESIs no matrix of S + H + |ISIs| rows can be injective *)
Lemma case1_not_injective m d :
  sbd_inv d -> sbd_K d <= 56403 -> lenN (sbd_esis d) < sbd_K d ->
  ~ injective fmul (L_of d) (A_of m d) /\
  (forall sp A, sys_params (sbd_K d) = Ok sp -> wf_mat (L_of d) A ->
     length A = (N.to_nat (spS sp + spH sp) + length (isis_of d))%nat -> ~ injective fmul (L_of d) A).
Proof.
  intros I HK Hlt. destruct (sys_params_ok _ HK) as [sp R].
  assert (Hcount : (N.to_nat (spS sp + spH sp) + length (isis_of d) < N.to_nat (spL sp))%nat).
  { rewrite isis_length. unfold lenN in Hlt. rewrite (esis_length d I) in Hlt.
    unfold npad_of. rewrite (Kp_of_row d sp R). pose proof (rf_KK _ _ R). rewrite (rf_L _ _ R). lia. }
  rewrite (L_of_row d sp R). split.
  - unfold A_of. rewrite (rf_sp _ _ R).
    destruct (generate_constraint_matrix m (sbd_K d) (isis_of d)) as [[bin hd]|] eqn:Eg;
      [|apply (empty_not_injective _ _ R)].
    exfalso. destruct (gcm_parts _ _ _ _ _ Eg) as [sp0 [top [W' [P' [rows [Esp [Ea _]]]]]]].
    rewrite (rf_sp _ _ R) in Esp. injection Esp as <-. unfold lenN in Ea. lia.
  - intros sp0 A Esp Hwf Hlen. rewrite (rf_sp _ _ R) in Esp. injection Esp as <-.
    apply fewer_rows_not_injective_gf; [exact Hwf | lia].
Qed.

(* the fast path: its matrix consists of rows of the full matrix *)
Lemma fast_path_rows m K isis A3a bin hd sp :
  generate_constraint_matrix_no_hdpc m K isis = Ok A3a ->
  generate_constraint_matrix m K isis = Ok (bin, hd) -> sys_params K = Ok sp ->
  incl A3a (full_matrix (spS sp) (spH sp) bin hd) /\ wf_mat (N.to_nat (spL sp)) A3a.
Proof.
  intros E3 Eg Esp.
  destruct (gcm_parts _ _ _ _ _ Eg)
    as [sp0 [top [W' [P' [rows [Esp0 [Ea [Et [EW [EP [Er [Eh [Eb [Ef [St [Sh [Rl Rw]]]]]]]]]]]]]]]]].
  rewrite Esp in Esp0. injection Esp0 as <-.
  destruct (gcm_no_hdpc_parts _ _ _ _ E3)
    as [sp1 [top1 [W1 [P1 [rows1 [Esp1 [Ea1 [Et1 [EW1 [EP1 [Er1 [EA [St1 [Rl1 Rw1]]]]]]]]]]]]]].
  rewrite Esp in Esp1. injection Esp1 as <-.
  rewrite Et in Et1. injection Et1 as <-. rewrite EW in EW1. injection EW1 as <-.
  rewrite EP in EP1. injection EP1 as <-. rewrite Er in Er1. injection Er1 as <-.
  subst A3a. rewrite Ef. split.
  - intros r Hr. apply in_app_iff in Hr. apply in_app_iff.
    destruct Hr as [Hr|Hr]; [left; exact Hr | right; apply in_app_iff; right; exact Hr].
  - apply wf_mat_app. split; [exact (proj2 St) | exact Rw].
Qed.

Lemma decodes_iff m d :
  sbd_inv d -> sized d -> cfg_sub_ok (sbd_cfg d) -> sbd_K d <= 56403 ->
  ~ all_source d -> sbd_K d <= lenN (sbd_esis d) ->
  ((exists r d', sbd_try m d = Ok (Some r, d')) <-> injective fmul (L_of d) (A_of m d)).
Proof.
  intros I Hs Hc HK Hn Hk. destruct (sys_params_ok _ HK) as [sp R].
  destruct (case3_setup m d sp I Hs R Hn Hk) as [srcs [reps [bin [hd [HC Eg]]]]].
  destruct (case3_A_of m d _ _ _ _ HC bin hd Eg) as [EA EL]. rewrite EA, EL.
  pose proof (case3_wf m d _ _ _ _ HC bin hd Eg) as Wf.
  split.
  - intros [r [d' H]].
    destruct (case3_some_elim m d _ _ _ _ r d' HC H) as [[A3a [E3 Hr]] | [bin' [hd' [Eg' Hr]]]].
    + destruct (fast_path_rows _ _ _ _ _ _ _ E3 Eg (rf_sp _ _ R)) as [Hincl W3].
      apply (injective_incl_gf _ _ _ Hincl). apply (gauss_rank_full_iff_injective_gf _ _ W3). exact Hr.
    + rewrite Eg in Eg'. injection Eg' as <- <-.
      apply (gauss_rank_full_iff_injective_gf _ _ Wf). exact Hr.
  - intros Hinj. apply (gauss_rank_full_iff_injective_gf _ _ Wf) in Hinj.
    destruct (case3_some_intro m d _ _ _ _ HC bin hd Eg Hinj) as [r Hr].
    + intros C C1 C2. apply (sbd_finish_ok m d sp C I Hs Hc R C1 C2).
    + exists r, (set_dec d true). exact Hr.
Qed.

(* None with at least K ESIs means the FULL matrix is rank deficient: a failure of the binary-only
   attempt is never the final word *)
Lemma none_means_deficient m d d' :
  sbd_K d <= lenN (sbd_esis d) -> sbd_try m d = Ok (None, d') ->
  ~ injective fmul (L_of d) (A_of m d).
Proof.
  intros Hk H.
  destruct (sbd_try_cases _ _ _ _ H) as [[Kp [_ [E2 _]]] | [[Kp [syms [b [_ [_ [_ [_ [_ [Hr _]]]]]]]]] | [Kp [sp [srcs [reps HC]]]]]].
  - apply N.ltb_lt in E2. lia.
  - discriminate.
  - destruct (case3_none_elim m d Kp sp srcs reps d' HC H) as [bin [hd [Eg Hrank]]].
    destruct (case3_A_of m d _ _ _ _ HC bin hd Eg) as [EA EL]. rewrite EA, EL.
    intros Hinj. apply (gauss_rank_full_iff_injective_gf _ _ (case3_wf m d _ _ _ _ HC bin hd Eg)) in Hinj.
    congruence.
Qed.

Lemma all_source_decodes m d :
  sbd_inv d -> sized d -> cfg_sub_ok (sbd_cfg d) -> sbd_K d <= 56403 -> all_source d ->
  exists syms b, sbd_src d = map Some syms /\
    block_from_all_source (sbd_cfg d) (sbd_K d) syms = Ok b /\
    sbd_try m d = Ok (Some b, set_dec d true).
Proof.
  intros I Hs Hc HK Ha. destruct (sys_params_ok _ HK) as [sp R].
  destruct (all_source_syms d Ha) as [syms [Esrc Eun]].
  pose proof (proj2 (count_some_full (sbd_src d)) Ha) as Hcount.
  destruct (unpack_all_total (sbd_cfg d) (sbd_K d) Hc (enumerate_from 0 syms)
              (repeat 0 (N.to_nat (cT (sbd_cfg d) * sbd_K d)))) as [b Eb].
  { intros i s Hin. apply enumerate_from_in in Hin. destruct Hin as [k [Ei Hn]].
    assert (Hn' : nth_error (sbd_src d) k = Some (Some s)) by (rewrite Esrc; apply map_nth_error; exact Hn).
    assert (Hk : (k < length (sbd_src d))%nat) by (apply nth_error_Some; rewrite Hn'; discriminate).
    rewrite (inv_len d I) in Hk. split; [lia | apply (sized_pres d k s Hs Hn')]. }
  { unfold lenN. rewrite repeat_length. lia. }
  exists syms, b. split; [exact Esrc|]. split; [exact Eb|].
  unfold sbd_try. cbv zeta. rewrite (rf_ext _ _ R). cbn [obind].
  assert (E1 : (lenN (sbd_esis d) <? sbd_K d) = false).
  { apply N.ltb_ge. unfold lenN. rewrite (esis_length d I), Hcount, (inv_len d I). lia. }
  rewrite E1.
  assert (E2 : (sbd_nsrc d =? sbd_K d) = true).
  { apply N.eqb_eq. rewrite (inv_nsrc d I), Hcount, (inv_len d I). lia. }
  rewrite E2, Eun. cbn [obind]. unfold block_from_all_source in Eb. unfold block_from_all_source.
  rewrite Eb. reflexivity.
Qed.

(* more packets never hurt *)
Lemma isis_incl d d' : sbd_inv d -> sbd_inv d' -> sbd_K d' = sbd_K d ->
  (forall x, In x (abs d) -> In x (abs d')) -> incl (isis_of d) (isis_of d').
Proof.
  intros I I' EK Hsub x Hx. unfold isis_of, npad_of, Kp_of in *. rewrite EK.
  apply in_app_iff in Hx. apply in_app_iff. destruct Hx as [Hx|Hx].
  - left. apply in_map_iff in Hx. destruct Hx as [[e y] [<- Hin]]. rewrite present_sources_pres in Hin.
    apply in_map_iff. exists (e, y). split; [reflexivity|]. rewrite present_sources_pres.
    apply (proj1 (abs_split d' I' e y)). apply (proj1 (abs_split d I e y)) in Hin. destruct Hin as [H1 H2].
    split; [apply Hsub; exact H1 | rewrite EK; exact H2].
  - right. apply in_app_iff in Hx. apply in_app_iff. destruct Hx as [Hx|Hx]; [left; exact Hx | right].
    apply in_map_iff in Hx. destruct Hx as [[e y] [<- Hin]].
    apply in_map_iff. exists (e, y). split; [reflexivity|].
    apply (proj2 (abs_split d' I' e y)). apply (proj2 (abs_split d I e y)) in Hin. destruct Hin as [H1 H2].
    split; [apply Hsub; exact H1 | rewrite EK; exact H2].
Qed.

Lemma A_of_mono m d d' :
  sbd_inv d -> sbd_inv d' -> sized d' -> sbd_K d' = sbd_K d -> sbd_K d <= 56403 ->
  (forall x, In x (abs d) -> In x (abs d')) ->
  injective fmul (L_of d) (A_of m d) -> injective fmul (L_of d') (A_of m d').
Proof.
  intros I I' Hs' EK HK Hsub Hinj. destruct (sys_params_ok _ HK) as [sp R].
  assert (R' : row_for (sbd_K d') sp) by (rewrite EK; exact R).
  rewrite (L_of_row d' sp R'). rewrite (L_of_row d sp R) in Hinj.
  unfold A_of in *. rewrite EK. rewrite (rf_sp _ _ R) in *.
  destruct (generate_constraint_matrix m (sbd_K d) (isis_of d)) as [[bin hd]|] eqn:Eg;
    [|exfalso; apply (empty_not_injective _ _ R); exact Hinj].
  destruct (gcm_parts _ _ _ _ _ Eg)
    as [sp0 [top [W' [P' [rows [Esp0 [Ea [Et [EW [EP [Er [Eh [Eb [Ef [St [Sh [Rl Rw]]]]]]]]]]]]]]]]].
  rewrite (rf_sp _ _ R) in Esp0. injection Esp0 as <-.
  pose proof (isis_incl d d' I I' EK Hsub) as Hincl.
  destruct (gcm_ok m (sbd_K d) sp (isis_of d')) as [bin' [hd' Eg']].
  { exact R. }
  { apply (isis_bound d' sp R' I' Hs'). }
  { assert (Hle : (length (sbd_esis d) <= length (sbd_esis d'))%nat).
    { apply NoDup_incl_length; [apply (inv_esis_nodup d I)|]. intros e He.
      apply (esis_abs d I) in He. destruct He as [y Hy]. apply (esis_abs d' I'). exists y. apply Hsub. exact Hy. }
    unfold lenN in *. rewrite isis_length in *. rewrite (esis_length d I), (esis_length d' I') in Hle.
    unfold npad_of, Kp_of in *. rewrite EK. lia. }
  rewrite Eg'.
  destruct (gcm_parts _ _ _ _ _ Eg')
    as [sp1 [top1 [W1 [P1 [rows1 [Esp1 [Ea1 [Et1 [EW1 [EP1 [Er1 [Eh1 [Eb1 [Ef1 _]]]]]]]]]]]]]].
  rewrite (rf_sp _ _ R) in Esp1. injection Esp1 as <-.
  rewrite Et in Et1. injection Et1 as <-. rewrite EW in EW1. injection EW1 as <-.
  rewrite EP in EP1. injection EP1 as <-. rewrite Eh in Eh1. injection Eh1 as <-.
  rewrite Ef in Hinj. rewrite Ef1. revert Hinj. apply injective_incl_gf.
  intros r Hr. apply in_app_iff in Hr. apply in_app_iff. destruct Hr as [Hr|Hr]; [left; exact Hr | right].
  apply in_app_iff in Hr. apply in_app_iff. destruct Hr as [Hr|Hr]; [left; exact Hr | right].
  destruct (omapM_in_out _ _ _ _ Er Hr) as [isi [Hisi Erow]].
  destruct (omapM_all_of_ok _ _ _ Er1 isi (Hincl isi Hisi)) as [r' [Erow' Hr']].
  rewrite Erow in Erow'. injection Erow' as <-. exact Hr'.
Qed.

(* ---- history forms ---- *)

Lemma decodes_iff_hist m d pkts :
  reached m d pkts -> cfg_sub_ok (sbd_cfg d) -> sbd_K d <= 56403 ->
  ~ all_source d -> sbd_K d <= lenN (sbd_esis d) ->
  ((exists r d', sbd_try m d = Ok (Some r, d')) <-> injective fmul (L_of d) (A_of m d)).
Proof.
  intros Hr. destruct (reached_inv m d pkts Hr) as [I [_ Hs]]. apply decodes_iff; assumption.
Qed.

Lemma monotone_hist m id c bl d0 pkts p d d' :
  sbd_new id c bl = Ok d0 -> consistent id (N.to_nat (cT c)) (pkts ++ [p]) ->
  sbd_run m d0 pkts = Ok d -> sbd_add m d p = Ok d' -> sbd_K d <= 56403 ->
  injective fmul (L_of d) (A_of m d) -> injective fmul (L_of d') (A_of m d').
Proof.
  intros Hnew Hc Hrun Hadd HK.
  pose proof (consistent_prefix _ _ _ _ Hc) as Hc1.
  destruct (consistent_run m id c bl d0 pkts Hnew Hc1) as [d1 [R1 [I1 [_ [_ [EK1 [_ Habs1]]]]]]].
  rewrite Hrun in R1. injection R1 as <-.
  assert (Hrun' : sbd_run m d0 (pkts ++ [p]) = Ok d').
  { rewrite sbd_run_app, Hrun. cbn [obind]. unfold sbd_run. cbn [ofold]. rewrite Hadd. reflexivity. }
  destruct (consistent_run m id c bl d0 (pkts ++ [p]) Hnew Hc) as [d2 [R2 [I2 [_ [_ [EK2 [_ Habs2]]]]]]].
  rewrite Hrun' in R2. injection R2 as <-.
  assert (Hreach : reached m d' (pkts ++ [p])) by (exists id, c, bl, d0; split; [exact Hnew | split; [exact Hc | exact Hrun']]).
  destruct (reached_inv m d' _ Hreach) as [_ [_ Hs']].
  apply A_of_mono; try assumption; [congruence|].
  intros x Hx. apply Habs2. apply Habs1 in Hx. unfold pset. rewrite map_app. apply in_app_iff. left. exact Hx.
Qed.

Lemma none_hist m id c bl d0 l1 l2 :
  sbd_new id c bl = Ok d0 ->
  consistent id (N.to_nat (cT c)) l1 -> consistent id (N.to_nat (cT c)) l2 ->
  same_set (pset l1) (pset l2) ->
  ((exists d1, sbd_decode m d0 l1 = Ok (None, d1)) <-> (exists d2, sbd_decode m d0 l2 = Ok (None, d2))).
Proof.
  intros Hnew C1 C2 Hset.
  assert (G : forall la lb, consistent id (N.to_nat (cT c)) la -> consistent id (N.to_nat (cT c)) lb ->
                same_set (pset la) (pset lb) ->
                (exists d1, sbd_decode m d0 la = Ok (None, d1)) -> exists d2, sbd_decode m d0 lb = Ok (None, d2)).
  { intros la lb Ca Cb Hs [d1 H]. unfold sbd_decode in *. fold (sbd_run m d0 la) in H. fold (sbd_run m d0 lb).
    destruct (consistent_run m id c bl d0 la Hnew Ca) as [da [Ra [Ia _]]].
    destruct (consistent_run m id c bl d0 lb Hnew Cb) as [db [Rb [Ib _]]].
    rewrite Ra in H. cbn [obind] in H. rewrite Rb. cbn [obind].
    apply (none_transfer m da db d1 Ia Ib); [|exact H].
    apply (set_determined m id c bl d0 la lb da db Hnew Ca Cb Hs Ra Rb). }
  split; [apply G; assumption|]. apply G; try assumption. intros x. symmetry. apply Hset.
Qed.
