(* Generic facts about the list-of-rows matrices of Model/CMatrix.v: `mset`, the loop combinators
   `ofor` / `ofold`, entries (`ent`), dimensions (`wfm`) and extensionality. *)
From Coq Require Import NArith List Bool Lia Arith.
From RQ Require Import Base.Outcome Base.Ints Base.ListX Model.CMatrix.
Import ListNotations.
Open Scope N_scope.
Open Scope outcome_scope.

Definition ent (mat : list (list N)) (r c : N) : N :=
  nth (N.to_nat c) (nth (N.to_nat r) mat []) 0.

Definition wfm (h w : nat) (mat : list (list N)) : Prop :=
  length mat = h /\ Forall (fun r => length r = w) mat.

Lemma nth_ok_lt {A} (l : list A) i d : (i < length l)%nat -> nth_ok l i = Ok (nth i l d).
Proof. intros H. unfold nth_ok. rewrite (nth_error_nth' l i d H). reflexivity. Qed.

Lemma nth_rangeN_map {A} (f : N -> A) n i d : (i < n)%nat ->
  nth i (map f (rangeN n)) d = f (N.of_nat i).
Proof.
  intros H. unfold rangeN. rewrite map_map.
  rewrite (nth_indep _ d (f (N.of_nat 0%nat))) by (rewrite map_length, seq_length; exact H).
  rewrite (map_nth (fun x => f (N.of_nat x)) (seq 0 n) 0%nat i). rewrite seq_nth by exact H.
  reflexivity.
Qed.

Lemma rangeN_length n : length (rangeN n) = n.
Proof. unfold rangeN. rewrite map_length, seq_length. reflexivity. Qed.

Lemma rangeN_S n : rangeN (S n) = rangeN n ++ [N.of_nat n].
Proof. unfold rangeN. rewrite seq_S, map_app. reflexivity. Qed.

(* ---- list_put / list_upd ---- *)

Lemma list_put_ok {A} (v : A) : forall (l : list A) i, (i < length l)%nat ->
  exists l', list_put l i v = Ok l' /\ length l' = length l /\
    (forall d, nth i l' d = v) /\ (forall k d, k <> i -> nth k l' d = nth k l d).
Proof.
  induction l as [|x t IH]; intros i Hi; cbn [length] in Hi; [lia|].
  destruct i as [|i]; cbn [list_put].
  - eexists. split; [reflexivity|]. split; [reflexivity|]. split; [reflexivity|].
    intros [|k] d Hk; [congruence | reflexivity].
  - destruct (IH i) as [t' [E [Hl [Hn1 Hn2]]]]; [lia|]. rewrite E. cbn [obind].
    eexists. split; [reflexivity|]. split; [cbn [length]; congruence|]. split.
    + intros d. cbn [nth]. apply Hn1.
    + intros [|k] d Hk; cbn [nth]; [reflexivity | apply Hn2; congruence].
Qed.

Lemma list_put_Forall {A} (Q : A -> Prop) (v : A) : forall (l : list A) i l',
  list_put l i v = Ok l' -> Forall Q l -> Q v -> Forall Q l'.
Proof.
  induction l as [|x t IH]; intros i l' E Hf Hv; [destruct i; discriminate E|].
  inversion Hf as [|? ? Hx Ht]; subst.
  destruct i as [|i]; cbn [list_put] in E.
  - injection E as <-. constructor; assumption.
  - destruct (list_put t i v) as [t'|] eqn:Et; [|discriminate E]. cbn [obind] in E.
    injection E as <-. constructor; [assumption | eapply IH; eauto].
Qed.

Lemma list_upd_ok {A} (f : A -> A) : forall (l : list A) i, (i < length l)%nat ->
  exists l', list_upd l i f = Ok l' /\ length l' = length l /\
    (forall d, nth i l' d = f (nth i l d)) /\ (forall k d, k <> i -> nth k l' d = nth k l d).
Proof.
  induction l as [|x t IH]; intros i Hi; cbn [length] in Hi; [lia|].
  destruct i as [|i]; cbn [list_upd].
  - eexists. split; [reflexivity|]. split; [reflexivity|]. split; [reflexivity|].
    intros [|k] d Hk; [congruence | reflexivity].
  - destruct (IH i) as [t' [E [Hl [Hn1 Hn2]]]]; [lia|]. rewrite E. cbn [obind].
    eexists. split; [reflexivity|]. split; [cbn [length]; congruence|]. split.
    + intros d. cbn [nth]. apply Hn1.
    + intros [|k] d Hk; cbn [nth]; [reflexivity | apply Hn2; congruence].
Qed.

(* ---- mset ---- *)

Lemma wfm_row h w mat r : wfm h w mat -> (r < h)%nat -> length (nth r mat []) = w.
Proof.
  intros [Hl Hf] Hr. rewrite Forall_forall in Hf. apply Hf. apply nth_In. lia.
Qed.

Lemma mset_ok h w mat r c v : wfm h w mat -> r < N.of_nat h -> c < N.of_nat w ->
  exists mat', mset mat r c v = Ok mat' /\ wfm h w mat' /\
    forall r' c', ent mat' r' c' = if (r' =? r) && (c' =? c) then v else ent mat r' c'.
Proof.
  intros Hwf Hr Hc. pose proof Hwf as [Hl Hf]. unfold mset.
  assert (Hr' : (N.to_nat r < length mat)%nat) by lia.
  rewrite (nth_ok_lt mat _ [] Hr'). cbn [obind].
  pose proof (wfm_row h w mat (N.to_nat r) Hwf ltac:(lia)) as Hrow.
  destruct (list_put_ok v (nth (N.to_nat r) mat []) (N.to_nat c)) as [row' [E1 [Hl1 [Hv1 Ho1]]]];
    [lia|]. rewrite E1. cbn [obind].
  destruct (list_put_ok row' mat (N.to_nat r) Hr') as [mat' [E2 [Hl2 [Hv2 Ho2]]]].
  rewrite E2. exists mat'. split; [reflexivity|]. split.
  - split; [lia|]. eapply list_put_Forall; [exact E2 | exact Hf | cbv beta; lia].
  - intros r' c'. unfold ent.
    destruct (N.eqb_spec r' r) as [->|Hne]; cbn [andb].
    + rewrite Hv2. destruct (N.eqb_spec c' c) as [->|Hnc]; [apply Hv1|].
      apply Ho1. lia.
    + rewrite Ho2 by lia. reflexivity.
Qed.

(* setting a list of columns of one row *)
Lemma mset_list_ok h w r v : r < N.of_nat h -> forall idx mat,
  wfm h w mat -> Forall (fun j => j < N.of_nat w) idx ->
  exists mat', ofold (fun j mat => mset mat r j v) idx mat = Ok mat' /\ wfm h w mat' /\
    forall r' c', ent mat' r' c' =
      if (r' =? r) && existsb (N.eqb c') idx then v else ent mat r' c'.
Proof.
  intros Hr. induction idx as [|j idx IH]; intros mat Hwf Hall; cbn [ofold].
  - exists mat. split; [reflexivity|]. split; [assumption|]. intros r' c'. cbn [existsb].
    rewrite andb_false_r. reflexivity.
  - inversion Hall as [|? ? Hj Hall']; subst.
    destruct (mset_ok h w mat r j v Hwf Hr Hj) as [mat1 [E1 [Hwf1 He1]]]. rewrite E1. cbn [obind].
    destruct (IH mat1 Hwf1 Hall') as [mat' [E2 [Hwf2 He2]]]. rewrite E2.
    exists mat'. split; [reflexivity|]. split; [assumption|]. intros r' c'.
    rewrite He2, He1. cbn [existsb].
    destruct (r' =? r), (c' =? j), (existsb (N.eqb c') idx); reflexivity.
Qed.

(* ---- loop invariants ---- *)

Lemma ofor_inv {St} (Inv : N -> St -> Prop) (f : N -> St -> outcome St) : forall n i s,
  Inv i s ->
  (forall k s, i <= k < i + N.of_nat n -> Inv k s -> exists s', f k s = Ok s' /\ Inv (k + 1) s') ->
  exists s', ofor n i f s = Ok s' /\ Inv (i + N.of_nat n) s'.
Proof.
  induction n as [|n IH]; intros i s H0 Hstep; cbn [ofor].
  - exists s. split; [reflexivity|]. rewrite N.add_0_r. exact H0.
  - destruct (Hstep i s) as [s1 [E1 H1]]; [lia | exact H0|]. rewrite E1. cbn [obind].
    destruct (IH (i + 1) s1 H1) as [s' [E2 H2]].
    { intros k s0 Hk. apply Hstep. lia. }
    exists s'. split; [exact E2|]. replace (i + N.of_nat (S n)) with (i + 1 + N.of_nat n) by lia.
    exact H2.
Qed.

(* ---- zero matrix ---- *)

Lemma zero_matrix_wfm h w : wfm h w (zero_matrix h w).
Proof.
  unfold zero_matrix. split; [apply repeat_length|].
  apply Forall_forall. intros r Hr. apply repeat_spec in Hr. subst. apply repeat_length.
Qed.

Lemma nth_repeat_any {A} (x d : A) n i : d = x -> nth i (repeat x n) d = x.
Proof. intros ->. revert i. induction n as [|n IH]; intros [|i]; cbn; auto. Qed.

Lemma zero_matrix_ent h w r c : ent (zero_matrix h w) r c = 0.
Proof.
  unfold ent, zero_matrix.
  destruct (Nat.lt_ge_cases (N.to_nat r) h) as [H|H].
  - rewrite (nth_indep _ [] (repeat 0 w)) by (rewrite repeat_length; exact H).
    rewrite nth_repeat_any by reflexivity. apply nth_repeat_any. reflexivity.
  - rewrite (nth_overflow (repeat (repeat 0 w) h) []) by (rewrite repeat_length; exact H).
    destruct (N.to_nat c); reflexivity.
Qed.

(* ---- extensionality ---- *)

Lemma mat_ext h w A B : wfm h w A -> wfm h w B ->
  (forall r c, r < N.of_nat h -> c < N.of_nat w -> ent A r c = ent B r c) -> A = B.
Proof.
  intros HA HB He. pose proof HA as [HlA HfA]. pose proof HB as [HlB HfB].
  apply (nth_ext A B [] []); [congruence|]. intros r Hr.
  assert (Hr' : (r < h)%nat) by lia.
  apply (nth_ext _ _ 0 0).
  - rewrite (wfm_row h w A r HA Hr'), (wfm_row h w B r HB Hr'). reflexivity.
  - intros c Hc. rewrite (wfm_row h w A r HA Hr') in Hc.
    pose proof (He (N.of_nat r) (N.of_nat c) ltac:(lia) ltac:(lia)) as E.
    unfold ent in E. rewrite !Nat2N.id in E. exact E.
Qed.

(* a matrix given by a `map` over ranges *)
Lemma map_matrix_wfm h w (f : N -> N -> N) :
  wfm h w (map (fun r => map (fun j => f r j) (rangeN w)) (rangeN h)).
Proof.
  split; [rewrite map_length; apply rangeN_length|].
  apply Forall_forall. intros x Hx. apply in_map_iff in Hx. destruct Hx as [r [<- _]].
  rewrite map_length. apply rangeN_length.
Qed.

Lemma map_matrix_ent h w (f : N -> N -> N) r c : r < N.of_nat h -> c < N.of_nat w ->
  ent (map (fun r => map (fun j => f r j) (rangeN w)) (rangeN h)) r c = f r c.
Proof.
  intros Hr Hc. unfold ent.
  rewrite (nth_rangeN_map (fun r => map (fun j => f r j) (rangeN w)) h (N.to_nat r) []) by lia.
  rewrite (nth_rangeN_map (fun j => f (N.of_nat (N.to_nat r)) j) w (N.to_nat c) 0) by lia.
  rewrite !N2Nat.id. reflexivity.
Qed.

(* x mod S for x < 2 S *)
Lemma mod_lt2 x S : S <> 0 -> x < 2 * S -> x mod S = if x <? S then x else x - S.
Proof.
  intros HS Hx. destruct (N.ltb_spec x S) as [H|H]; [apply N.mod_small; exact H|].
  replace x with ((x - S) + 1 * S) at 1 by lia. rewrite N.mod_add by exact HS.
  apply N.mod_small. lia.
Qed.

Lemma rem_ok_nz' a b : b <> 0 -> rem_ok a b = Ok (a mod b).
Proof. intros H. unfold rem_ok. apply N.eqb_neq in H. rewrite H. reflexivity. Qed.
Lemma div_ok_nz a b : b <> 0 -> div_ok a b = Ok (a / b).
Proof. intros H. unfold div_ok. apply N.eqb_neq in H. rewrite H. reflexivity. Qed.
