(* Proofs about Model/SparseMatrix.v, part 7: hint_column_dense_and_frozen.  The re-spacing loop
   keeps every dense bit (each row gets one new, zero, leading word), its fuel is never exhausted,
   and the frozen column's bits move from the sparse rows into bit 0 of the dense tail. *)
From Coq Require Import NArith ZArith List Bool Lia Arith Sorted Permutation ZifyBool ZifyN.
From RQ Require Import Base.Outcome Base.Ints Base.ListX Spec.BitMatrix Spec.SparseAdm
  Model.DenseMatrix Model.SparseMatrix Proofs.DenseBits Proofs.DenseMatrixProofs Proofs.DenseQueries
  Proofs.DenseSeq Proofs.SparseVecProofs Proofs.SparseMatrixProofs Proofs.SparseSim
  Proofs.SparseQueries Proofs.SparseQuerySim Proofs.SparseAdd.
Import ListNotations.
Open Scope N_scope.

(* ---------------- the re-spacing loop ---------------- *)

(* word q of the re-spaced vector: every row of rw words gets a leading zero word *)
Definition newval (old : list N) (rw q : N) : N :=
  if q mod (rw + 1) =? 0 then 0 else eword old ((q / (rw + 1)) * rw + (q mod (rw + 1) - 1)).

Lemma respace_ok md old rw L : 1 <= rw -> Forall lt64 old ->
  forall (n fuel : nat) de dest,
  (n < fuel)%nat -> N.of_nat (length de) = L -> Forall lt64 de ->
  dest = N.of_nat n + (N.of_nat n + rw - 1) / rw -> dest <= L -> L < 2 ^ 64 ->
  (forall s, s < N.of_nat n -> eword de s = eword old s) ->
  (forall q, dest <= q -> q < L -> eword de q = newval old rw q) ->
  exists de', respace md fuel de (N.of_nat n) dest (rw + 1) = Ok (de', 0, 0) /\
    N.of_nat (length de') = L /\ Forall lt64 de' /\
    forall q, q < L -> eword de' q = newval old rw q.
Proof.
  intros Hrw Hold. induction n as [|n IH]; intros fuel de dest Hf Hlen Hall Hdest HdL HL Hlow Hhigh;
    (destruct fuel as [|f]; [lia|]); cbn [respace].
  - cbn [N.of_nat] in *. cbn [N.ltb N.compare].
    assert (Hd0 : dest = 0) by (rewrite Hdest, !N.add_0_l; apply N.div_small; lia).
    clear Hdest. subst dest. exists de. split; [reflexivity|]. split; [exact Hlen|]. split; [exact Hall|].
    intros q Hq. apply Hhigh; lia.
  - assert (E : (0 <? N.of_nat (S n)) = true) by (apply N.ltb_lt; lia). rewrite E.
    replace (N.of_nat (S n) - 1) with (N.of_nat n) by lia.
    set (pr := N.of_nat n / rw). set (a := N.of_nat n mod rw).
    assert (Hn : N.of_nat n = pr * rw + a).
    { unfold pr, a. pose proof (N.div_mod (N.of_nat n) rw ltac:(lia)). lia. }
    assert (Ha : a < rw) by (unfold a; apply N.mod_lt; lia).
    assert (Hd1 : dest = pr * (rw + 1) + (a + 1) + 1).
    { rewrite Hdest. replace (N.of_nat (S n)) with (pr * rw + a + 1) by lia.
      replace ((pr * rw + a + 1 + rw - 1) / rw) with (pr + 1); [lia|].
      apply (N.div_unique _ rw (pr + 1) a); lia. }
    clear Hdest. clearbody pr a.
    assert (Hprrw : pr * (rw + 1) = pr * rw + pr) by lia.
    rewrite sub_w_ok by lia. cbn [obind].
    set (dest1 := dest - 1). assert (Hd1' : dest1 = pr * (rw + 1) + (a + 1)) by (unfold dest1; lia).
    assert (Hmod : dest1 mod (rw + 1) = a + 1).
    { rewrite Hd1'. symmetry. apply (N.mod_unique _ (rw + 1) pr (a + 1)); lia. }
    assert (Hdiv : dest1 / (rw + 1) = pr).
    { rewrite Hd1'. symmetry. apply (N.div_unique _ (rw + 1) pr (a + 1)); lia. }
    rewrite vget_ok by lia. cbn [obind]. rewrite vset_ok by lia. cbn [obind].
    unfold rem_ok. assert (E2 : (rw + 1 =? 0) = false) by (apply N.eqb_neq; lia). rewrite E2. cbn [obind].
    rewrite Hmod.
    set (de1 := upd de (N.to_nat dest1) (eword de (N.of_nat n))).
    assert (Hx : eword de (N.of_nat n) = eword old (N.of_nat n)) by (apply Hlow; lia).
    assert (Hl1 : N.of_nat (length de1) = L) by (unfold de1; rewrite upd_length; exact Hlen).
    assert (Ha1 : Forall lt64 de1).
    { unfold de1. apply Forall_upd; [exact Hall|]. apply eword_lt64. exact Hall. }
    assert (Hnv : newval old rw dest1 = eword old (N.of_nat n)).
    { unfold newval. rewrite Hmod, Hdiv. assert (E3 : (a + 1 =? 0) = false) by (apply N.eqb_neq; lia).
      rewrite E3. f_equal. lia. }
    destruct (a + 1 =? 1) eqn:Ea.
    + (* first word of a row: insert the zero word *)
      apply N.eqb_eq in Ea. assert (a = 0) by lia. subst a.
      rewrite sub_w_ok by lia. cbn [obind]. rewrite vset_ok by lia. cbn [obind].
      apply IH.
      * lia.
      * rewrite upd_length. exact Hl1.
      * apply Forall_upd; [exact Ha1 | exact lt64_0].
      * rewrite Hn. replace ((pr * rw + 0 + rw - 1) / rw) with pr; [lia|].
        apply (N.div_unique _ rw pr (rw - 1)); lia.
      * lia.
      * exact HL.
      * intros s Hs. rewrite eword_upd by lia.
        destruct (s =? dest1 - 1) eqn:E4; [apply N.eqb_eq in E4; lia|].
        unfold de1. rewrite eword_upd by lia.
        destruct (s =? dest1) eqn:E5; [apply N.eqb_eq in E5; lia|]. apply Hlow. lia.
      * intros q Hq1 Hq2. rewrite eword_upd by lia.
        destruct (q =? dest1 - 1) eqn:E4.
        -- apply N.eqb_eq in E4. subst q. unfold newval.
           replace ((dest1 - 1) mod (rw + 1)) with 0; [reflexivity|].
           symmetry. apply N.mod_divide; [lia|]. exists pr. lia.
        -- apply N.eqb_neq in E4. unfold de1. rewrite eword_upd by lia.
           destruct (q =? dest1) eqn:E5.
           ++ apply N.eqb_eq in E5. subst q. rewrite Hx, Hnv. reflexivity.
           ++ apply N.eqb_neq in E5. apply Hhigh; lia.
    + apply N.eqb_neq in Ea. apply IH.
      * lia.
      * exact Hl1.
      * exact Ha1.
      * rewrite Hn. replace ((pr * rw + a + rw - 1) / rw) with (pr + 1); [lia|].
        apply (N.div_unique _ rw (pr + 1) (a - 1)); lia.
      * lia.
      * exact HL.
      * intros s Hs. unfold de1. rewrite eword_upd by lia.
        destruct (s =? dest1) eqn:E5; [apply N.eqb_eq in E5; lia|]. apply Hlow. lia.
      * intros q Hq1 Hq2. unfold de1. rewrite eword_upd by lia.
        destruct (q =? dest1) eqn:E5.
        -- apply N.eqb_eq in E5. subst q. rewrite Hx, Hnv. reflexivity.
        -- apply N.eqb_neq in E5. apply Hhigh; lia.
Qed.

(* the loop as hint_column_dense_and_frozen starts it *)
Lemma eword_app_l l1 l2 q : q < N.of_nat (length l1) -> eword (l1 ++ l2) q = eword l1 q.
Proof. intros H. unfold eword. apply app_nth1. lia. Qed.

Lemma respace_from_start md old rw h : 1 <= rw -> Forall lt64 old ->
  N.of_nat (length old) = h * rw -> h * (rw + 1) < 2 ^ 64 ->
  exists de', respace md (S (length old)) (old ++ repeat 0 (N.to_nat h)) (h * rw) (h * (rw + 1)) (rw + 1)
              = Ok (de', 0, 0) /\
    N.of_nat (length de') = h * (rw + 1) /\
    forall q, q < h * (rw + 1) -> eword de' q = newval old rw q.
Proof.
  intros Hrw Hold Hlen HL.
  pose proof (respace_ok md old rw (h * (rw + 1)) Hrw Hold (N.to_nat (h * rw)) (S (length old))
                (old ++ repeat 0 (N.to_nat h)) (h * (rw + 1))) as R.
  rewrite N2Nat.id in R. destruct R as [de' [H1 [H2 [_ H3]]]].
  - lia.
  - rewrite app_length, repeat_length. lia.
  - apply Forall_app. split; [exact Hold | apply Forall_repeat; exact lt64_0].
  - replace ((h * rw + rw - 1) / rw) with h; [lia|]. apply (N.div_unique _ rw h (rw - 1)); lia.
  - lia.
  - exact HL.
  - intros s Hs. apply eword_app_l. lia.
  - intros q Hq1 Hq2. lia.
  - exists de'. split; [exact H1|]. split; assumption.
Qed.

(* ---------------- moving the frozen column's entries into the dense tail ---------------- *)

Lemma sv_remove_none l k : snd (sv_remove l k) = None -> fst (sv_remove l k) = l.
Proof. unfold sv_remove. destruct (sv_search l (u16 k)); cbn [fst snd]; [discriminate | reflexivity]. Qed.

Lemma existsb_ext_in' {A} (f g : A -> bool) l : (forall x, In x l -> f x = g x) -> existsb f l = existsb g l.
Proof.
  induction l as [|x t IH]; intros H; [reflexivity|]. cbn [existsb].
  rewrite (H x) by (left; reflexivity). rewrite IH; [reflexivity|]. intros y Hy. apply H. right. exact Hy.
Qed.

Definition mk2 (m2 : smat) (rows : list svec) (de : list N) : smat := set_dense (set_rows m2 rows) de.

Lemma freeze_loop m2 pi h : pi < 65536 -> 1 <= sm_rww m2 ->
  forall lst rows de, NoDup lst -> Forall (fun p => p < h) lst ->
  N.of_nat (length rows) = h -> Forall ssorted rows ->
  N.of_nat (length de) = h * sm_rww m2 -> Forall lt64 de ->
  exists rows' de', ofold (freeze_row pi) lst (mk2 m2 rows de) = Ok (mk2 m2 rows' de') /\
    N.of_nat (length rows') = h /\ Forall ssorted rows' /\
    N.of_nat (length de') = h * sm_rww m2 /\ Forall lt64 de' /\
    (forall p, p < h -> nth (N.to_nat p) rows' [] =
       if memN p lst then fst (sv_remove (nth (N.to_nat p) rows []) pi) else nth (N.to_nat p) rows []) /\
    (forall q b, ebit de' q b =
       ebit de q b || existsb (fun p => (q =? p * sm_rww m2) && (b =? sm_lpb m2) &&
                                        memN pi (nth (N.to_nat p) rows [])) lst).
Proof.
  intros Hpi Hrw. unfold svec in *.
  induction lst as [|pr t IH]; intros rows de Hnd HF Hrl Hss Hdl Hall.
  - exists rows, de. cbn [ofold]. split; [reflexivity|]. repeat (split; [assumption|]).
    split; [intros; reflexivity|]. intros. cbn [existsb]. rewrite orb_false_r. reflexivity.
  - apply NoDup_cons_iff in Hnd. destruct Hnd as [Hnotin Hnd'].
    apply Forall_cons_iff in HF. destruct HF as [Hpr HF'].
    cbn [ofold]. unfold freeze_row at 1. unfold mk2. sfields. unfold svec.
    rewrite (lget_ok rows pr []) by lia. cbn [obind].
    set (r := nth (N.to_nat pr) rows []).
    assert (Hsr : ssorted r) by (unfold r; apply Forall_nth_N; [exact Hss | lia]).
    destruct (sv_remove_spec r pi Hsr Hpi) as [Hs' [_ [_ Hsnd]]].
    destruct (sv_remove r pi) as [r' removed] eqn:Erm. cbn [fst snd] in *.
    assert (Htail : forall p, memN p t = true -> p <> pr).
    { intros p Hp E. subst p. apply Hnotin. apply memN_In. exact Hp. }
    destruct (memN pi r) eqn:Em; subst removed.
    + rewrite lset_ok by lia. cbn [obind].
      unfold sm_bit_position, sm_word_offset, WORD_WIDTH. sfields.
      change (sm_rww (set_dense (set_rows m2 rows) de)) with (sm_rww m2).
      change (sm_lpb (set_dense (set_rows m2 rows) de)) with (sm_lpb m2).
      pose proof (lpb_lt_m m2) as Hl. rewrite lpb_div, N.add_0_r, (N.add_0_r (sm_lpb m2)), (N.mod_small _ 64 Hl).
      assert (Hword : pr * sm_rww m2 < N.of_nat (length de)).
      { rewrite Hdl. pose proof (row_mul_le pr h (sm_rww m2) Hpr). lia. }
      rewrite vget_ok by exact Hword. cbn [obind]. rewrite vset_ok by exact Hword. cbn [obind N.eqb].
      change (set_bit (eword de (pr * sm_rww m2)) (sm_lpb m2))
        with (put (eword de (pr * sm_rww m2)) (sm_lpb m2) true).
      set (rows1 := upd rows (N.to_nat pr) r'). set (de1 := upd de (N.to_nat (pr * sm_rww m2)) _).
      change (set_dense (set_rows (set_dense (set_rows m2 rows) de) rows1) de1) with (mk2 m2 rows1 de1).
      destruct (IH rows1 de1) as [rows' [de' [Hf [Hrl' [Hss' [Hdl' [Hall' [Hrows Hbits]]]]]]]]; try assumption.
      * unfold rows1. rewrite upd_length. exact Hrl.
      * unfold rows1. apply Forall_upd; assumption.
      * unfold de1. rewrite upd_length. exact Hdl.
      * unfold de1. apply Forall_upd; [exact Hall|]. apply put_lt64; [apply eword_lt64; exact Hall | exact Hl].
      * exists rows', de'. split; [exact Hf|]. repeat (split; [assumption|]). split.
        -- intros p Hp. rewrite (Hrows p Hp). unfold rows1. rewrite nth_upd_N by lia. rewrite memN_cons.
           destruct (p =? pr) eqn:Ep; cbn [orb].
           ++ apply N.eqb_eq in Ep. subst p. fold r. rewrite Erm. cbn [fst].
              destruct (memN pr t) eqn:Et; [exfalso; apply (Htail pr Et); reflexivity | reflexivity].
           ++ reflexivity.
        -- intros q b. rewrite Hbits. cbn [existsb]. fold r. rewrite Em, andb_true_r.
           unfold de1. rewrite ebit_upd_put by assumption. rewrite orb_assoc. f_equal.
           ++ destruct ((q =? pr * sm_rww m2) && (b =? sm_lpb m2)); [rewrite orb_true_r | rewrite orb_false_r]; reflexivity.
           ++ apply existsb_ext_in'. intros p Hp. unfold rows1. rewrite nth_upd_N by lia.
              destruct (p =? pr) eqn:Ep; [|reflexivity]. apply N.eqb_eq in Ep. subst p.
              exfalso. apply Hnotin. exact Hp.
    + change (set_dense (set_rows m2 rows) de) with (mk2 m2 rows de).
      destruct (IH rows de) as [rows' [de' [Hf [Hrl' [Hss' [Hdl' [Hall' [Hrows Hbits]]]]]]]]; try assumption.
      exists rows', de'. split; [exact Hf|]. repeat (split; [assumption|]). split.
      * intros p Hp. rewrite (Hrows p Hp). rewrite memN_cons.
        destruct (p =? pr) eqn:Ep; cbn [orb]; [|reflexivity].
        apply N.eqb_eq in Ep. subst p. fold r.
        assert (Er' : r' = r).
        { pose proof (sv_remove_none r pi) as Hn. rewrite Erm in Hn. cbn [fst snd] in Hn. apply Hn. reflexivity. }
        rewrite Erm. cbn [fst]. rewrite Er'. destruct (memN pr t); reflexivity.
      * intros q b. rewrite Hbits. cbn [existsb]. fold r. rewrite Em, andb_false_r. reflexivity.
Qed.

(* ---------------- the dense tail gets one more column ---------------- *)

Lemma grow_new_word nd : nd mod 64 = 0 ->
  ceil_div (nd + 1) 64 = ceil_div nd 64 + 1 /\ (64 - nd mod 64) mod 64 = 0 /\
  (64 - (nd + 1) mod 64) mod 64 = 63 /\ nd = 64 * ceil_div nd 64.
Proof. intros H. rewrite !ceil_div_64. repeat split; zlia. Qed.

Lemma grow_same_word nd : nd mod 64 <> 0 ->
  ceil_div (nd + 1) 64 = ceil_div nd 64 /\
  (64 - (nd + 1) mod 64) mod 64 + 1 = (64 - nd mod 64) mod 64.
Proof. intros H. rewrite !ceil_div_64. split; zlia. Qed.

Lemma eword_overflow l q : N.of_nat (length l) <= q -> eword l q = 0.
Proof. intros H. unfold eword. apply nth_overflow. lia. Qed.

Lemma ar_shift63 d : (63 + (d + 1)) / 64 = 1 + d / 64 /\ (63 + (d + 1)) mod 64 = d mod 64.
Proof. split; zlia. Qed.

Lemma ar_div64_lt d r : d < 64 * r -> d / 64 < r.
Proof. intros. zlia. Qed.

Lemma ar_word_lt l nd r d : l < 64 -> l + (nd + 1) = 64 * r -> d < nd -> (l + (d + 1)) / 64 < r.
Proof. intros. zlia. Qed.

Lemma ar_bit_ne l d : l < 64 -> (l + (d + 1)) / 64 = 0 -> (l + (d + 1)) mod 64 <> l.
Proof. intros. zlia. Qed.

(* the dense words after the (possible) re-spacing, before the frozen column's bits are set *)
Lemma freeze_dense md m (k : list N -> outcome smat) : sm_inv md m -> 0 < s_height m ->
  s_nd m + 1 <= s_width m ->
  let m1 := set_nd m (s_nd m + 1) in
  exists de2,
    obind (sub_w md 64 (s_height m1) 1) (fun hm1 =>
      obind (mul_w md 64 hm1 (sm_rww m1)) (fun p =>
        obind (add_w md 64 p (sm_word_offset m1 (s_nd m1 - 1))) (fun last_word =>
          obind (if N.of_nat (length (s_dense m1)) <=? last_word then
                   let src := N.of_nat (length (s_dense m1)) in
                   let de0 := s_dense m1 ++ repeat 0 (N.to_nat (s_height m1)) in
                   let dest := if true && negb (0 <? src) then 0 else N.of_nat (length de0) in
                   obind (respace md (S (length (s_dense m1))) de0 src dest (sm_rww m1)) (fun r =>
                     let '(de1, src', dest') := r in
                     obind (assert_ok (src' =? 0)) (fun _ =>
                       obind (assert_ok (dest' =? 0)) (fun _ => Ok de1)))
                 else Ok (s_dense m1)) k))) = k de2 /\
    N.of_nat (length de2) = s_height m * sm_rww m1 /\ Forall lt64 de2 /\
    (forall p d, p < s_height m -> d < s_nd m ->
       lbit de2 (sm_rww m1) p (sm_lpb m1 + (d + 1)) = lbit (s_dense m) (sm_rww m) p (sm_lpb m + d)) /\
    (forall p b, p < s_height m -> b <= sm_lpb m1 -> ebit de2 (p * sm_rww m1) b = false).
Proof.
  intros Hinv Hh Hnd1 m1. destruct (inv_dense _ _ Hinv) as [Hlen [Hall Hpad]].
  pose proof (inv_h _ _ Hinv) as Hh24. pose proof (inv_w _ _ Hinv) as Hw. pose proof (inv_w0 _ _ Hinv) as Hw0.
  change (s_height m1) with (s_height m). change (s_dense m1) with (s_dense m).
  change (s_nd m1) with (s_nd m + 1).
  assert (Erww1 : sm_rww m1 = ceil_div (s_nd m + 1) 64) by reflexivity.
  assert (Elpb1 : sm_lpb m1 = (64 - (s_nd m + 1) mod 64) mod 64) by reflexivity.
  assert (Erww : sm_rww m = ceil_div (s_nd m) 64) by reflexivity.
  assert (Elpb : sm_lpb m = (64 - s_nd m mod 64) mod 64) by reflexivity.
  pose proof (lpb_nd (s_nd m + 1)) as Hln1. rewrite <- Erww1, <- Elpb1 in Hln1.
  pose proof (lpb_nd (s_nd m)) as Hln. rewrite <- Erww, <- Elpb in Hln.
  assert (Hrw1 : 1 <= sm_rww m1) by lia.
  assert (Hrwb : sm_rww m1 <= 1024).
  { rewrite Erww1, ceil_div_64. change (2 ^ 16) with 65536 in Hw0. zlia. }
  change (2 ^ 24) with 16777216 in Hh24.
  rewrite sub_w_ok by lia. cbn [obind].
  assert (Hmul : (s_height m - 1) * sm_rww m1 <= 16777216 * 1024) by (apply N.mul_le_mono; lia).
  rewrite mul_w_ok by (change (2 ^ 64) with 18446744073709551616; lia). cbn [obind].
  replace (s_nd m + 1 - 1) with (s_nd m) by lia.
  assert (Ewo : sm_word_offset m1 (s_nd m) = sm_rww m1 - 1).
  { unfold sm_word_offset, WORD_WIDTH. symmetry. apply (N.div_unique _ 64 _ 63); lia. }
  rewrite Ewo. rewrite add_w_ok by (change (2 ^ 64) with 18446744073709551616; lia). cbn [obind].
  assert (Hhr : forall r, s_height m * r = (s_height m - 1) * r + r).
  { intros r. replace (s_height m) with ((s_height m - 1) + 1) at 1 by lia. lia. }
  assert (Elast : (s_height m - 1) * sm_rww m1 + (sm_rww m1 - 1) = s_height m * sm_rww m1 - 1).
  { rewrite (Hhr (sm_rww m1)). lia. }
  rewrite Elast, Hlen. rewrite <- Erww.
  destruct (N.eq_dec (s_nd m mod 64) 0) as [Hz|Hnz].
  - (* a new word per row *)
    destruct (grow_new_word _ Hz) as [G1 [G2 [G3 G4]]]. rewrite <- Erww1, <- Erww in G1.
    rewrite <- Elpb in G2. rewrite <- Elpb1 in G3. rewrite <- Erww in G4.
    assert (E : (s_height m * sm_rww m <=? s_height m * sm_rww m1 - 1) = true).
    { apply N.leb_le. rewrite G1, (Hhr (sm_rww m + 1)), (Hhr (sm_rww m)). lia. }
    rewrite E. cbv zeta. cbn [andb].
    set (L := s_height m * sm_rww m1).
    assert (Hde : exists de2,
      respace md (S (length (s_dense m))) (s_dense m ++ repeat 0 (N.to_nat (s_height m)))
        (s_height m * sm_rww m)
        (if negb (0 <? s_height m * sm_rww m) then 0
         else N.of_nat (length (s_dense m ++ repeat 0 (N.to_nat (s_height m))))) (sm_rww m1) = Ok (de2, 0, 0) /\
      N.of_nat (length de2) = L /\ Forall lt64 de2 /\
      forall q, q < L -> eword de2 q = newval (s_dense m) (sm_rww m) q).
    { destruct (N.eq_dec (sm_rww m) 0) as [Hr0|Hr0].
      - rewrite Hr0, N.mul_0_r. cbn [N.ltb N.compare negb]. cbn [respace N.ltb N.compare].
        exists (s_dense m ++ repeat 0 (N.to_nat (s_height m))). split; [reflexivity|].
        assert (Hl0 : length (s_dense m) = 0%nat) by lia.
        split; [rewrite app_length, repeat_length, Hl0; unfold L; lia|].
        split; [apply Forall_app; split; [exact Hall | apply Forall_repeat; exact lt64_0]|].
        intros q Hq. unfold newval. change (0 + 1) with 1. rewrite N.mod_1_r. cbn [N.eqb].
        destruct (s_dense m) as [|x t]; [|discriminate]. cbn [app]. apply eword_repeat0.
      - assert (Hpos : (0 <? s_height m * sm_rww m) = true) by (apply N.ltb_lt; rewrite (Hhr (sm_rww m)); lia).
        rewrite Hpos. cbn [negb]. rewrite G1.
        pose proof (respace_ok md (s_dense m) (sm_rww m) L ltac:(lia) Hall
                      (N.to_nat (s_height m * sm_rww m)) (S (length (s_dense m)))
                      (s_dense m ++ repeat 0 (N.to_nat (s_height m)))
                      (N.of_nat (length (s_dense m ++ repeat 0 (N.to_nat (s_height m)))))) as R.
        rewrite N2Nat.id in R. apply R; clear R.
        + lia.
        + rewrite app_length, repeat_length. unfold L. lia.
        + apply Forall_app. split; [exact Hall | apply Forall_repeat; exact lt64_0].
        + rewrite app_length, repeat_length.
          replace ((s_height m * sm_rww m + sm_rww m - 1) / sm_rww m) with (s_height m); [lia|].
          apply (N.div_unique _ (sm_rww m) (s_height m) (sm_rww m - 1)); lia.
        + rewrite app_length, repeat_length. unfold L. lia.
        + unfold L. change (2 ^ 64) with 18446744073709551616.
          assert (s_height m * sm_rww m1 <= 16777216 * 1024) by (apply N.mul_le_mono; lia). lia.
        + intros s Hs. apply eword_app_l. lia.
        + intros q Hq1 Hq2. rewrite app_length, repeat_length in Hq1. unfold L in Hq2. lia. }
    destruct Hde as [de2 [Hresp [Hl2 [Ha2 Hq2]]]].
    exists de2. rewrite Hresp. cbn [obind N.eqb assert_ok].
    split; [reflexivity|]. split; [exact Hl2|]. split; [exact Ha2|]. split.
    + intros p d Hp Hd. unfold lbit, ebit. rewrite G2, G3, N.add_0_l.
      assert (Hd64 : d / 64 < sm_rww m) by (apply ar_div64_lt; lia).
      destruct (ar_shift63 d) as [Ash1 Ash2]. rewrite Ash1, Ash2.
      rewrite Hq2 by (unfold L; rewrite G1; pose proof (row_mul_le p (s_height m) (sm_rww m + 1) Hp); lia).
      unfold newval. rewrite G1.
      replace ((p * (sm_rww m + 1) + (1 + d / 64)) mod (sm_rww m + 1)) with (1 + d / 64)
        by (apply (N.mod_unique _ (sm_rww m + 1) p); lia).
      replace ((p * (sm_rww m + 1) + (1 + d / 64)) / (sm_rww m + 1)) with p
        by (apply (N.div_unique _ (sm_rww m + 1) p (1 + d / 64)); lia).
      assert (E1 : (1 + d / 64 =? 0) = false) by (apply N.eqb_neq; lia). rewrite E1.
      do 2 f_equal. lia.
    + intros p b Hp Hb. unfold ebit.
      rewrite Hq2 by (unfold L; pose proof (row_mul_le p (s_height m) (sm_rww m1) Hp); lia).
      unfold newval. rewrite G1.
      replace ((p * (sm_rww m + 1)) mod (sm_rww m + 1)) with 0; [apply N.bits_0|].
      symmetry. apply N.mod_divide; [lia|]. exists p. reflexivity.
  - (* room in the first word *)
    destruct (grow_same_word _ Hnz) as [G1 G2]. rewrite <- Erww1, <- Erww in G1. rewrite <- Elpb, <- Elpb1 in G2.
    assert (E : (s_height m * sm_rww m <=? s_height m * sm_rww m1 - 1) = false).
    { apply N.leb_gt. rewrite G1, (Hhr (sm_rww m)). lia. }
    rewrite E. cbn [obind]. exists (s_dense m). split; [reflexivity|].
    split; [rewrite G1; exact Hlen|]. split; [exact Hall|]. split.
    + intros p d Hp Hd. rewrite G1. f_equal. lia.
    + intros p b Hp Hb. rewrite G1. apply Hpad; [exact Hp|]. rewrite <- Elpb. lia.
Qed.

(* ---------------- hint_column_dense_and_frozen ---------------- *)

Lemma existsb_row_eq (rw lpb p : N) (f : N -> bool) lst : 1 <= rw ->
  existsb (fun p' => (p * rw =? p' * rw) && (lpb =? lpb) && f p') lst = memN p lst && f p.
Proof.
  intros Hrw. induction lst as [|x t IH]; [reflexivity|]. cbn [existsb]. rewrite IH, memN_cons, N.eqb_refl, andb_true_r.
  destruct (p =? x) eqn:E.
  - apply N.eqb_eq in E. subst x. rewrite N.eqb_refl. cbn [andb orb]. destruct (f p), (memN p t); reflexivity.
  - apply N.eqb_neq in E. assert (E2 : (p * rw =? x * rw) = false).
    { apply N.eqb_neq. intros H. apply E. apply (N.mul_cancel_r p x rw); [lia | exact H]. }
    rewrite E2. reflexivity.
Qed.

Lemma sm_freeze_ok md m i ix : sm_inv md m -> s_index m = Some ix -> i + 1 = sfd m ->
  let pi := eword (s_l2p_col m) i in
  exists m', sm_freeze_gen true md m i = Ok m' /\ sm_inv md m' /\
    s_height m' = s_height m /\ s_width m' = s_width m /\ s_nd m' = s_nd m + 1 /\
    s_l2p_row m' = s_l2p_row m /\ s_p2l_row m' = s_p2l_row m /\
    s_l2p_col m' = s_l2p_col m /\ s_p2l_col m' = s_p2l_col m /\
    s_disabled m' = s_disabled m /\ s_index m' = s_index m /\ s_valid m' = s_valid m /\
    (forall p x, p < s_height m -> memN x (rowk m' p) = memN x (rowk m p) && negb (x =? pi)) /\
    (forall r j, r < s_height m -> j < s_width m -> sm_bit m' r j = sm_bit m r j).
Proof.
  intros Hinv Hix Hi pi.
  pose proof (inv_index _ _ Hinv) as Hii. unfold index_inv in Hii. rewrite Hix in Hii.
  destruct Hii as [Hdis [Hixl [Hwh [Hlists Hsup]]]].
  pose proof (inv_w _ _ Hinv) as Hw. pose proof (inv_w0 _ _ Hinv) as Hw0. pose proof (inv_nd _ _ Hinv) as Hnd.
  pose proof (inv_h _ _ Hinv) as Hh24. pose proof (inv_rows_len _ _ Hinv) as Hrl.
  assert (Hi0 : i < W0 m) by (unfold sfd in *; lia).
  assert (Hh : 0 < s_height m) by lia.
  assert (Hnd1 : s_nd m + 1 <= s_width m) by (unfold sfd in *; lia).
  pose proof (l2p_col_lt md m Hinv i Hi0) as Hpi. fold pi in Hpi.
  unfold sm_freeze_gen. rewrite (fd_ok md m Hinv). cbn [obind].
  rewrite sub_w_ok by lia. cbn [obind].
  assert (E1 : (sfd m - 1 =? i) = true) by (apply N.eqb_eq; lia). rewrite E1. cbn [assert_ok obind].
  rewrite Hdis. cbn [negb assert_ok obind].
  set (m1 := set_nd m (s_nd m + 1)).
  set (k := fun de : list N =>
              obind (vget (s_l2p_col (set_dense m1 de)) i) (fun physical_i =>
                obind (unwrap (s_index (set_dense m1 de))) (fun ix0 =>
                  obind (ilm_get ix0 (u16 physical_i)) (fun lst =>
                    ofold (freeze_row physical_i) lst (set_dense m1 de))))).
  destruct (freeze_dense md m k Hinv Hh Hnd1) as [de2 [Hk [Hl2 [Ha2 [HD2 HD3]]]]].
  fold m1 in Hk, Hl2, HD2, HD3.
  change (obind (sub_w md 64 (s_height m1) 1) _ = Ok _ /\ _) || idtac.
  match goal with |- exists m', ?lhs = Ok m' /\ _ => change lhs with
    (obind (sub_w md 64 (s_height m1) 1) (fun hm1 =>
      obind (mul_w md 64 hm1 (sm_rww m1)) (fun p =>
        obind (add_w md 64 p (sm_word_offset m1 (s_nd m1 - 1))) (fun last_word =>
          obind (if N.of_nat (length (s_dense m1)) <=? last_word then
                   let src := N.of_nat (length (s_dense m1)) in
                   let de0 := s_dense m1 ++ repeat 0 (N.to_nat (s_height m1)) in
                   let dest := if true && negb (0 <? src) then 0 else N.of_nat (length de0) in
                   obind (respace md (S (length (s_dense m1))) de0 src dest (sm_rww m1)) (fun r =>
                     let '(de1, src', dest') := r in
                     obind (assert_ok (src' =? 0)) (fun _ =>
                       obind (assert_ok (dest' =? 0)) (fun _ => Ok de1)))
                 else Ok (s_dense m1)) k)))) end.
  rewrite Hk. unfold k. clear Hk k. sfields.
  change (s_l2p_col m1) with (s_l2p_col m). change (s_index m1) with (s_index m).
  rewrite (l2p_col_ok m i Hi0). cbn [obind]. fold pi. rewrite Hix. cbn [unwrap obind].
  unfold u16. rewrite wrap_small by lia. unfold ilm_get. rewrite (lget_ok ix pi []) by lia. cbn [obind].
  set (lst := nth (N.to_nat pi) ix []).
  destruct (Hlists pi Hpi) as [Hndl Hrng]. fold lst in Hndl, Hrng.
  set (m2 := set_dense m1 de2).
  assert (Erww2 : sm_rww m2 = sm_rww m1) by reflexivity.
  assert (Elpb2 : sm_lpb m2 = sm_lpb m1) by reflexivity.
  assert (Hrw1 : 1 <= sm_rww m1).
  { pose proof (lpb_nd_m m1) as Hx. pose proof (lpb_lt_m m1). change (s_nd m1) with (s_nd m + 1) in Hx. lia. }
  assert (Hsr : Forall ssorted (s_rows m)).
  { eapply Forall_impl; [|exact (inv_rows _ _ Hinv)]. intros r [Hs _]. exact Hs. }
  destruct (freeze_loop m2 pi (s_height m) ltac:(change 65536 with (2 ^ 16); lia) ltac:(rewrite Erww2; exact Hrw1)
              lst (s_rows m) de2 Hndl Hrng ltac:(unfold svec in *; lia) Hsr ltac:(rewrite Erww2; exact Hl2) Ha2)
    as [rows' [de' [Hf [Hrl' [Hss' [Hdl' [Hall' [Hrows Hbits]]]]]]]].
  change (mk2 m2 (s_rows m) de2) with m2 in Hf. rewrite Hf.
  set (m' := mk2 m2 rows' de').
  (* rows of the result *)
  assert (Hrowk : forall p x, p < s_height m -> memN x (rowk m' p) = memN x (rowk m p) && negb (x =? pi)).
  { intros p x Hp. unfold rowk, m', mk2. sfields. rewrite (Hrows p Hp).
    destruct (rowk_ok md m Hinv p Hp) as [Hs _]. fold (rowk m p).
    destruct (sv_remove_spec (rowk m p) pi Hs ltac:(change 65536 with (2 ^ 16); lia)) as [_ [Hx _]].
    destruct (memN p lst) eqn:Ep; [apply Hx|].
    destruct (x =? pi) eqn:Ex; cbn [negb]; [|rewrite andb_true_r; reflexivity].
    apply N.eqb_eq in Ex. subst x. rewrite andb_false_r.
    change (nth (N.to_nat p) (s_rows m) []) with (rowk m p).
    destruct (memN pi (rowk m p)) eqn:Em; [|reflexivity].
    exfalso. apply Hsup in Em; [|exact Hp]. fold lst in Em. apply memN_In in Em. congruence. }
  (* bit 0 of the new tail *)
  assert (Hbit0 : forall p, p < s_height m -> ebit de' (p * sm_rww m1) (sm_lpb m1) = memN pi (rowk m p)).
  { intros p Hp. rewrite Hbits, Erww2, Elpb2. rewrite (HD3 p _ Hp) by lia. cbn [orb].
    rewrite (existsb_row_eq (sm_rww m1) (sm_lpb m1) p (fun p' => memN pi (nth (N.to_nat p') (s_rows m) []))) by exact Hrw1.
    fold (rowk m p). destruct (memN p lst) eqn:Ep; [reflexivity|]. cbn [andb].
    destruct (memN pi (rowk m p)) eqn:Em; [|reflexivity].
    exfalso. apply Hsup in Em; [|exact Hp]. fold lst in Em. apply memN_In in Em. congruence. }
  (* the other dense bits *)
  pose proof (lpb_lt_m m1) as Hlpb1. pose proof (lpb_nd_m m1) as Hln1. change (s_nd m1) with (s_nd m + 1) in Hln1.
  assert (Hbitd : forall p d, p < s_height m -> d < s_nd m ->
            lbit de' (sm_rww m1) p (sm_lpb m1 + (d + 1)) = sm_dbit m p d).
  { intros p d Hp Hd. unfold sm_dbit. rewrite <- (HD2 p d Hp Hd). unfold lbit. rewrite Hbits, Erww2, Elpb2.
    assert (Hwd : (sm_lpb m1 + (d + 1)) / 64 < sm_rww m1) by (apply (ar_word_lt _ (s_nd m)); assumption).
    rewrite (existsb_ext_in' _ (fun _ => false)); [clear; induction lst; [apply orb_false_r | exact IHlst]|].
    intros p' Hp'. destruct (p * sm_rww m1 + (sm_lpb m1 + (d + 1)) / 64 =? p' * sm_rww m1) eqn:Eq; [|reflexivity].
    apply N.eqb_eq in Eq. cbn [andb].
    assert (Eq' : p * sm_rww m1 + (sm_lpb m1 + (d + 1)) / 64 = p' * sm_rww m1 + 0) by lia.
    apply pos_inj in Eq'; [|exact Hwd | lia]. destruct Eq' as [_ Eq'].
    assert (E2 : ((sm_lpb m1 + (d + 1)) mod 64 =? sm_lpb m1) = false) by (apply N.eqb_neq; apply ar_bit_ne; assumption).
    rewrite E2. reflexivity. }
  assert (Hsfd' : sfd m' = i) by (unfold sfd, m', mk2, m2, m1; sfields; unfold sfd in Hi; lia).
  assert (Hinv' : sm_inv md m').
  { constructor; unfold m', mk2, m2, m1; try inv_auto Hinv; sfields.
    - unfold svec in *. lia.
    - lia.
    - unfold row_ok, W0. sfields. fold (W0 m). fold m1 m2. fold (mk2 m2 rows' de'). fold m'. rewrite Hsfd'.
      apply Forall_forall. intros r Hr. apply In_nth with (d := []) in Hr. destruct Hr as [n [Hn Er]].
      assert (Hp : N.of_nat n < s_height m) by (unfold svec in *; lia).
      pose proof (Hrows (N.of_nat n) Hp) as Hrw. rewrite Nat2N.id, Er in Hrw.
      split; [rewrite Forall_forall in Hss'; apply Hss'; rewrite <- Er; apply nth_In; exact Hn|].
      apply Forall_forall. intros x Hx. apply memN_In in Hx.
      pose proof (Hrowk (N.of_nat n) x Hp) as Hm. unfold rowk at 1 in Hm. unfold m', mk2 in Hm. sfields_in Hm.
      rewrite Nat2N.id, Er, Hx in Hm. symmetry in Hm. apply andb_true_iff in Hm. destruct Hm as [Hm1 Hm2].
      destruct (mem_key_ok md m Hinv _ x Hp Hm1) as [Hxw Hxl]. split; [exact Hxw|].
      apply negb_true_iff in Hm2. apply N.eqb_neq in Hm2.
      assert (eword (s_p2l_col m) x <> i).
      { intros E. apply Hm2. unfold pi. rewrite <- E. symmetry. apply (perm_l2p_p2l _ _ _ x (inv_colmaps _ _ Hinv) Hxw). }
      lia.
    - split; [exact Hdl'|]. split; [exact Hall'|]. intros p b Hp Hb.
      change (ceil_div (s_nd m + 1) 64) with (sm_rww m1).
      change ((64 - (s_nd m + 1) mod 64) mod 64) with (sm_lpb m1) in Hb. rewrite Hbits, Erww2, Elpb2. rewrite (HD3 p b Hp) by lia. cbn [orb].
      rewrite (existsb_ext_in' _ (fun _ => false)); [clear; induction lst; [reflexivity | exact IHlst]|].
      intros p' _. assert (E2 : (b =? sm_lpb m1) = false) by (apply N.eqb_neq; lia). rewrite E2, andb_false_r. reflexivity.
    - unfold index_inv. sfields. rewrite Hix. split; [exact Hdis|]. split; [exact Hixl|]. split; [exact Hwh|].
      split; [exact Hlists|]. intros p x Hp Hm. apply Hsup; [exact Hp|].
      change (memN x (rowk m' p) = true) in Hm. rewrite (Hrowk p x Hp) in Hm.
      apply andb_true_iff in Hm. apply Hm. }
  exists m'. split; [reflexivity|]. split; [exact Hinv'|].
  do 7 (split; [reflexivity|]). split; [exact Hdis|]. split; [exact Hix|]. split; [reflexivity|].
  split; [exact Hrowk|].
  intros r j Hr Hj. pose proof (l2p_row_lt md m Hinv r Hr) as Hp.
  unfold sm_bit. rewrite Hsfd'. change (s_l2p_row m') with (s_l2p_row m). change (s_l2p_col m') with (s_l2p_col m).
  set (p := eword (s_l2p_row m) r) in *.
  destruct (j <? i) eqn:Eji.
  - apply N.ltb_lt in Eji. assert (Ej : (j <? sfd m) = true) by (apply N.ltb_lt; lia). rewrite Ej.
    rewrite Hrowk by exact Hp. unfold pi. rewrite (perm_l2p_inj _ _ _ j i (inv_colmaps _ _ Hinv)) by lia.
    assert (E2 : (j =? i) = false) by (apply N.eqb_neq; lia). rewrite E2. apply andb_true_r.
  - apply N.ltb_ge in Eji. unfold sm_dbit at 1. change (s_dense m') with de'.
    change (sm_rww m') with (sm_rww m1). change (sm_lpb m') with (sm_lpb m1).
    destruct (j =? i) eqn:E2.
    + apply N.eqb_eq in E2. subst j. rewrite N.sub_diag.
      assert (Ej : (i <? sfd m) = true) by (apply N.ltb_lt; lia). rewrite Ej.
      unfold lbit. rewrite N.add_0_r. rewrite (N.div_small _ 64 Hlpb1), (N.mod_small _ 64 Hlpb1), N.add_0_r.
      apply Hbit0. exact Hp.
    + apply N.eqb_neq in E2. assert (Ej : (j <? sfd m) = false) by (apply N.ltb_ge; lia). rewrite Ej.
      replace (j - i) with ((j - sfd m) + 1) by lia. apply Hbitd; [exact Hp | unfold sfd in *; lia].
Qed.

(* ---------------- refinement ---------------- *)

Lemma ssim_freeze md m st col : srefines md m st -> adm_sparse st (OFreeze col) = true ->
  exists m', sm_hint_column_dense_and_frozen md m col = Ok m' /\
    srefines md m' (fst (ss_step st (OFreeze col))).
Proof.
  intros Hr Hadm. pose proof (fd_N md m st Hr) as Hfd. pose proof (ref_inv _ _ _ Hr) as Hinv.
  pose proof (ref_h md m _ Hr) as Hh. pose proof (ref_w md m _ Hr) as Hw.
  pose proof (ref_idx md m _ Hr) as Hidx. pose proof (ref_stale_len md m _ Hr) as Hsl.
  pose proof (ref_nd md m _ Hr) as Hgnd. pose proof (ref_w0 md m _ Hr) as Hgw0.
  pose proof (ref_valid md m _ Hr) as Hval. pose proof (ref_cells md m _ Hr) as Hcells.
  pose proof (ref_exact md m _ Hr) as Hex.
  unfold adm_sparse in Hadm. destruct st as [a g]. rewrite Hfd in Hadm. cbn [fst snd] in *.
  apply andb_true_iff in Hadm. destruct Hadm as [Ha Hs]. bsplit Hs.
  rewrite Hidx in Hs. apply negb_true_iff in Hs. apply N.eqb_eq in Hs0.
  pose proof (inv_index _ _ Hinv) as Hii. unfold index_inv in Hii.
  destruct (s_index m) as [ix|] eqn:Eix; [|congruence].
  destruct (sm_freeze_ok md m col ix Hinv Eix Hs0) as
    [m' [Hfz [Hinv' [Fh [Fw [Fnd [Flr [Fpr [Flc [Fpc [Fdis [Fix [Fval [Hrowk Hbit]]]]]]]]]]]]]].
  exists m'. split; [exact Hfz|].
  pose proof (inv_w _ _ Hinv) as Hww. pose proof (inv_nd _ _ Hinv) as Hnd.
  unfold ss_step. cbn [fst snd bm_step sg_step]. unfold bm_hint_column_dense_and_frozen.
  constructor; cbn [fst snd g_nd g_w0 g_indexed g_stale]; try congruence.
  - rewrite Fnd, Hgnd. lia.
  - intros E. rewrite Fval. apply Hval. exact E.
  - intros i j Hi Hj Hd. rewrite (Hcells i j Hi Hj Hd). unfold sm_bitn. symmetry. apply Hbit; lia.
  - intros ix' c p Hix' Hc Hst Hin. rewrite Fix, Eix in Hix'. inversion Hix'; subst ix'.
    rewrite Flc in *. unfold sfd in Hc. rewrite Fw, Fnd in Hc.
    assert (Hc' : c < sfd m) by (unfold sfd in *; lia).
    destruct Hii as [_ [_ [_ [Hlists _]]]].
    assert (Hcw : c < W0 m) by (unfold sfd in *; lia).
    pose proof (l2p_col_lt md m Hinv c Hcw) as Hpc.
    destruct (Hlists _ Hpc) as [_ Hrng]. rewrite Forall_forall in Hrng.
    rewrite Hrowk by (apply Hrng; exact Hin).
    rewrite (Hex ix c p Eix Hc' Hst Hin). cbn [andb].
    rewrite (perm_l2p_inj _ _ _ c col (inv_colmaps _ _ Hinv)) by (unfold sfd in *; lia).
    assert (E : (c =? col) = false) by (apply N.eqb_neq; unfold sfd in *; lia). rewrite E. reflexivity.
Qed.

(* the pinned code (before the repair): with no dense word yet, the final assert_eq!(dest, 0)
   fails whenever the matrix has a row *)
Lemma freeze_pinned_panics md m i : sm_inv md m -> s_disabled m = false -> i + 1 = sfd m ->
  s_nd m = 0 -> sm_freeze_gen false md m i = Panic PAssert.
Proof.
  intros Hinv Hdis Hi Hnd0.
  pose proof (inv_index _ _ Hinv) as Hii. unfold index_inv in Hii.
  destruct (s_index m) as [ix|] eqn:Eix; [|congruence]. destruct Hii as [_ [_ [Hwh _]]].
  pose proof (inv_w _ _ Hinv) as Hw. pose proof (inv_h _ _ Hinv) as Hh24. pose proof (inv_nd _ _ Hinv) as Hnd.
  assert (Hh : 0 < s_height m) by (unfold sfd in *; lia).
  destruct (inv_dense _ _ Hinv) as [Hlen _].
  assert (Hl0 : s_dense m = []).
  { rewrite Hnd0 in Hlen. change (ceil_div 0 64) with 0 in Hlen. destruct (s_dense m); [reflexivity|]. cbn [length] in Hlen. lia. }
  unfold sm_freeze_gen. rewrite (fd_ok md m Hinv). cbn [obind].
  rewrite sub_w_ok by lia. cbn [obind].
  assert (E1 : (sfd m - 1 =? i) = true) by (apply N.eqb_eq; lia). rewrite E1. cbn [assert_ok obind].
  rewrite Hdis. cbn [negb assert_ok obind]. sfields. rewrite Hnd0, Hl0.
  change (sm_rww (set_nd m (0 + 1))) with 1. change (sm_word_offset (set_nd m (0 + 1)) (0 + 1 - 1)) with 0.
  change (2 ^ 24) with 16777216 in Hh24.
  rewrite sub_w_ok by lia. cbn [obind].
  rewrite mul_w_ok by (change (2 ^ 64) with 18446744073709551616; lia). cbn [obind].
  rewrite add_w_ok by (change (2 ^ 64) with 18446744073709551616; lia). cbn [obind].
  cbn [length N.of_nat N.leb N.compare app]. cbn [andb].
  cbn [respace N.ltb N.compare obind N.eqb assert_ok]. rewrite repeat_length.
  assert (E2 : (N.of_nat (N.to_nat (s_height m)) =? 0) = false) by (apply N.eqb_neq; lia).
  rewrite E2.
  assert (E3 : (0 <=? (s_height m - 1) * 1 + 0) = true) by (apply N.leb_le; lia).
  rewrite E3. reflexivity.
Qed.
