(* C01 for one source block, stated on the model functions sbe_new / sbe_source_packets /
   sbe_repair_packets / sbd_new / sbd_decode: instantiates Proofs/SoundProofs.v with the block
   encoder that Model/Encoder.v builds. *)
From Coq Require Import NArith List Bool Lia Arith.
From RQ Require Import Base.Outcome Base.Ints Base.ListX Gen.Consts Gen.SysTables Spec.Linear Spec.Layout Spec.Tuple
  Model.Octet Model.FieldFast Model.SysConst Model.Tuple Model.CMatrix Model.Layout Model.Slab
  Model.Encoder Model.Decoder
  Proofs.LinearProofs Proofs.LinearInst Proofs.SysConstProofs Proofs.C15Sweep1 Proofs.C15Proofs
  Proofs.LayoutLists Proofs.LayoutProofs
  Proofs.OutcomeLemmas Proofs.RowParams Proofs.EncoderProofs Proofs.EncIdxNoDup Proofs.RowSem
  Proofs.SoundProofs.
Import ListNotations.
Open Scope N_scope.

(* what the block encoder e hands out: a source packet, or a packet of any repair window it
   accepts (the repaired repair_packets refuses windows beyond the 24-bit id space, so nothing can
   wrap) *)
Definition enc_produces (m : mode) (e : sb_encoder) (p : packet) : Prop :=
  (exists l, sbe_source_packets e = Ok l /\ In p l) \/
  (exists s n l, sbe_repair_packets m e s n = Ok l /\ In p l).

Lemma Forall_firstn' {A} (P : A -> Prop) n : forall l, Forall P l -> Forall P (firstn n l).
Proof. induction n as [|n IH]; intros [|a l] F; cbn; try constructor; inversion F; subst; auto. Qed.

Lemma Forall_skipn' {A} (P : A -> Prop) n : forall l, Forall P l -> Forall P (skipn n l).
Proof. induction n as [|n IH]; intros [|a l] F; cbn; try constructor; inversion F; subst; auto. Qed.

Lemma Forall_symr {A} (P : A -> Prop) lens : forall (B : list A) K m,
  Forall P B -> Forall P (symr B K lens m).
Proof.
  induction lens as [|b rest IH]; intros B K m HB; cbn [symr]; [constructor|].
  apply Forall_app. split.
  - apply Forall_firstn', Forall_skipn'. exact HB.
  - apply IH. apply Forall_skipn'. exact HB.
Qed.

(* the block encoder made by sbe_new, with everything the abstract development needs *)
Record enc_ctx (m : mode) (c : cfg) (id : N) (blk : list N) (e : sb_encoder)
       (K K' J S H W P1 : N) : Prop := {
  ec_po : params_of K K' J S H W P1;
  ec_id : sbe_id e = id;
  ec_len : lenN (sbe_syms e) = K;
  ec_wf : wf_mat (N.to_nat (cT c)) (sbe_syms e);
  ec_gen : gen_intermediate_symbols m (sbe_syms e) (N.to_nat (cT c)) = Ok (sbe_C e);
  ec_blk : block_from_all_source c K (sbe_syms e) = Ok blk;
  ec_T : 0 < cT c;
  ec_syms : create_symbols c blk = Ok (sbe_syms e)
}.

Lemma sbe_new_ctx m c data id K blk e : cfg_ok c data -> lenN blk = K * cT c ->
  Forall (fun b => b < 256) blk -> sbe_new m id c blk = Ok e ->
  exists K' J S H W P1, enc_ctx m c id blk e K K' J S H W P1.
Proof.
  intros OK HB Hbytes E. unfold sbe_new in E. oinvas E as syms0 E0. oinvas E as C0 E1. injection E as <-.
  cbn [sbe_id sbe_syms sbe_C].
  pose proof (create_symbols_ok c data OK blk K HB) as CS. rewrite CS in E0. injection E0 as <-.
  set (syms := map (symr blk (N.to_nat K) (lens_of c)) (seq 0 (N.to_nat K))) in *.
  assert (Hlen : lenN syms = K) by (unfold syms, lenN; rewrite map_length, seq_length; lia).
  assert (X : exists Kp, extended_source_block_symbols K = Ok Kp).
  { pose proof E1 as E2. unfold gen_intermediate_symbols in E2. rewrite Hlen in E2. oinvas E2 as sp0 E3.
    unfold sys_params in E3. oinvas E3 as Kp0 E4. eauto. }
  destruct X as [K' X]. destruct (params_of_ext _ _ X) as [J [S [H [W [P1 PO]]]]].
  destruct (cfg_facts c data OK) as (HT & _).
  exists K', J, S, H, W, P1. constructor; cbn [sbe_id sbe_syms sbe_C]; try assumption; try reflexivity.
  - unfold wf_mat. apply Forall_forall. intros s Hs. unfold syms in Hs. apply in_map_iff in Hs.
    destruct Hs as [i [<- Hi]]. apply in_seq in Hi. split.
    + rewrite symr_length; rewrite ?(lens_sum c data OK); unfold lenN in HB; lia.
    + apply Forall_symr. exact Hbytes.
  - apply (unpack_inverts_create c data OK K blk syms HB CS).
Qed.

Section Ctx.
Variables (m : mode) (c : cfg) (id : N) (blk : list N) (e : sb_encoder) (K K' J S H W P1 : N).
Hypothesis EC : enc_ctx m c id blk e K K' J S H W P1.
Variables ldpc hdpc : list (list N).
Hypothesis HWF : MatWF m K.
Hypothesis HRS : rows_spec m K (the_sp K' J S H W P1) ldpc hdpc.

Let PO := ec_po _ _ _ _ _ _ _ _ _ _ _ _ EC.
Let syms := sbe_syms e.
Let C := sbe_C e.
Let T := N.to_nat (cT c).

Lemma ctx_Cwf : wf_mat T C.
Proof. exact (HCwf m c K K' J S H W P1 PO syms C ldpc hdpc (ec_len _ _ _ _ _ _ _ _ _ _ _ _ EC)
                (ec_wf _ _ _ _ _ _ _ _ _ _ _ _ EC) HWF HRS (ec_gen _ _ _ _ _ _ _ _ _ _ _ _ EC)). Qed.

Lemma ctx_CL : lenN C = K' + S + H.
Proof. exact (HCL m c K K' J S H W P1 PO syms C ldpc hdpc (ec_len _ _ _ _ _ _ _ _ _ _ _ _ EC)
                (ec_wf _ _ _ _ _ _ _ _ _ _ _ _ EC) HWF HRS (ec_gen _ _ _ _ _ _ _ _ _ _ _ _ EC)). Qed.

(* every packet the encoder produces is a packet in the sense of the abstract development *)
Lemma produced_block_packet p : enc_produces m e p ->
  block_packet m c id K K' J S H W P1 syms C p.
Proof.
  pose proof (ec_len _ _ _ _ _ _ _ _ _ _ _ _ EC) as Hlen. pose proof (ec_id _ _ _ _ _ _ _ _ _ _ _ _ EC) as Hid.
  pose proof (po_le _ _ _ _ _ _ _ PO) as HKK. pose proof ctx_Cwf as HCw. pose proof ctx_CL as HCl.
  intros [[l [El Hin]]|[s [n [l [El Hin]]]]].
  - unfold sbe_source_packets in El. destruct (source_packets_inv _ _ _ El) as [S1 [S2 S3]].
    destruct (In_nth l p ((0, 0), []) Hin) as [k [Hk Ek]].
    assert (Hkl : (k < length (sbe_syms e))%nat) by (rewrite <- S2, map_length; exact Hk).
    assert (E1 : fst p = (sbe_id e, N.of_nat k)).
    { rewrite <- Ek. change (fst (nth k l (0, 0, []))) with (fst (nth k l ((0, 0), @nil N))).
      rewrite <- (map_nth fst l ((0, 0), []) k), S1.
      rewrite (nth_indep _ (fst (0, 0, [])) ((fun i => (sbe_id e, i)) 0)) by (rewrite map_length, rangeN_length; exact Hkl).
      rewrite (map_nth (fun i => (sbe_id e, i))), rangeN_nth by exact Hkl. reflexivity. }
    assert (E2 : snd p = nth k (sbe_syms e) []).
    { rewrite <- Ek. rewrite <- (map_nth snd l ((0, 0), []) k), S2. reflexivity. }
    split; [rewrite E1; exact Hid|]. left. rewrite E1. cbn [snd]. unfold lenN in Hlen.
    split; [lia|]. rewrite Nat2N.id. exact E2.
  - apply repair_ok_iff in El. destruct El as [Hb24 El]. rewrite Hlen in Hb24.
    destruct (inside_no_wrap K K' J S H W P1 s n PO Hb24) as [_ Hb].
    destruct (In_nth l p ((0, 0), []) Hin) as [k [Hk Ek]].
    assert (PO' : params_of (lenN (sbe_syms e)) K' J S H W P1) by (rewrite Hlen; exact PO).
    destruct (window_nth m e K' J S H W P1 PO' s n l El) as [Hl Hn].
    pose proof (Hn (N.of_nat k) ((0, 0), []) ltac:(lia)) as B. rewrite Nat2N.id, Ek in B.
    apply rp_body_inv in B. destruct B as [t [I1 [I2 [I3 I4]]]]. rewrite Hlen in I1, I2, I4.
    set (i := N.of_nat k) in *. assert (Hi : i < n) by (unfold i; lia).
    rewrite N.mod_small in I1, I2 by lia. rewrite N.mod_small in I3 by lia.
    split; [rewrite I1; exact Hid|]. right. rewrite I1. cbn [snd].
    assert (HX : K + s + i + (K' - K) = s + K' + i) by lia.
    assert (HX32 : s + K' + i < 2 ^ 32) by lia.
    assert (RH : rhs_ok m c K' J S H W P1 C (K + s + i + (K' - K)) (snd p)).
    { intros r Er. rewrite HX in Er. symmetry.
      exact (enc_into_is_row m K K' J S H W P1 PO T C HCw HCl _ r t (snd p) HX32 Er I3 I4). }
    split; [lia|]. split; [exact RH|].
    destruct (enc_row_ok m K K' J S H W P1 PO (s + K' + i) HX32) as [r Er].
    rewrite <- HX in Er. rewrite <- (RH r Er).
    apply (lincomb_length fmul T r C HCw).
Qed.

End Ctx.

(* ---- the block-level statements of C01 ---- *)

Lemma RowsOK_at m K K' J S H W P1 : params_of K K' J S H W P1 -> RowsOK m K ->
  exists ldpc hdpc, rows_spec m K (the_sp K' J S H W P1) ldpc hdpc.
Proof. intros PO R. exact (R _ (po_sys_params _ _ _ _ _ _ _ PO)). Qed.

(* (a) *)
Theorem encoder_solves m c data id K blk e :
  cfg_ok c data -> lenN blk = K * cT c -> Forall (fun b => b < 256) blk ->
  sbe_new m id c blk = Ok e -> MatWF m K -> RowsOK m K ->
  exists sp bin hdpc,
    sys_params K = Ok sp /\
    generate_constraint_matrix m K (rangeN (N.to_nat (spK sp))) = Ok (bin, hdpc) /\
    let A := full_matrix (spS sp) (spH sp) bin hdpc in
    solves fmul (N.to_nat (cT c)) A (sbe_C e) (create_d sp (sbe_syms e) (N.to_nat (cT c))) /\
    wf_mat (N.to_nat (spL sp)) A /\ length A = N.to_nat (spL sp) /\
    length (sbe_C e) = N.to_nat (spL sp) /\ wf_mat (N.to_nat (cT c)) (sbe_C e).
Proof.
  intros OK HB Hb E HWF HR.
  destruct (sbe_new_ctx m c data id K blk e OK HB Hb E) as [K' [J [S [H [W [P1 EC]]]]]].
  pose proof (ec_po _ _ _ _ _ _ _ _ _ _ _ _ EC) as PO.
  destruct (RowsOK_at m K K' J S H W P1 PO HR) as [ldpc [hdpc HRS]].
  pose proof (ec_gen _ _ _ _ _ _ _ _ _ _ _ _ EC) as G.
  destruct (enc_solves m c K K' J S H W P1 PO (sbe_syms e) (sbe_C e) ldpc hdpc
              (ec_len _ _ _ _ _ _ _ _ _ _ _ _ EC) (ec_wf _ _ _ _ _ _ _ _ _ _ _ _ EC) HWF HRS G)
    as [rows [ER [SV [WA [HL HC]]]]].
  pose proof G as G'. unfold gen_intermediate_symbols in G'.
  rewrite (ec_len _ _ _ _ _ _ _ _ _ _ _ _ EC), (po_sys_params _ _ _ _ _ _ _ PO) in G'. cbn [obind] in G'.
  oinvas G' as [bin hd] EG. clear G'.
  assert (HIS : isis_ok (rangeN (N.to_nat (spK (the_sp K' J S H W P1))))).
  { apply Forall_forall. intros x Hx. apply rangeN_in in Hx. rewrite N2Nat.id in Hx.
    change (spK (the_sp K' J S H W P1)) with K' in Hx. pose proof (po_K'_lt K K' J S H W P1 PO). lia. }
  destruct HRS as [Hl1 [Hl2 [R1 _]]]. destruct (R1 _ _ _ HIS EG) as [-> [rows' [ER' ->]]].
  change (spK (the_sp K' J S H W P1)) with K' in ER'. rewrite ER in ER'. injection ER' as <-.
  eexists (the_sp K' J S H W P1), _, hdpc. split; [exact (po_sys_params _ _ _ _ _ _ _ PO)|].
  split; [exact EG|]. cbv zeta.
  rewrite full_matrix_shape by (try apply repeat_length; assumption).
  change (spL (the_sp K' J S H W P1)) with (K' + S + H).
  split; [exact SV|]. split; [exact WA|]. split; [|split; assumption].
  pose proof (omapM_length _ _ _ ER) as Hrl. rewrite rangeN_length in Hrl.
  change (spS (the_sp K' J S H W P1)) with S in Hl1. change (spH (the_sp K' J S H W P1)) with H in Hl2.
  rewrite !app_length. lia.
Qed.

(* (e) *)
Theorem block_sound m c data id K blk e :
  cfg_ok c data -> lenN blk = K * cT c -> Forall (fun b => b < 256) blk ->
  sbe_new m id c blk = Ok e -> MatWF m K -> RowsOK m K ->
  exists d0, sbd_new id c (K * cT c) = Ok d0 /\
    forall bs rs d', Forall (Forall (enc_produces m e)) bs ->
      run_batches m d0 bs = Ok (rs, d') -> Forall (fun r => r = None \/ r = Some blk) rs.
Proof.
  intros OK HB Hb E HWF HR.
  destruct (sbe_new_ctx m c data id K blk e OK HB Hb E) as [K' [J [S [H [W [P1 EC]]]]]].
  pose proof (ec_po _ _ _ _ _ _ _ _ _ _ _ _ EC) as PO.
  destruct (RowsOK_at m K K' J S H W P1 PO HR) as [ldpc [hdpc HRS]].
  destruct (sbd_new_ok m c id K K' J S H W P1 PO (sbe_syms e) (sbe_C e)
              (ec_len _ _ _ _ _ _ _ _ _ _ _ _ EC) (ec_T _ _ _ _ _ _ _ _ _ _ _ _ EC)) as [d0 [E0 I0]].
  exists d0. split; [exact E0|]. intros bs rs d' F R.
  refine (proj1 (run_batches_sound m c id K K' J S H W P1 PO (sbe_syms e) (sbe_C e) ldpc hdpc
            (ec_len _ _ _ _ _ _ _ _ _ _ _ _ EC) (ec_wf _ _ _ _ _ _ _ _ _ _ _ _ EC) HWF HRS
            (ec_gen _ _ _ _ _ _ _ _ _ _ _ _ EC) blk (ec_blk _ _ _ _ _ _ _ _ _ _ _ _ EC)
            (ec_T _ _ _ _ _ _ _ _ _ _ _ _ EC) bs d0 rs d' I0 _ R)).
  eapply Forall_impl; [|exact F]. intros b Fb. eapply Forall_impl; [|exact Fb].
  intros p Hp. exact (produced_block_packet m c id blk e K K' J S H W P1 EC ldpc hdpc HWF HRS p Hp).
Qed.

(* ... and never panics, provided the matrix generators do not *)
Theorem block_no_panic m c data id K blk e :
  cfg_ok c data -> lenN blk = K * cT c -> Forall (fun b => b < 256) blk ->
  sbe_new m id c blk = Ok e -> MatWF m K -> RowsOK m K -> GenTotal m K ->
  forall d0, sbd_new id c (K * cT c) = Ok d0 ->
    forall bs, Forall (Forall (enc_produces m e)) bs -> exists rs d', run_batches m d0 bs = Ok (rs, d').
Proof.
  intros OK HB Hb E HWF HR HGT d0 E0 bs F.
  destruct (sbe_new_ctx m c data id K blk e OK HB Hb E) as [K' [J [S [H [W [P1 EC]]]]]].
  pose proof (ec_po _ _ _ _ _ _ _ _ _ _ _ _ EC) as PO.
  destruct (RowsOK_at m K K' J S H W P1 PO HR) as [ldpc [hdpc HRS]].
  destruct (sbd_new_ok m c id K K' J S H W P1 PO (sbe_syms e) (sbe_C e)
              (ec_len _ _ _ _ _ _ _ _ _ _ _ _ EC) (ec_T _ _ _ _ _ _ _ _ _ _ _ _ EC)) as [d0' [E0' I0]].
  rewrite E0 in E0'. injection E0' as <-.
  refine (run_batches_total m c id K K' J S H W P1 PO (sbe_syms e) (sbe_C e) ldpc hdpc
            (ec_len _ _ _ _ _ _ _ _ _ _ _ _ EC) (ec_wf _ _ _ _ _ _ _ _ _ _ _ _ EC) HWF HRS
            (ec_gen _ _ _ _ _ _ _ _ _ _ _ _ EC) blk (ec_blk _ _ _ _ _ _ _ _ _ _ _ _ EC)
            (ec_T _ _ _ _ _ _ _ _ _ _ _ _ EC) HGT bs d0 I0 _).
  eapply Forall_impl; [|exact F]. intros b Fb. eapply Forall_impl; [|exact Fb].
  intros p Hp. exact (produced_block_packet m c id blk e K K' J S H W P1 EC ldpc hdpc HWF HRS p Hp).
Qed.

(* (f) *)
Theorem block_complete m c data id K blk e :
  cfg_ok c data -> lenN blk = K * cT c -> Forall (fun b => b < 256) blk ->
  sbe_new m id c blk = Ok e -> MatWF m K -> RowsOK m K ->
  forall d0, sbd_new id c (K * cT c) = Ok d0 ->
  forall bs b rs d1, Forall (Forall (enc_produces m e)) (bs ++ [b]) ->
    run_batches m d0 bs = Ok (rs, d1) ->
    (forall i, i < K -> exists p, In p (concat (bs ++ [b])) /\ snd (fst p) = i) ->
    exists d2, sbd_decode m d1 b = Ok (Some blk, d2).
Proof.
  intros OK HB Hb E HWF HR d0 E0 bs b rs d1 F R Hall.
  destruct (sbe_new_ctx m c data id K blk e OK HB Hb E) as [K' [J [S [H [W [P1 EC]]]]]].
  pose proof (ec_po _ _ _ _ _ _ _ _ _ _ _ _ EC) as PO.
  destruct (RowsOK_at m K K' J S H W P1 PO HR) as [ldpc [hdpc HRS]].
  destruct (sbd_new_ok m c id K K' J S H W P1 PO (sbe_syms e) (sbe_C e)
              (ec_len _ _ _ _ _ _ _ _ _ _ _ _ EC) (ec_T _ _ _ _ _ _ _ _ _ _ _ _ EC)) as [d0' [E0' I0]].
  rewrite E0 in E0'. injection E0' as <-.
  assert (F' : Forall (Forall (block_packet m c id K K' J S H W P1 (sbe_syms e) (sbe_C e))) (bs ++ [b])).
  { eapply Forall_impl; [|exact F]. intros b0 Fb. eapply Forall_impl; [|exact Fb].
    intros p Hp. exact (produced_block_packet m c id blk e K K' J S H W P1 EC ldpc hdpc HWF HRS p Hp). }
  apply Forall_app in F'. destruct F' as [F1 F2]. pose proof (Forall_inv F2) as Fb.
  pose proof (ec_len _ _ _ _ _ _ _ _ _ _ _ _ EC) as HL. pose proof (ec_wf _ _ _ _ _ _ _ _ _ _ _ _ EC) as HW.
  pose proof (ec_gen _ _ _ _ _ _ _ _ _ _ _ _ EC) as HG. pose proof (ec_blk _ _ _ _ _ _ _ _ _ _ _ _ EC) as HBk.
  pose proof (ec_T _ _ _ _ _ _ _ _ _ _ _ _ EC) as HT.
  destruct (run_batches_sound m c id K K' J S H W P1 PO _ _ ldpc hdpc HL HW HWF HRS HG blk HBk HT
              bs d0 rs d1 I0 F1 R) as [_ I1].
  destruct (run_deliver m c id K K' J S H W P1 PO _ _ ldpc hdpc HL HW HWF HRS HG blk HBk HT
              bs d0 rs d1 I0 F1 R) as [_ D1].
  apply (sbd_decode_complete m c id K K' J S H W P1 PO _ _ HL blk HBk HT d1 b I1 Fb).
  intros i Hi. destruct (Hall i Hi) as [p [Hp Ep]]. rewrite concat_app in Hp. apply in_app_or in Hp.
  destruct Hp as [Hp|Hp].
  - left. rewrite <- Ep. apply D1; [exact Hp | rewrite Ep; exact Hi].
  - right. cbn [concat] in Hp. rewrite app_nil_r in Hp. eauto.
Qed.

(* ---- packaged form for the object level ---- *)

Definition blk_ok (m : mode) (c : cfg) (id : N) (blk : list N) (e : sb_encoder) (K : N)
           (sd : sb_decoder) : Prop :=
  exists K' J S H W P1 ldpc hdpc,
    enc_ctx m c id blk e K K' J S H W P1 /\
    rows_spec m K (the_sp K' J S H W P1) ldpc hdpc /\
    sbd_inv m c id K K' J S H W P1 (sbe_syms e) (sbe_C e) sd.

Lemma blk_ok_init m c data id K blk e sd :
  cfg_ok c data -> lenN blk = K * cT c -> Forall (fun b => b < 256) blk ->
  sbe_new m id c blk = Ok e -> RowsOK m K -> sbd_new id c (K * cT c) = Ok sd ->
  blk_ok m c id blk e K sd /\ (forall i, ~ have sd i).
Proof.
  intros OK HB Hb E HR E0.
  destruct (sbe_new_ctx m c data id K blk e OK HB Hb E) as [K' [J [S [H [W [P1 EC]]]]]].
  pose proof (ec_po _ _ _ _ _ _ _ _ _ _ _ _ EC) as PO.
  destruct (RowsOK_at m K K' J S H W P1 PO HR) as [ldpc [hdpc HRS]].
  destruct (sbd_new_ok m c id K K' J S H W P1 PO (sbe_syms e) (sbe_C e)
              (ec_len _ _ _ _ _ _ _ _ _ _ _ _ EC) (ec_T _ _ _ _ _ _ _ _ _ _ _ _ EC)) as [d0' [E0' I0]].
  rewrite E0 in E0'. injection E0' as <-. split.
  - exists K', J, S, H, W, P1, ldpc, hdpc. auto.
  - intros i Hh. unfold sbd_new in E0. oinvas E0 as k Ek. injection E0 as <-. unfold have in Hh.
    cbn [sbd_src] in Hh. apply Hh. destruct (Nat.lt_ge_cases (N.to_nat i) (N.to_nat k)) as [Hlt|Hge].
    + apply nth_repeat'. exact Hlt.
    + apply nth_overflow. rewrite repeat_length. exact Hge.
Qed.

Lemma blk_ok_decode m c id blk e K sd b r sd' : MatWF m K ->
  blk_ok m c id blk e K sd -> Forall (enc_produces m e) b -> sbd_decode m sd b = Ok (r, sd') ->
  (r = None \/ r = Some blk) /\ blk_ok m c id blk e K sd' /\
  (forall i, have sd i -> have sd' i) /\
  (forall p, In p b -> snd (fst p) < K -> have sd' (snd (fst p))) /\
  ((forall i, i < K -> have sd' i) -> r = Some blk).
Proof.
  intros HWF [K' [J [S [H [W [P1 [ldpc [hdpc [EC [HRS I]]]]]]]]]] F E.
  pose proof (ec_po _ _ _ _ _ _ _ _ _ _ _ _ EC) as PO.
  pose proof (ec_len _ _ _ _ _ _ _ _ _ _ _ _ EC) as HL. pose proof (ec_wf _ _ _ _ _ _ _ _ _ _ _ _ EC) as HW.
  pose proof (ec_gen _ _ _ _ _ _ _ _ _ _ _ _ EC) as HG. pose proof (ec_blk _ _ _ _ _ _ _ _ _ _ _ _ EC) as HBk.
  pose proof (ec_T _ _ _ _ _ _ _ _ _ _ _ _ EC) as HT.
  assert (F' : Forall (block_packet m c id K K' J S H W P1 (sbe_syms e) (sbe_C e)) b).
  { eapply Forall_impl; [|exact F]. intros p Hp.
    exact (produced_block_packet m c id blk e K K' J S H W P1 EC ldpc hdpc HWF HRS p Hp). }
  destruct (sbd_decode_sound m c id K K' J S H W P1 PO _ _ ldpc hdpc HL HW HWF HRS HG blk HBk HT
              sd b r sd' I F' E) as [Hr I'].
  destruct (decode_deliver m c id K K' J S H W P1 PO _ _ HL HT sd b r sd' I F' E) as [M D].
  split; [exact Hr|]. split; [exists K', J, S, H, W, P1, ldpc, hdpc; auto|].
  split; [exact M|]. split; [exact D|].
  exact (sbd_decode_all_have m c id K K' J S H W P1 PO _ _ HL blk HBk HT sd b r sd' I F' E).
Qed.

Lemma blk_ok_total m c id blk e K sd b : MatWF m K -> GenTotal m K ->
  blk_ok m c id blk e K sd -> Forall (enc_produces m e) b ->
  exists r sd', sbd_decode m sd b = Ok (r, sd').
Proof.
  intros HWF HGT [K' [J [S [H [W [P1 [ldpc [hdpc [EC [HRS I]]]]]]]]]] F.
  pose proof (ec_po _ _ _ _ _ _ _ _ _ _ _ _ EC) as PO.
  pose proof (ec_len _ _ _ _ _ _ _ _ _ _ _ _ EC) as HL. pose proof (ec_wf _ _ _ _ _ _ _ _ _ _ _ _ EC) as HW.
  pose proof (ec_gen _ _ _ _ _ _ _ _ _ _ _ _ EC) as HG. pose proof (ec_blk _ _ _ _ _ _ _ _ _ _ _ _ EC) as HBk.
  pose proof (ec_T _ _ _ _ _ _ _ _ _ _ _ _ EC) as HT.
  assert (F' : Forall (block_packet m c id K K' J S H W P1 (sbe_syms e) (sbe_C e)) b).
  { eapply Forall_impl; [|exact F]. intros p Hp.
    exact (produced_block_packet m c id blk e K K' J S H W P1 EC ldpc hdpc HWF HRS p Hp). }
  exact (sbd_decode_total m c id K K' J S H W P1 PO _ _ ldpc hdpc HL HW HWF HRS HG blk HBk HT HGT sd b I F').
Qed.

Lemma blk_ok_packet_id m c id blk e K sd p : MatWF m K ->
  blk_ok m c id blk e K sd -> enc_produces m e p -> fst (fst p) = id /\ sbe_id e = id.
Proof.
  intros HWF [K' [J [S [H [W [P1 [ldpc [hdpc [EC [HRS I]]]]]]]]]] Hp.
  pose proof (produced_block_packet m c id blk e K K' J S H W P1 EC ldpc hdpc HWF HRS p Hp) as [X _].
  split; [exact X | exact (ec_id _ _ _ _ _ _ _ _ _ _ _ _ EC)].
Qed.

(* (c) on the model functions *)
Theorem source_is_enc m c data id K blk e :
  cfg_ok c data -> lenN blk = K * cT c -> Forall (fun b => b < 256) blk ->
  sbe_new m id c blk = Ok e -> MatWF m K -> RowsOK m K ->
  exists sp, sys_params K = Ok sp /\ K <= spK sp /\
    (forall i, i < K ->
       rebuild_source_symbol m sp (sbe_C e) i = Ok (nth (N.to_nat i) (sbe_syms e) [])) /\
    (forall i, K <= i < spK sp ->
       rebuild_source_symbol m sp (sbe_C e) i = Ok (repeat 0 (N.to_nat (cT c)))) /\
    (forall p, enc_produces m e p -> K <= snd (fst p) ->
       snd (fst p) < 16777216 /\ length (snd p) = N.to_nat (cT c) /\
       forall r, enc_row m sp (snd (fst p) + (spK sp - K)) = Ok r ->
         lincomb fmul (N.to_nat (cT c)) r (sbe_C e) = snd p).
Proof.
  intros OK HB Hb E HWF HR.
  destruct (sbe_new_ctx m c data id K blk e OK HB Hb E) as [K' [J [S [H [W [P1 EC]]]]]].
  pose proof (ec_po _ _ _ _ _ _ _ _ _ _ _ _ EC) as PO.
  destruct (RowsOK_at m K K' J S H W P1 PO HR) as [ldpc [hdpc HRS]].
  pose proof (ec_len _ _ _ _ _ _ _ _ _ _ _ _ EC) as HL. pose proof (ec_wf _ _ _ _ _ _ _ _ _ _ _ _ EC) as HW.
  pose proof (ec_gen _ _ _ _ _ _ _ _ _ _ _ _ EC) as HG.
  exists (the_sp K' J S H W P1). split; [exact (po_sys_params _ _ _ _ _ _ _ PO)|].
  split; [exact (po_le _ _ _ _ _ _ _ PO)|].
  split; [intros i Hi; exact (rebuild_ok m c K K' J S H W P1 PO _ _ ldpc hdpc HL HW HWF HRS HG i Hi)|].
  split; [intros i Hi; exact (rebuild_pad m c K K' J S H W P1 PO _ _ ldpc hdpc HL HW HWF HRS HG i Hi)|].
  intros p Hp Hge.
  destruct (produced_block_packet m c id blk e K K' J S H W P1 EC ldpc hdpc HWF HRS p Hp) as [_ [[X _]|[R1 [R2 R3]]]];
    [lia|]. split; [lia|]. split; [exact R3 | exact R2].
Qed.

(* (d) on the model functions: d1 is any state reached by feeding packets of the encoder *)
Theorem true_solution_solves_received m c data id K blk e :
  cfg_ok c data -> lenN blk = K * cT c -> Forall (fun b => b < 256) blk ->
  sbe_new m id c blk = Ok e -> MatWF m K -> RowsOK m K ->
  forall d0 bs rs d pkts d1, sbd_new id c (K * cT c) = Ok d0 ->
    Forall (Forall (enc_produces m e)) bs -> run_batches m d0 bs = Ok (rs, d) ->
    Forall (enc_produces m e) pkts -> ofold (fun p d => sbd_add m d p) pkts d = Ok d1 ->
  exists sp, sys_params K = Ok sp /\
    let T := N.to_nat (cT c) in
    let npad := spK sp - K in
    let isis := map fst (present_sources d1) ++ map (fun i => K + i) (rangeN (N.to_nat npad))
                ++ map (fun r => fst r + npad) (sbd_rep d1) in
    let body := map snd (present_sources d1) ++ repeat (repeat 0 T) (N.to_nat npad)
                ++ map snd (sbd_rep d1) in
    (forall bin hd, generate_constraint_matrix m K isis = Ok (bin, hd) ->
       solves fmul T (full_matrix (spS sp) (spH sp) bin hd) (sbe_C e)
              (repeat (repeat 0 T) (N.to_nat (spS sp + spH sp)) ++ body) /\
       wf_mat (N.to_nat (spL sp)) (full_matrix (spS sp) (spH sp) bin hd)) /\
    (forall A, generate_constraint_matrix_no_hdpc m K isis = Ok A ->
       solves fmul T A (sbe_C e) (repeat (repeat 0 T) (N.to_nat (spS sp)) ++ body) /\
       wf_mat (N.to_nat (spL sp)) A) /\
    length (sbe_C e) = N.to_nat (spL sp) /\ wf_mat T (sbe_C e).
Proof.
  intros OK HB Hb E HWF HR d0 bs rs d pkts d1 E0 F R Fp EA.
  destruct (sbe_new_ctx m c data id K blk e OK HB Hb E) as [K' [J [S [H [W [P1 EC]]]]]].
  pose proof (ec_po _ _ _ _ _ _ _ _ _ _ _ _ EC) as PO.
  destruct (RowsOK_at m K K' J S H W P1 PO HR) as [ldpc [hdpc HRS]].
  pose proof (ec_len _ _ _ _ _ _ _ _ _ _ _ _ EC) as HL. pose proof (ec_wf _ _ _ _ _ _ _ _ _ _ _ _ EC) as HW.
  pose proof (ec_gen _ _ _ _ _ _ _ _ _ _ _ _ EC) as HG. pose proof (ec_blk _ _ _ _ _ _ _ _ _ _ _ _ EC) as HBk.
  pose proof (ec_T _ _ _ _ _ _ _ _ _ _ _ _ EC) as HT.
  destruct (sbd_new_ok m c id K K' J S H W P1 PO (sbe_syms e) (sbe_C e) HL HT) as [d0' [E0' I0]].
  rewrite E0 in E0'. injection E0' as <-.
  assert (F' : Forall (Forall (block_packet m c id K K' J S H W P1 (sbe_syms e) (sbe_C e))) bs).
  { eapply Forall_impl; [|exact F]. intros b0 Fb. eapply Forall_impl; [|exact Fb].
    intros p Hp. exact (produced_block_packet m c id blk e K K' J S H W P1 EC ldpc hdpc HWF HRS p Hp). }
  assert (Fp' : Forall (block_packet m c id K K' J S H W P1 (sbe_syms e) (sbe_C e)) pkts).
  { eapply Forall_impl; [|exact Fp].
    intros p Hp. exact (produced_block_packet m c id blk e K K' J S H W P1 EC ldpc hdpc HWF HRS p Hp). }
  destruct (run_batches_sound m c id K K' J S H W P1 PO _ _ ldpc hdpc HL HW HWF HRS HG blk HBk HT
              bs d0 rs d I0 F' R) as [_ I1].
  destruct (sbd_add_all_ok m c id K K' J S H W P1 PO _ _ HL HT pkts d I1 Fp') as [d1' [EA' I2]].
  rewrite EA in EA'. injection EA' as <-.
  exists (the_sp K' J S H W P1). split; [exact (po_sys_params _ _ _ _ _ _ _ PO)|]. cbv zeta.
  destruct (dec_systems m c id K K' J S H W P1 PO _ _ ldpc hdpc HL HW HWF HRS HG HT d1 I2) as [D1 D2].
  split; [exact D1|]. split; [exact D2|].
  destruct (enc_facts m c K K' J S H W P1 PO _ _ ldpc hdpc HL HW HWF HRS HG) as [X1 [X2 _]].
  split; assumption.
Qed.
