(* Proofs about Model/SparseMatrix.v, part 3: preservation of the refinement relation [srefines]
   (Proofs/SparseMatrixProofs.v) by new / set / swap_rows / swap_columns / enable / disable, and
   the answer of get, for operations admissible in the sense of Spec/SparseAdm.v. *)
From Coq Require Import NArith ZArith List Bool Lia Arith Sorted ZifyBool ZifyN.
From RQ Require Import Base.Outcome Base.Ints Base.ListX Spec.BitMatrix Spec.SparseAdm
  Model.DenseMatrix Model.SparseMatrix Proofs.DenseBits Proofs.DenseMatrixProofs Proofs.DenseQueries
  Proofs.DenseSeq Proofs.SparseVecProofs Proofs.SparseMatrixProofs.
Import ListNotations.
Open Scope N_scope.

Lemma updb_upd l i v : updb l i v = upd l i v.
Proof. revert i. induction l as [|x t IH]; intros [|i]; cbn [updb upd]; try reflexivity. rewrite IH. reflexivity. Qed.

Lemma nth_swapb l i j k d : (i < length l)%nat -> (j < length l)%nat ->
  nth k (swapb l i j) d = nth (swp i j k) l d.
Proof.
  intros Hi Hj. unfold swapb. rewrite !updb_upd. rewrite nth_upd by (rewrite upd_length; exact Hj).
  rewrite nth_upd by exact Hi. unfold swp.
  destruct (Nat.eqb k j) eqn:E1.
  - apply Nat.eqb_eq in E1. subst k. destruct (Nat.eqb j i) eqn:E2.
    + apply Nat.eqb_eq in E2. subst j. apply nth_indep. exact Hi.
    + apply nth_indep. exact Hi.
  - destruct (Nat.eqb k i) eqn:E2; [|reflexivity]. apply nth_indep. exact Hj.
Qed.

Lemma swapb_length l i j : length (swapb l i j) = length l.
Proof. unfold swapb. rewrite !updb_upd, !upd_length. reflexivity. Qed.

Lemma map_upd {A B} (f : A -> B) l i v : map f (upd l i v) = upd (map f l) i (f v).
Proof. revert i. induction l as [|x t IH]; intros [|i]; cbn [upd map]; try reflexivity. rewrite IH. reflexivity. Qed.

Lemma sfd_nat md m st : srefines md m st -> ss_fd st = N.to_nat (sfd m).
Proof.
  intros H. unfold ss_fd, sfd. rewrite (ref_w _ _ _ H), (ref_nd _ _ _ H). lia.
Qed.

Lemma fd_N md m st : srefines md m st -> N.of_nat (ss_fd st) = sfd m.
Proof. intros H. rewrite (sfd_nat md m st H). lia. Qed.

(* ---------------- new ---------------- *)

Lemma ssim_new md h w hint : adm_sparse_new h w hint = true ->
  exists m, sm_new md h w hint = Ok m /\
    srefines md m (ss_new (N.to_nat h) (N.to_nat w) (N.to_nat hint)) /\
    sm_abs m = bm_new (N.to_nat h) (N.to_nat w).
Proof.
  intros Hadm. unfold adm_sparse_new in Hadm. bsplit Hadm.
  change 16777216 with (2 ^ 24) in Hadm. change 65536 with (2 ^ 16) in Hadm1.
  destruct (sm_new_ok md h w hint) as [m [Hn [Hinv [Hh [Hw [Hnd [Hdis [Hlen [Hval Hbit]]]]]]]]]; try lia.
  exists m. split; [exact Hn|]. split.
  - unfold ss_new. constructor; cbn [fst snd g_nd g_w0 g_indexed g_stale bm_new bm_make bh bw].
    + exact Hinv.
    + congruence.
    + congruence.
    + congruence.
    + congruence.
    + rewrite Hdis. reflexivity.
    + rewrite repeat_length. congruence.
    + intros E. rewrite (Hval E). clear. induction (N.to_nat w); cbn [repeat map negb]; congruence.
    + intros i j Hi Hj _. unfold bm_new. rewrite bm_make_get by assumption.
      unfold sm_bitn. rewrite Hbit. reflexivity.
    + intros ix c p Hix. rewrite (index_none md m Hinv Hdis) in Hix. discriminate.
  - unfold sm_abs, bm_new. rewrite Hh, Hw. apply bm_make_ext; intros; [apply Hbit | reflexivity].
Qed.

(* ---------------- frame lemma for the exactness of the index ---------------- *)

Lemma index_exact_frame md m m' stale : sm_inv md m -> same_frame m m' ->
  (s_disabled m = false -> s_rows m' = s_rows m) ->
  index_exact m stale -> index_exact m' stale.
Proof.
  intros Hinv [Hh [Hw [Hnd [_ [_ [Hl [_ [Hd [_ Hi]]]]]]]]] Hrows Hex ix c p Hix Hc Hst Hin.
  rewrite Hi in Hix.
  assert (Hdis : s_disabled m = false).
  { pose proof (inv_index _ _ Hinv) as H. unfold index_inv in H. rewrite Hix in H. apply H. }
  unfold sfd in Hc. rewrite Hw, Hnd in Hc. rewrite Hl in *.
  unfold rowk. rewrite (Hrows Hdis). apply (Hex ix c p Hix Hc Hst Hin).
Qed.

(* ---------------- set ---------------- *)

Lemma ssim_set md m st i j v : srefines md m st -> adm_sparse st (OSet i j v) = true ->
  exists m', sm_set md m i j v = Ok m' /\ srefines md m' (fst (ss_step st (OSet i j v))).
Proof.
  intros Hr Hadm. pose proof (fd_N md m st Hr) as Hfd. destruct st as [a g].
  unfold adm_sparse in Hadm. rewrite Hfd in Hadm. cbn [fst snd] in *.
  destruct Hr as [Hinv Hh Hw Hnd Hw0 Hidx Hsl Hval Hc Hex]. cbn [fst snd] in *.
  apply andb_true_iff in Hadm. destruct Hadm as [Ha Hs]. cbn [adm] in Ha. rewrite Hh, Hw, !N2Nat.id in Ha.
  bsplit Ha.
  destruct (sm_set_ok md m i j v Hinv) as [m' [Hset [Hinv' [Hfr [Hrows Hb]]]]]; try lia.
  exists m'. split; [exact Hset|].
  pose proof Hfr as [Fh [Fw [Fnd [_ [_ [Fl [_ [Fd [Fv _]]]]]]]]].
  unfold ss_step. cbn [fst snd bm_step sg_step]. unfold bm_set.
  constructor; cbn [fst snd bm_make bh bw]; try congruence.
  - intros E. rewrite Fv. apply Hval. exact E.
  - intros r c Hrr Hcc Hd. rewrite bm_make_def in Hd by assumption. rewrite bm_make_get by assumption.
    unfold sm_bitn. rewrite Hb by lia. rewrite !eqb_nat_N.
    destruct (Nat.eqb r (N.to_nat i) && Nat.eqb c (N.to_nat j)); [reflexivity|]. apply Hc; assumption.
  - apply (index_exact_frame md m m' _ Hinv Hfr Hrows Hex).
Qed.

(* ---------------- get ---------------- *)

Lemma ssim_get md m st i j : srefines md m st -> adm_sparse st (OGet i j) = true ->
  sm_get md m i j = Ok (b2n (bm_get (fst st) (N.to_nat i) (N.to_nat j))).
Proof.
  intros Hr Hadm. destruct st as [a g]. unfold adm_sparse in Hadm. cbn [fst snd] in *.
  destruct Hr as [Hinv Hh Hw Hnd Hw0 Hidx Hsl Hval Hc Hex]. cbn [fst snd] in *.
  rewrite andb_true_r in Hadm. cbn [adm] in Hadm. rewrite Hh, Hw, !N2Nat.id in Hadm. bsplit Hadm.
  rewrite sm_get_ok by (try assumption; lia). rewrite Hc by (try assumption; lia).
  unfold sm_bitn. rewrite !N2Nat.id. reflexivity.
Qed.

(* ---------------- swap_rows ---------------- *)

Lemma ssim_swap_rows md m st i j : srefines md m st -> adm_sparse st (OSwapRows i j) = true ->
  exists m', sm_swap_rows md m i j = Ok m' /\ srefines md m' (fst (ss_step st (OSwapRows i j))).
Proof.
  intros Hr Hadm. destruct st as [a g]. unfold adm_sparse in Hadm. cbn [fst snd] in *.
  destruct Hr as [Hinv Hh Hw Hnd Hw0 Hidx Hsl Hval Hc Hex]. cbn [fst snd] in *.
  rewrite andb_true_r in Hadm. cbn [adm] in Hadm. rewrite Hh, !N2Nat.id in Hadm. bsplit Hadm.
  destruct (sm_swap_rows_ok md m i j Hinv) as [l2p [p2l [Hs [Hinv' Hb]]]]; try lia.
  eexists. split; [exact Hs|].
  unfold ss_step. cbn [fst snd bm_step sg_step]. unfold bm_swap_rows.
  constructor; cbn [fst snd bm_make bh bw]; sfields; try assumption.
  - intros r c Hrr Hcc Hd. rewrite bm_make_def in Hd by assumption. rewrite bm_make_get by assumption.
    unfold sm_bitn. rewrite Hb. rewrite <- swp_nat_N. apply Hc; try assumption. apply swp_lt; lia.
Qed.

(* ---------------- swap_columns ---------------- *)

Lemma ssim_swap_columns md m st i j hint : srefines md m st ->
  adm_sparse st (OSwapCols i j hint) = true ->
  exists m', sm_swap_columns md m i j hint = Ok m' /\
    srefines md m' (fst (ss_step st (OSwapCols i j hint))).
Proof.
  intros Hr Hadm. pose proof (fd_N md m st Hr) as Hfd. destruct st as [a g].
  unfold adm_sparse in Hadm. rewrite Hfd in Hadm. cbn [fst snd] in *.
  destruct Hr as [Hinv Hh Hw Hnd Hw0 Hidx Hsl Hval Hc Hex]. cbn [fst snd] in *.
  apply andb_true_iff in Hadm. destruct Hadm as [Ha Hs]. cbn [adm] in Ha. bsplit Ha. bsplit Hs.
  rewrite Hw, N2Nat.id in Ha, Ha1.
  pose proof (inv_w _ _ Hinv) as Hww. pose proof (inv_nd _ _ Hinv) as Hndw.
  destruct (sm_swap_columns_ok md m i j hint Hinv) as [l2p [p2l [Hsw [Hinv' [Hlen [Ef Hb]]]]]]; try lia.
  eexists. split; [exact Hsw|].
  assert (Hil : (N.to_nat i < length (g_stale g))%nat) by (unfold sfd, W0 in *; lia).
  assert (Hjl : (N.to_nat j < length (g_stale g))%nat) by (unfold sfd, W0 in *; lia).
  unfold ss_step. cbn [fst snd bm_step sg_step]. unfold bm_swap_columns.
  constructor; cbn [fst snd bm_make bh bw g_nd g_w0 g_indexed g_stale]; sfields; try assumption; try congruence.
  - rewrite swapb_length. congruence.
  - intros E. subst md. cbn [swap_valid]. rewrite (Hval eq_refl).
    unfold swapb. rewrite !updb_upd, !map_upd. f_equal; [f_equal|].
    + rewrite (nth_indep _ false (negb false)) by (rewrite map_length; exact Hjl). apply map_nth.
    + rewrite (nth_indep _ false (negb false)) by (rewrite map_length; exact Hil). apply map_nth.
  - intros r c Hrr Hcc Hd. rewrite bm_make_def in Hd by assumption. rewrite bm_make_get by assumption.
    unfold sm_bitn. rewrite Hb. rewrite <- swp_nat_N.
    assert (Hsw' : (swp (N.to_nat i) (N.to_nat j) c < bw a)%nat) by (apply swp_lt; lia).
    apply Hc; assumption.
  - intros ix c p Hix Hcfd Hst Hin. sfields_in Hix. unfold sfd in Hcfd. sfields_in Hcfd. fold (sfd m) in Hcfd.
    unfold rowk. sfields. fold (rowk m p). rewrite Ef in *.
    rewrite nth_swapb in Hst by assumption.
    assert (Hsn : swp (N.to_nat i) (N.to_nat j) (N.to_nat c) = N.to_nat (swpN i j c)).
    { pose proof (swp_nat_N i j (N.to_nat c)) as Hx. rewrite N2Nat.id in Hx. lia. }
    rewrite Hsn in Hst. apply (Hex ix (swpN i j c) p Hix); try assumption.
    apply swpN_lt; lia.
Qed.

(* ---------------- enable / disable ---------------- *)

Lemma map_negb_repeat n : map negb (repeat false n) = repeat true n.
Proof. induction n as [|n IH]; cbn [repeat map negb]; congruence. Qed.

Lemma ssim_enable md m st : srefines md m st -> adm_sparse st OEnableAccel = true ->
  exists m', sm_enable_column_access_acceleration md m = Ok m' /\
    srefines md m' (fst (ss_step st OEnableAccel)).
Proof.
  intros Hr Hadm. destruct st as [a g].
  unfold adm_sparse in Hadm. cbn [fst snd] in *.
  destruct Hr as [Hinv Hh Hw Hnd Hw0 Hidx Hsl Hval Hc Hex]. cbn [fst snd] in *.
  cbn [adm andb] in Hadm. bsplit Hadm. rewrite Hw0, Hh, N2Nat.id in Hadm, Hadm0. fold (W0 m) in Hadm, Hadm0.
  pose proof (inv_w _ _ Hinv) as Hww. pose proof (inv_nd _ _ Hinv) as Hndw.
  destruct (sm_enable_ok md m Hinv) as [ix [He [Hinv' Hexact]]]; try lia.
  eexists. split; [exact He|].
  unfold ss_step. cbn [fst snd bm_step sg_step]. unfold bm_enable_column_access_acceleration.
  constructor; cbn [fst snd g_nd g_w0 g_indexed g_stale]; sfields; try assumption; try reflexivity.
  - rewrite repeat_length. exact Hsl.
  - intros E. subst md. cbn [enable_valid]. rewrite map_negb_repeat. f_equal.
    rewrite (inv_valid _ _ Hinv eq_refl). symmetry. exact Hsl.
  - intros ix' c' p Hix Hcfd Hst Hin. sfields_in Hix. inversion Hix; subst ix'.
    unfold rowk. sfields. fold (rowk m p). apply Hexact; [|exact Hin].
    apply (l2p_col_lt md m Hinv). unfold sfd in Hcfd. sfields_in Hcfd. lia.
Qed.

Lemma ssim_disable md m st : srefines md m st -> adm_sparse st ODisableAccel = true ->
  exists m', sm_disable_column_access_acceleration md m = Ok m' /\
    srefines md m' (fst (ss_step st ODisableAccel)).
Proof.
  intros Hr _. destruct st as [a g].
  destruct Hr as [Hinv Hh Hw Hnd Hw0 Hidx Hsl Hval Hc Hex]. cbn [fst snd] in *.
  destruct (sm_disable_ok md m Hinv) as [Hd Hinv'].
  eexists. split; [exact Hd|].
  unfold ss_step. cbn [fst snd bm_step sg_step]. unfold bm_disable_column_access_acceleration.
  constructor; cbn [fst snd g_nd g_w0 g_indexed g_stale]; sfields; try assumption; try reflexivity.
  intros ix c p Hix. sfields_in Hix. discriminate.
Qed.
