(* List / byte-vector lemmas used by the kernel proofs: map2, chunks (firstn / skipn), the
   "mix" buffer invariant of an in-place loop, the outcome fold, little-endian (de)composition. *)
From Coq Require Import NArith ZArith List Bool Arith Lia ZifyBool ZifyN ZifyNat.
From RQ Require Import Base.Outcome Base.Ints Base.ListX Base.Vec.
Import ListNotations.
Ltac Zify.zify_post_hook ::= Z.div_mod_to_equations.

(* ---------------------------------------------------------------- generic lists *)

Lemma firstn_add {A} (l : list A) : forall p w, firstn (p + w) l = firstn p l ++ firstn w (skipn p l).
Proof.
  induction l as [|x t IH]; intros [|p] w; cbn [Nat.add firstn skipn app]; try reflexivity.
  - now rewrite firstn_nil.
  - f_equal. apply IH.
Qed.

Lemma nth_firstn_lt {A} (d : A) : forall n i (l : list A), (i < n)%nat -> nth i (firstn n l) d = nth i l d.
Proof.
  induction n as [|n IH]; intros i l H; [lia|].
  destruct l as [|x t]; [destruct i; reflexivity|].
  destruct i as [|i]; cbn [firstn nth]; [reflexivity|]. apply IH. lia.
Qed.

Lemma nth_skipn {A} (d : A) : forall p i (l : list A), nth i (skipn p l) d = nth (p + i) l d.
Proof.
  induction p as [|p IH]; intros i l; [reflexivity|].
  destruct l as [|x t]; [destruct i; reflexivity|]. cbn [skipn Nat.add nth]. apply IH.
Qed.

Lemma nth_error_skipn {A} : forall p i (l : list A), nth_error (skipn p l) i = nth_error l (p + i).
Proof.
  induction p as [|p IH]; intros i l; [reflexivity|].
  destruct l as [|x t]; [destruct i; reflexivity|]. cbn [skipn Nat.add nth_error]. apply IH.
Qed.

Lemma skipn_add {A} : forall p q (l : list A), skipn q (skipn p l) = skipn (p + q) l.
Proof.
  induction p as [|p IH]; intros q l; [reflexivity|].
  destruct l as [|x t]; [now rewrite !skipn_nil|]. cbn [skipn Nat.add]. apply IH.
Qed.

Lemma firstn_S_nth {A} (d : A) : forall p (l : list A), (p < length l)%nat ->
  firstn (S p) l = firstn p l ++ [nth p l d].
Proof.
  induction p as [|p IH]; intros [|x t] H; cbn [length] in H; try lia; [reflexivity|].
  cbn [firstn nth app]. f_equal. apply IH. lia.
Qed.

Lemma skipn_nth_S {A} (d : A) : forall p (l : list A), (p < length l)%nat ->
  skipn p l = nth p l d :: skipn (S p) l.
Proof.
  induction p as [|p IH]; intros [|x t] H; cbn [length] in H; try lia; [reflexivity|].
  cbn [skipn nth]. rewrite (IH t) by lia. reflexivity.
Qed.

Lemma nth_ok_nth {A} (d : A) (l : list A) i : (i < length l)%nat -> nth_ok l i = Ok (nth i l d).
Proof. intros H. unfold nth_ok. rewrite (nth_error_nth' l i d H). reflexivity. Qed.

Lemma nth_ok_or_default (l : list N) i v : nth_ok l i = Ok v -> nth i l 0%N = v.
Proof.
  unfold nth_ok. destruct (nth_error l i) eqn:E; [|discriminate]. intros H. inversion H; subst.
  apply nth_error_nth. exact E.
Qed.

Lemma nth_ok_lt {A} (l : list A) i v : nth_ok l i = Ok v -> (i < length l)%nat.
Proof.
  unfold nth_ok. destruct (nth_error l i) eqn:E; [|discriminate]. intros _.
  apply nth_error_Some. congruence.
Qed.

Lemma Forall_firstn {A} (P : A -> Prop) : forall n (l : list A), Forall P l -> Forall P (firstn n l).
Proof.
  induction n as [|n IH]; intros l H; [constructor|].
  destruct H; cbn [firstn]; constructor; auto.
Qed.

Lemma Forall_skipn {A} (P : A -> Prop) : forall n (l : list A), Forall P l -> Forall P (skipn n l).
Proof.
  induction n as [|n IH]; intros l H; [exact H|]. destruct H; cbn [skipn]; [constructor|auto].
Qed.

Lemma Forall_nth {A} (P : A -> Prop) (d : A) (l : list A) i :
  Forall P l -> (i < length l)%nat -> P (nth i l d).
Proof. intros H Hi. rewrite Forall_forall in H. apply H. apply nth_In. exact Hi. Qed.

Lemma seq_S_r a k : seq a (S k) = seq a k ++ [(a + k)%nat].
Proof. apply seq_S. Qed.

(* ---------------------------------------------------------------- map2 *)

Lemma map2_length {A B C} (f : A -> B -> C) : forall l1 l2,
  length (map2 f l1 l2) = Nat.min (length l1) (length l2).
Proof. induction l1 as [|a t IH]; intros [|b t2]; cbn [map2 length Nat.min]; auto. Qed.

Lemma map2_length_eq {A B C} (f : A -> B -> C) l1 l2 :
  length l1 = length l2 -> length (map2 f l1 l2) = length l1.
Proof. intros H. rewrite map2_length. lia. Qed.

Lemma map2_app {A B C} (f : A -> B -> C) : forall l1 l2 r1 r2, length l1 = length l2 ->
  map2 f (l1 ++ r1) (l2 ++ r2) = map2 f l1 l2 ++ map2 f r1 r2.
Proof.
  induction l1 as [|a t IH]; intros [|b t2] r1 r2 H; cbn [length] in H; try discriminate.
  - reflexivity.
  - cbn [app map2]. f_equal. apply IH. lia.
Qed.

Lemma firstn_map2 {A B C} (f : A -> B -> C) : forall n l1 l2,
  firstn n (map2 f l1 l2) = map2 f (firstn n l1) (firstn n l2).
Proof.
  induction n as [|n IH]; intros [|a t] [|b t2]; cbn [firstn map2]; try reflexivity.
  f_equal. apply IH.
Qed.

Lemma skipn_map2 {A B C} (f : A -> B -> C) : forall n l1 l2,
  skipn n (map2 f l1 l2) = map2 f (skipn n l1) (skipn n l2).
Proof.
  induction n as [|n IH]; intros [|a t] [|b t2]; cbn [skipn map2]; try reflexivity.
  - destruct (skipn n t); reflexivity.
  - apply IH.
Qed.

Lemma nth_map2 {A B C} (f : A -> B -> C) da db dc : forall i l1 l2,
  (i < length l1)%nat -> (i < length l2)%nat -> nth i (map2 f l1 l2) dc = f (nth i l1 da) (nth i l2 db).
Proof.
  induction i as [|i IH]; intros [|a t] [|b t2] H1 H2; cbn [length] in *; try lia; cbn [map2 nth].
  - reflexivity.
  - apply IH; lia.
Qed.

Lemma map2_map_l {A A' B C} (f : A' -> B -> C) (g : A -> A') : forall l1 l2,
  map2 f (map g l1) l2 = map2 (fun a b => f (g a) b) l1 l2.
Proof. induction l1 as [|a t IH]; intros [|b t2]; cbn [map map2]; try reflexivity. f_equal. apply IH. Qed.

Lemma map2_map_r {A B B' C} (f : A -> B' -> C) (g : B -> B') : forall l1 l2,
  map2 f l1 (map g l2) = map2 (fun a b => f a (g b)) l1 l2.
Proof. induction l1 as [|a t IH]; intros [|b t2]; cbn [map map2]; try reflexivity. f_equal. apply IH. Qed.

Lemma map2_diag {A C} (f : A -> A -> C) : forall l, map2 f l l = map (fun a => f a a) l.
Proof. induction l as [|a t IH]; cbn [map map2]; [reflexivity|]. f_equal. exact IH. Qed.

Lemma map2_repeat_r {A B C} (f : A -> B -> C) (m : B) : forall n l, (length l <= n)%nat ->
  map2 f l (repeat m n) = map (fun a => f a m) l.
Proof.
  induction n as [|n IH]; intros [|a t] H; cbn [length] in H; try lia; cbn [repeat map2 map]; try reflexivity.
  f_equal. apply IH. lia.
Qed.

Lemma map2_ext_in {A B C} (f g : A -> B -> C) (P : A -> Prop) (Q : B -> Prop) : forall l1 l2,
  Forall P l1 -> Forall Q l2 -> (forall a b, P a -> Q b -> f a b = g a b) -> map2 f l1 l2 = map2 g l1 l2.
Proof.
  induction l1 as [|a t IH]; intros [|b t2] H1 H2 E; cbn [map2]; try reflexivity.
  inversion H1; inversion H2; subst. f_equal; [apply E; assumption | apply IH; assumption].
Qed.

Lemma Forall_map2 {A B C} (f : A -> B -> C) (P : A -> Prop) (Q : B -> Prop) (R : C -> Prop) : forall l1 l2,
  Forall P l1 -> Forall Q l2 -> (forall a b, P a -> Q b -> R (f a b)) -> Forall R (map2 f l1 l2).
Proof.
  induction l1 as [|a t IH]; intros [|b t2] H1 H2 E; cbn [map2]; try constructor.
  - inversion H1; inversion H2; subst. apply E; assumption.
  - inversion H1; inversion H2; subst. apply IH; assumption.
Qed.

(* ---------------------------------------------------------------- the outcome fold *)

Lemma ofold_loop {T} (step : T -> nat -> outcome T) (St : nat -> T) : forall k a,
  (forall i, (a <= i < a + k)%nat -> step (St i) i = Ok (St (S i))) ->
  ofold step (seq a k) (St a) = Ok (St (a + k)%nat).
Proof.
  induction k as [|k IH]; intros a H; cbn [seq ofold].
  - rewrite Nat.add_0_r. reflexivity.
  - rewrite (H a) by lia. rewrite IH.
    + f_equal. f_equal. lia.
    + intros i Hi. apply H. lia.
Qed.

Lemma ofold_range {T} (step : T -> nat -> outcome T) (St : nat -> T) a b : (a <= b)%nat ->
  (forall i, (a <= i < b)%nat -> step (St i) i = Ok (St (S i))) ->
  ofold step (range a b) (St a) = Ok (St b).
Proof.
  intros Hab H. unfold range. rewrite ofold_loop.
  - f_equal. f_equal. lia.
  - intros i Hi. apply H. lia.
Qed.

(* ---------------------------------------------------------------- the in-place loop invariant *)

(* the first p bytes already hold the final result `spec`, the rest still is the input `dest` *)
Definition mix (spec dest : list N) (p : nat) : list N := firstn p spec ++ skipn p dest.

Lemma mix_0 spec dest : mix spec dest 0 = dest.
Proof. reflexivity. Qed.

Lemma mix_all spec dest p : length spec = length dest -> (length dest <= p)%nat -> mix spec dest p = spec.
Proof.
  intros HL Hp. unfold mix. rewrite firstn_all2 by lia. rewrite skipn_all2 by lia. apply app_nil_r.
Qed.

Lemma mix_length spec dest p : length spec = length dest -> length (mix spec dest p) = length dest.
Proof. intros HL. unfold mix. rewrite app_length, firstn_length, skipn_length. lia. Qed.

Lemma mix_firstn spec dest p : (p <= length spec)%nat -> firstn p (mix spec dest p) = firstn p spec.
Proof.
  intros H. unfold mix. rewrite firstn_app, firstn_length, firstn_firstn.
  replace (Nat.min p p) with p by lia. replace (p - Nat.min p (length spec))%nat with O by lia.
  cbn [firstn]. apply app_nil_r.
Qed.

Lemma mix_skipn spec dest p q : (p <= length spec)%nat -> skipn (p + q) (mix spec dest p) = skipn (p + q) dest.
Proof.
  intros H. unfold mix. rewrite skipn_app, firstn_length.
  rewrite (skipn_all2 (firstn p spec)) by (rewrite firstn_length; lia).
  replace (p + q - Nat.min p (length spec))%nat with q by lia.
  rewrite skipn_add. cbn [app]. reflexivity.
Qed.

Lemma mix_chunk spec dest p w : length spec = length dest -> (p <= length dest)%nat ->
  firstn w (skipn p (mix spec dest p)) = firstn w (skipn p dest).
Proof.
  intros HL Hp. f_equal. replace p with (p + 0)%nat at 1 by lia. rewrite mix_skipn by lia.
  f_equal. lia.
Qed.

Lemma mix_store spec dest p w : length spec = length dest -> (p + w <= length dest)%nat ->
  firstn p (mix spec dest p) ++ firstn w (skipn p spec) ++ skipn (p + w) (mix spec dest p)
  = mix spec dest (p + w).
Proof.
  intros HL Hp. rewrite mix_firstn by lia. rewrite mix_skipn by lia.
  unfold mix. rewrite firstn_add, app_assoc. reflexivity.
Qed.

Lemma mix_nth spec dest p : length spec = length dest -> (p < length dest)%nat ->
  nth p (mix spec dest p) 0%N = nth p dest 0%N.
Proof.
  intros HL Hp. unfold mix. rewrite app_nth2; rewrite firstn_length; [|lia].
  replace (p - Nat.min p (length spec))%nat with O by lia. rewrite nth_skipn. f_equal. lia.
Qed.

Lemma mix_set spec dest p : length spec = length dest -> (p < length dest)%nat ->
  firstn p (mix spec dest p) ++ nth p spec 0%N :: skipn (S p) (mix spec dest p) = mix spec dest (S p).
Proof.
  intros HL Hp. rewrite mix_firstn by lia.
  replace (S p) with (p + 1)%nat at 1 by lia. rewrite mix_skipn by lia.
  unfold mix. rewrite (firstn_S_nth 0%N) by lia. rewrite <- app_assoc. cbn [app].
  do 3 f_equal. lia.
Qed.

(* ---------------------------------------------------------------- little-endian values *)
Open Scope N_scope.

Lemma bytes_firstn n l : bytes l -> bytes (firstn n l).
Proof. apply Forall_firstn. Qed.
Lemma bytes_skipn n l : bytes l -> bytes (skipn n l).
Proof. apply Forall_skipn. Qed.
Lemma bytes_chunk w p l : bytes l -> bytes (firstn w (skipn p l)).
Proof. intros H. apply bytes_firstn, bytes_skipn, H. Qed.
Lemma bytes_nth l i : bytes l -> (i < length l)%nat -> nth i l 0 < 256.
Proof. intros H Hi. exact (Forall_nth _ 0 l i H Hi). Qed.

Lemma le_bytes_length n : forall v, length (le_bytes n v) = n.
Proof. induction n as [|n IH]; intros v; cbn [le_bytes length]; [reflexivity|]. now rewrite IH. Qed.

Lemma le_bytes_le_val : forall bs n, length bs = n -> bytes bs -> le_bytes n (le_val bs) = bs.
Proof.
  induction bs as [|b t IH]; intros n Hn Hb; subst n; cbn [length le_bytes le_val]; [reflexivity|].
  inversion Hb as [|? ? Hb1 Hb2]; subst.
  replace ((b + 256 * le_val t) mod 256) with b by lia.
  replace ((b + 256 * le_val t) / 256) with (le_val t) by lia.
  f_equal. apply IH; [reflexivity | assumption].
Qed.

Lemma lxor_mod_256 x y : (N.lxor x y) mod 256 = N.lxor (x mod 256) (y mod 256).
Proof.
  change 256 with (2 ^ 8). rewrite <- !N.land_ones. apply N.bits_inj. intros n.
  rewrite !N.land_spec, !N.lxor_spec, !N.land_spec.
  destruct (N.testbit x n), (N.testbit y n), (N.testbit (N.ones 8) n); reflexivity.
Qed.

Lemma lxor_div_256 x y : (N.lxor x y) / 256 = N.lxor (x / 256) (y / 256).
Proof. change 256 with (2 ^ 8). rewrite <- !N.shiftr_div_pow2. apply N.shiftr_lxor. Qed.

Lemma le_bytes_lxor n : forall x y, le_bytes n (N.lxor x y) = map2 N.lxor (le_bytes n x) (le_bytes n y).
Proof.
  induction n as [|n IH]; intros x y; cbn [le_bytes map2]; [reflexivity|].
  rewrite lxor_mod_256, lxor_div_256, IH. reflexivity.
Qed.

(* the unaligned-u64 xor is the byte-wise xor *)
Lemma u64_xor_bytes a b : length a = 8%nat -> length b = 8%nat -> bytes a -> bytes b ->
  le_bytes 8 (N.lxor (le_val a) (le_val b)) = map2 N.lxor a b.
Proof.
  intros La Lb Ba Bb. rewrite le_bytes_lxor.
  rewrite (le_bytes_le_val a 8 La Ba), (le_bytes_le_val b 8 Lb Bb). reflexivity.
Qed.
