(* Mode Checked maintains every cell: the stored matrix agrees with the logical matrix G on ALL columns
   (mode Release only on the columns >= i), hence the debug assertion first_phase_verify holds. *)
From Coq Require Import NArith List Bool Lia Arith.
From RQ Require Import Base.Outcome Base.Ints Base.ListX Model.Octet Model.CMatrix Model.Slab
  Spec.Linear Proofs.OutcomeLemmas Proofs.OctetProofs Proofs.LinearProofs Model.PiSolver
  Proofs.PiSolverBase Proofs.PiSolverStruct Proofs.PiSolverOps Proofs.PiSolverG Proofs.PiSolverInvDefs
  Proofs.PiSolverStats Proofs.PiSolverHist Proofs.PiSolverSwapCols Proofs.PiSolverCells Proofs.PiSolverPhase1.
Import ListNotations.
Open Scope N_scope.

(* ---- reflection helpers ---- *)
Lemma forallb_nth {A} (f : A -> bool) l d :
  (forall t, (t < length l)%nat -> f (nth t l d) = true) -> forallb f l = true.
Proof.
  intros H. apply forallb_forall. intros x Hx. destruct (In_nth _ _ d Hx) as [t [Ht <-]]. apply H, Ht.
Qed.

Lemma forallb_combine_seqN_from {A} (f : N * A -> bool) d : forall n l s,
  (forall t, (t < length l)%nat -> (t < n)%nat -> f (s + N.of_nat t, nth t l d) = true) ->
  forallb f (combine (seqN_from n s) l) = true.
Proof.
  induction n as [|n IH]; intros l s H; [reflexivity|]. destruct l as [|x l]; [reflexivity|].
  cbn [seqN_from combine forallb]. apply andb_true_intro. split.
  - specialize (H 0%nat). cbn [nth length] in H. replace (s + N.of_nat 0) with s in H by lia. apply H; lia.
  - apply IH. intros t Ht Hn. specialize (H (S t)). cbn [nth length] in H.
    replace (N.succ s + N.of_nat t) with (s + N.of_nat (S t)) by lia. apply H; lia.
Qed.

Lemma forallb_combine_seqN {A} (f : N * A -> bool) d n l :
  (forall k, k < n -> k < lenN l -> f (k, nth (N.to_nat k) l d) = true) ->
  forallb f (combine (seqN 0 n) l) = true.
Proof.
  intros H. unfold seqN. apply (forallb_combine_seqN_from f d). intros t Ht Hn.
  specialize (H (N.of_nat t)). rewrite Nat2N.id in H. apply H; unfold lenN; lia.
Qed.

Lemma all_zero_nth l : (forall t, (t < length l)%nat -> nth t l 0 = 0) -> all_zero l = true.
Proof. intros H. unfold all_zero. apply (forallb_nth _ l 0). intros t Ht. rewrite H by exact Ht. reflexivity. Qed.

Lemma all_zero_subl row a b : (forall j, a <= j < b -> nth (N.to_nat j) row 0 = 0) -> all_zero (subl row a b) = true.
Proof.
  intros H. apply all_zero_nth. intros t Ht. unfold subl in *. rewrite firstn_length in Ht.
  rewrite nth_firstn_lt by lia. rewrite nth_skipn'. specialize (H (a + N.of_nat t)).
  replace (N.to_nat (a + N.of_nat t)) with (N.to_nat a + t)%nat in H by lia. apply H. lia.
Qed.

Lemma all_zero_firstn row n : (forall j, j < n -> nth (N.to_nat j) row 0 = 0) -> all_zero (firstn (N.to_nat n) row) = true.
Proof.
  intros H. apply all_zero_nth. intros t Ht. rewrite firstn_length in Ht. rewrite nth_firstn_lt by lia.
  specialize (H (N.of_nat t)). rewrite Nat2N.id in H. apply H. lia.
Qed.

Lemma forallb_firstn_nth {A} (f : A -> bool) l n d :
  (forall t, (t < n)%nat -> (t < length l)%nat -> f (nth t l d) = true) -> forallb f (firstn n l) = true.
Proof.
  intros H. apply (forallb_nth _ _ d). intros t Ht. rewrite firstn_length in Ht. rewrite nth_firstn_lt by lia.
  apply H; lia.
Qed.

Lemma forallb_skipn_nth {A} (f : A -> bool) l n d :
  (forall t, (n <= t < length l)%nat -> f (nth t l d) = true) -> forallb f (skipn n l) = true.
Proof.
  intros H. apply (forallb_nth _ _ d). intros t Ht. rewrite skipn_length in Ht. rewrite nth_skipn'.
  apply H; lia.
Qed.


(* the Checked branch of fma_rows_with_pi: the cell of the HDPC row at the pivot column *)
Lemma fma_rows_with_pi_hdpc_col s i ip beta col pio s' h Wn :
  ps_hd s = Some h -> lenN h <= ps_height s -> ps_height s - lenN h <= ip ->
  Forall (fun r => lenN r = Wn) h -> ps_W s = Wn -> lenN pio <= Wn -> col < Wn - lenN pio ->
  fma_rows_with_pi Checked s i ip beta col pio = Ok s' ->
  cell (hd_rows s') (ip - (ps_height s - lenN h)) col =
    if negb (cell (ps_A s) i col =? 0) && negb (beta =? 0)
    then N.lxor (cell h (ip - (ps_height s - lenN h)) col) (mulN (cell (ps_A s) i col) beta)
    else cell h (ip - (ps_height s - lenN h)) col.
Proof.
  intros Eh Hle Hip Hrows HW Hpio Hcol H. unfold fma_rows_with_pi in H. oinvas H as s1 E1.
  destruct (record_fma_frame _ _ _ _ _ E1) as [EA [Eh1 [_ [_ [EW _]]]]].
  rewrite Eh1, Eh in H. unfold ps_height in *. rewrite EA in H.
  oinvas H as first Ef. apply usub_inv in Ef; [|assumption]. subst first.
  obind_inv H. apply N.ltb_lt in As.
  destruct (N.leb_spec (lenN (ps_A s) - lenN h) ip) as [_|Hlt]; [|lia].
  set (hr := ip - (lenN (ps_A s) - lenN h)) in *.
  oinvas H as row Er. oinvas H as row2 Er2. omon H. inversion H; subst s'. clear H.
  pose proof (getN_lt _ _ _ Er) as Lhr.
  destruct (getN_inv _ _ _ [] Er) as [_ Hrow].
  assert (Lrow : lenN row = Wn) by (subst row; apply (Forall_nth_N (fun r => lenN r = Wn)); assumption).
  rewrite EW, HW in E. apply usub_inv in E; [|assumption]. subst a.
  oinvas Er2 as mult Em. oinvas Er2 as v Ev.
  apply bm_get_cell in Em. destruct (getN_inv _ _ _ 0 Ev) as [_ Hv].
  destruct (putN_inv _ _ _ _ Er2) as [Lc ->].
  unfold fma_binary in E2. omon E2. inversion E2; subst a1. clear E2.
  destruct (putN_inv _ _ _ _ E3) as [_ ->].
  unfold hd_rows. cbn [set_hd ps_hd]. rewrite cell_upd_same by exact Lhr.
  rewrite app_nth1 by (rewrite firstn_length, upd_nth_length; unfold lenN in *; lia).
  rewrite nth_firstn_lt by lia. rewrite nth_upd_same by exact Lc.
  assert (Hv2 : v = cell h hr col) by (unfold cell, rowN; rewrite <- Hrow; exact Hv).
  rewrite <- Em, <- Hv2. reflexivity.
Qed.

Section FA.
Variable A0 : list (list N).
Variable M W Hn : N.
Hypothesis A0_wf : wf_mat (N.to_nat W) A0.
Hypothesis A0_len : lenN A0 = M.
Hypothesis W16 : W < 65536.
Hypothesis HM : Hn <= M.
Hypothesis M32 : M < 4294967296.
Local Notation G := (G A0).
Local Notation fp_inv := (fp_inv A0 M W Hn).

Record fa_inv (s : pstate) : Prop := mkFA {
  fa_A : forall k j, k + Hn < M -> j < W -> cell (ps_A s) k j = G s k j;
  fa_H : forall k j, k < Hn -> j < W -> cell (hd_rows s) k j = G s (M - Hn + k) j }.


Local Notation fp_inv_swap_rowsX := (fp_inv_swap_rows A0 M W Hn A0_len W16 HM M32).
Local Notation fp_inv_swap_cols_allX := (fp_inv_swap_cols_all A0 M W Hn A0_len W16 HM M32).
Local Notation fp_inv_swaps_allX := (fp_inv_swaps_all A0 M W Hn A0_len W16 HM M32).
Local Notation el_stepX := (el_step A0 M W Hn A0_wf A0_len W16 HM M32).
Local Notation el_loopX := (el_loop A0 M W Hn A0_wf A0_len W16 HM M32).
Local Notation hd_stepX := (hd_step A0 M W Hn A0_wf A0_len W16 HM M32).
Local Notation hd_loopX := (hd_loop A0 M W Hn A0_wf A0_len W16 HM M32).
Local Notation cnt_leX := (cnt_le A0 M W Hn A0_len W16 HM M32).
Local Notation inb_trueX := (inb_true A0 M Hn A0_len HM M32).
Local Notation el_inv := (el_inv A0 M W Hn).
Local Notation hd_inv := (hd_inv A0 M W Hn).

(* ---- a state that differs only in X, i, u ---- *)
Lemma fa_frame s s' : fa_inv s -> ps_A s' = ps_A s -> ps_hd s' = ps_hd s -> ps_d s' = ps_d s ->
  ps_c s' = ps_c s -> ps_ops s' = ps_ops s -> fa_inv s'.
Proof.
  intros F EA Eh Ed Ec Eo.
  assert (Gs : forall k j, G s' k j = G s k j) by (apply G_frame; assumption).
  assert (Ehr : hd_rows s' = hd_rows s) by (unfold hd_rows; rewrite Eh; reflexivity).
  destruct F as [FA FH]. constructor; intros k j Hk Hj; rewrite Gs, ?EA, ?Ehr; auto.
Qed.

(* ---- exchanging row i with a row of V ---- *)
Lemma fa_swap_rows m s st ch s1 : fp_inv s st -> fa_inv s -> ps_i s + Hn < M -> ch + Hn < M ->
  ps_swap_rows m s (ps_i s) ch = Ok s1 -> fa_inv s1.
Proof.
  intros I F HiM HchM Esw.
  destruct (ps_swap_rows_frame _ _ _ _ _ Esw) as (EA & Ed & Eh & _).
  destruct (bm_swap_rows_spec _ _ _ _ _ _ (fi_dims _ _ _ _ _ _ I) EA) as (D1 & Li & Lch & Hrows).
  assert (Gs : forall k j, G s1 k j = G s (trN (ps_i s) ch k) j) by (apply (G_swap_rows A0 m), Esw).
  assert (Ehr : hd_rows s1 = hd_rows s) by (unfold hd_rows; rewrite Eh; reflexivity).
  constructor.
  - intros k j Hk Hj. unfold cell. rewrite Hrows. fold (cell (ps_A s) (trN (ps_i s) ch k) j). rewrite Gs.
    apply (fa_A _ F); [|exact Hj]. unfold trN. destruct (k =? ps_i s); [lia|]. destruct (k =? ch); lia.
  - intros k j Hk Hj. rewrite Ehr, Gs. rewrite trN_other by lia. apply (fa_H _ F); assumption.
Qed.

(* ---- exchanging two columns of V ---- *)
Lemma fa_swap_cols_all m s st a b s' st' : fp_inv s st -> fa_inv s ->
  ps_i s <= a < W - ps_u s -> ps_i s <= b < W - ps_u s ->
  swap_cols_all m s st a b = Ok (s', st') -> fa_inv s'.
Proof.
  intros I F Ha Hb H. destruct (swap_cols_all_inv _ _ _ _ _ _ _ H) as (s1 & Esw & Est & EX).
  destruct (ps_swap_cols_frame _ _ _ _ _ Esw) as (EA & Ehd & Ec & Ed & EW & Ei & Eu & EL & Eo).
  destruct (onX_frame _ _ _ _ EX) as (EA' & Eh' & Ed' & Ec' & EW' & Ei' & Eu' & EL' & Eo').
  apply (fa_frame s1); try assumption.
  pose proof (fi_iu _ _ _ _ _ _ I) as Hiu.
  destruct (bm_swap_cols_spec _ _ _ _ _ _ _ (fi_dims _ _ _ _ _ _ I) EA) as [D1 Cs].
  assert (Gs : forall k j, G s1 k j = G s k (trN a b j)) by (intros k j; eapply (G_swap_cols A0); exact Esw).
  assert (HH3 : forall k j, k < Hn -> cell (hd_rows s1) k j = cell (hd_rows s) k (trN a b j)).
  { pose proof (fi_hlen _ _ _ _ _ _ I) as Hl. pose proof (fi_hrows _ _ _ _ _ _ I) as Hr. unfold hd_rows in *.
    destruct (ps_hd s) as [h|].
    - destruct Ehd as [h' [Eh1 Eh2]]. rewrite Eh2.
      destruct (bm_swap_cols_spec h Hn W a b 0 h' (conj Hl Hr) Eh1) as [[D2 D3] C2].
      intros k j Hk. rewrite (C2 k j Hk). destruct (N.leb_spec 0 k); [reflexivity | lia].
    - cbn in Hl. intros k j Hk. lia. }
  assert (HtrW : forall j, j < W -> trN a b j < W).
  { intros j Hj. apply (trN_range a b j 0 W); lia. }
  constructor.
  - intros k j Hk Hj. rewrite Gs, Cs by lia. destruct (N.leb_spec (ps_i s) k) as [Hik|Hik].
    + apply (fa_A _ F); auto.
    + rewrite (fa_A _ F) by assumption. unfold trN. destruct (N.eqb_spec j a) as [->|Hja].
      * rewrite !(fi_Z _ _ _ _ _ _ I) by lia. reflexivity.
      * destruct (N.eqb_spec j b) as [->|Hjb]; [|reflexivity]. rewrite !(fi_Z _ _ _ _ _ _ I) by lia. reflexivity.
  - intros k j Hk Hj. rewrite Gs, HH3 by exact Hk. apply (fa_H _ F); auto.
Qed.

Lemma fa_swaps_all m sw : forall s st s' st', fp_inv s st -> fa_inv s ->
  Forall (fun p => (ps_i s <= fst p < W - ps_u s) /\ (ps_i s <= snd p < W - ps_u s)) sw ->
  swaps_all m s st sw = Ok (s', st') -> fa_inv s'.
Proof.
  induction sw as [|[a b] t IH]; intros s st s' st' I F Fs H; cbn [swaps_all] in H.
  - injection H as <- _. exact F.
  - destruct (swap_cols_all m s st a b) as [[s1 st1]|] eqn:E1; [|discriminate].
    inversion Fs as [|x l [Ha Hb] Ft]; subst x l. cbn [fst snd] in *.
    destruct (fp_inv_swap_cols_allX _ _ _ _ _ _ _ I Ha Hb E1) as (I1 & Ei & Eu).
    pose proof (fa_swap_cols_all _ _ _ _ _ _ _ I F Ha Hb E1) as F1.
    apply (IH s1 st1 s' st' I1 F1); [rewrite Ei, Eu; exact Ft | exact H].
Qed.

(* ---- eliminating column i from the non-HDPC rows below the pivot, from column 0 ---- *)
Lemma fa_el_step r tv b ec done s st rops row s' st' rops' :
  ps_i b + Hn < M -> ps_i b <> row -> row + Hn < M ->
  el_inv b ec done s st ->
  (forall k j, k + Hn < M -> j < W -> cell (ps_A s) k j = G s k j) ->
  eliminate_row Checked r (ps_i b) tv row (s, st, rops) = Ok (s', st', rops') ->
  (forall k j, k + Hn < M -> j < W -> cell (ps_A s') k j = G s' k j).
Proof.
  intros HiM Hne HrowM E Hag H. unfold eliminate_row in H. omon H.
  match goal with X : Ok 0 = Ok ?v |- _ => assert (Hv0 : v = 0) by (inversion X; reflexivity); subst v; clear X end.
  match goal with X : fma_rows _ _ _ _ _ = Ok _ |- _ =>
    destruct (fma_rows_inv _ _ _ _ _ _ X) as (s1 & A' & Erec & Eadd & Es' & _) end.
  destruct (bm_add_rows_spec _ _ _ _ _ _ _ (ei_dims _ _ _ _ _ _ _ _ _ E) (N.le_0_l W) Eadd)
    as (D' & Hne' & Lrow & Li & Hother & Hcells).
  pose proof (ei_lite _ _ _ _ _ _ _ _ _ E) as Ls.
  assert (G1 : forall k j, k < M -> G s1 k j = if k =? row then N.lxor (G s row j) (G s (ps_i b) j) else G s k j).
  { intros k j Hk. rewrite (G_record_fma A0 M W A0_wf A0_len s (ps_i b) row 1 s1 Ls Erec) by (try reflexivity; try lia; congruence).
    destruct (k =? row); [|reflexivity]. rewrite mulN_1_l; [reflexivity | apply (G_byte A0 M W A0_wf A0_len), Ls]. }
  assert (Fin : forall k j, k + Hn < M -> j < W -> cell A' k j = G s1 k j).
  { intros k j Hk Hj. rewrite G1 by lia. destruct (N.eqb_spec k row) as [->|Hkr].
    - rewrite Hcells. destruct (N.leb_spec 0 j); [|lia]. rewrite !Hag by assumption. reflexivity.
    - unfold cell. rewrite Hother by auto. apply Hag; assumption. }
  assert (K : forall k j, k + Hn < M -> j < W -> cell (ps_A (set_A s1 A')) k j = G (set_A s1 A') k j).
  { intros k j Hk Hj. cbn [set_A ps_A].
    replace (G (set_A s1 A') k j) with (G s1 k j) by (symmetry; apply G_frame; reflexivity).
    apply Fin; assumption. }
  destruct (r =? 1).
  - injection H as <- _ _. rewrite Es'. exact K.
  - omon H. injection H as <- _ _. rewrite Es'. exact K.
Qed.

Lemma fa_el_loop r tv b stb ec : forall pco done s st rops s' st' rops',
  fp_inv b stb -> ps_i b + Hn < M ->
  1 <= r -> ec = W - ps_u b - (r - 1) -> ps_i b + 1 <= ec -> ps_u b + (r - 1) <= W ->
  (forall j, ps_i b < j < ec -> cell (ps_A b) (ps_i b) j = 0) ->
  NoDup (done ++ pco) -> (forall x, In x (done ++ pco) -> ps_i b < x /\ x + Hn < M) ->
  el_inv b ec done s st ->
  (forall k j, k + Hn < M -> j < W -> cell (ps_A s) k j = G s k j) ->
  ofold (eliminate_row Checked r (ps_i b) tv) pco (s, st, rops) = Ok (s', st', rops') ->
  (forall k j, k + Hn < M -> j < W -> cell (ps_A s') k j = G s' k j).
Proof.
  induction pco as [|row t IH]; intros done s st rops s' st' rops' Ib HiM Hr Hec Hec1 Hur Hshape ND Hrange E Hag H.
  - cbn in H. injection H as <- _ _. exact Hag.
  - apply ofold_cons_inv in H. destruct H as [[[s1 st1] rops1] [E1 E2]].
    assert (Hrow : ps_i b < row /\ row + Hn < M) by (apply Hrange; apply in_or_app; right; left; reflexivity).
    assert (Hnd : ~ In row done).
    { intros X. apply NoDup_remove_2 in ND. apply ND. apply in_or_app. left. exact X. }
    assert (Hind : ~ In (ps_i b) done).
    { intros X. assert (Y : ps_i b < ps_i b) by (apply Hrange; apply in_or_app; left; exact X). lia. }
    pose proof (el_stepX _ _ _ _ _ _ _ _ _ _ _ _ _ _ Ib HiM Hr Hec Hec1 Hur Hshape Hnd (proj1 Hrow) (proj2 Hrow) Hind E E1) as E'.
    assert (Hag' : forall k j, k + Hn < M -> j < W -> cell (ps_A s1) k j = G s1 k j).
    { eapply (fa_el_step r tv b ec done s st rops row); try eassumption; lia. }
    eapply (IH (done ++ [row])); try eassumption.
    + rewrite <- app_assoc. exact ND.
    + intros x Hx. apply Hrange. rewrite <- app_assoc in Hx. exact Hx.
Qed.

(* ---- eliminating column i from the HDPC rows, the cell at column i included ---- *)
Lemma fa_hd_step tv r b ec pio done s hr s' :
  lite M b -> dims (ps_A b) M W -> ps_W b = W -> ps_i b + Hn < M ->
  tv = 1 -> ec = W - ps_u b - (r - 1) -> ps_i b + 1 <= ec -> ec <= W ->
  pio = skipn (N.to_nat ec) (rowN (ps_A b) (ps_i b)) ->
  (forall j, j < ps_i b -> G b (ps_i b) j = 0) ->
  (forall j, ps_i b < j < ec -> G b (ps_i b) j = 0) ->
  (forall j, ec <= j < W -> cell (ps_A b) (ps_i b) j = G b (ps_i b) j /\ (G b (ps_i b) j = 0 \/ G b (ps_i b) j = 1)) ->
  cell (ps_A b) (ps_i b) (ps_i b) = 1 -> G b (ps_i b) (ps_i b) = 1 ->
  ~ In hr done -> hr < Hn ->
  hd_inv b done s ->
  (forall x j, x < Hn -> j < W -> cell (hd_rows s) x j = G s (M - Hn + x) j) ->
  eliminate_hdpc_row Checked Hn (ps_i b) tv pio hr s = Ok s' ->
  (forall x j, x < Hn -> j < W -> cell (hd_rows s') x j = G s' (M - Hn + x) j).
Proof.
  intros Lb Db Wb HiM Htv Hec Hec1 HecW Hpio Hlow Hmid Hbits Hcii Hgii Hnd Hhr E Hag H.
  unfold eliminate_hdpc_row in H.
  pose proof (hi_hlen _ _ _ _ _ _ _ E) as Hlen. pose proof (hi_hrows _ _ _ _ _ _ _ E) as Hrws.
  destruct (ps_hd s) as [h|] eqn:Ehd; [|discriminate].
  assert (Ehr : hd_rows s = h) by (unfold hd_rows; rewrite Ehd; reflexivity). rewrite Ehr in *.
  oinvas H as leading El. apply bm_get_cell in El.
  assert (HiW : ps_i b < W) by lia.
  assert (Hlead : leading = G s (M - Hn + hr) (ps_i b)) by (rewrite El; apply Hag; assumption).
  assert (Gi : forall j, G s (ps_i b) j = G b (ps_i b) j).
  { intros j. rewrite (hi_G _ _ _ _ _ _ _ E) by lia. destruct (N.leb_spec (M - Hn) (ps_i b)); [lia | reflexivity]. }
  pose proof (hi_lite _ _ _ _ _ _ _ E) as Ls.
  assert (Byte : leading < 256) by (rewrite Hlead; apply (G_byte A0 M W A0_wf A0_len), Ls).
  destruct (N.eqb_spec leading 0) as [Hz|Hnz].
  - inversion H; subst s'. rewrite Ehr. exact Hag.
  - omon H. destruct (N.eqb_spec tv 0) as [|_]; [discriminate|]. subst tv.
    rewrite divN_1_r in H by exact Byte.
    assert (HM' : ps_height s = M) by (unfold ps_height; rewrite (hi_A _ _ _ _ _ _ _ E); apply Db).
    match goal with X : usub _ (ps_height s) Hn = Ok ?v |- _ =>
      rewrite HM' in X; apply usub_inv in X; [|exact HM]; subst v end.
    assert (Lpio : lenN pio = W - ec).
    { subst pio. unfold lenN. rewrite skipn_length. pose proof (dims_row _ _ _ (ps_i b) Db) as X. unfold lenN in X. lia. }
    assert (HWs : ps_W s = W) by (rewrite (hi_W _ _ _ _ _ _ _ E); exact Wb).
    assert (P1 : lenN h <= ps_height s) by lia.
    assert (P2 : ps_height s - lenN h <= hr + (M - Hn)) by lia.
    assert (P3 : lenN pio <= W) by lia.
    assert (P4 : ps_i b < W - lenN pio) by lia.
    pose proof (fma_rows_with_pi_hdpc_col s (ps_i b) (hr + (M - Hn)) leading (ps_i b) pio s' h W Ehd P1 P2 Hrws HWs P3 P4 H) as Hcol.
    destruct (fma_rows_with_pi_hdpc Checked s (ps_i b) (hr + (M - Hn)) leading (ps_i b) pio s' h W Ehd P1 P2 Hrws HWs P3 P4 H) as
      (s1 & h' & Erec & Es' & Hi1 & Hhr1 & Lh' & Rh' & Hoth & Hcells).
    rewrite HM', Hlen in *. replace (hr + (M - Hn) - (M - Hn)) with hr in * by lia.
    assert (G1 : forall k j, k < M -> G s1 k j =
              if k =? M - Hn + hr then N.lxor (G s (M - Hn + hr) j) (mulN leading (G s (ps_i b) j)) else G s k j).
    { intros k j Hk. rewrite (G_record_fma A0 M W A0_wf A0_len s (ps_i b) (hr + (M - Hn)) leading s1 Ls Erec Byte) by lia.
      replace (hr + (M - Hn)) with (M - Hn + hr) by lia. reflexivity. }
    assert (G2 : forall k j, G s' k j = G s1 k j) by (subst s'; apply G_frame; reflexivity).
    assert (Ehr' : hd_rows s' = h') by (subst s'; reflexivity).
    intros x j Hx Hj. rewrite G2, G1 by lia.
    destruct (N.eq_dec x hr) as [->|Hxh].
    + rewrite N.eqb_refl. destruct (N.eq_dec j (ps_i b)) as [->|Hji].
      * rewrite Hcol. rewrite (hi_A _ _ _ _ _ _ _ E), Hcii. rewrite <- El.
        destruct (N.eqb_spec leading 0) as [|_]; [contradiction|]. cbn [N.eqb negb andb].
        rewrite Gi, Hgii, <- Hlead. rewrite mulN_1_l, mulN_1_r by exact Byte. reflexivity.
      * rewrite Ehr', Hcells by exact Hji. rewrite Hag by assumption. rewrite Gi, Lpio.
        replace (W - (W - ec)) with ec by lia.
        destruct (N.leb_spec ec j) as [Hej|Hej].
        -- f_equal. subst pio. rewrite nth_skipn'. replace (N.to_nat ec + N.to_nat (j - ec))%nat with (N.to_nat j) by lia.
           fold (cell (ps_A b) (ps_i b) j). destruct (Hbits j) as [Hcj Hb01]; [lia|]. rewrite Hcj.
           destruct Hb01 as [-> | ->]; cbn; [rewrite mulN_0_r; reflexivity | rewrite mulN_1_r by exact Byte; reflexivity].
        -- assert (Hz : G b (ps_i b) j = 0) by (destruct (N.lt_ge_cases j (ps_i b)); [apply Hlow | apply Hmid]; lia).
           rewrite Hz, mulN_0_r, N.lxor_0_r. reflexivity.
    + destruct (N.eqb_spec (M - Hn + x) (M - Hn + hr)) as [Ex|_]; [lia|].
      rewrite Ehr'. unfold cell. rewrite Hoth by assumption. fold (cell h x j). apply Hag; assumption.
Qed.

Lemma fa_hd_loop tv r b ec pio : forall l done s s',
  lite M b -> dims (ps_A b) M W -> ps_W b = W -> ps_i b + Hn < M ->
  tv = 1 -> ec = W - ps_u b - (r - 1) -> ps_i b + 1 <= ec -> ec <= W ->
  pio = skipn (N.to_nat ec) (rowN (ps_A b) (ps_i b)) ->
  (forall j, j < ps_i b -> G b (ps_i b) j = 0) ->
  (forall j, ps_i b < j < ec -> G b (ps_i b) j = 0) ->
  (forall j, ec <= j < W -> cell (ps_A b) (ps_i b) j = G b (ps_i b) j /\ (G b (ps_i b) j = 0 \/ G b (ps_i b) j = 1)) ->
  (forall x j, x < Hn -> ps_i b <= j < W -> cell (hd_rows b) x j = G b (M - Hn + x) j) ->
  cell (ps_A b) (ps_i b) (ps_i b) = 1 -> G b (ps_i b) (ps_i b) = 1 ->
  NoDup (done ++ l) -> (forall x, In x (done ++ l) -> x < Hn) ->
  hd_inv b done s ->
  (forall x j, x < Hn -> j < W -> cell (hd_rows s) x j = G s (M - Hn + x) j) ->
  ofold (eliminate_hdpc_row Checked Hn (ps_i b) tv pio) l s = Ok s' ->
  (forall x j, x < Hn -> j < W -> cell (hd_rows s') x j = G s' (M - Hn + x) j).
Proof.
  induction l as [|hr t IH]; intros done s s' Lb Db Wb HiM Htv Hec Hec1 HecW Hpio Hlow Hmid Hbits HagH Hcii Hgii ND Hr E Hag H.
  - cbn in H. inversion H; subst s'. exact Hag.
  - apply ofold_cons_inv in H. destruct H as [s1 [E1 E2]].
    assert (Hnd : ~ In hr done).
    { intros X. apply NoDup_remove_2 in ND. apply ND. apply in_or_app. left. exact X. }
    assert (Hhr : hr < Hn) by (apply Hr; apply in_or_app; right; left; reflexivity).
    pose proof (hd_stepX Checked tv r b ec pio done s hr s1 Lb Db Wb HiM Htv Hec Hec1 HecW Hpio Hmid Hbits HagH Hnd Hhr E E1) as E'.
    pose proof (fa_hd_step tv r b ec pio done s hr s1 Lb Db Wb HiM Htv Hec Hec1 HecW Hpio Hlow Hmid Hbits Hcii Hgii Hnd Hhr E Hag E1) as Hag'.
    eapply (IH (done ++ [hr])); try eassumption.
    + rewrite <- app_assoc. exact ND.
    + intros x Hx. apply Hr. rewrite <- app_assoc in Hx. exact Hx.
Qed.

Lemma fa_step s st rops s' st' rops' : fp_inv s st -> fa_inv s -> ps_i s + ps_u s < W ->
  fp_pre_step Checked s st rops s' st' rops' -> fa_inv s'.
Proof.
  intros I F Hlt H.
  destruct H as (end_row & chosen & r & s1 & s2 & st1 & s3 & st2 & tv & pco & r1 & wu & ec & st3 & s4 & s5 &
    Eer & Esel & Hch & Esw & EX & Est & Esub & Etv & Epco & Er1 & Ewu & Eec & Ers & Eel & Ehd & ->).
  (* end_row *)
  rewrite (fp_height _ _ _ _ _ _ I), num_hdpc_hd_rows, (fi_hlen _ _ _ _ _ _ I) in Eer. apply usub_inv in Eer; [|exact HM]. subst end_row.
  (* the selected row *)
  destruct (sel_spec _ _ _ _ _ _ _ _ _ (fi_st _ _ _ _ _ _ I) ltac:(destruct (fi_dims _ _ _ _ _ _ I); lia) Esel) as (Hch' & Hopr & Hr).
  destruct (fp_inv_swap_rowsX _ _ _ _ _ _ I Hch Esw Est) as (I1 & HchM & Ei1 & Eu1 & Hopr1).
  pose proof (fp_inv_onX _ _ _ _ _ _ _ _ _ I1 EX) as I2.
  destruct (onX_frame _ _ _ _ EX) as (EA2 & Eh2 & Ed2 & Ec2 & EW2 & Ei2 & Eu2 & EL2 & Eo2).
  assert (Ei2' : ps_i s2 = (ps_i s)) by congruence. assert (Eu2' : ps_u s2 = (ps_u s)) by congruence.
  assert (HiM : (ps_i s) + Hn < M) by lia.
  pose proof (fa_swap_rows _ _ _ _ _ I F HiM HchM Esw) as F1.
  assert (F2 : fa_inv s2) by (apply (fa_frame s1); assumption).
  assert (Hcnt : cnt (rowN (ps_A s2) (ps_i s)) (ps_i s) (W - (ps_u s)) = r).
  { pose proof (si_opr _ _ _ _ _ _ (fi_st _ _ _ _ _ _ I2)) as X. rewrite Ei2', Eu2' in X. rewrite <- X by lia.
    rewrite Hopr1. exact Hopr. }
  assert (Hrle : r <= W - (ps_u s) - (ps_i s)) by (rewrite <- Hcnt; apply cnt_leX).
  (* the column exchanges *)
  destruct (substep_spec Checked s2 st1 r s3 st2) as (sw & Esw2 & Fsw & Hone & Hzeros); try assumption.
  { rewrite (fi_W _ _ _ _ _ _ I2), Eu2'. lia. }
  { rewrite (fi_W _ _ _ _ _ _ I2), Eu2', Ei2'. lia. }
  { rewrite Ei2'. rewrite (dims_row _ _ _ _ (fi_dims _ _ _ _ _ _ I2)) by lia. symmetry. apply (fi_W _ _ _ _ _ _ I2). }
  { rewrite Ei2'. apply bin_mat_row. apply (fi_bin _ _ _ _ _ _ I2). }
  { rewrite (fi_W _ _ _ _ _ _ I2), Eu2', Ei2'. exact Hcnt. }
  rewrite (fi_W _ _ _ _ _ _ I2), Eu2', Ei2' in *.
  destruct (fp_inv_swaps_allX Checked sw s2 st1 s3 st2 I2) as (I3 & Ei3 & Eu3); [rewrite Ei2', Eu2'; exact Fsw | exact Esw2 |].
  assert (F3 : fa_inv s3).
  { apply (fa_swaps_all Checked sw s2 st1 s3 st2 I2 F2); [rewrite Ei2', Eu2'; exact Fsw | exact Esw2]. }
  rewrite Ei2' in Ei3. rewrite Eu2' in Eu3.
  (* the pivot *)
  apply bm_get_cell in Etv. rewrite Hone in Etv. subst tv.
  apply usub_inv in Er1; [|exact Hr]. subst r1.
  rewrite (fi_W _ _ _ _ _ _ I3), Eu3 in Ewu. apply usub_inv in Ewu; [|pose proof (fi_iu _ _ _ _ _ _ I); lia]. subst wu.
  apply usub_inv in Eec; [|lia]. subst ec. set (ec := W - (ps_u s) - (r - 1)) in *.
  rewrite Ei3 in *.
  destruct (bm_ones_in_col_spec _ _ _ _ _ Epco) as (NDpco & Hpco).
  assert (Hagree3 : forall j, (ps_i s) <= j < W -> cell (ps_A s3) (ps_i s) j = G s3 (ps_i s) j).
  { intros j Hj. apply (fi_agreeA _ _ _ _ _ _ I3); [exact HiM | rewrite Ei3; exact Hj]. }
  assert (Hshape : forall j, (ps_i s) < j < ec -> cell (ps_A s3) (ps_i s) j = 0) by (intros j Hj; apply Hzeros; unfold ec in Hj; lia).
  (* the statistics for the shrunk V *)
  assert (S3 : st_inv (ps_A s3) st3 ((ps_i s) + 1) (M - Hn) ((ps_i s) + 1) ec).
  { pose proof (fi_st _ _ _ _ _ _ I3) as X. rewrite Ei3, Eu3 in X.
    assert (Y1 : ps_i s + 1 <= ec) by (unfold ec; lia).
    assert (Y2 : ec <= W - ps_u s) by (unfold ec; lia).
    apply (st_resize_spec Checked st2 (ps_A s3) M W (ps_i s) (M - Hn) (W - ps_u s) ec pco st3 X
             (fi_dims _ _ _ _ _ _ I3) (fi_bin _ _ _ _ _ _ I3)); try assumption; lia. }
  (* the rows below the pivot *)
  assert (E0 : el_inv s3 ec [] s3 st3).
  { apply mkEL; try reflexivity.
    - apply (fi_lite _ _ _ _ _ _ I3).
    - apply (fi_dims _ _ _ _ _ _ I3).
    - apply (fi_bin _ _ _ _ _ _ I3).
    - intros k j Hk Hj. apply (fi_agreeA _ _ _ _ _ _ I3); [exact Hk | lia].
    - rewrite Ei3. exact S3. }
  assert (P2 : ps_i s3 + Hn < M) by (rewrite Ei3; exact HiM).
  assert (P4 : ec = W - ps_u s3 - (r - 1)) by (rewrite Eu3; reflexivity).
  assert (P5 : ps_i s3 + 1 <= ec) by (rewrite Ei3; unfold ec; lia).
  assert (P6 : ps_u s3 + (r - 1) <= W) by (rewrite Eu3; lia).
  assert (P7 : forall j, ps_i s3 < j < ec -> cell (ps_A s3) (ps_i s3) j = 0) by (rewrite Ei3; exact Hshape).
  assert (P9 : forall x, In x ([] ++ pco) -> ps_i s3 < x /\ x + Hn < M)
    by (intros x Hx; apply Hpco in Hx; rewrite Ei3; lia).
  assert (P11 : ofold (eliminate_row Checked r (ps_i s3) 1) pco (s3, st3, RSwap (ps_i s) chosen :: rops)
                = Ok (s4, st', rops')) by (rewrite Ei3; exact Eel).
  pose proof (el_loopX Checked r 1 s3 st2 ec pco [] s3 st3 _ s4 st' rops' I3 P2 Hr P4 P5 P6 P7 NDpco P9 E0 P11) as E4.
  cbn [app] in E4.
  assert (G4 : forall k j, k < M -> ~ In k pco -> G s4 k j = G s3 k j).
  { intros k j Hk Hn'. rewrite (ei_G _ _ _ _ _ _ _ _ _ E4) by exact Hk.
    destruct (inb k pco) eqn:Eb; [apply inb_trueX in Eb; contradiction | reflexivity]. }
  assert (Hipco : ~ In (ps_i s) pco) by (intros X; apply Hpco in X; lia).
  assert (Hhpco : forall x, x < Hn -> ~ In (M - Hn + x) pco) by (intros x Hx X; apply Hpco in X; lia).
  assert (A4 : forall k j, k + Hn < M -> j < W -> cell (ps_A s4) k j = G s4 k j).
  { exact (fa_el_loop r 1 s3 st2 ec pco [] s3 st3 _ s4 st' rops' I3 P2 Hr P4 P5 P6 P7 NDpco P9 E0 (fa_A _ F3) P11). }
  assert (H4 : forall x j, x < Hn -> j < W -> cell (hd_rows s4) x j = G s4 (M - Hn + x) j).
  { intros x j Hx Hj. unfold hd_rows. rewrite (ei_hd _ _ _ _ _ _ _ _ _ E4). fold (hd_rows s3).
    rewrite G4 by (try lia; apply Hhpco; exact Hx). apply (fa_H _ F3); assumption. }
  assert (Gi3 : forall j, j < (ps_i s) -> G s3 (ps_i s) j = 0) by (intros j Hj; apply (fi_zero _ _ _ _ _ _ I3); rewrite Ei3; lia).
  assert (Gii : G s3 (ps_i s) (ps_i s) = 1) by (rewrite <- Hagree3 by lia; exact Hone).
  (* the HDPC rows *)
  assert (E5 : hd_inv s4 (seqN 0 Hn) s5 /\
               forall x j, x < Hn -> j < W -> cell (hd_rows s5) x j = G s5 (M - Hn + x) j).
  { assert (E40 : hd_inv s4 [] s4).
    { constructor; try reflexivity.
      - apply (ei_lite _ _ _ _ _ _ _ _ _ E4).
      - unfold hd_rows. rewrite (ei_hd _ _ _ _ _ _ _ _ _ E4). apply (fi_hlen _ _ _ _ _ _ I3).
      - unfold hd_rows. rewrite (ei_hd _ _ _ _ _ _ _ _ _ E4). apply (fi_hrows _ _ _ _ _ _ I3).
      - intros k j Hk. rewrite andb_false_r. reflexivity.
      - intros hr j [] . }
    unfold eliminate_hdpc in Ehd. rewrite num_hdpc_hd_rows, (fi_hlen _ _ _ _ _ _ I) in Ehd.
    destruct (N.ltb_spec 0 Hn) as [Hpos|Hzero].
    - omon Ehd. rewrite (ei_W _ _ _ _ _ _ _ _ _ E4), (fi_W _ _ _ _ _ _ I3), (ei_u _ _ _ _ _ _ _ _ _ E4), Eu3 in E.
      apply usub_inv in E; [|lia]. replace (W - ((ps_u s) + r - 1)) with ec in E by (unfold ec; lia). subst a.
      unfold bm_sub_row in E1. omon E1. destruct (N.leb_spec ec (lenN a)); [|discriminate]. inversion E1; subst a0. clear E1.
      destruct (getN_inv _ _ _ [] E) as [_ Ha]. fold (rowN (ps_A s4) (ps_i s)) in Ha. subst a.
      pose proof (ei_i _ _ _ _ _ _ _ _ _ E4) as Ei4. rewrite Ei3 in Ei4. pose proof (ei_u _ _ _ _ _ _ _ _ _ E4) as Eu4. rewrite Eu3 in Eu4.
      assert (Q1 : lite M s4) by apply (ei_lite _ _ _ _ _ _ _ _ _ E4).
      assert (Q2 : dims (ps_A s4) M W) by apply (ei_dims _ _ _ _ _ _ _ _ _ E4).
      assert (Q3 : ps_W s4 = W) by (rewrite (ei_W _ _ _ _ _ _ _ _ _ E4); apply (fi_W _ _ _ _ _ _ I3)).
      assert (Q4 : ps_i s4 + Hn < M) by (rewrite Ei4; exact HiM).
      assert (Q6 : ec = W - ps_u s4 - (r - 1)) by (rewrite Eu4; reflexivity).
      assert (Q7 : ps_i s4 + 1 <= ec) by (rewrite Ei4; unfold ec; lia).
      assert (Q8 : ec <= W) by (unfold ec; lia).
      assert (Q9 : skipn (N.to_nat ec) (rowN (ps_A s4) (ps_i s)) = skipn (N.to_nat ec) (rowN (ps_A s4) (ps_i s4)))
        by (rewrite Ei4; reflexivity).
      assert (Q10 : forall j, ps_i s4 < j < ec -> G s4 (ps_i s4) j = 0).
      { rewrite Ei4. intros j Hj. rewrite G4 by (try lia; exact Hipco).
        rewrite <- Hagree3 by (unfold ec in Hj; lia). apply Hshape. exact Hj. }
      assert (Q11 : forall j, ec <= j < W -> cell (ps_A s4) (ps_i s4) j = G s4 (ps_i s4) j /\
                                           (G s4 (ps_i s4) j = 0 \/ G s4 (ps_i s4) j = 1)).
      { rewrite Ei4. intros j Hj. unfold cell. rewrite (ei_rows _ _ _ _ _ _ _ _ _ E4) by exact Hipco.
        fold (cell (ps_A s3) (ps_i s) j).
        rewrite G4 by (try lia; exact Hipco). rewrite Hagree3 by (unfold ec in Hj; lia). split; [reflexivity|].
        rewrite <- Hagree3 by (unfold ec in Hj; lia). apply bin_cell. apply (fi_bin _ _ _ _ _ _ I3). }
      assert (Q12 : forall x j, x < Hn -> ps_i s4 <= j < W -> cell (hd_rows s4) x j = G s4 (M - Hn + x) j).
      { rewrite Ei4. intros x j Hx Hj. unfold hd_rows. rewrite (ei_hd _ _ _ _ _ _ _ _ _ E4). fold (hd_rows s3).
        rewrite G4 by (try lia; apply Hhpco; exact Hx). apply (fi_agreeH _ _ _ _ _ _ I3); [exact Hx | rewrite Ei3; exact Hj]. }
      assert (Q13 : NoDup ([] ++ seqN 0 Hn)) by (cbn [app]; apply seqN_NoDup).
      assert (Q14 : forall x, In x ([] ++ seqN 0 Hn) -> x < Hn) by (intros x Hx; cbn [app] in Hx; apply seqN_in in Hx; lia).
      assert (Qlow : forall j, j < ps_i s4 -> G s4 (ps_i s4) j = 0).
      { rewrite Ei4. intros j Hj. rewrite G4 by (try lia; exact Hipco). apply Gi3. exact Hj. }
      assert (Qcii : cell (ps_A s4) (ps_i s4) (ps_i s4) = 1).
      { rewrite Ei4. unfold cell. rewrite (ei_rows _ _ _ _ _ _ _ _ _ E4) by exact Hipco. exact Hone. }
      assert (Qgii : G s4 (ps_i s4) (ps_i s4) = 1).
      { rewrite Ei4. rewrite G4 by (try lia; exact Hipco). exact Gii. }
      rewrite <- Ei4 in Ehd at 1.
      split.
      + exact (hd_loopX Checked 1 r s4 ec _ (seqN 0 Hn) [] s4 s5 Q1 Q2 Q3 Q4 eq_refl Q6 Q7 Q8 Q9 Q10 Q11 Q12 Q13 Q14 E40 Ehd).
      + exact (fa_hd_loop 1 r s4 ec _ (seqN 0 Hn) [] s4 s5 Q1 Q2 Q3 Q4 eq_refl Q6 Q7 Q8 Q9 Qlow Q10 Q11 Q12 Qcii Qgii Q13 Q14 E40 H4 Ehd).
    - inversion Ehd; subst s5. split; [rewrite seqN_nil by lia; exact E40 | exact H4]. }
  destruct E5 as [E5 H5].
  assert (G5 : forall k j, G (advance s5 (r - 1)) k j = G s5 k j) by (intros; apply G_frame; reflexivity).
  assert (G5lo : forall k j, k + Hn < M -> G s5 k j = G s4 k j).
  { intros k j Hk. rewrite (hi_G _ _ _ _ _ _ _ E5) by lia. destruct (N.leb_spec (M - Hn) k); [lia | reflexivity]. }
  assert (A5 : ps_A s5 = ps_A s4) by apply (hi_A _ _ _ _ _ _ _ E5).
  constructor.
  - intros k j Hk Hj. change (ps_A (advance s5 (r - 1))) with (ps_A s5).
    rewrite G5, G5lo by exact Hk. rewrite A5. apply A4; assumption.
  - intros k j Hk Hj. change (hd_rows (advance s5 (r - 1))) with (hd_rows s5). rewrite G5. apply H5; assumption.
Qed.

Lemma a_values_spec s st : fp_inv s st ->
  length (a_values s) = N.to_nat M /\
  forall k, k < M -> nth (N.to_nat k) (a_values s) [] =
     if k <? M - Hn then rowN (ps_A s) k else rowN (hd_rows s) (k - (M - Hn)).
Proof.
  intros I. pose proof (fi_hlen _ _ _ _ _ _ I) as Hl. pose proof (fp_height _ _ _ _ _ _ I) as Hh.
  destruct (fi_dims _ _ _ _ _ _ I) as [LA _].
  unfold a_values, hd_rows in *. destruct (ps_hd s) as [h|].
  - rewrite Hh, Hl. unfold lenN in *. split.
    + rewrite app_length, firstn_length. lia.
    + intros k Hk. destruct (N.ltb_spec k (M - Hn)) as [Hlo|Hhi].
      * rewrite app_nth1 by (rewrite firstn_length; lia). rewrite nth_firstn_lt by lia. reflexivity.
      * rewrite app_nth2 by (rewrite firstn_length; lia). rewrite firstn_length. unfold rowN. f_equal. lia.
  - cbn in Hl. unfold lenN in *. split; [lia|]. intros k Hk.
    destruct (N.ltb_spec k (M - Hn)); [reflexivity | lia].
Qed.

Lemma fa_verify s st : fp_inv s st -> fa_inv s -> first_phase_verify s = Ok tt.
Proof.
  intros I F. unfold first_phase_verify.
  pose proof (fi_iu _ _ _ _ _ _ I) as Hiu. pose proof (fi_iH _ _ _ _ _ _ I) as HiH.
  pose proof (fi_dims _ _ _ _ _ _ I) as D. pose proof (fp_height _ _ _ _ _ _ I) as Hh.
  pose proof (fi_W _ _ _ _ _ _ I) as EW.
  destruct (a_values_spec _ _ I) as [Lav Hav].
  assert (Hrow : forall k, k < M -> lenN (nth (N.to_nat k) (a_values s) []) = W).
  { intros k Hk. rewrite Hav by exact Hk. destruct (N.ltb_spec k (M - Hn)).
    - apply (dims_row _ _ _ _ D). lia.
    - unfold rowN. apply (Forall_nth_N (fun r => lenN r = W)); [apply (fi_hrows _ _ _ _ _ _ I)|].
      rewrite (fi_hlen _ _ _ _ _ _ I). lia. }
  assert (Hcell : forall k j, k < M -> j < W -> nth (N.to_nat j) (nth (N.to_nat k) (a_values s) []) 0 = G s k j).
  { intros k j Hk Hj. rewrite Hav by exact Hk. destruct (N.ltb_spec k (M - Hn)).
    - apply (fa_A _ F); lia.
    - fold (cell (hd_rows s) (k - (M - Hn)) j). rewrite (fa_H _ F) by lia. f_equal. lia. }
  assert (B1 : forallb (fun p => is_unit_prefix (fst p) (snd p) (ps_i s)) (combine (seqN 0 (ps_i s)) (ps_A s)) = true).
  { apply (forallb_combine_seqN _ []). intros k Hk Hk2. cbn [fst snd]. unfold is_unit_prefix.
    fold (rowN (ps_A s) k). apply andb_true_intro. split.
    - apply (forallb_combine_seqN _ 0). intros j Hj Hj2. cbn [fst snd]. fold (cell (ps_A s) k j).
      rewrite (fa_A _ F) by lia. rewrite (fi_I _ _ _ _ _ _ I) by assumption. rewrite (N.eqb_sym j k).
      apply N.eqb_refl.
    - apply N.leb_le. rewrite (dims_row _ _ _ _ D) by lia. lia. }
  rewrite B1. cbn [assert_ok obind].
  assert (B2 : (ps_i s <=? ps_height s) = true) by (apply N.leb_le; lia).
  rewrite B2. cbn [assert_ok obind].
  assert (B3 : forallb (fun row => all_zero (subl row (ps_i s) (ps_W s - ps_u s)) && (ps_W s - ps_u s <=? lenN row))
                 (firstn (N.to_nat (ps_i s)) (a_values s)) = true).
  { apply (forallb_firstn_nth _ _ _ []). intros t Ht Ht2. 
    assert (Hk : N.of_nat t < M) by lia. pose proof (Hrow _ Hk) as Lr. pose proof (fun j => Hcell _ j Hk) as Hc.
    rewrite Nat2N.id in *. apply andb_true_intro. split.
    - apply all_zero_subl. intros j Hj. rewrite Hc by lia. apply (fi_Z _ _ _ _ _ _ I); lia.
    - apply N.leb_le. lia. }
  rewrite B3. cbn [assert_ok obind].
  assert (B4 : forallb (fun row => all_zero (firstn (N.to_nat (ps_i s)) row) && (ps_i s <=? lenN row))
                 (skipn (N.to_nat (ps_i s)) (a_values s)) = true).
  { apply (forallb_skipn_nth _ _ _ []). intros t Ht.
    assert (Hk : N.of_nat t < M) by lia. pose proof (Hrow _ Hk) as Lr. pose proof (fun j => Hcell _ j Hk) as Hc.
    rewrite Nat2N.id in *. apply andb_true_intro. split.
    - apply all_zero_firstn. intros j Hj. rewrite Hc by lia. apply (fi_zero _ _ _ _ _ _ I); lia.
    - apply N.leb_le. lia. }
  rewrite B4. reflexivity.
Qed.
End FA.
