(* The sparse construction of Model/CertRun.v builds the model's constraint matrix:
   enc_matrix_sparse K = Ok As  ->  enc_matrix K = Ok (dense L L As).
   Every `sset` is simulated by the `mset` of Model/CMatrix.v on the dense denotation; the loops
   are the same combinators (ofor / ofold), so the simulation lifts statement by statement. *)
From Coq Require Import NArith PArith List Bool Lia Arith FMapPositive.
From RQ Require Import Base.Outcome Base.Ints Base.ListX Spec.Linear Proofs.LinearProofs
  Model.CertFast Proofs.CertFastProofs Model.SysConst Model.Tuple Model.CMatrix Model.CertRun
  Proofs.CMatrixMode.
Import ListNotations.
Open Scope N_scope.
Open Scope outcome_scope.

(* ---- one row ---- *)

Lemma sval_sins k j x r : sval k (sins j x r) = if Pos.eqb k j then N.lxor x (sval k r) else sval k r.
Proof.
  induction r as [|[k' v'] t IH]; cbn [sins].
  - cbn [sval]. destruct (Pos.eqb k j); reflexivity.
  - destruct (Pos.compare j k'); try (rewrite sval_cons; reflexivity).
    rewrite !sval_cons, IH. destruct (Pos.eqb k j); destruct (Pos.eqb k k'); try reflexivity.
    apply lxor_3m.
Qed.

Lemma sval_sset1 k j r : sval (ckey k) (sset1 j r) = if k =? j then 1 else sval (ckey k) r.
Proof.
  unfold sset1. cbv zeta. destruct (N.eqb_spec (sval (ckey j) r) 1) as [E|E].
  - destruct (N.eqb_spec k j) as [->|_]; [exact E | reflexivity].
  - rewrite sval_sins, ckey_eqb. destruct (N.eqb_spec k j) as [->|_]; [|reflexivity].
    rewrite (N.lxor_comm (sval (ckey j) r) 1), N.lxor_assoc, N.lxor_nilpotent. reflexivity.
Qed.

Lemma upd_nth_map_seq {A} (f : nat -> A) x : forall n a i, (i < n)%nat ->
  upd_nth i x (map f (seq a n)) = map (fun k => if (k =? a + i)%nat then x else f k) (seq a n).
Proof.
  induction n as [|n IH]; intros a i Hi; [lia|]. cbn [seq map]. destruct i as [|i]; cbn [upd_nth].
  - rewrite Nat.add_0_r, Nat.eqb_refl. f_equal. apply map_ext_in. intros k Hk. apply in_seq in Hk.
    destruct (Nat.eqb_spec k a); [lia | reflexivity].
  - destruct (Nat.eqb_spec a (a + S i)); [lia|]. f_equal.
    rewrite IH by lia. apply map_ext. intros k. replace (S a + i)%nat with (a + S i)%nat by lia. reflexivity.
Qed.

Lemma drow_sset1 L j r : j < L -> drow L (sset1 j r) = upd_nth (N.to_nat j) 1 (drow L r).
Proof.
  intros Hj. unfold drow. rewrite upd_nth_map_seq by lia. apply map_ext. intros k.
  rewrite sval_sset1. cbn [Nat.add].
  destruct (N.eqb_spec (N.of_nat k) j) as [E|E]; destruct (Nat.eqb_spec k (N.to_nat j)) as [E'|E']; try reflexivity; lia.
Qed.

(* ---- one entry ---- *)

Lemma list_put_ok {A} (l : list A) v : forall i, (i < length l)%nat -> list_put l i v = Ok (upd_nth i v l).
Proof.
  induction l as [|x t IH]; intros i Hi; cbn [length] in Hi; [lia|].
  destruct i as [|i]; cbn [list_put upd_nth]; [reflexivity|]. rewrite IH by lia. reflexivity.
Qed.

Lemma list_put_panic {A} (l : list A) v : forall i, (length l <= i)%nat -> list_put l i v = Panic PIndex.
Proof.
  induction l as [|x t IH]; intros i Hi; [destruct i; reflexivity|]. cbn [length] in Hi.
  destruct i as [|i]; [lia|]. cbn [list_put]. rewrite IH by lia. reflexivity.
Qed.

Section Sim.
Variables (L M : N).
Let phi := dense L M.

Lemma mset_sset m i j : mset (phi m) i j 1 = omap phi (sset M L m i j).
Proof.
  unfold mset, sset, phi.
  destruct (N.ltb_spec i M) as [Hi|Hi]; cbn [andb].
  - unfold nth_ok. rewrite (dense_nth_error_N L M m i Hi). cbn [obind].
    destruct (N.ltb_spec j L) as [Hj|Hj].
    + rewrite list_put_ok by (rewrite drow_length; lia). cbn [obind].
      rewrite list_put_ok by (rewrite dense_length; lia). cbn [omap].
      rewrite dense_set by exact Hi. rewrite drow_sset1 by exact Hj. reflexivity.
    + rewrite list_put_panic by (rewrite drow_length; lia). reflexivity.
  - unfold nth_ok.
    assert (E : nth_error (dense L M m) (N.to_nat i) = None)
      by (apply nth_error_None; rewrite dense_length; lia).
    rewrite E. reflexivity.
Qed.

(* ---- combinators ---- *)

Lemma bind_sim {X Y Z} (f : X -> Y) (h : Y -> outcome Z) (x : outcome X) :
  obind (omap f x) h = obind x (fun a => h (f a)).
Proof. destruct x; reflexivity. Qed.

Lemma omap_bind {X Y Z} (f : Y -> Z) (x : outcome X) (g : X -> outcome Y) :
  omap f (obind x g) = obind x (fun a => omap f (g a)).
Proof. destruct x; reflexivity. Qed.

Lemma obind_ext {X Y} (x : outcome X) (f g : X -> outcome Y) :
  (forall a, f a = g a) -> obind x f = obind x g.
Proof. intros H. destruct x; cbn [obind]; [apply H | reflexivity]. Qed.

Lemma ofor_sim {S1 S2} (f : S2 -> S1) (F : N -> S1 -> outcome S1) (G : N -> S2 -> outcome S2) :
  (forall i t, F i (f t) = omap f (G i t)) ->
  forall n i t, ofor n i F (f t) = omap f (ofor n i G t).
Proof.
  intros H. induction n as [|n IH]; intros i t; cbn [ofor]; [reflexivity|].
  rewrite H, bind_sim, omap_bind. apply obind_ext. intros a. apply IH.
Qed.

Lemma ofold_sim {X S1 S2} (f : S2 -> S1) (F : X -> S1 -> outcome S1) (G : X -> S2 -> outcome S2) :
  (forall a t, F a (f t) = omap f (G a t)) ->
  forall l t, CMatrix.ofold F l (f t) = omap f (CMatrix.ofold G l t).
Proof.
  intros H. induction l as [|a l IH]; intros t; cbn [CMatrix.ofold]; [reflexivity|].
  rewrite H, bind_sim, omap_bind. apply obind_ext. intros s. apply IH.
Qed.

(* ---- LDPC ---- *)

Lemma set_ldpc_sim S B W P m :
  set_ldpc S B W P (phi m) = omap phi (set_ldpc_s M L S B W P m).
Proof.
  unfold set_ldpc, set_ldpc_s.
  rewrite (ofor_sim phi _ (fun i mat =>
           a <- (d <- div_ok i S ;; Ok (1 + d)) ;;
           b <- rem_ok i S ;;
           mat <- sset M L mat b i ;;
           b <- rem_ok (b + a) S ;;
           mat <- sset M L mat b i ;;
           b <- rem_ok (b + a) S ;;
           sset M L mat b i)).
  2:{ intros i t. rewrite omap_bind. apply obind_ext. intros a.
      rewrite omap_bind. apply obind_ext. intros b.
      rewrite mset_sset, bind_sim, omap_bind. apply obind_ext. intros t1.
      rewrite omap_bind. apply obind_ext. intros b1.
      rewrite mset_sset, bind_sim, omap_bind. apply obind_ext. intros t2.
      rewrite omap_bind. apply obind_ext. intros b2. apply mset_sset. }
  rewrite bind_sim, omap_bind. apply obind_ext. intros t1.
  rewrite (ofor_sim phi _ (fun i mat => sset M L mat i (i + B))) by (intros i t; apply mset_sset).
  rewrite bind_sim, omap_bind. apply obind_ext. intros t2.
  apply ofor_sim. intros i t.
  rewrite omap_bind. apply obind_ext. intros c1.
  rewrite mset_sset, bind_sim, omap_bind. apply obind_ext. intros t3.
  rewrite omap_bind. apply obind_ext. intros c2. apply mset_sset.
Qed.

(* ---- G_ENC ---- *)

Lemma set_enc_sim md first W P P1 J isis m :
  set_enc md first W P P1 J isis (phi m) = omap phi (set_enc_s md M L first W P P1 J isis m).
Proof.
  unfold set_enc, set_enc_s.
  pose (phi2 := fun st : N * smat => (fst st, phi (snd st))).
  change (0, phi m) with (phi2 (0, m)).
  rewrite (ofold_sim phi2 _ (fun isi (st : N * smat) =>
         let '(row, mat) := st in
         t <- intermediate_tuple_gen true md isi W J P1 ;;
         idx <- enc_indices md t W P P1 ;;
         mat <- CMatrix.ofold (fun j mat => sset M L mat (row + first) j) idx mat ;;
         Ok (row + 1, mat))).
  2:{ intros isi [row t]. unfold phi2. cbn [fst snd].
      rewrite omap_bind. apply obind_ext. intros tu.
      rewrite omap_bind. apply obind_ext. intros idx.
      rewrite (ofold_sim phi _ (fun j mat => sset M L mat (row + first) j)) by (intros j t0; apply mset_sset).
      rewrite bind_sim, omap_bind. apply obind_ext. intros t1. reflexivity. }
  rewrite bind_sim, omap_bind. apply obind_ext. intros [row t]. reflexivity.
Qed.

End Sim.

(* ---- the empty matrix, the HDPC rows ---- *)

Lemma dense_empty L M : dense L M (PositiveMap.empty srow) = zero_matrix (N.to_nat M) (N.to_nat L).
Proof.
  unfold dense, zero_matrix.
  assert (E : forall n a, map (fun i => drow L (get_row (PositiveMap.empty srow) (N.of_nat i))) (seq a n) =
                          repeat (repeat 0 (N.to_nat L)) n).
  { induction n as [|n IH]; intros a; cbn [seq map repeat]; [reflexivity|]. rewrite IH. f_equal.
    rewrite get_row_empty. unfold drow. generalize (N.to_nat L). intros k. generalize O.
    induction k as [|k IHk]; intros b; cbn [seq map repeat]; [reflexivity|]. rewrite IHk. reflexivity. }
  apply E.
Qed.

Lemma firstn_upd_nth_S {A} (x : A) : forall s X, (s < length X)%nat ->
  firstn (S s) (upd_nth s x X) = firstn s X ++ [x].
Proof.
  induction s as [|s IH]; intros [|y X] H; cbn [length] in H; try lia; cbn [upd_nth firstn app]; [reflexivity|].
  rewrite <- IH by lia. reflexivity.
Qed.

Lemma skipn_upd_nth_gt {A} (x : A) : forall k s X, (s < k)%nat -> skipn k (upd_nth s x X) = skipn k X.
Proof.
  induction k as [|k IH]; intros s X H; [lia|]. destruct X as [|y X]; [destruct s; reflexivity|].
  destruct s as [|s]; cbn [upd_nth skipn]; [reflexivity|]. apply IH. lia.
Qed.

Lemma dense_put_rows L M : forall rows m s,
  s + N.of_nat (length rows) <= M ->
  dense L M (put_rows m s rows) =
  firstn (N.to_nat s) (dense L M m) ++ map (drow L) rows ++
  skipn (N.to_nat s + length rows) (dense L M m).
Proof.
  induction rows as [|r rows IH]; intros m s Hs; cbn [put_rows length map app].
  - rewrite Nat.add_0_r, firstn_skipn. reflexivity.
  - cbn [length] in Hs. rewrite IH by lia. rewrite dense_set by lia.
    replace (N.to_nat (N.succ s)) with (S (N.to_nat s)) by lia.
    rewrite firstn_upd_nth_S by (rewrite dense_length; lia).
    rewrite skipn_upd_nth_gt by lia. rewrite <- app_assoc. cbn [app].
    replace (S (N.to_nat s) + length rows)%nat with (N.to_nat s + S (length rows))%nat by lia. reflexivity.
Qed.

Lemma range_from_rangeN n : range_from n 0 = rangeN n.
Proof.
  unfold rangeN. change 0 with (N.of_nat 0). generalize O. induction n as [|n IH]; intros a; cbn [range_from seq map]; [reflexivity|].
  f_equal. rewrite <- Nat2N.inj_succ. apply IH.
Qed.

Lemma rangeN_length n : length (rangeN n) = n.
Proof. unfold rangeN. rewrite map_length, seq_length. reflexivity. Qed.

(* ---- the theorem ---- *)

Theorem enc_matrix_sparse_dense K sp As :
  sys_params K = Ok sp -> enc_matrix_sparse K = Ok As ->
  enc_matrix K = Ok (dense (spL sp) (spL sp) As) /\ spS sp + spH sp + spK sp = spL sp.
Proof.
  intros Hsp H. unfold enc_matrix_sparse in H. rewrite Hsp in H. cbn [obind] in H. cbv zeta in H.
  destruct (sys_params_facts K sp Hsp) as [_ [HL _]].
  assert (HM : spS sp + spH sp + spK sp = spL sp) by lia.
  split; [|exact HM].
  rewrite HM in H.
  unfold enc_matrix, enc_matrix_m, generate_constraint_matrix. rewrite Hsp. cbn [obind]. cbv zeta.
  rewrite rangeN_length.
  replace (spS sp + spH sp + N.of_nat (N.to_nat (spK sp))) with (spL sp) by lia.
  replace (N.to_nat (spS sp + spH sp) + N.to_nat (spK sp))%nat with (N.to_nat (spL sp)) by lia.
  destruct (assert_ok (spL sp <=? spL sp)) as [[]|c]; cbn [obind] in *; [|discriminate].
  rewrite <- dense_empty. rewrite set_ldpc_sim.
  destruct (set_ldpc_s _ _ _ _ _ _ _) as [m1|c]; cbn [obind omap] in *; [|discriminate].
  destruct (num_lt_symbols (spK sp)) as [W'|c]; cbn [obind] in *; [|discriminate].
  destruct (num_pi_symbols (spK sp)) as [P'|c]; cbn [obind] in *; [|discriminate].
  rewrite range_from_rangeN in H. rewrite set_enc_sim.
  destruct (set_enc_s _ _ _ _ _ _ _ _ _ _) as [m2|c]; cbn [obind omap] in *; [|discriminate].
  destruct (generate_hdpc_rows Release (spK sp) (spS sp) (spH sp)) as [hd|c]; cbn [obind] in *; [|discriminate].
  destruct (N.of_nat (length hd) =? spH sp) eqn:E1; cbn [andb assert_ok obind] in H; [|discriminate].
  destruct (forallb (fun r => N.of_nat (length r) =? spL sp) hd) eqn:E2; cbn [assert_ok obind] in H; [|discriminate].
  injection H as <-. apply N.eqb_eq in E1.
  f_equal. unfold full_matrix.
  rewrite dense_put_rows by (rewrite map_length; lia).
  rewrite map_length, map_map.
  replace (N.to_nat (spS sp) + length hd)%nat with (N.to_nat (spS sp + spH sp)) by lia.
  f_equal. f_equal.
  rewrite <- (map_id hd) at 1. apply map_ext_in. intros r Hr.
  rewrite forallb_forall in E2. specialize (E2 r Hr). apply N.eqb_eq in E2.
  symmetry. apply drow_of_dense. lia.
Qed.
