(* Fixed-width unsigned integer arithmetic as Rust performs it, over N.
   mode = Release : + - * wrap modulo 2^w
   mode = Checked : (overflow-checks / debug-assertions) they panic on overflow
   Casts always truncate.  Division / remainder by zero always panics. *)
From Coq Require Import NArith Lia.
From RQ Require Import Base.Outcome.
Open Scope N_scope.

Inductive mode := Release | Checked.

Definition wrap (w : N) (x : N) : N := x mod 2 ^ w.
Definition u8 := wrap 8.
Definition u16 := wrap 16.
Definition u32 := wrap 32.
Definition u64 := wrap 64.

Definition add_w (m : mode) (w : N) (a b : N) : outcome N :=
  let s := a + b in
  if s <? 2 ^ w then Ok s
  else match m with Release => Ok (s mod 2 ^ w) | Checked => Panic POverflow end.

Definition mul_w (m : mode) (w : N) (a b : N) : outcome N :=
  let s := a * b in
  if s <? 2 ^ w then Ok s
  else match m with Release => Ok (s mod 2 ^ w) | Checked => Panic POverflow end.

Definition sub_w (m : mode) (w : N) (a b : N) : outcome N :=
  if b <=? a then Ok (a - b)
  else match m with Release => Ok ((2 ^ w + a - b) mod 2 ^ w) | Checked => Panic POverflow end.

Definition div_ok (a b : N) : outcome N := if b =? 0 then Panic PDivZero else Ok (a / b).
Definition rem_ok (a b : N) : outcome N := if b =? 0 then Panic PDivZero else Ok (a mod b).

Definition ceil_div (a b : N) : N := if a mod b =? 0 then a / b else a / b + 1.

Lemma wrap_small w x : x < 2 ^ w -> wrap w x = x.
Proof. intros; unfold wrap; apply N.mod_small; assumption. Qed.

Lemma wrap_lt w x : wrap w x < 2 ^ w.
Proof. unfold wrap; apply N.mod_lt. apply N.pow_nonzero. discriminate. Qed.
