(* Outcomes of modelled Rust computations: a value or a panic (no totalising defaults). *)
From Coq Require Import NArith List.
Import ListNotations.

Inductive pclass := PAssert | PIndex | POverflow | PUnreachable | PUnimpl | PFuel | PDivZero | PUnwrap.

Inductive outcome (A : Type) : Type :=
| Ok (a : A)
| Panic (c : pclass).
Arguments Ok {A} a.
Arguments Panic {A} c.

Definition obind {A B} (x : outcome A) (f : A -> outcome B) : outcome B :=
  match x with Ok a => f a | Panic c => Panic c end.

Definition omap {A B} (f : A -> B) (x : outcome A) : outcome B :=
  match x with Ok a => Ok (f a) | Panic c => Panic c end.

Definition assert_ok (b : bool) : outcome unit := if b then Ok tt else Panic PAssert.

Definition is_ok {A} (x : outcome A) : bool := match x with Ok _ => true | Panic _ => false end.
Definition is_panic {A} (x : outcome A) : bool := negb (is_ok x).

Declare Scope outcome_scope.
Delimit Scope outcome_scope with outcome.
Notation "x <- e1 ;; e2" := (obind e1 (fun x => e2))
  (at level 100, e1 at next level, right associativity) : outcome_scope.
Notation "e1 ;;; e2" := (obind e1 (fun _ => e2))
  (at level 100, right associativity) : outcome_scope.
Notation "' pat <- e1 ;; e2" := (obind e1 (fun x => match x with pat => e2 end))
  (at level 100, pat pattern, e1 at next level, right associativity) : outcome_scope.

(* list indexing that panics instead of defaulting *)
Definition nth_ok {A} (l : list A) (i : nat) : outcome A :=
  match nth_error l i with Some a => Ok a | None => Panic PIndex end.

Fixpoint omapM {A B} (f : A -> outcome B) (l : list A) : outcome (list B) :=
  match l with
  | [] => Ok []
  | a :: t => match f a with
              | Ok b => match omapM f t with Ok bs => Ok (b :: bs) | Panic c => Panic c end
              | Panic c => Panic c
              end
  end.
