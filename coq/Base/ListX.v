(* Finite-range sweeps: forallb over [0, n) lifted to a universally quantified statement. *)
From Coq Require Import NArith List Lia Bool.
Import ListNotations.
Open Scope N_scope.

Definition rangeN (n : nat) : list N := map N.of_nat (seq 0 n).

Lemma in_rangeN (n : nat) (x : N) : x < N.of_nat n -> In x (rangeN n).
Proof.
  intros H. unfold rangeN. apply in_map_iff. exists (N.to_nat x). split.
  - apply N2Nat.id.
  - apply in_seq. lia.
Qed.

Lemma rangeN_in (n : nat) (x : N) : In x (rangeN n) -> x < N.of_nat n.
Proof.
  unfold rangeN. intros H. apply in_map_iff in H. destruct H as [k [Hk Hin]].
  apply in_seq in Hin. lia.
Qed.

Definition forall_lt (n : nat) (p : N -> bool) : bool := forallb p (rangeN n).

Lemma forall_lt_spec (n : nat) (p : N -> bool) :
  forall_lt n p = true -> forall x, x < N.of_nat n -> p x = true.
Proof.
  unfold forall_lt. intros H x Hx. rewrite forallb_forall in H. apply H. apply in_rangeN. exact Hx.
Qed.

Definition forall_lt2 (n m : nat) (p : N -> N -> bool) : bool :=
  forall_lt n (fun a => forall_lt m (p a)).

Lemma forall_lt2_spec n m p :
  forall_lt2 n m p = true -> forall a b, a < N.of_nat n -> b < N.of_nat m -> p a b = true.
Proof.
  unfold forall_lt2. intros H a b Ha Hb.
  pose proof (forall_lt_spec _ _ H a Ha) as H1. cbv beta in H1.
  exact (forall_lt_spec _ _ H1 b Hb).
Qed.

(* xor-sum of a list *)
Fixpoint xsum (l : list N) : N := match l with [] => 0 | x :: t => N.lxor x (xsum t) end.

Lemma xsum_map_lxor {A} (f g : A -> N) (l : list A) :
  xsum (map (fun i => N.lxor (f i) (g i)) l) = N.lxor (xsum (map f l)) (xsum (map g l)).
Proof.
  induction l as [|x t IH]; cbn [map xsum].
  - reflexivity.
  - rewrite IH.
    rewrite !N.lxor_assoc. f_equal.
    rewrite <- !N.lxor_assoc. f_equal. apply N.lxor_comm.
Qed.

Lemma nth_error_nth' {A} (l : list A) (i : nat) (d : A) :
  (i < length l)%nat -> nth_error l i = Some (nth i l d).
Proof.
  revert i; induction l as [|x t IH]; intros [|i] H; cbn in *; try lia; auto.
  apply IH. lia.
Qed.
