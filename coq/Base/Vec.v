(* Byte-vector helpers shared by Model/Kernels.v and its proofs: pointwise map2, half-open index
   ranges, a fold in the outcome monad, little-endian (de)composition of integers. *)
From Coq Require Import NArith List.
From RQ Require Import Base.Outcome.
Import ListNotations.
Open Scope N_scope.

Fixpoint map2 {A B C} (f : A -> B -> C) (l1 : list A) (l2 : list B) : list C :=
  match l1, l2 with
  | a :: t1, b :: t2 => f a b :: map2 f t1 t2
  | _, _ => []
  end.

(* Rust  a..b  *)
Definition range (a b : nat) : list nat := seq a (b - a).

(* for x in l { s = f(s, x)? }  *)
Fixpoint ofold {A S} (f : S -> A -> outcome S) (l : list A) (s : S) : outcome S :=
  match l with
  | [] => Ok s
  | a :: t => match f s a with Ok s' => ofold f t s' | Panic c => Panic c end
  end.

(* little-endian value of a byte list / the n low bytes of a value *)
Fixpoint le_val (bs : list N) : N :=
  match bs with [] => 0 | b :: t => b + 256 * le_val t end.

Fixpoint le_bytes (n : nat) (v : N) : list N :=
  match n with O => [] | S k => v mod 256 :: le_bytes k (v / 256) end.

Definition bytes (l : list N) : Prop := Forall (fun x => x < 256) l.
Definition bytesb (l : list N) : bool := forallb (fun x => x <? 256) l.
