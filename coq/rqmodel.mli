
val negb : bool -> bool

type nat =
| O
| S of nat

val snd : ('a1 * 'a2) -> 'a2

type comparison =
| Eq
| Lt
| Gt

val add : nat -> nat -> nat

type positive =
| XI of positive
| XO of positive
| XH

type n =
| N0
| Npos of positive

module Pos :
 sig
  type mask =
  | IsNul
  | IsPos of positive
  | IsNeg
 end

module Coq_Pos :
 sig
  val succ : positive -> positive

  val add : positive -> positive -> positive

  val add_carry : positive -> positive -> positive

  val pred_double : positive -> positive

  val pred_N : positive -> n

  type mask = Pos.mask =
  | IsNul
  | IsPos of positive
  | IsNeg

  val succ_double_mask : mask -> mask

  val double_mask : mask -> mask

  val double_pred_mask : positive -> mask

  val sub_mask : positive -> positive -> mask

  val sub_mask_carry : positive -> positive -> mask

  val mul : positive -> positive -> positive

  val iter : ('a1 -> 'a1) -> 'a1 -> positive -> 'a1

  val compare_cont : comparison -> positive -> positive -> comparison

  val compare : positive -> positive -> comparison

  val eqb : positive -> positive -> bool

  val coq_Nsucc_double : n -> n

  val coq_Ndouble : n -> n

  val coq_lxor : positive -> positive -> n

  val shiftl : positive -> n -> positive

  val testbit : positive -> n -> bool

  val iter_op : ('a1 -> 'a1 -> 'a1) -> positive -> 'a1 -> 'a1

  val to_nat : positive -> nat

  val of_succ_nat : nat -> positive
 end

module N :
 sig
  val succ_double : n -> n

  val double : n -> n

  val add : n -> n -> n

  val sub : n -> n -> n

  val mul : n -> n -> n

  val compare : n -> n -> comparison

  val eqb : n -> n -> bool

  val leb : n -> n -> bool

  val ltb : n -> n -> bool

  val pos_div_eucl : positive -> n -> n * n

  val div_eucl : n -> n -> n * n

  val modulo : n -> n -> n

  val coq_lxor : n -> n -> n

  val shiftl : n -> n -> n

  val testbit : n -> n -> bool

  val to_nat : n -> nat

  val of_nat : nat -> n
 end

val nth : nat -> 'a1 list -> 'a1 -> 'a1

val nth_error : 'a1 list -> nat -> 'a1 option

val map : ('a1 -> 'a2) -> 'a1 list -> 'a2 list

val seq : nat -> nat -> nat list

type pclass =
| PAssert
| PIndex
| POverflow
| PUnreachable
| PUnimpl
| PFuel
| PDivZero
| PUnwrap

type 'a outcome =
| Ok of 'a
| Panic of pclass

val obind : 'a1 outcome -> ('a1 -> 'a2 outcome) -> 'a2 outcome

val nth_ok : 'a1 list -> nat -> 'a1 outcome

val rangeN : nat -> n list

val xsum : n list -> n

val pOLY : n

val padd : n -> n -> n

val xtime : n -> n

val xtimes : n -> nat -> n

val sel : bool -> n -> n

val pmul : n -> n -> n

val ppow2 : nat -> n

val oCT_EXP : n list

val oCT_LOG : n list

val exp_at : n -> n outcome

val log_at : n -> n outcome

val oct_add : n -> n -> n

val oct_mul : n -> n -> n outcome

val oct_div : n -> n -> n outcome

val oct_fma : n -> n -> n -> n outcome

val oct_alpha : n -> n outcome

val const_mul : n -> n -> n outcome

val or0 : n outcome -> n

val octet_mul_table : n list list

val low_entry : n -> n -> n

val octet_mul_low_table : n list list

val hi_entry : n -> n -> n

val octet_mul_hi_table : n list list

val tbl2 : n list list -> n -> n -> n outcome

val pcode : pclass -> n

val enc1 : n outcome -> n list

val arg : n list -> nat -> n

val run_octet : n -> n list -> n list

val run : n -> n list -> n list
