
val negb : bool -> bool

type nat =
| O
| S of nat

val fst : ('a1 * 'a2) -> 'a1

val snd : ('a1 * 'a2) -> 'a2

val length : 'a1 list -> nat

val app : 'a1 list -> 'a1 list -> 'a1 list

type comparison =
| Eq
| Lt
| Gt

val add : nat -> nat -> nat

val leb : nat -> nat -> bool

type positive =
| XI of positive
| XO of positive
| XH

type n =
| N0
| Npos of positive

module Nat :
 sig
  val eqb : nat -> nat -> bool

  val leb : nat -> nat -> bool
 end

module Pos :
 sig
  type mask =
  | IsNul
  | IsPos of positive
  | IsNeg
 end

module Coq_Pos :
 sig
  val succ : positive -> positive

  val add : positive -> positive -> positive

  val add_carry : positive -> positive -> positive

  val pred_double : positive -> positive

  val pred_N : positive -> n

  type mask = Pos.mask =
  | IsNul
  | IsPos of positive
  | IsNeg

  val succ_double_mask : mask -> mask

  val double_mask : mask -> mask

  val double_pred_mask : positive -> mask

  val sub_mask : positive -> positive -> mask

  val sub_mask_carry : positive -> positive -> mask

  val mul : positive -> positive -> positive

  val iter : ('a1 -> 'a1) -> 'a1 -> positive -> 'a1

  val pow : positive -> positive -> positive

  val compare_cont : comparison -> positive -> positive -> comparison

  val compare : positive -> positive -> comparison

  val eqb : positive -> positive -> bool

  val coq_Nsucc_double : n -> n

  val coq_Ndouble : n -> n

  val coq_land : positive -> positive -> n

  val coq_lxor : positive -> positive -> n

  val shiftl : positive -> n -> positive

  val testbit : positive -> n -> bool

  val iter_op : ('a1 -> 'a1 -> 'a1) -> positive -> 'a1 -> 'a1

  val to_nat : positive -> nat

  val of_succ_nat : nat -> positive
 end

module N :
 sig
  val succ_double : n -> n

  val double : n -> n

  val add : n -> n -> n

  val sub : n -> n -> n

  val mul : n -> n -> n

  val compare : n -> n -> comparison

  val eqb : n -> n -> bool

  val leb : n -> n -> bool

  val ltb : n -> n -> bool

  val div2 : n -> n

  val pow : n -> n -> n

  val pos_div_eucl : positive -> n -> n * n

  val div_eucl : n -> n -> n * n

  val div : n -> n -> n

  val modulo : n -> n -> n

  val coq_land : n -> n -> n

  val coq_lxor : n -> n -> n

  val shiftl : n -> n -> n

  val shiftr : n -> n -> n

  val testbit : n -> n -> bool

  val to_nat : n -> nat

  val of_nat : nat -> n
 end

val nth : nat -> 'a1 list -> 'a1 -> 'a1

val nth_error : 'a1 list -> nat -> 'a1 option

val concat : 'a1 list list -> 'a1 list

val map : ('a1 -> 'a2) -> 'a1 list -> 'a2 list

val fold_right : ('a2 -> 'a1 -> 'a1) -> 'a1 -> 'a2 list -> 'a1

val filter : ('a1 -> bool) -> 'a1 list -> 'a1 list

val firstn : nat -> 'a1 list -> 'a1 list

val skipn : nat -> 'a1 list -> 'a1 list

val seq : nat -> nat -> nat list

type pclass =
| PAssert
| PIndex
| POverflow
| PUnreachable
| PUnimpl
| PFuel
| PDivZero
| PUnwrap

type 'a outcome =
| Ok of 'a
| Panic of pclass

val obind : 'a1 outcome -> ('a1 -> 'a2 outcome) -> 'a2 outcome

val omap : ('a1 -> 'a2) -> 'a1 outcome -> 'a2 outcome

val assert_ok : bool -> unit outcome

val nth_ok : 'a1 list -> nat -> 'a1 outcome

type mode =
| Release
| Checked

val wrap : n -> n -> n

val u8 : n -> n

val u32 : n -> n

val rem_ok : n -> n -> n outcome

val rangeN : nat -> n list

val xsum : n list -> n

val mAX_SOURCE_SYMBOLS_PER_BLOCK : n

val pLAN_CACHE_CAPACITY : n

val mAX_TRANSFER_LENGTH : n

val eSI_LIMIT : n

val pOLY : n

val padd : n -> n -> n

val xtime : n -> n

val xtimes : n -> nat -> n

val sel : bool -> n -> n

val pmul : n -> n -> n

val ppow2 : nat -> n

val be : nat -> n -> n list

val payload_id_wire : n -> n -> n list

val oti_wire : n -> n -> n -> n -> n -> n list

val cdiv : n -> n -> n

val oti_validb : n -> n -> n -> n -> bool

val oCT_EXP : n list

val oCT_LOG : n list

val exp_at : n -> n outcome

val log_at : n -> n outcome

val oct_add : n -> n -> n

val oct_mul : n -> n -> n outcome

val oct_div : n -> n -> n outcome

val oct_fma : n -> n -> n -> n outcome

val oct_alpha : n -> n outcome

val const_mul : n -> n -> n outcome

val or0 : n outcome -> n

val octet_mul_table : n list list

val low_entry : n -> n -> n

val octet_mul_low_table : n list list

val hi_entry : n -> n -> n

val octet_mul_hi_table : n list list

val tbl2 : n list list -> n -> n -> n outcome

val pid_new : n -> n -> (n * n) outcome

val pid_ser : (n * n) -> n list

val pid_deser : n list -> (n * n) outcome

val slice_from : 'a1 list -> nat -> 'a1 list outcome

val pkt_ser : ((n * n) * n list) -> n list

val pkt_deser : n list -> ((n * n) * n list) outcome

type oti = (((n * n) * n) * n) * n

val oti_ser : oti -> n list

val oti_deser : n list -> oti outcome

val ceil_div64 : n -> n -> n

val int_div_ceil_pinned : n -> n -> n

val oti_new_gen :
  (n -> n -> n) -> mode -> n -> n -> n -> n -> n -> oti outcome

val oti_new_pinned : mode -> n -> n -> n -> n -> n -> oti outcome

val oti_new_fixed : mode -> n -> n -> n -> n -> n -> oti outcome

val oti_new : mode -> n -> n -> n -> n -> n -> oti outcome

val assoc_get : n -> (n * 'a1) list -> 'a1 option

val assoc_remove : n -> (n * 'a1) list -> (n * 'a1) list

val assoc_insert : n -> 'a1 -> (n * 'a1) list -> (n * 'a1) list

val keys : (n * 'a1) list -> n list

type 'plan pc =
| Idle
| Missed of n
| Generated of n * 'plan

val get_pc : nat -> (nat * 'a1 pc) list -> 'a1 pc

val set_pc : nat -> 'a1 pc -> (nat * 'a1 pc) list -> (nat * 'a1 pc) list

type 'plan sysstate = { plans : (n * 'plan) list; order : n list;
                        threads : (nat * 'plan pc) list }

type step =
| Lookup of nat * n
| Generate of nat
| Insert of nat

type 'plan event =
| Ret of nat * n * 'plan

val init : 'a1 sysstate

val do_lookup : nat -> n -> 'a1 sysstate -> 'a1 sysstate * 'a1 event list

val do_generate :
  (n -> 'a1) -> nat -> 'a1 sysstate -> 'a1 sysstate * 'a1 event list

val evict : nat -> (n * 'a1) list -> n list -> (n * 'a1) list * n list

val do_insert : nat -> nat -> 'a1 sysstate -> 'a1 sysstate * 'a1 event list

val exec :
  (n -> 'a1) -> nat -> step -> 'a1 sysstate -> 'a1 sysstate * 'a1 event list

val insert_sorted : n -> n list -> n list

val sort_N : n list -> n list

val decode_step : ((n * n) * n) -> step option

val observe : n sysstate -> n event list -> n list

val cache_trace_from : nat -> ((n * n) * n) list -> n sysstate -> n list list

val cache_trace : nat -> ((n * n) * n) list -> n list list

val pcode : pclass -> n

val enc1 : n outcome -> n list

val encl : n list outcome -> n list

val arg : n list -> nat -> n

val run_octet : n -> n list -> n list

val b2n : bool -> n

val enc_pid : (n * n) outcome -> n list

val oti_list : oti -> n list

val enc_oti : oti outcome -> n list

val triples : n list -> ((n * n) * n) list

val run_wire : n -> n list -> n list

val run : n -> n list -> n list
