
val xorb : bool -> bool -> bool

val negb : bool -> bool

type nat =
| O
| S of nat

val option_map : ('a1 -> 'a2) -> 'a1 option -> 'a2 option

val fst : ('a1 * 'a2) -> 'a1

val snd : ('a1 * 'a2) -> 'a2

val length : 'a1 list -> nat

val app : 'a1 list -> 'a1 list -> 'a1 list

type comparison =
| Eq
| Lt
| Gt

val add : nat -> nat -> nat

val mul : nat -> nat -> nat

val sub : nat -> nat -> nat

val eqb : nat -> nat -> bool

val leb : nat -> nat -> bool

val ltb : nat -> nat -> bool

val divmod : nat -> nat -> nat -> nat -> nat * nat

val modulo : nat -> nat -> nat

type positive =
| XI of positive
| XO of positive
| XH

type n =
| N0
| Npos of positive

val eqb0 : bool -> bool -> bool

module Nat :
 sig
  val sub : nat -> nat -> nat

  val eqb : nat -> nat -> bool

  val leb : nat -> nat -> bool

  val ltb : nat -> nat -> bool

  val min : nat -> nat -> nat

  val divmod : nat -> nat -> nat -> nat -> nat * nat

  val div : nat -> nat -> nat

  val modulo : nat -> nat -> nat
 end

module Pos :
 sig
  type mask =
  | IsNul
  | IsPos of positive
  | IsNeg
 end

module Coq_Pos :
 sig
  val succ : positive -> positive

  val add : positive -> positive -> positive

  val add_carry : positive -> positive -> positive

  val pred_double : positive -> positive

  val pred_N : positive -> n

  type mask = Pos.mask =
  | IsNul
  | IsPos of positive
  | IsNeg

  val succ_double_mask : mask -> mask

  val double_mask : mask -> mask

  val double_pred_mask : positive -> mask

  val sub_mask : positive -> positive -> mask

  val sub_mask_carry : positive -> positive -> mask

  val mul : positive -> positive -> positive

  val iter : ('a1 -> 'a1) -> 'a1 -> positive -> 'a1

  val pow : positive -> positive -> positive

  val compare_cont : comparison -> positive -> positive -> comparison

  val compare : positive -> positive -> comparison

  val eqb : positive -> positive -> bool

  val leb : positive -> positive -> bool

  val sqrtrem_step :
    (positive -> positive) -> (positive -> positive) -> (positive * mask) ->
    positive * mask

  val sqrtrem : positive -> positive * mask

  val sqrt : positive -> positive

  val coq_Nsucc_double : n -> n

  val coq_Ndouble : n -> n

  val coq_lor : positive -> positive -> positive

  val coq_land : positive -> positive -> n

  val ldiff : positive -> positive -> n

  val coq_lxor : positive -> positive -> n

  val shiftl : positive -> n -> positive

  val testbit : positive -> n -> bool

  val iter_op : ('a1 -> 'a1 -> 'a1) -> positive -> 'a1 -> 'a1

  val to_nat : positive -> nat

  val of_succ_nat : nat -> positive
 end

module N :
 sig
  val succ_double : n -> n

  val double : n -> n

  val succ : n -> n

  val pred : n -> n

  val succ_pos : n -> positive

  val add : n -> n -> n

  val sub : n -> n -> n

  val mul : n -> n -> n

  val compare : n -> n -> comparison

  val eqb : n -> n -> bool

  val leb : n -> n -> bool

  val ltb : n -> n -> bool

  val min : n -> n -> n

  val max : n -> n -> n

  val div2 : n -> n

  val pow : n -> n -> n

  val pos_div_eucl : positive -> n -> n * n

  val div_eucl : n -> n -> n * n

  val div : n -> n -> n

  val modulo : n -> n -> n

  val sqrt : n -> n

  val coq_lor : n -> n -> n

  val coq_land : n -> n -> n

  val ldiff : n -> n -> n

  val coq_lxor : n -> n -> n

  val shiftl : n -> n -> n

  val shiftr : n -> n -> n

  val testbit : n -> n -> bool

  val to_nat : n -> nat

  val of_nat : nat -> n

  val ones : n -> n
 end

val hd : 'a1 -> 'a1 list -> 'a1

val tl : 'a1 list -> 'a1 list

val nth : nat -> 'a1 list -> 'a1 -> 'a1

val nth_error : 'a1 list -> nat -> 'a1 option

val rev : 'a1 list -> 'a1 list

val concat : 'a1 list list -> 'a1 list

val map : ('a1 -> 'a2) -> 'a1 list -> 'a2 list

val flat_map : ('a1 -> 'a2 list) -> 'a1 list -> 'a2 list

val fold_left : ('a1 -> 'a2 -> 'a1) -> 'a2 list -> 'a1 -> 'a1

val fold_right : ('a2 -> 'a1 -> 'a1) -> 'a1 -> 'a2 list -> 'a1

val existsb : ('a1 -> bool) -> 'a1 list -> bool

val forallb : ('a1 -> bool) -> 'a1 list -> bool

val filter : ('a1 -> bool) -> 'a1 list -> 'a1 list

val find : ('a1 -> bool) -> 'a1 list -> 'a1 option

val combine : 'a1 list -> 'a2 list -> ('a1 * 'a2) list

val firstn : nat -> 'a1 list -> 'a1 list

val skipn : nat -> 'a1 list -> 'a1 list

val seq : nat -> nat -> nat list

val repeat : 'a1 -> nat -> 'a1 list

type pclass =
| PAssert
| PIndex
| POverflow
| PUnreachable
| PUnimpl
| PFuel
| PDivZero
| PUnwrap

type 'a outcome =
| Ok of 'a
| Panic of pclass

val obind : 'a1 outcome -> ('a1 -> 'a2 outcome) -> 'a2 outcome

val omap : ('a1 -> 'a2) -> 'a1 outcome -> 'a2 outcome

val assert_ok : bool -> unit outcome

val nth_ok : 'a1 list -> nat -> 'a1 outcome

val omapM : ('a1 -> 'a2 outcome) -> 'a1 list -> 'a2 list outcome

type mode =
| Release
| Checked

val wrap : n -> n -> n

val u8 : n -> n

val u16 : n -> n

val u32 : n -> n

val add_w : mode -> n -> n -> n -> n outcome

val mul_w : mode -> n -> n -> n -> n outcome

val sub_w : mode -> n -> n -> n -> n outcome

val div_ok : n -> n -> n outcome

val rem_ok : n -> n -> n outcome

val ceil_div : n -> n -> n

val rangeN : nat -> n list

val xsum : n list -> n

val mAX_SOURCE_SYMBOLS_PER_BLOCK : n

val pLAN_CACHE_CAPACITY : n

val mAX_TRANSFER_LENGTH : n

val eSI_LIMIT : n

val tUPLE_A_BASE : n

val tUPLE_A_MUL : n

val tUPLE_B_MUL : n

val tUPLE_Y_MOD : n

val tUPLE_V_RANGE : n

val dEG_V_LIMIT : n

val dEFAULT_MEMORY : n

val dEG_F : n list

val pOLY : n

val padd : n -> n -> n

val xtime : n -> n

val xtimes : n -> nat -> n

val sel : bool -> n -> n

val pmul : n -> n -> n

val ppow2 : nat -> n

val be : nat -> n -> n list

val payload_id_wire : n -> n -> n list

val oti_wire : n -> n -> n -> n -> n -> n list

val cdiv : n -> n -> n

val oti_validb : n -> n -> n -> n -> bool

val rFC_V0 : n list

val rFC_V1 : n list

val rFC_V2 : n list

val rFC_V3 : n list

val rFC_TABLE2 : ((((n * n) * n) * n) * n) list

val rFC_DEG_F : n list

val rFC_TUPLE_A_BASE : n

val rFC_TUPLE_A_MUL : n

val rFC_TUPLE_B_MUL : n

val rfc_v : n list -> n -> n

val rand : n -> n -> n -> n

val rfc_f : n -> n

val deg_index : n -> n

val deg : n -> n -> n

val tuple_A : n -> n

val tuple_B : n -> n

val tuple_y : n -> n -> n

val tuple : n -> n -> n -> n -> ((((n * n) * n) * n) * n) * n

val no_divisor_from : nat -> n -> n -> bool

val is_prime : n -> bool

val tABLE2 : ((((n * n) * n) * n) * n) list

val p1_TABLE : (n * n) list

val kprimes : n list

val pick_le : n -> n -> n option -> n option

val greatest_le : n -> n list -> n option

val al_of : n -> n

val sS_of : n -> n

val t_of : n -> n

val kt_of : n -> n -> n

val nmax_of : n -> n

val kL_bound : n -> n -> n -> n

val kL : n -> n -> n -> n option

val z_of : n -> n -> n -> n

val fits : n -> n -> n -> n -> bool

val n_opt : n -> n -> n -> n option

val n_of : n -> n -> n -> n

val db : n -> n -> n -> bool

val int_div_ceil : mode -> n -> n -> n outcome

val kl_scan :
  bool -> mode -> n -> n -> n -> n -> ((((n * n) * n) * n) * n) list -> n
  outcome

val kl : bool -> mode -> n -> n -> n -> n -> n outcome

val nsearch :
  bool -> mode -> n -> n -> n -> n -> n -> nat -> n -> n -> n outcome

val gen_params_body :
  bool -> mode -> n -> n -> n -> n -> n -> ((((n * n) * n) * n) * n) outcome

val gen_params :
  bool -> mode -> n -> n -> n -> ((((n * n) * n) * n) * n) outcome

val with_defaults :
  bool -> mode -> n -> n -> ((((n * n) * n) * n) * n) outcome

val oCT_EXP : n list

val oCT_LOG : n list

val exp_at : n -> n outcome

val log_at : n -> n outcome

val expN : n -> n

val logN : n -> n

val mulN : n -> n -> n

val divN : n -> n -> n

val oct_add : n -> n -> n

val oct_mul : n -> n -> n outcome

val oct_div : n -> n -> n outcome

val oct_fma : n -> n -> n -> n outcome

val oct_alpha : n -> n outcome

val const_mul : n -> n -> n outcome

val or0 : n outcome -> n

val octet_mul_table : n list list

val low_entry : n -> n -> n

val octet_mul_low_table : n list list

val hi_entry : n -> n -> n

val octet_mul_hi_table : n list list

val tbl2 : n list list -> n -> n -> n outcome

val pid_new : n -> n -> (n * n) outcome

val pid_ser : (n * n) -> n list

val pid_deser : n list -> (n * n) outcome

val slice_from : 'a1 list -> nat -> 'a1 list outcome

val pkt_ser : ((n * n) * n list) -> n list

val pkt_deser : n list -> ((n * n) * n list) outcome

type oti = (((n * n) * n) * n) * n

val oti_ser : oti -> n list

val oti_deser : n list -> oti outcome

val ceil_div64 : n -> n -> n

val int_div_ceil_pinned : n -> n -> n

val oti_new_gen :
  (n -> n -> n) -> mode -> n -> n -> n -> n -> n -> oti outcome

val oti_new_pinned : mode -> n -> n -> n -> n -> n -> oti outcome

val oti_new_fixed : mode -> n -> n -> n -> n -> n -> oti outcome

val oti_new : mode -> n -> n -> n -> n -> n -> oti outcome

val assoc_get : n -> (n * 'a1) list -> 'a1 option

val assoc_remove : n -> (n * 'a1) list -> (n * 'a1) list

val assoc_insert : n -> 'a1 -> (n * 'a1) list -> (n * 'a1) list

val keys : (n * 'a1) list -> n list

type 'plan pc =
| Idle
| Missed of n
| Generated of n * 'plan

val get_pc : nat -> (nat * 'a1 pc) list -> 'a1 pc

val set_pc : nat -> 'a1 pc -> (nat * 'a1 pc) list -> (nat * 'a1 pc) list

type 'plan sysstate = { plans : (n * 'plan) list; order : n list;
                        threads : (nat * 'plan pc) list }

type step =
| Lookup of nat * n
| Generate of nat
| Insert of nat
| Abort of nat

type 'plan event =
| Ret of nat * n * 'plan

val init : 'a1 sysstate

val do_lookup : nat -> n -> 'a1 sysstate -> 'a1 sysstate * 'a1 event list

val do_generate :
  (n -> 'a1) -> nat -> 'a1 sysstate -> 'a1 sysstate * 'a1 event list

val evict : nat -> (n * 'a1) list -> n list -> (n * 'a1) list * n list

val do_insert : nat -> nat -> 'a1 sysstate -> 'a1 sysstate * 'a1 event list

val do_abort : nat -> 'a1 sysstate -> 'a1 sysstate * 'a1 event list

val exec :
  (n -> 'a1) -> nat -> step -> 'a1 sysstate -> 'a1 sysstate * 'a1 event list

val insert_sorted : n -> n list -> n list

val sort_N : n list -> n list

val decode_step : ((n * n) * n) -> step option

val observe : n sysstate -> n event list -> n list

val cache_trace_from : nat -> ((n * n) * n) list -> n sysstate -> n list list

val cache_trace : nat -> ((n * n) * n) list -> n list list

val r_k : ((((n * n) * n) * n) * n) -> n

val r_j : ((((n * n) * n) * n) * n) -> n

val r_s : ((((n * n) * n) * n) * n) -> n

val r_h : ((((n * n) * n) * n) * n) -> n

val r_w : ((((n * n) * n) * n) * n) -> n

val scan_tab : ('a1 -> n) -> ('a1 -> n) -> n -> 'a1 list -> n outcome

val lookup5 : (((((n * n) * n) * n) * n) -> n) -> n -> n outcome

val extended_source_block_symbols : n -> n outcome

val systematic_index : n -> n outcome

val num_hdpc_symbols : n -> n outcome

val num_ldpc_symbols : n -> n outcome

val num_lt_symbols : n -> n outcome

val num_intermediate_symbols : n -> n outcome

val num_pi_symbols : n -> n outcome

val calculate_p1 : n -> n outcome

val v0 : n list

val v1 : n list

val v2 : n list

val v3 : n list

val rand_gen : bool -> mode -> n -> n -> n -> n outcome

val deg_loop : mode -> n -> n -> nat -> n -> n outcome

val deg0 : mode -> n -> n -> n outcome

val intermediate_tuple_gen :
  bool -> mode -> n -> n -> n -> n -> (((((n * n) * n) * n) * n) * n) outcome

val lt_loop : mode -> nat -> n -> n -> n -> n list outcome

val pi_skip : mode -> nat -> n -> n -> n -> n -> n outcome

val pi_loop : mode -> nat -> nat -> n -> n -> n -> n -> n -> n list outcome

val enc_indices :
  mode -> (((((n * n) * n) * n) * n) * n) -> n -> n -> n -> n list outcome

val append : positive -> positive -> positive

module PositiveMap :
 sig
  type key = positive

  type 'a tree =
  | Leaf
  | Node of 'a tree * 'a option * 'a tree

  type 'a t = 'a tree

  val empty : 'a1 t

  val find : key -> 'a1 t -> 'a1 option

  val add : key -> 'a1 -> 'a1 t -> 'a1 t

  val xelements : 'a1 t -> key -> (key * 'a1) list

  val elements : 'a1 t -> (key * 'a1) list
 end

val vadd : n list -> n list -> n list

val vzero : nat -> n list

val vec_eqb : n list -> n list -> bool

val map2 : ('a1 -> 'a2 -> 'a3) -> 'a1 list -> 'a2 list -> 'a3 list

val vscale : (n -> n -> n) -> n -> n list -> n list

val lincomb : (n -> n -> n) -> nat -> n list -> n list list -> n list

val pick_row : n list list -> (n list * n list list) option

val pick_rhs : n list list -> n list list -> n list * n list list

val elim_coef : (n -> n -> n) -> (n -> n) -> n list -> n list -> n

val elim_row : (n -> n -> n) -> (n -> n) -> n list -> n list -> n list

val elim_rhs :
  (n -> n -> n) -> (n -> n) -> n list -> n list -> n list -> n list -> n list

val gauss_solve :
  (n -> n -> n) -> (n -> n) -> nat -> nat -> n list list -> n list list -> n
  list list option

type cfg = { cF : n; cT : n; cZ : n; cN : n; cAl : n }

val ceil : n -> n -> n

val floor : n -> n -> n

val partition : n -> n -> ((n * n) * n) * n

val q1 : (((n * n) * n) * n) -> n

val q2 : (((n * n) * n) * n) -> n

val q3 : (((n * n) * n) * n) -> n

val sumN : n list -> n

val kt : cfg -> n

val kL0 : cfg -> n

val kS : cfg -> n

val zL : cfg -> n

val tL : cfg -> n

val tS : cfg -> n

val nL : cfg -> n

val blk_K : cfg -> n -> n

val blk_off : cfg -> n -> n

val obj_byte : n list -> n -> n

val blk_byte : cfg -> n list -> n -> n -> n

val sub_len : cfg -> n -> n

val sub_off : cfg -> n -> n -> n

val sub_symbol : cfg -> n list -> n -> n -> n -> n list

val symbol : cfg -> n list -> n -> n -> n list

val source_packets_spec : cfg -> n list -> ((n * n) * n list) list

type cparams = { cK : n; cJ : n; cS : n; cH : n; cW : n; cP1 : n }

val cL : cparams -> n

val cP : cparams -> n

val cB : cparams -> n

val b2n : bool -> n

val parity : n -> n

val ldpc_count : cparams -> n -> n -> n

val ldpc_entry : cparams -> n -> n -> n

val alpha_pow : n -> n

val mT : cparams -> n -> n -> n

val gAMMA : n -> n -> n

val g_HDPC : cparams -> n -> n -> n

val hdpc_entry : cparams -> n -> n -> n

val enc_lt : nat -> n -> n -> n -> n list

val enc_skip : nat -> n -> n -> n -> n -> n

val enc_pi : nat -> nat -> n -> n -> n -> n -> n -> n list

val enc_indices0 : cparams -> (((((n * n) * n) * n) * n) * n) -> n list

val tuple_of : cparams -> n -> ((((n * n) * n) * n) * n) * n

val count_occ_N : n list -> n -> n

val enc_entry : cparams -> n -> n -> n

val a_entry : cparams -> n list -> n -> n -> n

val a_rfc : cparams -> n list -> n list list

val vxor : n list -> n list -> n list

val enc :
  cparams -> nat -> n list list -> (((((n * n) * n) * n) * n) * n) -> n list

val fmul_key : n -> n -> positive

val fmul_table : n PositiveMap.t

val fmul : n -> n -> n

val finv_table : n PositiveMap.t

val finv : n -> n

val zero_matrix : nat -> nat -> n list list

val list_upd : 'a1 list -> nat -> ('a1 -> 'a1) -> 'a1 list outcome

val list_put : 'a1 list -> nat -> 'a1 -> 'a1 list outcome

val mset : n list list -> n -> n -> n -> n list list outcome

val ofor : nat -> n -> (n -> 'a1 -> 'a1 outcome) -> 'a1 -> 'a1 outcome

val ofold : ('a1 -> 'a2 -> 'a2 outcome) -> 'a1 list -> 'a2 -> 'a2 outcome

val set_ldpc : n -> n -> n -> n -> n list list -> n list list outcome

val set_enc :
  mode -> n -> n -> n -> n -> n -> n list -> n list list -> n list list
  outcome

val hdpc_step : mode -> n -> n -> n list -> n list outcome

val hdpc_cols :
  mode -> n -> nat -> n -> n list -> n list list -> n list list outcome

val transpose_cols : nat -> n list list -> n list list

val generate_hdpc_rows : mode -> n -> n -> n -> n list list outcome

type sysparams = { spK : n; spJ : n; spS : n; spH : n; spW : n; spP : 
                   n; spP1 : n; spL : n }

val sys_params : n -> sysparams outcome

val generate_constraint_matrix :
  mode -> n -> n list -> (n list list * n list list) outcome

val generate_constraint_matrix_no_hdpc :
  mode -> n -> n list -> n list list outcome

val full_matrix : n -> n -> n list list -> n list list -> n list list

val lenN : 'a1 list -> n

val slice : n list -> n -> n -> n list outcome

val slice_from0 : n list -> n -> n list outcome

val write_slice : n list -> n -> n list -> n list outcome

val enumerate_from : n -> 'a1 list -> (n * 'a1) list

val int_div_ceil0 : n -> n -> n outcome

val partition0 : n -> n -> (((n * n) * n) * n) outcome

val push_blocks :
  nat -> n -> (n -> unit outcome) -> n -> ((n * n) list * n) outcome

val calculate_block_offsets : n -> n -> n -> n -> (n * n) list outcome

val encoder_block : n list -> (n * n) -> n list outcome

val extend_symbols :
  n list -> n -> n list list -> n -> (n list list * n) outcome

val sub_block_loop :
  n list -> n -> n -> n -> n -> n list -> n list list -> n -> (n list
  list * n) outcome

val chunks : n -> n list -> n list list

val create_symbols : cfg -> n list -> n list list outcome

val payload_id_new : n -> n -> (n * n) outcome

val source_packets : n -> n list list -> ((n * n) * n list) list outcome

val encoder_new : cfg -> n list -> (n * n list list) list outcome

val source_packets_of_object :
  cfg -> n list -> ((n * n) * n list) list outcome

val unpack_loop :
  n -> n -> n -> n -> n -> n list -> n -> n list -> n list -> n -> n -> n
  list outcome

val unpack_sub_blocks : cfg -> n -> n list -> n list -> n -> n list outcome

val unpack_all : cfg -> n -> (n * n list) list -> n list -> n list outcome

val block_from_all_source : cfg -> n -> n list list -> n list outcome

val reassemble : cfg -> n list list -> n list

type slab = { sl_data : n list list; sl_ss : nat; sl_map : n list option }

val slab_count : slab -> nat

val phys : slab -> n -> n outcome

val slab_get : slab -> n -> n list outcome

val list_set : 'a1 list -> nat -> 'a1 -> 'a1 list

val slab_put : slab -> n -> n list -> slab

val slab_pair : slab -> n -> n -> ((n * n list) * n list) outcome

val map0 : ('a1 -> 'a2 -> 'a3) -> 'a1 list -> 'a2 list -> 'a3 list

val bytes_add : n list -> n list -> n list

val bytes_mul : n -> n list -> n list

val bytes_fma : n -> n list -> n list -> n list

val slab_add_assign : slab -> n -> n -> slab outcome

val slab_mulassign : slab -> n -> n -> slab outcome

val slab_fma : mode -> slab -> n -> n -> n -> slab outcome

val slab_set_reorder : slab -> n list -> slab

type symbol_op =
| SAdd of n * n
| SMul of n * n
| SFMA of n * n * n
| SReorder of n list

val perform_op : mode -> symbol_op -> slab -> slab outcome

val replay : mode -> symbol_op list -> slab -> slab outcome

val slab_read : slab -> nat -> n -> n list list outcome

val create_d : sysparams -> n list list -> nat -> n list list

val gen_intermediate_symbols :
  mode -> n list list -> nat -> n list list outcome

type sb_encoder = { sbe_id : n; sbe_syms : n list list; sbe_C : n list list;
                    sbe_T : nat }

val sbe_new : mode -> n -> cfg -> n list -> sb_encoder outcome

val enc_into :
  mode -> n -> n list list -> (((((n * n) * n) * n) * n) * n) -> n list
  outcome

val sbe_source_packets : sb_encoder -> ((n * n) * n list) list outcome

val sbe_repair_packets_pinned :
  mode -> sb_encoder -> n -> n -> ((n * n) * n list) list outcome

val sbe_repair_packets :
  mode -> sb_encoder -> n -> n -> ((n * n) * n list) list outcome

val encoder_new_full : mode -> cfg -> n list -> sb_encoder list outcome

val get_encoded_packets :
  mode -> sb_encoder list -> n -> ((n * n) * n list) list outcome

type sb_decoder = { sbd_id : n; sbd_cfg : cfg; sbd_K : n;
                    sbd_src : n list option list;
                    sbd_rep : (n * n list) list; sbd_nsrc : n;
                    sbd_esis : n list; sbd_decoded : bool }

val sbd_new : n -> cfg -> n -> sb_decoder outcome

val mem_N : n -> n list -> bool

val sbd_add : mode -> sb_decoder -> ((n * n) * n list) -> sb_decoder outcome

val present_sources : sb_decoder -> (n * n list) list

val rebuild_source_symbol :
  mode -> sysparams -> n list list -> n -> n list outcome

val sbd_finish :
  mode -> sb_decoder -> sysparams -> n list list -> n list outcome

val check_len : nat -> n list -> n list outcome

val sbd_try : mode -> sb_decoder -> (n list option * sb_decoder) outcome

val sbd_decode :
  mode -> sb_decoder -> ((n * n) * n list) list -> (n list
  option * sb_decoder) outcome

type decoder = { dec_cfg : cfg; dec_sbd : sb_decoder list;
                 dec_blocks : n list option list }

val dec_new : cfg -> decoder outcome

val dec_result : decoder -> n list option

val dec_add : mode -> decoder -> ((n * n) * n list) -> decoder outcome

val dec_decode :
  mode -> decoder -> ((n * n) * n list) -> (n list option * decoder) outcome

type srow = (positive * n) list

type smat = srow PositiveMap.t

val ckey : n -> positive

type fop =
| FAdd of n * n
| FMul of n * n
| FFMA of n * n * n

val sadd : srow -> srow -> srow

val sscale : n -> srow -> srow

val get_row : smat -> n -> srow

val set_row : smat -> n -> srow -> smat

val fapply : fop -> smat -> smat

val fapply_ops : fop list -> smat -> smat

val fop_valid : n -> fop -> bool

val srow_wfb : srow -> bool

val smat_wfb : smat -> bool

val srow_is_unit : n -> srow -> bool

val check_units : smat -> n -> n -> n list -> bool

val check_cert_fast : n -> n -> smat -> fop list -> n list -> bool

val sval : positive -> srow -> n

val srow_of_dense_from : n -> n list -> srow

val srow_of_dense : n list -> srow

val nodup_from : unit PositiveMap.t -> n list -> bool

val nodup_fast : n list -> bool

val decode_plan : n list -> (fop list * n list) option

val enc_matrix_m : mode -> n -> n list list outcome

val enc_matrix : n -> n list list outcome

val sins : positive -> n -> srow -> srow

val sset1 : n -> srow -> srow

val sset : n -> n -> smat -> n -> n -> smat outcome

val set_ldpc_s : n -> n -> n -> n -> n -> n -> smat -> smat outcome

val set_enc_s :
  mode -> n -> n -> n -> n -> n -> n -> n -> n list -> smat -> smat outcome

val put_rows : smat -> n -> srow list -> smat

val range_from : nat -> n -> n list

val enc_matrix_sparse : n -> smat outcome

val fma_scalar_ok : fop -> bool

val cert_ok : n -> n list -> bool

val argn : n list -> nat -> n

val cfg_of : n list -> cfg

val flat_packets : ((n * n) * n list) list -> n list

val enc1l : n list outcome -> n list

val cfg_guard : mode -> cfg -> unit outcome

val run_enc_packets : mode -> n list -> n list

val run_repair_window : mode -> n list -> n list

val triples3 : nat -> n list -> ((n * n) * n) list

val packet_of :
  mode -> sb_encoder list -> n -> n -> ((n * n) * n list) outcome

val list_eqb : n list -> n list -> bool

val flag_of : n list option -> n list option -> n * n list option

val run_codec_hist : mode -> n list -> n list

val take_batches : nat -> n list -> n list list * n list

val run_sbd_hist : mode -> n list -> n list

val run_intermediate : mode -> n list -> n list

val next_prime : nat -> n -> n

val spec_params : n -> cparams option

val run_spec_block_packets : n list -> n list

val run_layout_packets : mode -> n list -> n list

val rotate : nat -> 'a1 list -> 'a1 list

val run_layout_roundtrip : mode -> n list -> n list

val run_spec_layout_packets : n list -> n list

val decode_ops : nat -> n list -> symbol_op list

val run_slab_replay : mode -> n list -> n list

val run_cert_ok : n list -> n list

val run_check_intermediate : n list -> n list

val insert_sorted_N : n -> n list -> n list

val run_cm_rows : mode -> n list -> n list

val run_check_intermediate_rfc : n list -> n list

val pm_of_list : n list list -> n list PositiveMap.t

val pm_get : nat -> n list PositiveMap.t -> n -> n list

val pm_xor :
  nat -> n list PositiveMap.t -> n -> n list -> n list PositiveMap.t

val chunks_lin : nat -> nat -> n list -> n list list

val run_check_rows_rfc : n list -> n list

val run_spec_enc_from_C : n list -> n list

type bvec = n list * n

val bv_padding : n -> n

val bit_at : n list -> n -> n

val to_bits : bvec -> n list

val map1 : ('a1 -> 'a2 -> 'a3) -> 'a1 list -> 'a2 list -> 'a3 list

val range : nat -> nat -> nat list

val ofold0 : ('a2 -> 'a1 -> 'a2 outcome) -> 'a1 list -> 'a2 -> 'a2 outcome

val le_val : n list -> n

val le_bytes : nat -> n -> n list

val loadu : nat -> n list -> nat -> n list outcome

val storeu : n list -> nat -> n list -> n list outcome

val get_unchecked : n list -> nat -> n outcome

val set_unchecked : n list -> nat -> n -> n list outcome

val v_and : n list -> n list -> n list

val v_xor : n list -> n list -> n list

val v_andnot : n list -> n list -> n list

val v_cmpeq_epi8 : n list -> n list -> n list

val v_setzero : nat -> n list

val v_set1_epi8 : nat -> n -> n list

val v_set1_epi32 : nat -> n -> n list

val v_set1_epi64x : nat -> n -> n list

val v_set_epi64x : n -> n -> n -> n -> n list

val v_broadcast128 : nat -> n list -> n list

val pshufb128 : n list -> n list -> n list

val v_shuffle_epi8 : nat -> n list -> n list -> n list

val v_srli_epi64 : nat -> n -> n list -> n list

val v_maskz_mov_epi8 : n -> n list -> n list

val bextr2_u32 : n -> n -> n

val wORD_WIDTH : n

val padding_bits : bvec -> n

val select_mask : n -> n outcome

val to_octet_vec_loop : n list -> nat -> n -> n -> ((n list * n) * n) outcome

val to_octet_vec : bvec -> n list outcome

val u32_view : n list -> n list

val xor_u64_loop : nat -> nat -> n list -> n list -> n list outcome

val xor_byte_loop : nat -> nat -> n list -> n list -> n list outcome

val add_assign_fallback : n list -> n list -> n list outcome

val add_assign_simd : nat -> n list -> n list -> n list outcome

val add_assign_avx512 : n list -> n list -> n list outcome

val add_assign_avx2 : n list -> n list -> n list outcome

val add_assign_ssse3 : n list -> n list -> n list outcome

val octet_mul_unchecked : n -> n -> n outcome

val mul_byte_loop : nat -> nat -> n -> n list -> n list outcome

val mulassign_scalar_fallback : n list -> n -> n list outcome

val mulvec_avx512 : n list -> n list -> n list -> n list

val mulvec_avx2 : n list -> n list -> n list -> n list

val mulvec_ssse3 : n list -> n list -> n list -> n list

val load_low_table : nat -> n -> n list outcome

val load_hi_table : nat -> n -> n list outcome

val mulassign_scalar_avx512 : n list -> n -> n list outcome

val mulassign_scalar_avx2 : n list -> n -> n list outcome

val mulassign_scalar_ssse3 : n list -> n -> n list outcome

val fma_byte_loop : nat -> nat -> n -> n list -> n list -> n list outcome

val fused_addassign_mul_scalar_fallback :
  n list -> n list -> n -> n list outcome

val fused_addassign_mul_scalar_avx512 :
  n list -> n list -> n -> n list outcome

val fused_addassign_mul_scalar_avx2 : n list -> n list -> n -> n list outcome

val fused_addassign_mul_scalar_ssse3 : n list -> n list -> n -> n list outcome

val sub_usize : nat -> nat -> nat outcome

val fused_addassign_mul_scalar_binary_avx2 :
  n list -> bvec -> n -> n list outcome

val fused_addassign_mul_scalar_binary_avx512 :
  n list -> bvec -> n -> n list outcome

type feature =
| AVX512F
| AVX512BW
| AVX2
| BMI1
| SSSE3

val feature_eqb : feature -> feature -> bool

type cpu = feature list

val has : cpu -> feature -> bool

val debug_assert : mode -> bool -> unit outcome

val add_assign : cpu -> n list -> n list -> n list outcome

val mulassign_scalar : cpu -> n list -> n -> n list outcome

val fused_addassign_mul_scalar :
  mode -> cpu -> n list -> n list -> n -> n list outcome

val fused_addassign_mul_scalar_binary_generic :
  mode -> cpu -> n list -> bvec -> n -> n list outcome

val fused_addassign_mul_scalar_binary :
  mode -> cpu -> n list -> bvec -> n -> n list outcome

val kargn : n list -> nat -> n

val kenc : n list outcome -> n list

val host_cpu : cpu

val run_k_add : n list -> n list

val run_k_mul : n list -> n list

val run_k_fma : mode -> n list -> n list

val run_k_fmabin : mode -> n list -> n list

val run_k_unpack : n list -> n list

val run_spec_bits : n list -> n list

val run_kern : n -> n list -> n list

type bitmat = { bh : nat; bw : nat; cell : bool list list;
                defd : bool list list }

val tab : nat -> nat -> (nat -> nat -> bool) -> bool list list

val bm_get : bitmat -> nat -> nat -> bool

val bm_def : bitmat -> nat -> nat -> bool

val bm_make :
  nat -> nat -> (nat -> nat -> bool) -> (nat -> nat -> bool) -> bitmat

val swp : nat -> nat -> nat -> nat

val bm_new : nat -> nat -> bitmat

val bm_set : bitmat -> nat -> nat -> bool -> bitmat

val bm_swap_rows : bitmat -> nat -> nat -> bitmat

val bm_swap_columns : bitmat -> nat -> nat -> nat -> bitmat

val bm_add_assign_rows : bitmat -> nat -> nat -> nat -> bitmat

val bm_resize : bitmat -> nat -> nat -> bitmat

val bm_hint_column_dense_and_frozen : bitmat -> nat -> bitmat

val bm_enable_column_access_acceleration : bitmat -> bitmat

val bm_disable_column_access_acceleration : bitmat -> bitmat

val q_count_ones : (nat -> nat -> bool) -> nat -> nat -> nat -> nat

val q_row : (nat -> nat -> bool) -> nat -> nat -> nat -> (nat * bool) list

val q_ones_in_column : (nat -> nat -> bool) -> nat -> nat -> nat -> nat list

val q_sub_row : (nat -> nat -> bool) -> nat -> nat -> nat -> bool list

val q_non_zero_columns : (nat -> nat -> bool) -> nat -> nat -> nat -> nat list

val bm_count_ones : bitmat -> nat -> nat -> nat -> nat

val bm_row : bitmat -> nat -> nat -> nat -> (nat * bool) list

val bm_ones_in_column : bitmat -> nat -> nat -> nat -> nat list

val bm_sub_row : bitmat -> nat -> nat -> bool list

val bm_non_zero_columns : bitmat -> nat -> nat -> nat list

type op =
| OSet of n * n * n
| OGet of n * n
| OSwapRows of n * n
| OSwapCols of n * n * n
| OAddRows of n * n * n
| OResize of n * n
| OCountOnes of n * n * n
| ORowIter of n * n * n
| OOnesInCol of n * n * n
| OSubRow of n * n
| ONonZeroCols of n * n
| OFreeze of n
| OEnableAccel
| ODisableAccel

type ans =
| ABit of bool
| ANat of nat
| ARow of (nat * bool) list
| ANats of nat list
| ABits of bool list

val all_def_row : bitmat -> nat -> nat -> nat -> bool

val all_def_col : bitmat -> nat -> nat -> nat -> bool

val hint_ok : bitmat -> nat -> nat -> nat -> bool

val adm : op -> bitmat -> bool

val bm_step : bitmat -> op -> bitmat * ans option

val upd : 'a1 list -> nat -> 'a1 -> 'a1 list

val vget : n list -> n -> n outcome

val vset : n list -> n -> n -> n list outcome

val vswap : n list -> n -> n -> n list outcome

val slice_ok : n list -> n -> n -> n list outcome

val range_from0 : n -> n -> n list

val ofold1 : ('a1 -> 'a2 -> 'a1 outcome) -> 'a2 list -> 'a1 -> 'a1 outcome

val ofilter : ('a1 -> bool outcome) -> 'a1 list -> 'a1 list outcome

val map3 : ('a1 -> 'a2 -> 'a3) -> 'a1 list -> 'a2 list -> 'a3 list

val pop_pos : positive -> n

val popcount : n -> n

type dmat = { height : n; width : n; elements0 : n list }

val wORD_WIDTH0 : n

val word_offset : n -> n

val row_word_width : dmat -> n

val bit_position : dmat -> n -> n -> n * n

val select_mask0 : n -> n

val not64 : n -> n

val select_all_right_of_mask : n -> n

val select_bit_and_all_left_mask : n -> n

val clear_bit : n -> n -> n

val set_bit : n -> n -> n

val dm_new : n -> n -> dmat

val with_elements : dmat -> n list -> dmat

val dm_set : dmat -> n -> n -> n -> dmat outcome

val dm_get : dmat -> n -> n -> n outcome

val dm_count_ones : bool -> dmat -> n -> n -> n -> n outcome

val iter_dense : nat -> n list -> n -> n -> n -> n -> (n * n) list outcome

val dm_get_row_iter : bool -> dmat -> n -> n -> n -> (n * n) list outcome

val dm_get_ones_in_column : dmat -> n -> n -> n -> n list outcome

val dm_get_sub_row_as_octets : dmat -> n -> n -> (n list * n) outcome

val bov_padding_bits : n -> n

val bov_unpack : nat -> n list -> n -> n -> ((n list * n) * n) outcome

val bov_to_octet_vec : n list -> n -> n list outcome

val dm_query_non_zero_columns : dmat -> n -> n -> n list outcome

val dm_swap_rows : dmat -> n -> n -> dmat outcome

val swap_columns_row :
  n -> n -> n -> n -> n -> n -> n -> n list -> n -> n list outcome

val dm_swap_columns : dmat -> n -> n -> n -> dmat outcome

val dm_enable_column_access_acceleration : dmat -> dmat

val dm_disable_column_access_acceleration : dmat -> dmat

val dm_hint_column_dense_and_frozen : dmat -> n -> dmat

val get_both_ranges : n list -> n -> n -> n -> (n list * n list) outcome

val add_assign_binary : n list -> n list -> n list outcome

val splice : n list -> n -> n list -> n list

val dm_add_assign_rows : dmat -> n -> n -> n -> dmat outcome

val resize_loop : nat -> n list -> n -> n -> n -> n -> (n list * n) outcome

val dm_resize : dmat -> n -> n -> dmat outcome

val nz : n -> bool

val b2n0 : bool -> n

val dm_step : bool -> dmat -> op -> (dmat * ans option) outcome

val decode_op : n list -> op option

val enc_ans : ans option -> n list

val dm_run_from : bool -> dmat -> n list list -> n list list

val dm_run : bool -> n -> n -> n list list -> n list list

val bm_run_from : bitmat -> n list list -> n list list

val bm_run : n -> n -> n list list -> n list list

val lget : 'a1 list -> n -> 'a1 outcome

val lset : 'a1 list -> n -> 'a1 -> 'a1 list outcome

val lswap : 'a1 list -> n -> n -> 'a1 list outcome

val remove_at : 'a1 list -> nat -> 'a1 list

val insert_at : 'a1 list -> nat -> 'a1 -> 'a1 list

val unwrap : 'a1 option -> 'a1 outcome

type svec = n list

type bsres =
| Found of nat
| Missing of nat

val sv_search_from : n list -> n -> nat -> bsres

val sv_search : svec -> n -> bsres

val sv_new : svec

val sv_len : svec -> n

val sv_get_by_raw_index : svec -> n -> (n * n) outcome

val sv_merge : n list -> n list -> n list * bool

val sv_add_assign : svec -> svec -> svec * bool

val sv_remove : svec -> n -> svec * n option

val sv_retain : ((n * n) -> bool outcome) -> svec -> svec outcome

val sv_get : svec -> n -> n option

val sv_keys_values : svec -> (n * n) list

val sv_insert : mode -> svec -> n -> n -> svec outcome

type ilm = n list list

val ilm_get : ilm -> n -> n list outcome

val ilm_build_gen : bool -> n -> (n * n) list -> ilm outcome

type smat0 = { s_height : n; s_width : n; s_rows : svec list;
               s_dense : n list; s_index : ilm option; s_l2p_row : n list;
               s_p2l_row : n list; s_l2p_col : n list; s_p2l_col : n list;
               s_disabled : bool; s_valid : bool list; s_nd : n }

val set_rows : smat0 -> svec list -> smat0

val set_dense : smat0 -> n list -> smat0

val set_index : smat0 -> ilm option -> bool -> smat0

val set_row_maps : smat0 -> n list -> n list -> smat0

val set_col_maps : smat0 -> n list -> n list -> bool list -> smat0

val set_valid : smat0 -> bool list -> smat0

val set_nd : smat0 -> n -> smat0

val debug_assert0 : mode -> bool -> unit outcome

val sm_fd : mode -> smat0 -> n outcome

val sm_rww : smat0 -> n

val sm_lpb : smat0 -> n

val sm_word_offset : smat0 -> n -> n

val sm_bit_position : smat0 -> n -> n -> n * n

val sm_dense_col : mode -> smat0 -> n -> n outcome

val sm_new : mode -> n -> n -> n -> smat0 outcome

val sm_set : mode -> smat0 -> n -> n -> n -> smat0 outcome

val sm_get : mode -> smat0 -> n -> n -> n outcome

val sm_count_ones : mode -> smat0 -> n -> n -> n -> n outcome

val iter_sparse :
  n list -> n -> n -> svec -> nat -> nat -> (n * n) list outcome

val sm_get_row_iter : mode -> smat0 -> n -> n -> n -> (n * n) list outcome

val sm_get_ones_in_column : mode -> smat0 -> n -> n -> n -> n list outcome

val sm_get_sub_row_as_octets : mode -> smat0 -> n -> n -> (n list * n) outcome

val ctz_pos : positive -> n

val tz64 : n -> n

val drain_block : mode -> nat -> n -> n -> n -> n list -> n list outcome

val nz_words : mode -> nat -> smat0 -> n -> n -> n list -> n list outcome

val sm_query_non_zero_columns_gen :
  bool -> mode -> smat0 -> n -> n -> n list outcome

val sm_swap_rows : mode -> smat0 -> n -> n -> smat0 outcome

val sm_swap_columns_gen :
  bool -> mode -> smat0 -> n -> n -> n -> smat0 outcome

val index_entries : svec list -> n -> (n * n) list

val sm_enable_gen : bool -> mode -> smat0 -> smat0 outcome

val sm_disable_column_access_acceleration : mode -> smat0 -> smat0 outcome

val respace :
  mode -> nat -> n list -> n -> n -> n -> ((n list * n) * n) outcome

val freeze_row : n -> smat0 -> n -> smat0 outcome

val sm_freeze_gen : bool -> mode -> smat0 -> n -> smat0 outcome

val get_both_indices : mode -> 'a1 list -> n -> n -> ('a1 * 'a1) outcome

val sm_verify : mode -> smat0 -> unit outcome

val sm_add_assign_rows : mode -> smat0 -> n -> n -> n -> smat0 outcome

val resize_collect :
  n list -> n -> svec list -> svec option list -> svec option list outcome

val resize_dense_row : smat0 -> n list -> n -> n list outcome

val resize_maps_step : (n list * n list) -> n -> (n list * n list) outcome

val sm_resize : mode -> smat0 -> n -> n -> smat0 outcome

val ins_sorted : n -> n list -> n list

val sortN : n list -> n list

val sm_step_gen : bool -> mode -> smat0 -> op -> (smat0 * ans option) outcome

val sm_run_from_gen : bool -> mode -> smat0 -> n list list -> n list list

val sm_run_gen : bool -> mode -> n -> n -> n -> n list list -> n list list

val sm_run : mode -> n -> n -> n -> n list list -> n list list

val split_ops : nat -> n list -> n list list

val flat_rows : n list list -> n list

val run_bm_dense : bool -> n list -> n list

val run_bm_spec : n list -> n list

val run_bm_sparse : mode -> n list -> n list

val run_mat : n -> n list -> n list

val lenN0 : 'a1 list -> n

val getN : 'a1 list -> n -> 'a1 outcome

val putN : 'a1 list -> n -> 'a1 -> 'a1 list outcome

val swapN : 'a1 list -> n -> n -> 'a1 list outcome

val subl : 'a1 list -> n -> n -> 'a1 list

val seqN_from : nat -> n -> n list

val seqN : n -> n -> n list

val usub : mode -> n -> n -> n outcome

type bmat = n list list

val bm_get0 : bmat -> n -> n -> n outcome

val count1 : n list -> n

val bm_count_ones0 : bmat -> n -> n -> n -> n outcome

val bm_row_iter : bmat -> n -> n -> n -> (n * n) list outcome

val col_scan : n list list -> nat -> n -> n list outcome

val bm_ones_in_col : bmat -> n -> n -> n -> n list outcome

val bm_sub_row0 : bmat -> n -> n -> n list outcome

val bm_nonzero_cols : bmat -> n -> n -> n list outcome

val bm_swap_rows0 : bmat -> n -> n -> bmat outcome

val bm_swap_cols : bmat -> n -> n -> n -> bmat outcome

val bm_add_rows : bmat -> n -> n -> n -> bmat outcome

val bm_resize0 : bmat -> n -> n -> n -> bmat outcome

val am_get : n -> n list -> n -> n outcome

val am_put : n -> n list -> n -> n -> n list outcome

val am_dec : mode -> n -> n list -> n -> n list outcome

val am_inc : mode -> n -> n list -> n -> n list outcome

val h_get : n list -> n -> n

val h_grow : n list -> n -> n list

val h_inc : mode -> n list -> n -> n list outcome

val h_dec : mode -> n list -> n -> n list outcome

type ccg = { g_node : n list; g_merged : n list; g_size : n list; g_num : n }

val g_new : n -> ccg

val canon_loop : nat -> n list -> n -> n outcome

val g_canon : ccg -> n -> n outcome

val g_create : ccg -> ccg * n

val g_add_node : mode -> ccg -> n -> n -> ccg outcome

val g_swap : ccg -> n -> n -> ccg outcome

val g_contains : ccg -> n -> bool outcome

val g_remove_node : mode -> ccg -> n -> ccg outcome

val g_find_node : ccg -> n -> n list -> n outcome

val g_largest : ccg -> n -> n -> n outcome

val g_add_edge : mode -> ccg -> n -> n -> ccg outcome

val g_reset : ccg -> ccg outcome

type stats = { st_od : n list; st_opr : n list; st_hist : n list; st_sc : 
               n; st_ec : n; st_sr : n; st_single : n list; st_g : ccg }

val st_set_g : stats -> ccg -> stats

val position : n list -> n -> nat -> nat option

val swap_remove : n list -> nat -> n list

val single_remove : n list -> n -> n list

val two_ones : bmat -> n -> n -> n -> (n * n) outcome

val st_add_graph_edge : mode -> stats -> bmat -> n -> n -> n -> stats outcome

val ins_sorted0 : n -> n list -> n list

val graph_nodes : (n * n) list -> n list

val graph_adjacent : (n * n) list -> n -> n list

val build_adjacency : stats -> bmat -> n -> n -> (n * n) list outcome

val cc_dfs : mode -> nat -> (n * n) list -> ccg -> n -> n list -> ccg outcome

val rebuild_cc : mode -> stats -> bmat -> n -> n -> stats outcome

val st_new : mode -> bmat -> n -> n -> stats outcome

val st_swap_rows : stats -> n -> n -> stats outcome

val st_swap_cols : stats -> n -> n -> stats outcome

val st_recompute_row : mode -> stats -> bmat -> n -> stats outcome

val st_lose_one :
  mode -> n -> (((n list * n list) * n list) * n list) -> (((n list * n
  list) * n list) * n list) outcome

val st_resize :
  mode -> stats -> bmat -> n -> n -> n -> n -> n list -> stats outcome

val find_r : n list -> n list -> n option

val first_with2 : n list -> n list -> n outcome

val graph_substep : stats -> bmat -> n -> n -> n outcome

val od_pick : (n * n) list -> n option -> n -> n outcome

val original_degree_substep : stats -> n -> n -> n -> n outcome

val graph_substep_verify : stats -> n -> n -> unit outcome

val first_phase_selection :
  mode -> stats -> bmat -> n -> n -> (n * n) option outcome

type rowop =
| RAdd of n * n
| RSwap of n * n

type pstate = { ps_A : bmat; ps_W : n; ps_hd : n list list option;
                ps_X : bmat; ps_c : n list; ps_d : n list; ps_i : n;
                ps_u : n; ps_L : n; ps_ops : symbol_op list }

val set_A : pstate -> bmat -> pstate

val set_hd : pstate -> n list list option -> pstate

val set_X : pstate -> bmat -> pstate

val set_ops : pstate -> symbol_op list -> pstate

val ps_height : pstate -> n

val num_hdpc : pstate -> n

val record_mul_row : pstate -> n -> n -> pstate outcome

val record_fma_rows : pstate -> n -> n -> n -> pstate outcome

val fma_rows : mode -> pstate -> n -> n -> n -> pstate outcome

val fma_binary : mode -> n list -> n list -> n -> n list outcome

val fma_rows_with_pi :
  mode -> pstate -> n -> n -> n -> n -> n list -> pstate outcome

val ps_swap_rows : mode -> pstate -> n -> n -> pstate outcome

val ps_swap_cols : pstate -> n -> n -> n -> pstate outcome

val onX : mode -> pstate -> (bmat -> bmat outcome) -> pstate outcome

val ps_new_common : mode -> bmat -> n -> n -> pstate outcome

val ps_new : mode -> n -> n -> bmat -> n list list -> n -> n -> pstate outcome

val find_dest : mode -> nat -> bmat -> n -> n -> n outcome

val swap_cols_all :
  mode -> pstate -> stats -> n -> n -> (pstate * stats) outcome

val swap_cols_loop :
  mode -> (n * n) list -> n -> pstate -> stats -> n -> bool ->
  ((pstate * stats) * n) outcome

val first_phase_swap_columns_substep :
  mode -> pstate -> stats -> n -> (pstate * stats) outcome

val is_unit_prefix : n -> n list -> n -> bool

val all_zero : n list -> bool

val a_values : pstate -> n list list

val first_phase_verify : pstate -> unit outcome

val eliminate_row :
  mode -> n -> n -> n -> n -> ((pstate * stats) * rowop list) ->
  ((pstate * stats) * rowop list) outcome

val eliminate_hdpc_row :
  mode -> n -> n -> n -> n list -> n -> pstate -> pstate outcome

val eliminate_hdpc : mode -> n -> n -> n -> n -> pstate -> pstate outcome

val advance : pstate -> n -> pstate

val first_phase_step :
  mode -> pstate -> stats -> rowop list -> ((pstate * stats) * rowop list)
  option outcome

val first_phase_loop :
  mode -> nat -> pstate -> stats -> rowop list -> (pstate * rowop list)
  option outcome

val x_elimination_ops :
  rowop list -> n list -> n -> rowop list -> rowop list outcome

val first_phase : mode -> pstate -> (pstate * rowop list) option outcome

val is_identity : bmat -> n -> bool

val second_phase_verify : pstate -> rowop list -> unit outcome

val oct_row_fma : n list -> n list -> n -> n list

val find_pivot : n list list -> nat -> n -> n option outcome

val reduce_column :
  mode -> n -> n -> (pstate * n list list) -> (pstate * n list list) option
  outcome

val reduce_loop :
  mode -> n -> n list -> (pstate * n list list) -> (pstate * n list list)
  option outcome

val record_reduce_to_row_echelon :
  mode -> pstate -> n list list -> n -> n -> n -> (pstate * n list list)
  option outcome

val backwards_elimination :
  pstate -> n list list -> n -> n -> n -> pstate outcome

val second_phase : mode -> pstate -> rowop list -> pstate option outcome

val third_phase_verify : pstate -> unit outcome

val third_phase_verify_end : pstate -> unit outcome

val errata11_start : mode -> pstate -> n

val third_phase : mode -> pstate -> rowop list -> pstate outcome

val fourth_phase_verify : pstate -> unit outcome

val fourth_phase : mode -> pstate -> pstate outcome

val fifth_phase_verify : pstate -> unit outcome

val fifth_phase : mode -> pstate -> rowop list -> pstate outcome

val reorder_of : pstate -> n list outcome

val execute : mode -> pstate -> symbol_op list option outcome

val pi_run :
  mode -> n -> n -> n list list -> n list list -> n -> n -> symbol_op list
  option outcome

val pi_run_no_hdpc :
  mode -> n list list -> n -> n -> symbol_op list option outcome

val flat_op : symbol_op -> n list

val flat_ops : symbol_op list -> n list

val pi_system_run : mode -> n -> n list -> symbol_op list option outcome

val pi_system_run_no_hdpc :
  mode -> n -> n list -> symbol_op list option outcome

val pi_plan_run : mode -> n -> n list option outcome

val pcode : pclass -> n

val enc1 : n outcome -> n list

val encl : n list outcome -> n list

val arg : n list -> nat -> n

val run_octet : n -> n list -> n list

val b2n1 : bool -> n

val enc_pid : (n * n) outcome -> n list

val oti_list : oti -> n list

val enc_oti : oti outcome -> n list

val triples : n list -> ((n * n) * n) list

val run_wire : n -> n list -> n list

val run_codec : n -> n list -> n list

val enc_t6 : (((((n * n) * n) * n) * n) * n) outcome -> n list

val t6_of : n list -> ((((n * n) * n) * n) * n) * n

val run_tuple : n -> n list -> n list

val enc_sol : n list option outcome -> n list

val run_pisolver : n -> n list -> n list

val run : n -> n list -> n list
