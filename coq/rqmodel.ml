
(** val negb : bool -> bool **)

let negb = function
| true -> false
| false -> true

type nat =
| O
| S of nat

(** val snd : ('a1 * 'a2) -> 'a2 **)

let snd = function
| (_, y) -> y

type comparison =
| Eq
| Lt
| Gt

module Coq__1 = struct
 (** val add : nat -> nat -> nat **)
 let rec add n0 m =
   match n0 with
   | O -> m
   | S p -> S (add p m)
end
include Coq__1

type positive =
| XI of positive
| XO of positive
| XH

type n =
| N0
| Npos of positive

module Pos =
 struct
  type mask =
  | IsNul
  | IsPos of positive
  | IsNeg
 end

module Coq_Pos =
 struct
  (** val succ : positive -> positive **)

  let rec succ = function
  | XI p -> XO (succ p)
  | XO p -> XI p
  | XH -> XO XH

  (** val add : positive -> positive -> positive **)

  let rec add x y =
    match x with
    | XI p ->
      (match y with
       | XI q -> XO (add_carry p q)
       | XO q -> XI (add p q)
       | XH -> XO (succ p))
    | XO p ->
      (match y with
       | XI q -> XI (add p q)
       | XO q -> XO (add p q)
       | XH -> XI p)
    | XH -> (match y with
             | XI q -> XO (succ q)
             | XO q -> XI q
             | XH -> XO XH)

  (** val add_carry : positive -> positive -> positive **)

  and add_carry x y =
    match x with
    | XI p ->
      (match y with
       | XI q -> XI (add_carry p q)
       | XO q -> XO (add_carry p q)
       | XH -> XI (succ p))
    | XO p ->
      (match y with
       | XI q -> XO (add_carry p q)
       | XO q -> XI (add p q)
       | XH -> XO (succ p))
    | XH ->
      (match y with
       | XI q -> XI (succ q)
       | XO q -> XO (succ q)
       | XH -> XI XH)

  (** val pred_double : positive -> positive **)

  let rec pred_double = function
  | XI p -> XI (XO p)
  | XO p -> XI (pred_double p)
  | XH -> XH

  (** val pred_N : positive -> n **)

  let pred_N = function
  | XI p -> Npos (XO p)
  | XO p -> Npos (pred_double p)
  | XH -> N0

  type mask = Pos.mask =
  | IsNul
  | IsPos of positive
  | IsNeg

  (** val succ_double_mask : mask -> mask **)

  let succ_double_mask = function
  | IsNul -> IsPos XH
  | IsPos p -> IsPos (XI p)
  | IsNeg -> IsNeg

  (** val double_mask : mask -> mask **)

  let double_mask = function
  | IsPos p -> IsPos (XO p)
  | x0 -> x0

  (** val double_pred_mask : positive -> mask **)

  let double_pred_mask = function
  | XI p -> IsPos (XO (XO p))
  | XO p -> IsPos (XO (pred_double p))
  | XH -> IsNul

  (** val sub_mask : positive -> positive -> mask **)

  let rec sub_mask x y =
    match x with
    | XI p ->
      (match y with
       | XI q -> double_mask (sub_mask p q)
       | XO q -> succ_double_mask (sub_mask p q)
       | XH -> IsPos (XO p))
    | XO p ->
      (match y with
       | XI q -> succ_double_mask (sub_mask_carry p q)
       | XO q -> double_mask (sub_mask p q)
       | XH -> IsPos (pred_double p))
    | XH -> (match y with
             | XH -> IsNul
             | _ -> IsNeg)

  (** val sub_mask_carry : positive -> positive -> mask **)

  and sub_mask_carry x y =
    match x with
    | XI p ->
      (match y with
       | XI q -> succ_double_mask (sub_mask_carry p q)
       | XO q -> double_mask (sub_mask p q)
       | XH -> IsPos (pred_double p))
    | XO p ->
      (match y with
       | XI q -> double_mask (sub_mask_carry p q)
       | XO q -> succ_double_mask (sub_mask_carry p q)
       | XH -> double_pred_mask p)
    | XH -> IsNeg

  (** val mul : positive -> positive -> positive **)

  let rec mul x y =
    match x with
    | XI p -> add y (XO (mul p y))
    | XO p -> XO (mul p y)
    | XH -> y

  (** val iter : ('a1 -> 'a1) -> 'a1 -> positive -> 'a1 **)

  let rec iter f x = function
  | XI n' -> f (iter f (iter f x n') n')
  | XO n' -> iter f (iter f x n') n'
  | XH -> f x

  (** val compare_cont : comparison -> positive -> positive -> comparison **)

  let rec compare_cont r x y =
    match x with
    | XI p ->
      (match y with
       | XI q -> compare_cont r p q
       | XO q -> compare_cont Gt p q
       | XH -> Gt)
    | XO p ->
      (match y with
       | XI q -> compare_cont Lt p q
       | XO q -> compare_cont r p q
       | XH -> Gt)
    | XH -> (match y with
             | XH -> r
             | _ -> Lt)

  (** val compare : positive -> positive -> comparison **)

  let compare =
    compare_cont Eq

  (** val eqb : positive -> positive -> bool **)

  let rec eqb p q =
    match p with
    | XI p0 -> (match q with
                | XI q0 -> eqb p0 q0
                | _ -> false)
    | XO p0 -> (match q with
                | XO q0 -> eqb p0 q0
                | _ -> false)
    | XH -> (match q with
             | XH -> true
             | _ -> false)

  (** val coq_Nsucc_double : n -> n **)

  let coq_Nsucc_double = function
  | N0 -> Npos XH
  | Npos p -> Npos (XI p)

  (** val coq_Ndouble : n -> n **)

  let coq_Ndouble = function
  | N0 -> N0
  | Npos p -> Npos (XO p)

  (** val coq_lxor : positive -> positive -> n **)

  let rec coq_lxor p q =
    match p with
    | XI p0 ->
      (match q with
       | XI q0 -> coq_Ndouble (coq_lxor p0 q0)
       | XO q0 -> coq_Nsucc_double (coq_lxor p0 q0)
       | XH -> Npos (XO p0))
    | XO p0 ->
      (match q with
       | XI q0 -> coq_Nsucc_double (coq_lxor p0 q0)
       | XO q0 -> coq_Ndouble (coq_lxor p0 q0)
       | XH -> Npos (XI p0))
    | XH ->
      (match q with
       | XI q0 -> Npos (XO q0)
       | XO q0 -> Npos (XI q0)
       | XH -> N0)

  (** val shiftl : positive -> n -> positive **)

  let shiftl p = function
  | N0 -> p
  | Npos n1 -> iter (fun x -> XO x) p n1

  (** val testbit : positive -> n -> bool **)

  let rec testbit p n0 =
    match p with
    | XI p0 -> (match n0 with
                | N0 -> true
                | Npos n1 -> testbit p0 (pred_N n1))
    | XO p0 -> (match n0 with
                | N0 -> false
                | Npos n1 -> testbit p0 (pred_N n1))
    | XH -> (match n0 with
             | N0 -> true
             | Npos _ -> false)

  (** val iter_op : ('a1 -> 'a1 -> 'a1) -> positive -> 'a1 -> 'a1 **)

  let rec iter_op op p a =
    match p with
    | XI p0 -> op a (iter_op op p0 (op a a))
    | XO p0 -> iter_op op p0 (op a a)
    | XH -> a

  (** val to_nat : positive -> nat **)

  let to_nat x =
    iter_op Coq__1.add x (S O)

  (** val of_succ_nat : nat -> positive **)

  let rec of_succ_nat = function
  | O -> XH
  | S x -> succ (of_succ_nat x)
 end

module N =
 struct
  (** val succ_double : n -> n **)

  let succ_double = function
  | N0 -> Npos XH
  | Npos p -> Npos (XI p)

  (** val double : n -> n **)

  let double = function
  | N0 -> N0
  | Npos p -> Npos (XO p)

  (** val add : n -> n -> n **)

  let add n0 m =
    match n0 with
    | N0 -> m
    | Npos p -> (match m with
                 | N0 -> n0
                 | Npos q -> Npos (Coq_Pos.add p q))

  (** val sub : n -> n -> n **)

  let sub n0 m =
    match n0 with
    | N0 -> N0
    | Npos n' ->
      (match m with
       | N0 -> n0
       | Npos m' ->
         (match Coq_Pos.sub_mask n' m' with
          | Coq_Pos.IsPos p -> Npos p
          | _ -> N0))

  (** val mul : n -> n -> n **)

  let mul n0 m =
    match n0 with
    | N0 -> N0
    | Npos p -> (match m with
                 | N0 -> N0
                 | Npos q -> Npos (Coq_Pos.mul p q))

  (** val compare : n -> n -> comparison **)

  let compare n0 m =
    match n0 with
    | N0 -> (match m with
             | N0 -> Eq
             | Npos _ -> Lt)
    | Npos n' -> (match m with
                  | N0 -> Gt
                  | Npos m' -> Coq_Pos.compare n' m')

  (** val eqb : n -> n -> bool **)

  let eqb n0 m =
    match n0 with
    | N0 -> (match m with
             | N0 -> true
             | Npos _ -> false)
    | Npos p -> (match m with
                 | N0 -> false
                 | Npos q -> Coq_Pos.eqb p q)

  (** val leb : n -> n -> bool **)

  let leb x y =
    match compare x y with
    | Gt -> false
    | _ -> true

  (** val ltb : n -> n -> bool **)

  let ltb x y =
    match compare x y with
    | Lt -> true
    | _ -> false

  (** val pos_div_eucl : positive -> n -> n * n **)

  let rec pos_div_eucl a b =
    match a with
    | XI a' ->
      let (q, r) = pos_div_eucl a' b in
      let r' = succ_double r in
      if leb b r' then ((succ_double q), (sub r' b)) else ((double q), r')
    | XO a' ->
      let (q, r) = pos_div_eucl a' b in
      let r' = double r in
      if leb b r' then ((succ_double q), (sub r' b)) else ((double q), r')
    | XH ->
      (match b with
       | N0 -> (N0, (Npos XH))
       | Npos p -> (match p with
                    | XH -> ((Npos XH), N0)
                    | _ -> (N0, (Npos XH))))

  (** val div_eucl : n -> n -> n * n **)

  let div_eucl a b =
    match a with
    | N0 -> (N0, N0)
    | Npos na -> (match b with
                  | N0 -> (N0, a)
                  | Npos _ -> pos_div_eucl na b)

  (** val modulo : n -> n -> n **)

  let modulo a b =
    snd (div_eucl a b)

  (** val coq_lxor : n -> n -> n **)

  let coq_lxor n0 m =
    match n0 with
    | N0 -> m
    | Npos p -> (match m with
                 | N0 -> n0
                 | Npos q -> Coq_Pos.coq_lxor p q)

  (** val shiftl : n -> n -> n **)

  let shiftl a n0 =
    match a with
    | N0 -> N0
    | Npos a0 -> Npos (Coq_Pos.shiftl a0 n0)

  (** val testbit : n -> n -> bool **)

  let testbit a n0 =
    match a with
    | N0 -> false
    | Npos p -> Coq_Pos.testbit p n0

  (** val to_nat : n -> nat **)

  let to_nat = function
  | N0 -> O
  | Npos p -> Coq_Pos.to_nat p

  (** val of_nat : nat -> n **)

  let of_nat = function
  | O -> N0
  | S n' -> Npos (Coq_Pos.of_succ_nat n')
 end

(** val nth : nat -> 'a1 list -> 'a1 -> 'a1 **)

let rec nth n0 l default =
  match n0 with
  | O -> (match l with
          | [] -> default
          | x :: _ -> x)
  | S m -> (match l with
            | [] -> default
            | _ :: t -> nth m t default)

(** val nth_error : 'a1 list -> nat -> 'a1 option **)

let rec nth_error l = function
| O -> (match l with
        | [] -> None
        | x :: _ -> Some x)
| S n1 -> (match l with
           | [] -> None
           | _ :: l0 -> nth_error l0 n1)

(** val map : ('a1 -> 'a2) -> 'a1 list -> 'a2 list **)

let rec map f = function
| [] -> []
| a :: t -> (f a) :: (map f t)

(** val seq : nat -> nat -> nat list **)

let rec seq start = function
| O -> []
| S len0 -> start :: (seq (S start) len0)

type pclass =
| PAssert
| PIndex
| POverflow
| PUnreachable
| PUnimpl
| PFuel
| PDivZero
| PUnwrap

type 'a outcome =
| Ok of 'a
| Panic of pclass

(** val obind : 'a1 outcome -> ('a1 -> 'a2 outcome) -> 'a2 outcome **)

let obind x f =
  match x with
  | Ok a -> f a
  | Panic c -> Panic c

(** val nth_ok : 'a1 list -> nat -> 'a1 outcome **)

let nth_ok l i =
  match nth_error l i with
  | Some a -> Ok a
  | None -> Panic PIndex

(** val rangeN : nat -> n list **)

let rangeN n0 =
  map N.of_nat (seq O n0)

(** val xsum : n list -> n **)

let rec xsum = function
| [] -> N0
| x :: t -> N.coq_lxor x (xsum t)

(** val pOLY : n **)

let pOLY =
  Npos (XI (XO (XI (XI (XI (XO (XO (XO XH))))))))

(** val padd : n -> n -> n **)

let padd =
  N.coq_lxor

(** val xtime : n -> n **)

let xtime a =
  let s = N.mul (Npos (XO XH)) a in
  if N.leb (Npos (XO (XO (XO (XO (XO (XO (XO (XO XH))))))))) s
  then N.coq_lxor s pOLY
  else s

(** val xtimes : n -> nat -> n **)

let rec xtimes a = function
| O -> a
| S j -> xtime (xtimes a j)

(** val sel : bool -> n -> n **)

let sel b m =
  if b then m else N0

(** val pmul : n -> n -> n **)

let pmul a b =
  xsum
    (map (fun i -> sel (N.testbit b (N.of_nat i)) (xtimes a i))
      (seq O (S (S (S (S (S (S (S (S O))))))))))

(** val ppow2 : nat -> n **)

let rec ppow2 = function
| O -> Npos XH
| S j -> xtime (ppow2 j)

(** val oCT_EXP : n list **)

let oCT_EXP =
  (Npos XH) :: ((Npos (XO XH)) :: ((Npos (XO (XO XH))) :: ((Npos (XO (XO (XO
    XH)))) :: ((Npos (XO (XO (XO (XO XH))))) :: ((Npos (XO (XO (XO (XO (XO
    XH)))))) :: ((Npos (XO (XO (XO (XO (XO (XO XH))))))) :: ((Npos (XO (XO
    (XO (XO (XO (XO (XO XH)))))))) :: ((Npos (XI (XO (XI (XI
    XH))))) :: ((Npos (XO (XI (XO (XI (XI XH)))))) :: ((Npos (XO (XO (XI (XO
    (XI (XI XH))))))) :: ((Npos (XO (XO (XO (XI (XO (XI (XI
    XH)))))))) :: ((Npos (XI (XO (XI (XI (XO (XO (XI XH)))))))) :: ((Npos (XI
    (XI (XI (XO (XO (XO (XO XH)))))))) :: ((Npos (XI (XI (XO (XO
    XH))))) :: ((Npos (XO (XI (XI (XO (XO XH)))))) :: ((Npos (XO (XO (XI (XI
    (XO (XO XH))))))) :: ((Npos (XO (XO (XO (XI (XI (XO (XO
    XH)))))))) :: ((Npos (XI (XO (XI (XI (XO XH)))))) :: ((Npos (XO (XI (XO
    (XI (XI (XO XH))))))) :: ((Npos (XO (XO (XI (XO (XI (XI (XO
    XH)))))))) :: ((Npos (XI (XO (XI (XO (XI (XI XH))))))) :: ((Npos (XO (XI
    (XO (XI (XO (XI (XI XH)))))))) :: ((Npos (XI (XO (XO (XI (XO (XO (XI
    XH)))))))) :: ((Npos (XI (XI (XI (XI (XO (XO (XO XH)))))))) :: ((Npos (XI
    XH)) :: ((Npos (XO (XI XH))) :: ((Npos (XO (XO (XI XH)))) :: ((Npos (XO
    (XO (XO (XI XH))))) :: ((Npos (XO (XO (XO (XO (XI XH)))))) :: ((Npos (XO
    (XO (XO (XO (XO (XI XH))))))) :: ((Npos (XO (XO (XO (XO (XO (XO (XI
    XH)))))))) :: ((Npos (XI (XO (XI (XI (XI (XO (XO XH)))))))) :: ((Npos (XI
    (XI (XI (XO (XO XH)))))) :: ((Npos (XO (XI (XI (XI (XO (XO
    XH))))))) :: ((Npos (XO (XO (XI (XI (XI (XO (XO XH)))))))) :: ((Npos (XI
    (XO (XI (XO (XO XH)))))) :: ((Npos (XO (XI (XO (XI (XO (XO
    XH))))))) :: ((Npos (XO (XO (XI (XO (XI (XO (XO XH)))))))) :: ((Npos (XI
    (XO (XI (XO (XI XH)))))) :: ((Npos (XO (XI (XO (XI (XO (XI
    XH))))))) :: ((Npos (XO (XO (XI (XO (XI (XO (XI XH)))))))) :: ((Npos (XI
    (XO (XI (XO (XI (XI (XO XH)))))))) :: ((Npos (XI (XI (XI (XO (XI (XI
    XH))))))) :: ((Npos (XO (XI (XI (XI (XO (XI (XI XH)))))))) :: ((Npos (XI
    (XO (XO (XO (XO (XO (XI XH)))))))) :: ((Npos (XI (XI (XI (XI (XI (XO (XO
    XH)))))))) :: ((Npos (XI (XI (XO (XO (XO XH)))))) :: ((Npos (XO (XI (XI
    (XO (XO (XO XH))))))) :: ((Npos (XO (XO (XI (XI (XO (XO (XO
    XH)))))))) :: ((Npos (XI (XO XH))) :: ((Npos (XO (XI (XO XH)))) :: ((Npos
    (XO (XO (XI (XO XH))))) :: ((Npos (XO (XO (XO (XI (XO XH)))))) :: ((Npos
    (XO (XO (XO (XO (XI (XO XH))))))) :: ((Npos (XO (XO (XO (XO (XO (XI (XO
    XH)))))))) :: ((Npos (XI (XO (XI (XI (XI (XO XH))))))) :: ((Npos (XO (XI
    (XO (XI (XI (XI (XO XH)))))))) :: ((Npos (XI (XO (XO (XI (XO (XI
    XH))))))) :: ((Npos (XO (XI (XO (XO (XI (XO (XI XH)))))))) :: ((Npos (XI
    (XO (XO (XI (XI (XI (XO XH)))))))) :: ((Npos (XI (XI (XI (XI (XO (XI
    XH))))))) :: ((Npos (XO (XI (XI (XI (XI (XO (XI XH)))))))) :: ((Npos (XI
    (XO (XO (XO (XO (XI (XO XH)))))))) :: ((Npos (XI (XI (XI (XI (XI (XO
    XH))))))) :: ((Npos (XO (XI (XI (XI (XI (XI (XO XH)))))))) :: ((Npos (XI
    (XO (XO (XO (XO (XI XH))))))) :: ((Npos (XO (XI (XO (XO (XO (XO (XI
    XH)))))))) :: ((Npos (XI (XO (XO (XI (XI (XO (XO XH)))))))) :: ((Npos (XI
    (XI (XI (XI (XO XH)))))) :: ((Npos (XO (XI (XI (XI (XI (XO
    XH))))))) :: ((Npos (XO (XO (XI (XI (XI (XI (XO XH)))))))) :: ((Npos (XI
    (XO (XI (XO (XO (XI XH))))))) :: ((Npos (XO (XI (XO (XI (XO (XO (XI
    XH)))))))) :: ((Npos (XI (XO (XO (XI (XO (XO (XO XH)))))))) :: ((Npos (XI
    (XI (XI XH)))) :: ((Npos (XO (XI (XI (XI XH))))) :: ((Npos (XO (XO (XI
    (XI (XI XH)))))) :: ((Npos (XO (XO (XO (XI (XI (XI XH))))))) :: ((Npos
    (XO (XO (XO (XO (XI (XI (XI XH)))))))) :: ((Npos (XI (XO (XI (XI (XI (XI
    (XI XH)))))))) :: ((Npos (XI (XI (XI (XO (XO (XI (XI XH)))))))) :: ((Npos
    (XI (XI (XO (XO (XI (XO (XI XH)))))))) :: ((Npos (XI (XI (XO (XI (XI (XI
    (XO XH)))))))) :: ((Npos (XI (XI (XO (XI (XO (XI XH))))))) :: ((Npos (XO
    (XI (XI (XO (XI (XO (XI XH)))))))) :: ((Npos (XI (XO (XO (XO (XI (XI (XO
    XH)))))))) :: ((Npos (XI (XI (XI (XI (XI (XI XH))))))) :: ((Npos (XO (XI
    (XI (XI (XI (XI (XI XH)))))))) :: ((Npos (XI (XO (XO (XO (XO (XI (XI
    XH)))))))) :: ((Npos (XI (XI (XI (XI (XI (XO (XI XH)))))))) :: ((Npos (XI
    (XI (XO (XO (XO (XI (XO XH)))))))) :: ((Npos (XI (XI (XO (XI (XI (XO
    XH))))))) :: ((Npos (XO (XI (XI (XO (XI (XI (XO XH)))))))) :: ((Npos (XI
    (XO (XO (XO (XI (XI XH))))))) :: ((Npos (XO (XI (XO (XO (XO (XI (XI
    XH)))))))) :: ((Npos (XI (XO (XO (XI (XI (XO (XI XH)))))))) :: ((Npos (XI
    (XI (XI (XI (XO (XI (XO XH)))))))) :: ((Npos (XI (XI (XO (XO (XO (XO
    XH))))))) :: ((Npos (XO (XI (XI (XO (XO (XO (XO XH)))))))) :: ((Npos (XI
    (XO (XO (XO XH))))) :: ((Npos (XO (XI (XO (XO (XO XH)))))) :: ((Npos (XO
    (XO (XI (XO (XO (XO XH))))))) :: ((Npos (XO (XO (XO (XI (XO (XO (XO
    XH)))))))) :: ((Npos (XI (XO (XI XH)))) :: ((Npos (XO (XI (XO (XI
    XH))))) :: ((Npos (XO (XO (XI (XO (XI XH)))))) :: ((Npos (XO (XO (XO (XI
    (XO (XI XH))))))) :: ((Npos (XO (XO (XO (XO (XI (XO (XI
    XH)))))))) :: ((Npos (XI (XO (XI (XI (XI (XI (XO XH)))))))) :: ((Npos (XI
    (XI (XI (XO (XO (XI XH))))))) :: ((Npos (XO (XI (XI (XI (XO (XO (XI
    XH)))))))) :: ((Npos (XI (XO (XO (XO (XO (XO (XO XH)))))))) :: ((Npos (XI
    (XI (XI (XI XH))))) :: ((Npos (XO (XI (XI (XI (XI XH)))))) :: ((Npos (XO
    (XO (XI (XI (XI (XI XH))))))) :: ((Npos (XO (XO (XO (XI (XI (XI (XI
    XH)))))))) :: ((Npos (XI (XO (XI (XI (XO (XI (XI XH)))))))) :: ((Npos (XI
    (XI (XI (XO (XO (XO (XI XH)))))))) :: ((Npos (XI (XI (XO (XO (XI (XO (XO
    XH)))))))) :: ((Npos (XI (XI (XO (XI (XI XH)))))) :: ((Npos (XO (XI (XI
    (XO (XI (XI XH))))))) :: ((Npos (XO (XO (XI (XI (XO (XI (XI
    XH)))))))) :: ((Npos (XI (XO (XI (XO (XO (XO (XI XH)))))))) :: ((Npos (XI
    (XI (XI (XO (XI (XO (XO XH)))))))) :: ((Npos (XI (XI (XO (XO (XI
    XH)))))) :: ((Npos (XO (XI (XI (XO (XO (XI XH))))))) :: ((Npos (XO (XO
    (XI (XI (XO (XO (XI XH)))))))) :: ((Npos (XI (XO (XI (XO (XO (XO (XO
    XH)))))))) :: ((Npos (XI (XI (XI (XO XH))))) :: ((Npos (XO (XI (XI (XI
    (XO XH)))))) :: ((Npos (XO (XO (XI (XI (XI (XO XH))))))) :: ((Npos (XO
    (XO (XO (XI (XI (XI (XO XH)))))))) :: ((Npos (XI (XO (XI (XI (XO (XI
    XH))))))) :: ((Npos (XO (XI (XO (XI (XI (XO (XI XH)))))))) :: ((Npos (XI
    (XO (XO (XI (XO (XI (XO XH)))))))) :: ((Npos (XI (XI (XI (XI (XO (XO
    XH))))))) :: ((Npos (XO (XI (XI (XI (XI (XO (XO XH)))))))) :: ((Npos (XI
    (XO (XO (XO (XO XH)))))) :: ((Npos (XO (XI (XO (XO (XO (XO
    XH))))))) :: ((Npos (XO (XO (XI (XO (XO (XO (XO XH)))))))) :: ((Npos (XI
    (XO (XI (XO XH))))) :: ((Npos (XO (XI (XO (XI (XO XH)))))) :: ((Npos (XO
    (XO (XI (XO (XI (XO XH))))))) :: ((Npos (XO (XO (XO (XI (XO (XI (XO
    XH)))))))) :: ((Npos (XI (XO (XI (XI (XO (XO XH))))))) :: ((Npos (XO (XI
    (XO (XI (XI (XO (XO XH)))))))) :: ((Npos (XI (XO (XO (XI (XO
    XH)))))) :: ((Npos (XO (XI (XO (XO (XI (XO XH))))))) :: ((Npos (XO (XO
    (XI (XO (XO (XI (XO XH)))))))) :: ((Npos (XI (XO (XI (XO (XI (XO
    XH))))))) :: ((Npos (XO (XI (XO (XI (XO (XI (XO XH)))))))) :: ((Npos (XI
    (XO (XO (XI (XO (XO XH))))))) :: ((Npos (XO (XI (XO (XO (XI (XO (XO
    XH)))))))) :: ((Npos (XI (XO (XO (XI (XI XH)))))) :: ((Npos (XO (XI (XO
    (XO (XI (XI XH))))))) :: ((Npos (XO (XO (XI (XO (XO (XI (XI
    XH)))))))) :: ((Npos (XI (XO (XI (XO (XI (XO (XI XH)))))))) :: ((Npos (XI
    (XI (XI (XO (XI (XI (XO XH)))))))) :: ((Npos (XI (XI (XO (XO (XI (XI
    XH))))))) :: ((Npos (XO (XI (XI (XO (XO (XI (XI XH)))))))) :: ((Npos (XI
    (XO (XO (XO (XI (XO (XI XH)))))))) :: ((Npos (XI (XI (XI (XI (XI (XI (XO
    XH)))))))) :: ((Npos (XI (XI (XO (XO (XO (XI XH))))))) :: ((Npos (XO (XI
    (XI (XO (XO (XO (XI XH)))))))) :: ((Npos (XI (XO (XO (XO (XI (XO (XO
    XH)))))))) :: ((Npos (XI (XI (XI (XI (XI XH)))))) :: ((Npos (XO (XI (XI
    (XI (XI (XI XH))))))) :: ((Npos (XO (XO (XI (XI (XI (XI (XI
    XH)))))))) :: ((Npos (XI (XO (XI (XO (XO (XI (XI XH)))))))) :: ((Npos (XI
    (XI (XI (XO (XI (XO (XI XH)))))))) :: ((Npos (XI (XI (XO (XO (XI (XI (XO
    XH)))))))) :: ((Npos (XI (XI (XO (XI (XI (XI XH))))))) :: ((Npos (XO (XI
    (XI (XO (XI (XI (XI XH)))))))) :: ((Npos (XI (XO (XO (XO (XI (XI (XI
    XH)))))))) :: ((Npos (XI (XI (XI (XI (XI (XI (XI XH)))))))) :: ((Npos (XI
    (XI (XO (XO (XO (XI (XI XH)))))))) :: ((Npos (XI (XI (XO (XI (XI (XO (XI
    XH)))))))) :: ((Npos (XI (XI (XO (XI (XO (XI (XO XH)))))))) :: ((Npos (XI
    (XI (XO (XI (XO (XO XH))))))) :: ((Npos (XO (XI (XI (XO (XI (XO (XO
    XH)))))))) :: ((Npos (XI (XO (XO (XO (XI XH)))))) :: ((Npos (XO (XI (XO
    (XO (XO (XI XH))))))) :: ((Npos (XO (XO (XI (XO (XO (XO (XI
    XH)))))))) :: ((Npos (XI (XO (XI (XO (XI (XO (XO XH)))))))) :: ((Npos (XI
    (XI (XI (XO (XI XH)))))) :: ((Npos (XO (XI (XI (XI (XO (XI
    XH))))))) :: ((Npos (XO (XO (XI (XI (XI (XO (XI XH)))))))) :: ((Npos (XI
    (XO (XI (XO (XO (XI (XO XH)))))))) :: ((Npos (XI (XI (XI (XO (XI (XO
    XH))))))) :: ((Npos (XO (XI (XI (XI (XO (XI (XO XH)))))))) :: ((Npos (XI
    (XO (XO (XO (XO (XO XH))))))) :: ((Npos (XO (XI (XO (XO (XO (XO (XO
    XH)))))))) :: ((Npos (XI (XO (XO (XI XH))))) :: ((Npos (XO (XI (XO (XO
    (XI XH)))))) :: ((Npos (XO (XO (XI (XO (XO (XI XH))))))) :: ((Npos (XO
    (XO (XO (XI (XO (XO (XI XH)))))))) :: ((Npos (XI (XO (XI (XI (XO (XO (XO
    XH)))))))) :: ((Npos (XI (XI XH))) :: ((Npos (XO (XI (XI XH)))) :: ((Npos
    (XO (XO (XI (XI XH))))) :: ((Npos (XO (XO (XO (XI (XI XH)))))) :: ((Npos
    (XO (XO (XO (XO (XI (XI XH))))))) :: ((Npos (XO (XO (XO (XO (XO (XI (XI
    XH)))))))) :: ((Npos (XI (XO (XI (XI (XI (XO (XI XH)))))))) :: ((Npos (XI
    (XI (XI (XO (XO (XI (XO XH)))))))) :: ((Npos (XI (XI (XO (XO (XI (XO
    XH))))))) :: ((Npos (XO (XI (XI (XO (XO (XI (XO XH)))))))) :: ((Npos (XI
    (XO (XO (XO (XI (XO XH))))))) :: ((Npos (XO (XI (XO (XO (XO (XI (XO
    XH)))))))) :: ((Npos (XI (XO (XO (XI (XI (XO XH))))))) :: ((Npos (XO (XI
    (XO (XO (XI (XI (XO XH)))))))) :: ((Npos (XI (XO (XO (XI (XI (XI
    XH))))))) :: ((Npos (XO (XI (XO (XO (XI (XI (XI XH)))))))) :: ((Npos (XI
    (XO (XO (XI (XI (XI (XI XH)))))))) :: ((Npos (XI (XI (XI (XI (XO (XI (XI
    XH)))))))) :: ((Npos (XI (XI (XO (XO (XO (XO (XI XH)))))))) :: ((Npos (XI
    (XI (XO (XI (XI (XO (XO XH)))))))) :: ((Npos (XI (XI (XO (XI (XO
    XH)))))) :: ((Npos (XO (XI (XI (XO (XI (XO XH))))))) :: ((Npos (XO (XO
    (XI (XI (XO (XI (XO XH)))))))) :: ((Npos (XI (XO (XI (XO (XO (XO
    XH))))))) :: ((Npos (XO (XI (XO (XI (XO (XO (XO XH)))))))) :: ((Npos (XI
    (XO (XO XH)))) :: ((Npos (XO (XI (XO (XO XH))))) :: ((Npos (XO (XO (XI
    (XO (XO XH)))))) :: ((Npos (XO (XO (XO (XI (XO (XO XH))))))) :: ((Npos
    (XO (XO (XO (XO (XI (XO (XO XH)))))))) :: ((Npos (XI (XO (XI (XI (XI
    XH)))))) :: ((Npos (XO (XI (XO (XI (XI (XI XH))))))) :: ((Npos (XO (XO
    (XI (XO (XI (XI (XI XH)))))))) :: ((Npos (XI (XO (XI (XO (XI (XI (XI
    XH)))))))) :: ((Npos (XI (XI (XI (XO (XI (XI (XI XH)))))))) :: ((Npos (XI
    (XI (XO (XO (XI (XI (XI XH)))))))) :: ((Npos (XI (XI (XO (XI (XI (XI (XI
    XH)))))))) :: ((Npos (XI (XI (XO (XI (XO (XI (XI XH)))))))) :: ((Npos (XI
    (XI (XO (XI (XO (XO (XI XH)))))))) :: ((Npos (XI (XI (XO (XI (XO (XO (XO
    XH)))))))) :: ((Npos (XI (XI (XO XH)))) :: ((Npos (XO (XI (XI (XO
    XH))))) :: ((Npos (XO (XO (XI (XI (XO XH)))))) :: ((Npos (XO (XO (XO (XI
    (XI (XO XH))))))) :: ((Npos (XO (XO (XO (XO (XI (XI (XO
    XH)))))))) :: ((Npos (XI (XO (XI (XI (XI (XI XH))))))) :: ((Npos (XO (XI
    (XO (XI (XI (XI (XI XH)))))))) :: ((Npos (XI (XO (XO (XI (XO (XI (XI
    XH)))))))) :: ((Npos (XI (XI (XI (XI (XO (XO (XI XH)))))))) :: ((Npos (XI
    (XI (XO (XO (XO (XO (XO XH)))))))) :: ((Npos (XI (XI (XO (XI
    XH))))) :: ((Npos (XO (XI (XI (XO (XI XH)))))) :: ((Npos (XO (XO (XI (XI
    (XO (XI XH))))))) :: ((Npos (XO (XO (XO (XI (XI (XO (XI
    XH)))))))) :: ((Npos (XI (XO (XI (XI (XO (XI (XO XH)))))))) :: ((Npos (XI
    (XI (XI (XO (XO (XO XH))))))) :: ((Npos (XO (XI (XI (XI (XO (XO (XO
    XH)))))))) :: ((Npos XH) :: ((Npos (XO XH)) :: ((Npos (XO (XO
    XH))) :: ((Npos (XO (XO (XO XH)))) :: ((Npos (XO (XO (XO (XO
    XH))))) :: ((Npos (XO (XO (XO (XO (XO XH)))))) :: ((Npos (XO (XO (XO (XO
    (XO (XO XH))))))) :: ((Npos (XO (XO (XO (XO (XO (XO (XO
    XH)))))))) :: ((Npos (XI (XO (XI (XI XH))))) :: ((Npos (XO (XI (XO (XI
    (XI XH)))))) :: ((Npos (XO (XO (XI (XO (XI (XI XH))))))) :: ((Npos (XO
    (XO (XO (XI (XO (XI (XI XH)))))))) :: ((Npos (XI (XO (XI (XI (XO (XO (XI
    XH)))))))) :: ((Npos (XI (XI (XI (XO (XO (XO (XO XH)))))))) :: ((Npos (XI
    (XI (XO (XO XH))))) :: ((Npos (XO (XI (XI (XO (XO XH)))))) :: ((Npos (XO
    (XO (XI (XI (XO (XO XH))))))) :: ((Npos (XO (XO (XO (XI (XI (XO (XO
    XH)))))))) :: ((Npos (XI (XO (XI (XI (XO XH)))))) :: ((Npos (XO (XI (XO
    (XI (XI (XO XH))))))) :: ((Npos (XO (XO (XI (XO (XI (XI (XO
    XH)))))))) :: ((Npos (XI (XO (XI (XO (XI (XI XH))))))) :: ((Npos (XO (XI
    (XO (XI (XO (XI (XI XH)))))))) :: ((Npos (XI (XO (XO (XI (XO (XO (XI
    XH)))))))) :: ((Npos (XI (XI (XI (XI (XO (XO (XO XH)))))))) :: ((Npos (XI
    XH)) :: ((Npos (XO (XI XH))) :: ((Npos (XO (XO (XI XH)))) :: ((Npos (XO
    (XO (XO (XI XH))))) :: ((Npos (XO (XO (XO (XO (XI XH)))))) :: ((Npos (XO
    (XO (XO (XO (XO (XI XH))))))) :: ((Npos (XO (XO (XO (XO (XO (XO (XI
    XH)))))))) :: ((Npos (XI (XO (XI (XI (XI (XO (XO XH)))))))) :: ((Npos (XI
    (XI (XI (XO (XO XH)))))) :: ((Npos (XO (XI (XI (XI (XO (XO
    XH))))))) :: ((Npos (XO (XO (XI (XI (XI (XO (XO XH)))))))) :: ((Npos (XI
    (XO (XI (XO (XO XH)))))) :: ((Npos (XO (XI (XO (XI (XO (XO
    XH))))))) :: ((Npos (XO (XO (XI (XO (XI (XO (XO XH)))))))) :: ((Npos (XI
    (XO (XI (XO (XI XH)))))) :: ((Npos (XO (XI (XO (XI (XO (XI
    XH))))))) :: ((Npos (XO (XO (XI (XO (XI (XO (XI XH)))))))) :: ((Npos (XI
    (XO (XI (XO (XI (XI (XO XH)))))))) :: ((Npos (XI (XI (XI (XO (XI (XI
    XH))))))) :: ((Npos (XO (XI (XI (XI (XO (XI (XI XH)))))))) :: ((Npos (XI
    (XO (XO (XO (XO (XO (XI XH)))))))) :: ((Npos (XI (XI (XI (XI (XI (XO (XO
    XH)))))))) :: ((Npos (XI (XI (XO (XO (XO XH)))))) :: ((Npos (XO (XI (XI
    (XO (XO (XO XH))))))) :: ((Npos (XO (XO (XI (XI (XO (XO (XO
    XH)))))))) :: ((Npos (XI (XO XH))) :: ((Npos (XO (XI (XO XH)))) :: ((Npos
    (XO (XO (XI (XO XH))))) :: ((Npos (XO (XO (XO (XI (XO XH)))))) :: ((Npos
    (XO (XO (XO (XO (XI (XO XH))))))) :: ((Npos (XO (XO (XO (XO (XO (XI (XO
    XH)))))))) :: ((Npos (XI (XO (XI (XI (XI (XO XH))))))) :: ((Npos (XO (XI
    (XO (XI (XI (XI (XO XH)))))))) :: ((Npos (XI (XO (XO (XI (XO (XI
    XH))))))) :: ((Npos (XO (XI (XO (XO (XI (XO (XI XH)))))))) :: ((Npos (XI
    (XO (XO (XI (XI (XI (XO XH)))))))) :: ((Npos (XI (XI (XI (XI (XO (XI
    XH))))))) :: ((Npos (XO (XI (XI (XI (XI (XO (XI XH)))))))) :: ((Npos (XI
    (XO (XO (XO (XO (XI (XO XH)))))))) :: ((Npos (XI (XI (XI (XI (XI (XO
    XH))))))) :: ((Npos (XO (XI (XI (XI (XI (XI (XO XH)))))))) :: ((Npos (XI
    (XO (XO (XO (XO (XI XH))))))) :: ((Npos (XO (XI (XO (XO (XO (XO (XI
    XH)))))))) :: ((Npos (XI (XO (XO (XI (XI (XO (XO XH)))))))) :: ((Npos (XI
    (XI (XI (XI (XO XH)))))) :: ((Npos (XO (XI (XI (XI (XI (XO
    XH))))))) :: ((Npos (XO (XO (XI (XI (XI (XI (XO XH)))))))) :: ((Npos (XI
    (XO (XI (XO (XO (XI XH))))))) :: ((Npos (XO (XI (XO (XI (XO (XO (XI
    XH)))))))) :: ((Npos (XI (XO (XO (XI (XO (XO (XO XH)))))))) :: ((Npos (XI
    (XI (XI XH)))) :: ((Npos (XO (XI (XI (XI XH))))) :: ((Npos (XO (XO (XI
    (XI (XI XH)))))) :: ((Npos (XO (XO (XO (XI (XI (XI XH))))))) :: ((Npos
    (XO (XO (XO (XO (XI (XI (XI XH)))))))) :: ((Npos (XI (XO (XI (XI (XI (XI
    (XI XH)))))))) :: ((Npos (XI (XI (XI (XO (XO (XI (XI XH)))))))) :: ((Npos
    (XI (XI (XO (XO (XI (XO (XI XH)))))))) :: ((Npos (XI (XI (XO (XI (XI (XI
    (XO XH)))))))) :: ((Npos (XI (XI (XO (XI (XO (XI XH))))))) :: ((Npos (XO
    (XI (XI (XO (XI (XO (XI XH)))))))) :: ((Npos (XI (XO (XO (XO (XI (XI (XO
    XH)))))))) :: ((Npos (XI (XI (XI (XI (XI (XI XH))))))) :: ((Npos (XO (XI
    (XI (XI (XI (XI (XI XH)))))))) :: ((Npos (XI (XO (XO (XO (XO (XI (XI
    XH)))))))) :: ((Npos (XI (XI (XI (XI (XI (XO (XI XH)))))))) :: ((Npos (XI
    (XI (XO (XO (XO (XI (XO XH)))))))) :: ((Npos (XI (XI (XO (XI (XI (XO
    XH))))))) :: ((Npos (XO (XI (XI (XO (XI (XI (XO XH)))))))) :: ((Npos (XI
    (XO (XO (XO (XI (XI XH))))))) :: ((Npos (XO (XI (XO (XO (XO (XI (XI
    XH)))))))) :: ((Npos (XI (XO (XO (XI (XI (XO (XI XH)))))))) :: ((Npos (XI
    (XI (XI (XI (XO (XI (XO XH)))))))) :: ((Npos (XI (XI (XO (XO (XO (XO
    XH))))))) :: ((Npos (XO (XI (XI (XO (XO (XO (XO XH)))))))) :: ((Npos (XI
    (XO (XO (XO XH))))) :: ((Npos (XO (XI (XO (XO (XO XH)))))) :: ((Npos (XO
    (XO (XI (XO (XO (XO XH))))))) :: ((Npos (XO (XO (XO (XI (XO (XO (XO
    XH)))))))) :: ((Npos (XI (XO (XI XH)))) :: ((Npos (XO (XI (XO (XI
    XH))))) :: ((Npos (XO (XO (XI (XO (XI XH)))))) :: ((Npos (XO (XO (XO (XI
    (XO (XI XH))))))) :: ((Npos (XO (XO (XO (XO (XI (XO (XI
    XH)))))))) :: ((Npos (XI (XO (XI (XI (XI (XI (XO XH)))))))) :: ((Npos (XI
    (XI (XI (XO (XO (XI XH))))))) :: ((Npos (XO (XI (XI (XI (XO (XO (XI
    XH)))))))) :: ((Npos (XI (XO (XO (XO (XO (XO (XO XH)))))))) :: ((Npos (XI
    (XI (XI (XI XH))))) :: ((Npos (XO (XI (XI (XI (XI XH)))))) :: ((Npos (XO
    (XO (XI (XI (XI (XI XH))))))) :: ((Npos (XO (XO (XO (XI (XI (XI (XI
    XH)))))))) :: ((Npos (XI (XO (XI (XI (XO (XI (XI XH)))))))) :: ((Npos (XI
    (XI (XI (XO (XO (XO (XI XH)))))))) :: ((Npos (XI (XI (XO (XO (XI (XO (XO
    XH)))))))) :: ((Npos (XI (XI (XO (XI (XI XH)))))) :: ((Npos (XO (XI (XI
    (XO (XI (XI XH))))))) :: ((Npos (XO (XO (XI (XI (XO (XI (XI
    XH)))))))) :: ((Npos (XI (XO (XI (XO (XO (XO (XI XH)))))))) :: ((Npos (XI
    (XI (XI (XO (XI (XO (XO XH)))))))) :: ((Npos (XI (XI (XO (XO (XI
    XH)))))) :: ((Npos (XO (XI (XI (XO (XO (XI XH))))))) :: ((Npos (XO (XO
    (XI (XI (XO (XO (XI XH)))))))) :: ((Npos (XI (XO (XI (XO (XO (XO (XO
    XH)))))))) :: ((Npos (XI (XI (XI (XO XH))))) :: ((Npos (XO (XI (XI (XI
    (XO XH)))))) :: ((Npos (XO (XO (XI (XI (XI (XO XH))))))) :: ((Npos (XO
    (XO (XO (XI (XI (XI (XO XH)))))))) :: ((Npos (XI (XO (XI (XI (XO (XI
    XH))))))) :: ((Npos (XO (XI (XO (XI (XI (XO (XI XH)))))))) :: ((Npos (XI
    (XO (XO (XI (XO (XI (XO XH)))))))) :: ((Npos (XI (XI (XI (XI (XO (XO
    XH))))))) :: ((Npos (XO (XI (XI (XI (XI (XO (XO XH)))))))) :: ((Npos (XI
    (XO (XO (XO (XO XH)))))) :: ((Npos (XO (XI (XO (XO (XO (XO
    XH))))))) :: ((Npos (XO (XO (XI (XO (XO (XO (XO XH)))))))) :: ((Npos (XI
    (XO (XI (XO XH))))) :: ((Npos (XO (XI (XO (XI (XO XH)))))) :: ((Npos (XO
    (XO (XI (XO (XI (XO XH))))))) :: ((Npos (XO (XO (XO (XI (XO (XI (XO
    XH)))))))) :: ((Npos (XI (XO (XI (XI (XO (XO XH))))))) :: ((Npos (XO (XI
    (XO (XI (XI (XO (XO XH)))))))) :: ((Npos (XI (XO (XO (XI (XO
    XH)))))) :: ((Npos (XO (XI (XO (XO (XI (XO XH))))))) :: ((Npos (XO (XO
    (XI (XO (XO (XI (XO XH)))))))) :: ((Npos (XI (XO (XI (XO (XI (XO
    XH))))))) :: ((Npos (XO (XI (XO (XI (XO (XI (XO XH)))))))) :: ((Npos (XI
    (XO (XO (XI (XO (XO XH))))))) :: ((Npos (XO (XI (XO (XO (XI (XO (XO
    XH)))))))) :: ((Npos (XI (XO (XO (XI (XI XH)))))) :: ((Npos (XO (XI (XO
    (XO (XI (XI XH))))))) :: ((Npos (XO (XO (XI (XO (XO (XI (XI
    XH)))))))) :: ((Npos (XI (XO (XI (XO (XI (XO (XI XH)))))))) :: ((Npos (XI
    (XI (XI (XO (XI (XI (XO XH)))))))) :: ((Npos (XI (XI (XO (XO (XI (XI
    XH))))))) :: ((Npos (XO (XI (XI (XO (XO (XI (XI XH)))))))) :: ((Npos (XI
    (XO (XO (XO (XI (XO (XI XH)))))))) :: ((Npos (XI (XI (XI (XI (XI (XI (XO
    XH)))))))) :: ((Npos (XI (XI (XO (XO (XO (XI XH))))))) :: ((Npos (XO (XI
    (XI (XO (XO (XO (XI XH)))))))) :: ((Npos (XI (XO (XO (XO (XI (XO (XO
    XH)))))))) :: ((Npos (XI (XI (XI (XI (XI XH)))))) :: ((Npos (XO (XI (XI
    (XI (XI (XI XH))))))) :: ((Npos (XO (XO (XI (XI (XI (XI (XI
    XH)))))))) :: ((Npos (XI (XO (XI (XO (XO (XI (XI XH)))))))) :: ((Npos (XI
    (XI (XI (XO (XI (XO (XI XH)))))))) :: ((Npos (XI (XI (XO (XO (XI (XI (XO
    XH)))))))) :: ((Npos (XI (XI (XO (XI (XI (XI XH))))))) :: ((Npos (XO (XI
    (XI (XO (XI (XI (XI XH)))))))) :: ((Npos (XI (XO (XO (XO (XI (XI (XI
    XH)))))))) :: ((Npos (XI (XI (XI (XI (XI (XI (XI XH)))))))) :: ((Npos (XI
    (XI (XO (XO (XO (XI (XI XH)))))))) :: ((Npos (XI (XI (XO (XI (XI (XO (XI
    XH)))))))) :: ((Npos (XI (XI (XO (XI (XO (XI (XO XH)))))))) :: ((Npos (XI
    (XI (XO (XI (XO (XO XH))))))) :: ((Npos (XO (XI (XI (XO (XI (XO (XO
    XH)))))))) :: ((Npos (XI (XO (XO (XO (XI XH)))))) :: ((Npos (XO (XI (XO
    (XO (XO (XI XH))))))) :: ((Npos (XO (XO (XI (XO (XO (XO (XI
    XH)))))))) :: ((Npos (XI (XO (XI (XO (XI (XO (XO XH)))))))) :: ((Npos (XI
    (XI (XI (XO (XI XH)))))) :: ((Npos (XO (XI (XI (XI (XO (XI
    XH))))))) :: ((Npos (XO (XO (XI (XI (XI (XO (XI XH)))))))) :: ((Npos (XI
    (XO (XI (XO (XO (XI (XO XH)))))))) :: ((Npos (XI (XI (XI (XO (XI (XO
    XH))))))) :: ((Npos (XO (XI (XI (XI (XO (XI (XO XH)))))))) :: ((Npos (XI
    (XO (XO (XO (XO (XO XH))))))) :: ((Npos (XO (XI (XO (XO (XO (XO (XO
    XH)))))))) :: ((Npos (XI (XO (XO (XI XH))))) :: ((Npos (XO (XI (XO (XO
    (XI XH)))))) :: ((Npos (XO (XO (XI (XO (XO (XI XH))))))) :: ((Npos (XO
    (XO (XO (XI (XO (XO (XI XH)))))))) :: ((Npos (XI (XO (XI (XI (XO (XO (XO
    XH)))))))) :: ((Npos (XI (XI XH))) :: ((Npos (XO (XI (XI XH)))) :: ((Npos
    (XO (XO (XI (XI XH))))) :: ((Npos (XO (XO (XO (XI (XI XH)))))) :: ((Npos
    (XO (XO (XO (XO (XI (XI XH))))))) :: ((Npos (XO (XO (XO (XO (XO (XI (XI
    XH)))))))) :: ((Npos (XI (XO (XI (XI (XI (XO (XI XH)))))))) :: ((Npos (XI
    (XI (XI (XO (XO (XI (XO XH)))))))) :: ((Npos (XI (XI (XO (XO (XI (XO
    XH))))))) :: ((Npos (XO (XI (XI (XO (XO (XI (XO XH)))))))) :: ((Npos (XI
    (XO (XO (XO (XI (XO XH))))))) :: ((Npos (XO (XI (XO (XO (XO (XI (XO
    XH)))))))) :: ((Npos (XI (XO (XO (XI (XI (XO XH))))))) :: ((Npos (XO (XI
    (XO (XO (XI (XI (XO XH)))))))) :: ((Npos (XI (XO (XO (XI (XI (XI
    XH))))))) :: ((Npos (XO (XI (XO (XO (XI (XI (XI XH)))))))) :: ((Npos (XI
    (XO (XO (XI (XI (XI (XI XH)))))))) :: ((Npos (XI (XI (XI (XI (XO (XI (XI
    XH)))))))) :: ((Npos (XI (XI (XO (XO (XO (XO (XI XH)))))))) :: ((Npos (XI
    (XI (XO (XI (XI (XO (XO XH)))))))) :: ((Npos (XI (XI (XO (XI (XO
    XH)))))) :: ((Npos (XO (XI (XI (XO (XI (XO XH))))))) :: ((Npos (XO (XO
    (XI (XI (XO (XI (XO XH)))))))) :: ((Npos (XI (XO (XI (XO (XO (XO
    XH))))))) :: ((Npos (XO (XI (XO (XI (XO (XO (XO XH)))))))) :: ((Npos (XI
    (XO (XO XH)))) :: ((Npos (XO (XI (XO (XO XH))))) :: ((Npos (XO (XO (XI
    (XO (XO XH)))))) :: ((Npos (XO (XO (XO (XI (XO (XO XH))))))) :: ((Npos
    (XO (XO (XO (XO (XI (XO (XO XH)))))))) :: ((Npos (XI (XO (XI (XI (XI
    XH)))))) :: ((Npos (XO (XI (XO (XI (XI (XI XH))))))) :: ((Npos (XO (XO
    (XI (XO (XI (XI (XI XH)))))))) :: ((Npos (XI (XO (XI (XO (XI (XI (XI
    XH)))))))) :: ((Npos (XI (XI (XI (XO (XI (XI (XI XH)))))))) :: ((Npos (XI
    (XI (XO (XO (XI (XI (XI XH)))))))) :: ((Npos (XI (XI (XO (XI (XI (XI (XI
    XH)))))))) :: ((Npos (XI (XI (XO (XI (XO (XI (XI XH)))))))) :: ((Npos (XI
    (XI (XO (XI (XO (XO (XI XH)))))))) :: ((Npos (XI (XI (XO (XI (XO (XO (XO
    XH)))))))) :: ((Npos (XI (XI (XO XH)))) :: ((Npos (XO (XI (XI (XO
    XH))))) :: ((Npos (XO (XO (XI (XI (XO XH)))))) :: ((Npos (XO (XO (XO (XI
    (XI (XO XH))))))) :: ((Npos (XO (XO (XO (XO (XI (XI (XO
    XH)))))))) :: ((Npos (XI (XO (XI (XI (XI (XI XH))))))) :: ((Npos (XO (XI
    (XO (XI (XI (XI (XI XH)))))))) :: ((Npos (XI (XO (XO (XI (XO (XI (XI
    XH)))))))) :: ((Npos (XI (XI (XI (XI (XO (XO (XI XH)))))))) :: ((Npos (XI
    (XI (XO (XO (XO (XO (XO XH)))))))) :: ((Npos (XI (XI (XO (XI
    XH))))) :: ((Npos (XO (XI (XI (XO (XI XH)))))) :: ((Npos (XO (XO (XI (XI
    (XO (XI XH))))))) :: ((Npos (XO (XO (XO (XI (XI (XO (XI
    XH)))))))) :: ((Npos (XI (XO (XI (XI (XO (XI (XO XH)))))))) :: ((Npos (XI
    (XI (XI (XO (XO (XO XH))))))) :: ((Npos (XO (XI (XI (XI (XO (XO (XO
    XH)))))))) :: [])))))))))))))))))))))))))))))))))))))))))))))))))))))))))))))))))))))))))))))))))))))))))))))))))))))))))))))))))))))))))))))))))))))))))))))))))))))))))))))))))))))))))))))))))))))))))))))))))))))))))))))))))))))))))))))))))))))))))))))))))))))))))))))))))))))))))))))))))))))))))))))))))))))))))))))))))))))))))))))))))))))))))))))))))))))))))))))))))))))))))))))))))))))))))))))))))))))))))))))))))))))))))))))))))))))))))))))))))))))))))))))))))))))))))))))))))))))))))))))))))))))))))))))))))))))))))))))

(** val oCT_LOG : n list **)

let oCT_LOG =
  N0 :: (N0 :: ((Npos XH) :: ((Npos (XI (XO (XO (XI XH))))) :: ((Npos (XO
    XH)) :: ((Npos (XO (XI (XO (XO (XI XH)))))) :: ((Npos (XO (XI (XO (XI
    XH))))) :: ((Npos (XO (XI (XI (XO (XO (XO (XI XH)))))))) :: ((Npos (XI
    XH)) :: ((Npos (XI (XI (XI (XI (XI (XO (XI XH)))))))) :: ((Npos (XI (XI
    (XO (XO (XI XH)))))) :: ((Npos (XO (XI (XI (XI (XO (XI (XI
    XH)))))))) :: ((Npos (XI (XI (XO (XI XH))))) :: ((Npos (XO (XO (XO (XI
    (XO (XI XH))))))) :: ((Npos (XI (XI (XI (XO (XO (XO (XI
    XH)))))))) :: ((Npos (XI (XI (XO (XI (XO (XO XH))))))) :: ((Npos (XO (XO
    XH))) :: ((Npos (XO (XO (XI (XO (XO (XI XH))))))) :: ((Npos (XO (XO (XO
    (XO (XO (XI (XI XH)))))))) :: ((Npos (XO (XI (XI XH)))) :: ((Npos (XO (XO
    (XI (XO (XI XH)))))) :: ((Npos (XI (XO (XI (XI (XO (XO (XO
    XH)))))))) :: ((Npos (XI (XI (XI (XI (XO (XI (XI XH)))))))) :: ((Npos (XI
    (XO (XO (XO (XO (XO (XO XH)))))))) :: ((Npos (XO (XO (XI (XI
    XH))))) :: ((Npos (XI (XO (XO (XO (XO (XO (XI XH)))))))) :: ((Npos (XI
    (XO (XO (XI (XO (XI XH))))))) :: ((Npos (XO (XO (XO (XI (XI (XI (XI
    XH)))))))) :: ((Npos (XO (XO (XO (XI (XO (XO (XI XH)))))))) :: ((Npos (XO
    (XO (XO XH)))) :: ((Npos (XO (XO (XI (XI (XO (XO XH))))))) :: ((Npos (XI
    (XO (XO (XO (XI (XI XH))))))) :: ((Npos (XI (XO XH))) :: ((Npos (XO (XI
    (XO (XI (XO (XO (XO XH)))))))) :: ((Npos (XI (XO (XI (XO (XO (XI
    XH))))))) :: ((Npos (XI (XI (XI (XI (XO XH)))))) :: ((Npos (XI (XO (XO
    (XO (XO (XI (XI XH)))))))) :: ((Npos (XO (XO (XI (XO (XO
    XH)))))) :: ((Npos (XI (XI (XI XH)))) :: ((Npos (XI (XO (XO (XO (XO
    XH)))))) :: ((Npos (XI (XO (XI (XO (XI XH)))))) :: ((Npos (XI (XI (XO (XO
    (XI (XO (XO XH)))))))) :: ((Npos (XO (XI (XI (XI (XO (XO (XO
    XH)))))))) :: ((Npos (XO (XI (XO (XI (XI (XO (XI XH)))))))) :: ((Npos (XO
    (XO (XO (XO (XI (XI (XI XH)))))))) :: ((Npos (XO (XI (XO (XO
    XH))))) :: ((Npos (XO (XI (XO (XO (XO (XO (XO XH)))))))) :: ((Npos (XI
    (XO (XI (XO (XO (XO XH))))))) :: ((Npos (XI (XO (XI (XI XH))))) :: ((Npos
    (XI (XO (XI (XO (XI (XI (XO XH)))))))) :: ((Npos (XO (XI (XO (XO (XO (XO
    (XI XH)))))))) :: ((Npos (XI (XO (XI (XI (XI (XI XH))))))) :: ((Npos (XO
    (XI (XO (XI (XO (XI XH))))))) :: ((Npos (XI (XI (XI (XO (XO
    XH)))))) :: ((Npos (XI (XO (XO (XI (XI (XI (XI XH)))))))) :: ((Npos (XI
    (XO (XO (XI (XI (XI (XO XH)))))))) :: ((Npos (XI (XO (XO (XI (XO (XO (XI
    XH)))))))) :: ((Npos (XO (XI (XO (XI (XI (XO (XO XH)))))))) :: ((Npos (XI
    (XO (XO XH)))) :: ((Npos (XO (XO (XO (XI (XI (XI XH))))))) :: ((Npos (XI
    (XO (XI (XI (XO (XO XH))))))) :: ((Npos (XO (XO (XI (XO (XO (XI (XI
    XH)))))))) :: ((Npos (XO (XI (XO (XO (XI (XI XH))))))) :: ((Npos (XO (XI
    (XI (XO (XO (XI (XO XH)))))))) :: ((Npos (XO (XI XH))) :: ((Npos (XI (XI
    (XI (XI (XI (XI (XO XH)))))))) :: ((Npos (XI (XI (XO (XI (XO (XO (XO
    XH)))))))) :: ((Npos (XO (XI (XO (XO (XO (XI XH))))))) :: ((Npos (XO (XI
    (XI (XO (XO (XI XH))))))) :: ((Npos (XI (XO (XI (XI (XI (XO (XI
    XH)))))))) :: ((Npos (XO (XO (XO (XO (XI XH)))))) :: ((Npos (XI (XO (XI
    (XI (XI (XI (XI XH)))))))) :: ((Npos (XO (XI (XO (XO (XO (XI (XI
    XH)))))))) :: ((Npos (XO (XO (XO (XI (XI (XO (XO XH)))))))) :: ((Npos (XI
    (XO (XI (XO (XO XH)))))) :: ((Npos (XI (XI (XO (XO (XI (XI (XO
    XH)))))))) :: ((Npos (XO (XO (XO (XO XH))))) :: ((Npos (XI (XO (XO (XO
    (XI (XO (XO XH)))))))) :: ((Npos (XO (XI (XO (XO (XO XH)))))) :: ((Npos
    (XO (XO (XO (XI (XO (XO (XO XH)))))))) :: ((Npos (XO (XI (XI (XO (XI
    XH)))))) :: ((Npos (XO (XO (XO (XO (XI (XO (XI XH)))))))) :: ((Npos (XO
    (XO (XI (XO (XI (XO (XO XH)))))))) :: ((Npos (XO (XI (XI (XI (XO (XO (XI
    XH)))))))) :: ((Npos (XI (XI (XI (XI (XO (XO (XO XH)))))))) :: ((Npos (XO
    (XI (XI (XO (XI (XO (XO XH)))))))) :: ((Npos (XI (XI (XO (XI (XI (XO (XI
    XH)))))))) :: ((Npos (XI (XO (XI (XI (XI (XI (XO XH)))))))) :: ((Npos (XI
    (XO (XO (XO (XI (XI (XI XH)))))))) :: ((Npos (XO (XI (XO (XO (XI (XO (XI
    XH)))))))) :: ((Npos (XI (XI (XO (XO XH))))) :: ((Npos (XO (XO (XI (XI
    (XI (XO XH))))))) :: ((Npos (XI (XI (XO (XO (XO (XO (XO
    XH)))))))) :: ((Npos (XO (XO (XO (XI (XI XH)))))) :: ((Npos (XO (XI (XI
    (XO (XO (XO XH))))))) :: ((Npos (XO (XO (XO (XO (XO (XO
    XH))))))) :: ((Npos (XO (XI (XI (XI XH))))) :: ((Npos (XO (XI (XO (XO (XO
    (XO XH))))))) :: ((Npos (XO (XI (XI (XO (XI (XI (XO XH)))))))) :: ((Npos
    (XI (XI (XO (XO (XO (XI (XO XH)))))))) :: ((Npos (XI (XI (XO (XO (XO (XO
    (XI XH)))))))) :: ((Npos (XO (XO (XO (XI (XO (XO XH))))))) :: ((Npos (XO
    (XI (XI (XI (XI (XI XH))))))) :: ((Npos (XO (XI (XI (XI (XO (XI
    XH))))))) :: ((Npos (XI (XI (XO (XI (XO (XI XH))))))) :: ((Npos (XO (XI
    (XO (XI (XI XH)))))) :: ((Npos (XO (XO (XO (XI (XO XH)))))) :: ((Npos (XO
    (XO (XI (XO (XI (XO XH))))))) :: ((Npos (XO (XI (XO (XI (XI (XI (XI
    XH)))))))) :: ((Npos (XI (XO (XI (XO (XO (XO (XO XH)))))))) :: ((Npos (XO
    (XI (XO (XI (XI (XI (XO XH)))))))) :: ((Npos (XI (XO (XI (XI (XI
    XH)))))) :: ((Npos (XO (XI (XO (XI (XO (XO (XI XH)))))))) :: ((Npos (XO
    (XI (XI (XI (XI (XO XH))))))) :: ((Npos (XI (XI (XO (XI (XI (XO (XO
    XH)))))))) :: ((Npos (XI (XI (XI (XI (XI (XO (XO XH)))))))) :: ((Npos (XO
    (XI (XO XH)))) :: ((Npos (XI (XO (XI (XO XH))))) :: ((Npos (XI (XO (XO
    (XI (XI (XI XH))))))) :: ((Npos (XI (XI (XO (XI (XO XH)))))) :: ((Npos
    (XO (XI (XI (XI (XO (XO XH))))))) :: ((Npos (XO (XO (XI (XO (XI (XO (XI
    XH)))))))) :: ((Npos (XI (XO (XI (XO (XO (XI (XI XH)))))))) :: ((Npos (XO
    (XO (XI (XI (XO (XI (XO XH)))))))) :: ((Npos (XI (XI (XO (XO (XI (XI
    XH))))))) :: ((Npos (XI (XI (XO (XO (XI (XI (XI XH)))))))) :: ((Npos (XI
    (XI (XI (XO (XO (XI (XO XH)))))))) :: ((Npos (XI (XI (XI (XO (XI (XO
    XH))))))) :: ((Npos (XI (XI XH))) :: ((Npos (XO (XO (XO (XO (XI (XI
    XH))))))) :: ((Npos (XO (XO (XO (XO (XO (XO (XI XH)))))))) :: ((Npos (XI
    (XI (XI (XO (XI (XI (XI XH)))))))) :: ((Npos (XO (XO (XI (XI (XO (XO (XO
    XH)))))))) :: ((Npos (XO (XO (XO (XO (XO (XO (XO XH)))))))) :: ((Npos (XI
    (XI (XO (XO (XO (XI XH))))))) :: ((Npos (XI (XO (XI XH)))) :: ((Npos (XI
    (XI (XI (XO (XO (XI XH))))))) :: ((Npos (XO (XI (XO (XI (XO (XO
    XH))))))) :: ((Npos (XO (XI (XI (XI (XI (XO (XI XH)))))))) :: ((Npos (XI
    (XO (XI (XI (XO (XI (XI XH)))))))) :: ((Npos (XI (XO (XO (XO (XI
    XH)))))) :: ((Npos (XI (XO (XI (XO (XO (XO (XI XH)))))))) :: ((Npos (XO
    (XI (XI (XI (XI (XI (XI XH)))))))) :: ((Npos (XO (XO (XO (XI
    XH))))) :: ((Npos (XI (XI (XO (XO (XO (XI (XI XH)))))))) :: ((Npos (XI
    (XO (XI (XO (XO (XI (XO XH)))))))) :: ((Npos (XI (XO (XO (XI (XI (XO (XO
    XH)))))))) :: ((Npos (XI (XI (XI (XO (XI (XI XH))))))) :: ((Npos (XO (XI
    (XI (XO (XO XH)))))) :: ((Npos (XO (XO (XO (XI (XI (XI (XO
    XH)))))))) :: ((Npos (XO (XO (XI (XO (XI (XI (XO XH)))))))) :: ((Npos (XO
    (XO (XI (XI (XI (XI XH))))))) :: ((Npos (XI (XO (XO (XO XH))))) :: ((Npos
    (XO (XO (XI (XO (XO (XO XH))))))) :: ((Npos (XO (XI (XO (XO (XI (XO (XO
    XH)))))))) :: ((Npos (XI (XO (XO (XI (XI (XO (XI XH)))))))) :: ((Npos (XI
    (XI (XO (XO (XO XH)))))) :: ((Npos (XO (XO (XO (XO (XO XH)))))) :: ((Npos
    (XI (XO (XO (XI (XO (XO (XO XH)))))))) :: ((Npos (XO (XI (XI (XI (XO
    XH)))))) :: ((Npos (XI (XI (XI (XO (XI XH)))))) :: ((Npos (XI (XI (XI (XI
    (XI XH)))))) :: ((Npos (XI (XO (XO (XO (XI (XO (XI XH)))))))) :: ((Npos
    (XI (XI (XO (XI (XI (XO XH))))))) :: ((Npos (XI (XO (XI (XO (XI (XO (XO
    XH)))))))) :: ((Npos (XO (XO (XI (XI (XI (XI (XO XH)))))))) :: ((Npos (XI
    (XI (XI (XI (XO (XO (XI XH)))))))) :: ((Npos (XI (XO (XI (XI (XO (XO (XI
    XH)))))))) :: ((Npos (XO (XO (XO (XO (XI (XO (XO XH)))))))) :: ((Npos (XI
    (XI (XI (XO (XO (XO (XO XH)))))))) :: ((Npos (XI (XI (XI (XO (XI (XO (XO
    XH)))))))) :: ((Npos (XO (XI (XO (XO (XI (XI (XO XH)))))))) :: ((Npos (XO
    (XO (XI (XI (XI (XO (XI XH)))))))) :: ((Npos (XO (XO (XI (XI (XI (XI (XI
    XH)))))))) :: ((Npos (XO (XI (XI (XI (XI (XI (XO XH)))))))) :: ((Npos (XI
    (XO (XO (XO (XO (XI XH))))))) :: ((Npos (XO (XI (XO (XO (XI (XI (XI
    XH)))))))) :: ((Npos (XO (XI (XI (XO (XI (XO XH))))))) :: ((Npos (XI (XI
    (XO (XO (XI (XO (XI XH)))))))) :: ((Npos (XI (XI (XO (XI (XO (XI (XO
    XH)))))))) :: ((Npos (XO (XO (XI (XO XH))))) :: ((Npos (XO (XI (XO (XI
    (XO XH)))))) :: ((Npos (XI (XO (XI (XI (XI (XO XH))))))) :: ((Npos (XO
    (XI (XI (XI (XI (XO (XO XH)))))))) :: ((Npos (XO (XO (XI (XO (XO (XO (XO
    XH)))))))) :: ((Npos (XO (XO (XI (XI (XI XH)))))) :: ((Npos (XI (XO (XO
    (XI (XI XH)))))) :: ((Npos (XI (XI (XO (XO (XI (XO XH))))))) :: ((Npos
    (XI (XI (XI (XO (XO (XO XH))))))) :: ((Npos (XI (XO (XI (XI (XO (XI
    XH))))))) :: ((Npos (XI (XO (XO (XO (XO (XO XH))))))) :: ((Npos (XO (XI
    (XO (XO (XO (XI (XO XH)))))))) :: ((Npos (XI (XI (XI (XI
    XH))))) :: ((Npos (XI (XO (XI (XI (XO XH)))))) :: ((Npos (XI (XI (XO (XO
    (XO (XO XH))))))) :: ((Npos (XO (XO (XO (XI (XI (XO (XI
    XH)))))))) :: ((Npos (XI (XI (XI (XO (XI (XI (XO XH)))))))) :: ((Npos (XI
    (XI (XO (XI (XI (XI XH))))))) :: ((Npos (XO (XO (XI (XO (XO (XI (XO
    XH)))))))) :: ((Npos (XO (XI (XI (XO (XI (XI XH))))))) :: ((Npos (XO (XO
    (XI (XO (XO (XO (XI XH)))))))) :: ((Npos (XI (XI (XI (XO
    XH))))) :: ((Npos (XI (XO (XO (XI (XO (XO XH))))))) :: ((Npos (XO (XO (XI
    (XI (XO (XI (XI XH)))))))) :: ((Npos (XI (XI (XI (XI (XI (XI
    XH))))))) :: ((Npos (XO (XO (XI XH)))) :: ((Npos (XI (XI (XI (XI (XO (XI
    XH))))))) :: ((Npos (XO (XI (XI (XO (XI (XI (XI XH)))))))) :: ((Npos (XO
    (XO (XI (XI (XO (XI XH))))))) :: ((Npos (XI (XO (XO (XO (XO (XI (XO
    XH)))))))) :: ((Npos (XI (XI (XO (XI (XI XH)))))) :: ((Npos (XO (XI (XO
    (XO (XI (XO XH))))))) :: ((Npos (XI (XO (XO (XI (XO XH)))))) :: ((Npos
    (XI (XO (XI (XI (XI (XO (XO XH)))))))) :: ((Npos (XI (XO (XI (XO (XI (XO
    XH))))))) :: ((Npos (XO (XI (XO (XI (XO (XI (XO XH)))))))) :: ((Npos (XI
    (XI (XO (XI (XI (XI (XI XH)))))))) :: ((Npos (XO (XO (XO (XO (XO (XI
    XH))))))) :: ((Npos (XO (XI (XI (XO (XO (XO (XO XH)))))))) :: ((Npos (XI
    (XO (XO (XO (XI (XI (XO XH)))))))) :: ((Npos (XI (XI (XO (XI (XI (XI (XO
    XH)))))))) :: ((Npos (XO (XO (XI (XI (XO (XO (XI XH)))))))) :: ((Npos (XO
    (XI (XI (XI (XI XH)))))) :: ((Npos (XO (XI (XO (XI (XI (XO
    XH))))))) :: ((Npos (XI (XI (XO (XI (XO (XO (XI XH)))))))) :: ((Npos (XI
    (XO (XO (XI (XI (XO XH))))))) :: ((Npos (XI (XI (XI (XI (XI (XO
    XH))))))) :: ((Npos (XO (XO (XO (XO (XI (XI (XO XH)))))))) :: ((Npos (XO
    (XO (XI (XI (XI (XO (XO XH)))))))) :: ((Npos (XI (XO (XO (XI (XO (XI (XO
    XH)))))))) :: ((Npos (XO (XO (XO (XO (XO (XI (XO XH)))))))) :: ((Npos (XI
    (XO (XO (XO (XI (XO XH))))))) :: ((Npos (XI (XI (XO XH)))) :: ((Npos (XI
    (XO (XI (XO (XI (XI (XI XH)))))))) :: ((Npos (XO (XI (XI (XO
    XH))))) :: ((Npos (XI (XI (XO (XI (XO (XI (XI XH)))))))) :: ((Npos (XO
    (XI (XO (XI (XI (XI XH))))))) :: ((Npos (XI (XO (XI (XO (XI (XI
    XH))))))) :: ((Npos (XO (XO (XI (XI (XO XH)))))) :: ((Npos (XI (XI (XI
    (XO (XI (XO (XI XH)))))))) :: ((Npos (XI (XI (XI (XI (XO (XO
    XH))))))) :: ((Npos (XO (XI (XI (XI (XO (XI (XO XH)))))))) :: ((Npos (XI
    (XO (XI (XO (XI (XO (XI XH)))))))) :: ((Npos (XI (XO (XO (XI (XO (XI (XI
    XH)))))))) :: ((Npos (XO (XI (XI (XO (XO (XI (XI XH)))))))) :: ((Npos (XI
    (XI (XI (XO (XO (XI (XI XH)))))))) :: ((Npos (XI (XO (XI (XI (XO (XI (XO
    XH)))))))) :: ((Npos (XO (XO (XO (XI (XO (XI (XI XH)))))))) :: ((Npos (XO
    (XO (XI (XO (XI (XI XH))))))) :: ((Npos (XO (XI (XI (XO (XI (XO (XI
    XH)))))))) :: ((Npos (XO (XO (XI (XO (XI (XI (XI XH)))))))) :: ((Npos (XO
    (XI (XO (XI (XO (XI (XI XH)))))))) :: ((Npos (XO (XO (XO (XI (XO (XI (XO
    XH)))))))) :: ((Npos (XO (XO (XO (XO (XI (XO XH))))))) :: ((Npos (XO (XO
    (XO (XI (XI (XO XH))))))) :: ((Npos (XI (XI (XI (XI (XO (XI (XO
    XH)))))))) :: [])))))))))))))))))))))))))))))))))))))))))))))))))))))))))))))))))))))))))))))))))))))))))))))))))))))))))))))))))))))))))))))))))))))))))))))))))))))))))))))))))))))))))))))))))))))))))))))))))))))))))))))))))))))))))))))))))))))))))))))))))))))))))))))))

(** val exp_at : n -> n outcome **)

let exp_at i =
  nth_ok oCT_EXP (N.to_nat i)

(** val log_at : n -> n outcome **)

let log_at a =
  nth_ok oCT_LOG (N.to_nat a)

(** val oct_add : n -> n -> n **)

let oct_add =
  N.coq_lxor

(** val oct_mul : n -> n -> n outcome **)

let oct_mul a b =
  if (||) (N.eqb a N0) (N.eqb b N0)
  then Ok N0
  else obind (log_at a) (fun la ->
         obind (log_at b) (fun lb -> exp_at (N.add la lb)))

(** val oct_div : n -> n -> n outcome **)

let oct_div a b =
  if N.eqb b N0
  then Panic PAssert
  else if N.eqb a N0
       then Ok N0
       else obind (log_at a) (fun la ->
              obind (log_at b) (fun lb ->
                if N.ltb
                     (N.add (Npos (XI (XI (XI (XI (XI (XI (XI XH)))))))) la)
                     lb
                then Panic POverflow
                else exp_at
                       (N.sub
                         (N.add (Npos (XI (XI (XI (XI (XI (XI (XI XH))))))))
                           la) lb)))

(** val oct_fma : n -> n -> n -> n outcome **)

let oct_fma acc a b =
  if (&&) (negb (N.eqb a N0)) (negb (N.eqb b N0))
  then obind (log_at a) (fun la ->
         obind (log_at b) (fun lb ->
           obind (exp_at (N.add la lb)) (fun e -> Ok (N.coq_lxor acc e))))
  else Ok acc

(** val oct_alpha : n -> n outcome **)

let oct_alpha i =
  if N.ltb i (Npos (XO (XO (XO (XO (XO (XO (XO (XO XH)))))))))
  then exp_at i
  else Panic PAssert

(** val const_mul : n -> n -> n outcome **)

let const_mul x y =
  obind (log_at x) (fun lx ->
    obind (log_at y) (fun ly -> exp_at (N.add lx ly)))

(** val or0 : n outcome -> n **)

let or0 = function
| Ok v -> v
| Panic _ -> N0

(** val octet_mul_table : n list list **)

let octet_mul_table =
  map (fun i ->
    map (fun j ->
      if (||) (N.eqb i N0) (N.eqb j N0) then N0 else or0 (const_mul i j))
      (rangeN (S (S (S (S (S (S (S (S (S (S (S (S (S (S (S (S (S (S (S (S (S
        (S (S (S (S (S (S (S (S (S (S (S (S (S (S (S (S (S (S (S (S (S (S (S
        (S (S (S (S (S (S (S (S (S (S (S (S (S (S (S (S (S (S (S (S (S (S (S
        (S (S (S (S (S (S (S (S (S (S (S (S (S (S (S (S (S (S (S (S (S (S (S
        (S (S (S (S (S (S (S (S (S (S (S (S (S (S (S (S (S (S (S (S (S (S (S
        (S (S (S (S (S (S (S (S (S (S (S (S (S (S (S (S (S (S (S (S (S (S (S
        (S (S (S (S (S (S (S (S (S (S (S (S (S (S (S (S (S (S (S (S (S (S (S
        (S (S (S (S (S (S (S (S (S (S (S (S (S (S (S (S (S (S (S (S (S (S (S
        (S (S (S (S (S (S (S (S (S (S (S (S (S (S (S (S (S (S (S (S (S (S (S
        (S (S (S (S (S (S (S (S (S (S (S (S (S (S (S (S (S (S (S (S (S (S (S
        (S (S (S (S (S (S (S (S (S (S (S (S (S (S (S (S (S (S (S (S (S (S (S
        (S (S (S (S (S
        O))))))))))))))))))))))))))))))))))))))))))))))))))))))))))))))))))))))))))))))))))))))))))))))))))))))))))))))))))))))))))))))))))))))))))))))))))))))))))))))))))))))))))))))))))))))))))))))))))))))))))))))))))))))))))))))))))))))))))))))))))))))))))))))))))
    (rangeN (S (S (S (S (S (S (S (S (S (S (S (S (S (S (S (S (S (S (S (S (S (S
      (S (S (S (S (S (S (S (S (S (S (S (S (S (S (S (S (S (S (S (S (S (S (S (S
      (S (S (S (S (S (S (S (S (S (S (S (S (S (S (S (S (S (S (S (S (S (S (S (S
      (S (S (S (S (S (S (S (S (S (S (S (S (S (S (S (S (S (S (S (S (S (S (S (S
      (S (S (S (S (S (S (S (S (S (S (S (S (S (S (S (S (S (S (S (S (S (S (S (S
      (S (S (S (S (S (S (S (S (S (S (S (S (S (S (S (S (S (S (S (S (S (S (S (S
      (S (S (S (S (S (S (S (S (S (S (S (S (S (S (S (S (S (S (S (S (S (S (S (S
      (S (S (S (S (S (S (S (S (S (S (S (S (S (S (S (S (S (S (S (S (S (S (S (S
      (S (S (S (S (S (S (S (S (S (S (S (S (S (S (S (S (S (S (S (S (S (S (S (S
      (S (S (S (S (S (S (S (S (S (S (S (S (S (S (S (S (S (S (S (S (S (S (S (S
      (S (S (S (S (S (S (S (S (S (S (S (S (S (S (S (S (S (S
      O)))))))))))))))))))))))))))))))))))))))))))))))))))))))))))))))))))))))))))))))))))))))))))))))))))))))))))))))))))))))))))))))))))))))))))))))))))))))))))))))))))))))))))))))))))))))))))))))))))))))))))))))))))))))))))))))))))))))))))))))))))))))))))))))))

(** val low_entry : n -> n -> n **)

let low_entry i j =
  let jj = N.modulo j (Npos (XO (XO (XO (XO XH))))) in
  if (||) (N.eqb i N0) (N.eqb jj N0) then N0 else or0 (const_mul i jj)

(** val octet_mul_low_table : n list list **)

let octet_mul_low_table =
  map (fun i ->
    map (fun j -> low_entry i j)
      (rangeN (S (S (S (S (S (S (S (S (S (S (S (S (S (S (S (S (S (S (S (S (S
        (S (S (S (S (S (S (S (S (S (S (S O))))))))))))))))))))))))))))))))))
    (rangeN (S (S (S (S (S (S (S (S (S (S (S (S (S (S (S (S (S (S (S (S (S (S
      (S (S (S (S (S (S (S (S (S (S (S (S (S (S (S (S (S (S (S (S (S (S (S (S
      (S (S (S (S (S (S (S (S (S (S (S (S (S (S (S (S (S (S (S (S (S (S (S (S
      (S (S (S (S (S (S (S (S (S (S (S (S (S (S (S (S (S (S (S (S (S (S (S (S
      (S (S (S (S (S (S (S (S (S (S (S (S (S (S (S (S (S (S (S (S (S (S (S (S
      (S (S (S (S (S (S (S (S (S (S (S (S (S (S (S (S (S (S (S (S (S (S (S (S
      (S (S (S (S (S (S (S (S (S (S (S (S (S (S (S (S (S (S (S (S (S (S (S (S
      (S (S (S (S (S (S (S (S (S (S (S (S (S (S (S (S (S (S (S (S (S (S (S (S
      (S (S (S (S (S (S (S (S (S (S (S (S (S (S (S (S (S (S (S (S (S (S (S (S
      (S (S (S (S (S (S (S (S (S (S (S (S (S (S (S (S (S (S (S (S (S (S (S (S
      (S (S (S (S (S (S (S (S (S (S (S (S (S (S (S (S (S (S
      O)))))))))))))))))))))))))))))))))))))))))))))))))))))))))))))))))))))))))))))))))))))))))))))))))))))))))))))))))))))))))))))))))))))))))))))))))))))))))))))))))))))))))))))))))))))))))))))))))))))))))))))))))))))))))))))))))))))))))))))))))))))))))))))))))

(** val hi_entry : n -> n -> n **)

let hi_entry i j =
  let jj = N.modulo j (Npos (XO (XO (XO (XO XH))))) in
  if (||) (N.eqb i N0) (N.eqb jj N0)
  then N0
  else or0 (const_mul i (N.shiftl jj (Npos (XO (XO XH)))))

(** val octet_mul_hi_table : n list list **)

let octet_mul_hi_table =
  map (fun i ->
    map (fun j -> hi_entry i j)
      (rangeN (S (S (S (S (S (S (S (S (S (S (S (S (S (S (S (S (S (S (S (S (S
        (S (S (S (S (S (S (S (S (S (S (S O))))))))))))))))))))))))))))))))))
    (rangeN (S (S (S (S (S (S (S (S (S (S (S (S (S (S (S (S (S (S (S (S (S (S
      (S (S (S (S (S (S (S (S (S (S (S (S (S (S (S (S (S (S (S (S (S (S (S (S
      (S (S (S (S (S (S (S (S (S (S (S (S (S (S (S (S (S (S (S (S (S (S (S (S
      (S (S (S (S (S (S (S (S (S (S (S (S (S (S (S (S (S (S (S (S (S (S (S (S
      (S (S (S (S (S (S (S (S (S (S (S (S (S (S (S (S (S (S (S (S (S (S (S (S
      (S (S (S (S (S (S (S (S (S (S (S (S (S (S (S (S (S (S (S (S (S (S (S (S
      (S (S (S (S (S (S (S (S (S (S (S (S (S (S (S (S (S (S (S (S (S (S (S (S
      (S (S (S (S (S (S (S (S (S (S (S (S (S (S (S (S (S (S (S (S (S (S (S (S
      (S (S (S (S (S (S (S (S (S (S (S (S (S (S (S (S (S (S (S (S (S (S (S (S
      (S (S (S (S (S (S (S (S (S (S (S (S (S (S (S (S (S (S (S (S (S (S (S (S
      (S (S (S (S (S (S (S (S (S (S (S (S (S (S (S (S (S (S
      O)))))))))))))))))))))))))))))))))))))))))))))))))))))))))))))))))))))))))))))))))))))))))))))))))))))))))))))))))))))))))))))))))))))))))))))))))))))))))))))))))))))))))))))))))))))))))))))))))))))))))))))))))))))))))))))))))))))))))))))))))))))))))))))))))

(** val tbl2 : n list list -> n -> n -> n outcome **)

let tbl2 t i j =
  obind (nth_ok t (N.to_nat i)) (fun r -> nth_ok r (N.to_nat j))

(** val pcode : pclass -> n **)

let pcode = function
| PAssert -> Npos XH
| PIndex -> Npos (XO XH)
| POverflow -> Npos (XI XH)
| PUnreachable -> Npos (XO (XO XH))
| PUnimpl -> Npos (XI (XO XH))
| PFuel -> Npos (XO (XI XH))
| PDivZero -> Npos (XI (XI XH))
| PUnwrap -> Npos (XO (XO (XO XH)))

(** val enc1 : n outcome -> n list **)

let enc1 = function
| Ok v -> (Npos XH) :: (v :: [])
| Panic c -> N0 :: ((pcode c) :: [])

(** val arg : n list -> nat -> n **)

let arg l i =
  nth i l N0

(** val run_octet : n -> n list -> n list **)

let run_octet f a =
  match f with
  | N0 -> N0 :: ((Npos (XI (XI (XO (XO (XO (XI XH))))))) :: [])
  | Npos p ->
    (match p with
     | XI p0 ->
       (match p0 with
        | XI p1 ->
          (match p1 with
           | XI _ -> N0 :: ((Npos (XI (XI (XO (XO (XO (XI XH))))))) :: [])
           | XO p2 ->
             (match p2 with
              | XO p3 ->
                (match p3 with
                 | XI p4 ->
                   (match p4 with
                    | XH ->
                      (Npos XH) :: ((pmul (arg a O) (arg a (S O))) :: [])
                    | _ ->
                      N0 :: ((Npos (XI (XI (XO (XO (XO (XI XH))))))) :: []))
                 | _ -> N0 :: ((Npos (XI (XI (XO (XO (XO (XI XH))))))) :: []))
              | _ -> N0 :: ((Npos (XI (XI (XO (XO (XO (XI XH))))))) :: []))
           | XH -> enc1 (tbl2 octet_mul_low_table (arg a O) (arg a (S O))))
        | XO p1 ->
          (match p1 with
           | XH -> enc1 (oct_alpha (arg a O))
           | _ -> N0 :: ((Npos (XI (XI (XO (XO (XO (XI XH))))))) :: []))
        | XH -> enc1 (oct_div (arg a O) (arg a (S O))))
     | XO p0 ->
       (match p0 with
        | XI p1 ->
          (match p1 with
           | XI _ -> N0 :: ((Npos (XI (XI (XO (XO (XO (XI XH))))))) :: [])
           | XO p2 ->
             (match p2 with
              | XO p3 ->
                (match p3 with
                 | XI p4 ->
                   (match p4 with
                    | XH ->
                      (Npos XH) :: ((padd (arg a O) (arg a (S O))) :: [])
                    | _ ->
                      N0 :: ((Npos (XI (XI (XO (XO (XO (XI XH))))))) :: []))
                 | _ -> N0 :: ((Npos (XI (XI (XO (XO (XO (XI XH))))))) :: []))
              | _ -> N0 :: ((Npos (XI (XI (XO (XO (XO (XI XH))))))) :: []))
           | XH -> enc1 (tbl2 octet_mul_table (arg a O) (arg a (S O))))
        | XO p1 ->
          (match p1 with
           | XI p2 ->
             (match p2 with
              | XO p3 ->
                (match p3 with
                 | XI p4 ->
                   (match p4 with
                    | XH -> (Npos XH) :: ((ppow2 (N.to_nat (arg a O))) :: [])
                    | _ ->
                      N0 :: ((Npos (XI (XI (XO (XO (XO (XI XH))))))) :: []))
                 | _ -> N0 :: ((Npos (XI (XI (XO (XO (XO (XI XH))))))) :: []))
              | _ -> N0 :: ((Npos (XI (XI (XO (XO (XO (XI XH))))))) :: []))
           | XO p2 ->
             (match p2 with
              | XH -> enc1 (tbl2 octet_mul_hi_table (arg a O) (arg a (S O)))
              | _ -> N0 :: ((Npos (XI (XI (XO (XO (XO (XI XH))))))) :: []))
           | XH -> enc1 (oct_fma (arg a O) (arg a (S O)) (arg a (S (S O)))))
        | XH -> enc1 (oct_mul (arg a O) (arg a (S O))))
     | XH -> (Npos XH) :: ((oct_add (arg a O) (arg a (S O))) :: []))

(** val run : n -> n list -> n list **)

let run f a =
  if N.ltb f (Npos (XO (XO (XI (XO (XO (XI XH)))))))
  then run_octet f a
  else N0 :: ((Npos (XI (XI (XO (XO (XO (XI XH))))))) :: [])
