
(** val negb : bool -> bool **)

let negb = function
| true -> false
| false -> true

type nat =
| O
| S of nat

(** val fst : ('a1 * 'a2) -> 'a1 **)

let fst = function
| (x, _) -> x

(** val snd : ('a1 * 'a2) -> 'a2 **)

let snd = function
| (_, y) -> y

(** val length : 'a1 list -> nat **)

let rec length = function
| [] -> O
| _ :: l' -> S (length l')

(** val app : 'a1 list -> 'a1 list -> 'a1 list **)

let rec app l m =
  match l with
  | [] -> m
  | a :: l1 -> a :: (app l1 m)

type comparison =
| Eq
| Lt
| Gt

module Coq__1 = struct
 (** val add : nat -> nat -> nat **)
 let rec add n0 m =
   match n0 with
   | O -> m
   | S p -> S (add p m)
end
include Coq__1

(** val leb : nat -> nat -> bool **)

let rec leb n0 m =
  match n0 with
  | O -> true
  | S n' -> (match m with
             | O -> false
             | S m' -> leb n' m')

type positive =
| XI of positive
| XO of positive
| XH

type n =
| N0
| Npos of positive

module Nat =
 struct
  (** val eqb : nat -> nat -> bool **)

  let rec eqb n0 m =
    match n0 with
    | O -> (match m with
            | O -> true
            | S _ -> false)
    | S n' -> (match m with
               | O -> false
               | S m' -> eqb n' m')

  (** val leb : nat -> nat -> bool **)

  let rec leb n0 m =
    match n0 with
    | O -> true
    | S n' -> (match m with
               | O -> false
               | S m' -> leb n' m')
 end

module Pos =
 struct
  type mask =
  | IsNul
  | IsPos of positive
  | IsNeg
 end

module Coq_Pos =
 struct
  (** val succ : positive -> positive **)

  let rec succ = function
  | XI p -> XO (succ p)
  | XO p -> XI p
  | XH -> XO XH

  (** val add : positive -> positive -> positive **)

  let rec add x y =
    match x with
    | XI p ->
      (match y with
       | XI q -> XO (add_carry p q)
       | XO q -> XI (add p q)
       | XH -> XO (succ p))
    | XO p ->
      (match y with
       | XI q -> XI (add p q)
       | XO q -> XO (add p q)
       | XH -> XI p)
    | XH -> (match y with
             | XI q -> XO (succ q)
             | XO q -> XI q
             | XH -> XO XH)

  (** val add_carry : positive -> positive -> positive **)

  and add_carry x y =
    match x with
    | XI p ->
      (match y with
       | XI q -> XI (add_carry p q)
       | XO q -> XO (add_carry p q)
       | XH -> XI (succ p))
    | XO p ->
      (match y with
       | XI q -> XO (add_carry p q)
       | XO q -> XI (add p q)
       | XH -> XO (succ p))
    | XH ->
      (match y with
       | XI q -> XI (succ q)
       | XO q -> XO (succ q)
       | XH -> XI XH)

  (** val pred_double : positive -> positive **)

  let rec pred_double = function
  | XI p -> XI (XO p)
  | XO p -> XI (pred_double p)
  | XH -> XH

  (** val pred_N : positive -> n **)

  let pred_N = function
  | XI p -> Npos (XO p)
  | XO p -> Npos (pred_double p)
  | XH -> N0

  type mask = Pos.mask =
  | IsNul
  | IsPos of positive
  | IsNeg

  (** val succ_double_mask : mask -> mask **)

  let succ_double_mask = function
  | IsNul -> IsPos XH
  | IsPos p -> IsPos (XI p)
  | IsNeg -> IsNeg

  (** val double_mask : mask -> mask **)

  let double_mask = function
  | IsPos p -> IsPos (XO p)
  | x0 -> x0

  (** val double_pred_mask : positive -> mask **)

  let double_pred_mask = function
  | XI p -> IsPos (XO (XO p))
  | XO p -> IsPos (XO (pred_double p))
  | XH -> IsNul

  (** val sub_mask : positive -> positive -> mask **)

  let rec sub_mask x y =
    match x with
    | XI p ->
      (match y with
       | XI q -> double_mask (sub_mask p q)
       | XO q -> succ_double_mask (sub_mask p q)
       | XH -> IsPos (XO p))
    | XO p ->
      (match y with
       | XI q -> succ_double_mask (sub_mask_carry p q)
       | XO q -> double_mask (sub_mask p q)
       | XH -> IsPos (pred_double p))
    | XH -> (match y with
             | XH -> IsNul
             | _ -> IsNeg)

  (** val sub_mask_carry : positive -> positive -> mask **)

  and sub_mask_carry x y =
    match x with
    | XI p ->
      (match y with
       | XI q -> succ_double_mask (sub_mask_carry p q)
       | XO q -> double_mask (sub_mask p q)
       | XH -> IsPos (pred_double p))
    | XO p ->
      (match y with
       | XI q -> double_mask (sub_mask_carry p q)
       | XO q -> succ_double_mask (sub_mask_carry p q)
       | XH -> double_pred_mask p)
    | XH -> IsNeg

  (** val mul : positive -> positive -> positive **)

  let rec mul x y =
    match x with
    | XI p -> add y (XO (mul p y))
    | XO p -> XO (mul p y)
    | XH -> y

  (** val iter : ('a1 -> 'a1) -> 'a1 -> positive -> 'a1 **)

  let rec iter f x = function
  | XI n' -> f (iter f (iter f x n') n')
  | XO n' -> iter f (iter f x n') n'
  | XH -> f x

  (** val pow : positive -> positive -> positive **)

  let pow x =
    iter (mul x) XH

  (** val compare_cont : comparison -> positive -> positive -> comparison **)

  let rec compare_cont r x y =
    match x with
    | XI p ->
      (match y with
       | XI q -> compare_cont r p q
       | XO q -> compare_cont Gt p q
       | XH -> Gt)
    | XO p ->
      (match y with
       | XI q -> compare_cont Lt p q
       | XO q -> compare_cont r p q
       | XH -> Gt)
    | XH -> (match y with
             | XH -> r
             | _ -> Lt)

  (** val compare : positive -> positive -> comparison **)

  let compare =
    compare_cont Eq

  (** val eqb : positive -> positive -> bool **)

  let rec eqb p q =
    match p with
    | XI p0 -> (match q with
                | XI q0 -> eqb p0 q0
                | _ -> false)
    | XO p0 -> (match q with
                | XO q0 -> eqb p0 q0
                | _ -> false)
    | XH -> (match q with
             | XH -> true
             | _ -> false)

  (** val coq_Nsucc_double : n -> n **)

  let coq_Nsucc_double = function
  | N0 -> Npos XH
  | Npos p -> Npos (XI p)

  (** val coq_Ndouble : n -> n **)

  let coq_Ndouble = function
  | N0 -> N0
  | Npos p -> Npos (XO p)

  (** val coq_land : positive -> positive -> n **)

  let rec coq_land p q =
    match p with
    | XI p0 ->
      (match q with
       | XI q0 -> coq_Nsucc_double (coq_land p0 q0)
       | XO q0 -> coq_Ndouble (coq_land p0 q0)
       | XH -> Npos XH)
    | XO p0 ->
      (match q with
       | XI q0 -> coq_Ndouble (coq_land p0 q0)
       | XO q0 -> coq_Ndouble (coq_land p0 q0)
       | XH -> N0)
    | XH -> (match q with
             | XO _ -> N0
             | _ -> Npos XH)

  (** val coq_lxor : positive -> positive -> n **)

  let rec coq_lxor p q =
    match p with
    | XI p0 ->
      (match q with
       | XI q0 -> coq_Ndouble (coq_lxor p0 q0)
       | XO q0 -> coq_Nsucc_double (coq_lxor p0 q0)
       | XH -> Npos (XO p0))
    | XO p0 ->
      (match q with
       | XI q0 -> coq_Nsucc_double (coq_lxor p0 q0)
       | XO q0 -> coq_Ndouble (coq_lxor p0 q0)
       | XH -> Npos (XI p0))
    | XH ->
      (match q with
       | XI q0 -> Npos (XO q0)
       | XO q0 -> Npos (XI q0)
       | XH -> N0)

  (** val shiftl : positive -> n -> positive **)

  let shiftl p = function
  | N0 -> p
  | Npos n1 -> iter (fun x -> XO x) p n1

  (** val testbit : positive -> n -> bool **)

  let rec testbit p n0 =
    match p with
    | XI p0 -> (match n0 with
                | N0 -> true
                | Npos n1 -> testbit p0 (pred_N n1))
    | XO p0 -> (match n0 with
                | N0 -> false
                | Npos n1 -> testbit p0 (pred_N n1))
    | XH -> (match n0 with
             | N0 -> true
             | Npos _ -> false)

  (** val iter_op : ('a1 -> 'a1 -> 'a1) -> positive -> 'a1 -> 'a1 **)

  let rec iter_op op p a =
    match p with
    | XI p0 -> op a (iter_op op p0 (op a a))
    | XO p0 -> iter_op op p0 (op a a)
    | XH -> a

  (** val to_nat : positive -> nat **)

  let to_nat x =
    iter_op Coq__1.add x (S O)

  (** val of_succ_nat : nat -> positive **)

  let rec of_succ_nat = function
  | O -> XH
  | S x -> succ (of_succ_nat x)
 end

module N =
 struct
  (** val succ_double : n -> n **)

  let succ_double = function
  | N0 -> Npos XH
  | Npos p -> Npos (XI p)

  (** val double : n -> n **)

  let double = function
  | N0 -> N0
  | Npos p -> Npos (XO p)

  (** val add : n -> n -> n **)

  let add n0 m =
    match n0 with
    | N0 -> m
    | Npos p -> (match m with
                 | N0 -> n0
                 | Npos q -> Npos (Coq_Pos.add p q))

  (** val sub : n -> n -> n **)

  let sub n0 m =
    match n0 with
    | N0 -> N0
    | Npos n' ->
      (match m with
       | N0 -> n0
       | Npos m' ->
         (match Coq_Pos.sub_mask n' m' with
          | Coq_Pos.IsPos p -> Npos p
          | _ -> N0))

  (** val mul : n -> n -> n **)

  let mul n0 m =
    match n0 with
    | N0 -> N0
    | Npos p -> (match m with
                 | N0 -> N0
                 | Npos q -> Npos (Coq_Pos.mul p q))

  (** val compare : n -> n -> comparison **)

  let compare n0 m =
    match n0 with
    | N0 -> (match m with
             | N0 -> Eq
             | Npos _ -> Lt)
    | Npos n' -> (match m with
                  | N0 -> Gt
                  | Npos m' -> Coq_Pos.compare n' m')

  (** val eqb : n -> n -> bool **)

  let eqb n0 m =
    match n0 with
    | N0 -> (match m with
             | N0 -> true
             | Npos _ -> false)
    | Npos p -> (match m with
                 | N0 -> false
                 | Npos q -> Coq_Pos.eqb p q)

  (** val leb : n -> n -> bool **)

  let leb x y =
    match compare x y with
    | Gt -> false
    | _ -> true

  (** val ltb : n -> n -> bool **)

  let ltb x y =
    match compare x y with
    | Lt -> true
    | _ -> false

  (** val div2 : n -> n **)

  let div2 = function
  | N0 -> N0
  | Npos p0 -> (match p0 with
                | XI p -> Npos p
                | XO p -> Npos p
                | XH -> N0)

  (** val pow : n -> n -> n **)

  let pow n0 = function
  | N0 -> Npos XH
  | Npos p0 -> (match n0 with
                | N0 -> N0
                | Npos q -> Npos (Coq_Pos.pow q p0))

  (** val pos_div_eucl : positive -> n -> n * n **)

  let rec pos_div_eucl a b =
    match a with
    | XI a' ->
      let (q, r) = pos_div_eucl a' b in
      let r' = succ_double r in
      if leb b r' then ((succ_double q), (sub r' b)) else ((double q), r')
    | XO a' ->
      let (q, r) = pos_div_eucl a' b in
      let r' = double r in
      if leb b r' then ((succ_double q), (sub r' b)) else ((double q), r')
    | XH ->
      (match b with
       | N0 -> (N0, (Npos XH))
       | Npos p -> (match p with
                    | XH -> ((Npos XH), N0)
                    | _ -> (N0, (Npos XH))))

  (** val div_eucl : n -> n -> n * n **)

  let div_eucl a b =
    match a with
    | N0 -> (N0, N0)
    | Npos na -> (match b with
                  | N0 -> (N0, a)
                  | Npos _ -> pos_div_eucl na b)

  (** val div : n -> n -> n **)

  let div a b =
    fst (div_eucl a b)

  (** val modulo : n -> n -> n **)

  let modulo a b =
    snd (div_eucl a b)

  (** val coq_land : n -> n -> n **)

  let coq_land n0 m =
    match n0 with
    | N0 -> N0
    | Npos p -> (match m with
                 | N0 -> N0
                 | Npos q -> Coq_Pos.coq_land p q)

  (** val coq_lxor : n -> n -> n **)

  let coq_lxor n0 m =
    match n0 with
    | N0 -> m
    | Npos p -> (match m with
                 | N0 -> n0
                 | Npos q -> Coq_Pos.coq_lxor p q)

  (** val shiftl : n -> n -> n **)

  let shiftl a n0 =
    match a with
    | N0 -> N0
    | Npos a0 -> Npos (Coq_Pos.shiftl a0 n0)

  (** val shiftr : n -> n -> n **)

  let shiftr a = function
  | N0 -> a
  | Npos p -> Coq_Pos.iter div2 a p

  (** val testbit : n -> n -> bool **)

  let testbit a n0 =
    match a with
    | N0 -> false
    | Npos p -> Coq_Pos.testbit p n0

  (** val to_nat : n -> nat **)

  let to_nat = function
  | N0 -> O
  | Npos p -> Coq_Pos.to_nat p

  (** val of_nat : nat -> n **)

  let of_nat = function
  | O -> N0
  | S n' -> Npos (Coq_Pos.of_succ_nat n')
 end

(** val nth : nat -> 'a1 list -> 'a1 -> 'a1 **)

let rec nth n0 l default =
  match n0 with
  | O -> (match l with
          | [] -> default
          | x :: _ -> x)
  | S m -> (match l with
            | [] -> default
            | _ :: t -> nth m t default)

(** val nth_error : 'a1 list -> nat -> 'a1 option **)

let rec nth_error l = function
| O -> (match l with
        | [] -> None
        | x :: _ -> Some x)
| S n1 -> (match l with
           | [] -> None
           | _ :: l0 -> nth_error l0 n1)

(** val concat : 'a1 list list -> 'a1 list **)

let rec concat = function
| [] -> []
| x :: l0 -> app x (concat l0)

(** val map : ('a1 -> 'a2) -> 'a1 list -> 'a2 list **)

let rec map f = function
| [] -> []
| a :: t -> (f a) :: (map f t)

(** val fold_right : ('a2 -> 'a1 -> 'a1) -> 'a1 -> 'a2 list -> 'a1 **)

let rec fold_right f a0 = function
| [] -> a0
| b :: t -> f b (fold_right f a0 t)

(** val filter : ('a1 -> bool) -> 'a1 list -> 'a1 list **)

let rec filter f = function
| [] -> []
| x :: l0 -> if f x then x :: (filter f l0) else filter f l0

(** val firstn : nat -> 'a1 list -> 'a1 list **)

let rec firstn n0 l =
  match n0 with
  | O -> []
  | S n1 -> (match l with
             | [] -> []
             | a :: l0 -> a :: (firstn n1 l0))

(** val skipn : nat -> 'a1 list -> 'a1 list **)

let rec skipn n0 l =
  match n0 with
  | O -> l
  | S n1 -> (match l with
             | [] -> []
             | _ :: l0 -> skipn n1 l0)

(** val seq : nat -> nat -> nat list **)

let rec seq start = function
| O -> []
| S len0 -> start :: (seq (S start) len0)

type pclass =
| PAssert
| PIndex
| POverflow
| PUnreachable
| PUnimpl
| PFuel
| PDivZero
| PUnwrap

type 'a outcome =
| Ok of 'a
| Panic of pclass

(** val obind : 'a1 outcome -> ('a1 -> 'a2 outcome) -> 'a2 outcome **)

let obind x f =
  match x with
  | Ok a -> f a
  | Panic c -> Panic c

(** val omap : ('a1 -> 'a2) -> 'a1 outcome -> 'a2 outcome **)

let omap f = function
| Ok a -> Ok (f a)
| Panic c -> Panic c

(** val assert_ok : bool -> unit outcome **)

let assert_ok = function
| true -> Ok ()
| false -> Panic PAssert

(** val nth_ok : 'a1 list -> nat -> 'a1 outcome **)

let nth_ok l i =
  match nth_error l i with
  | Some a -> Ok a
  | None -> Panic PIndex

type mode =
| Release
| Checked

(** val wrap : n -> n -> n **)

let wrap w x =
  N.modulo x (N.pow (Npos (XO XH)) w)

(** val u8 : n -> n **)

let u8 =
  wrap (Npos (XO (XO (XO XH))))

(** val u32 : n -> n **)

let u32 =
  wrap (Npos (XO (XO (XO (XO (XO XH))))))

(** val rem_ok : n -> n -> n outcome **)

let rem_ok a b =
  if N.eqb b N0 then Panic PDivZero else Ok (N.modulo a b)

(** val rangeN : nat -> n list **)

let rangeN n0 =
  map N.of_nat (seq O n0)

(** val xsum : n list -> n **)

let rec xsum = function
| [] -> N0
| x :: t -> N.coq_lxor x (xsum t)

(** val mAX_SOURCE_SYMBOLS_PER_BLOCK : n **)

let mAX_SOURCE_SYMBOLS_PER_BLOCK =
  Npos (XI (XI (XO (XO (XI (XO (XI (XO (XO (XO (XI (XI (XI (XO (XI
    XH)))))))))))))))

(** val pLAN_CACHE_CAPACITY : n **)

let pLAN_CACHE_CAPACITY =
  Npos (XO (XO (XO (XO (XO (XO XH))))))

(** val mAX_TRANSFER_LENGTH : n **)

let mAX_TRANSFER_LENGTH =
  Npos (XI (XI (XO (XO (XI (XO (XI (XO (XI (XO (XO (XI (XO (XO (XO (XI (XI
    (XO (XO (XO (XI (XO (XI (XI (XI (XO (XI (XO (XI (XI (XI (XO (XI (XI (XO
    (XI (XI (XO (XI XH)))))))))))))))))))))))))))))))))))))))

(** val eSI_LIMIT : n **)

let eSI_LIMIT =
  Npos (XO (XO (XO (XO (XO (XO (XO (XO (XO (XO (XO (XO (XO (XO (XO (XO (XO
    (XO (XO (XO (XO (XO (XO (XO XH))))))))))))))))))))))))

(** val pOLY : n **)

let pOLY =
  Npos (XI (XO (XI (XI (XI (XO (XO (XO XH))))))))

(** val padd : n -> n -> n **)

let padd =
  N.coq_lxor

(** val xtime : n -> n **)

let xtime a =
  let s = N.mul (Npos (XO XH)) a in
  if N.leb (Npos (XO (XO (XO (XO (XO (XO (XO (XO XH))))))))) s
  then N.coq_lxor s pOLY
  else s

(** val xtimes : n -> nat -> n **)

let rec xtimes a = function
| O -> a
| S j -> xtime (xtimes a j)

(** val sel : bool -> n -> n **)

let sel b m =
  if b then m else N0

(** val pmul : n -> n -> n **)

let pmul a b =
  xsum
    (map (fun i -> sel (N.testbit b (N.of_nat i)) (xtimes a i))
      (seq O (S (S (S (S (S (S (S (S O))))))))))

(** val ppow2 : nat -> n **)

let rec ppow2 = function
| O -> Npos XH
| S j -> xtime (ppow2 j)

(** val be : nat -> n -> n list **)

let rec be w x =
  match w with
  | O -> []
  | S w' ->
    (N.modulo
      (N.div x
        (N.pow (Npos (XO (XO (XO (XO (XO (XO (XO (XO XH)))))))))
          (N.of_nat w'))) (Npos (XO (XO (XO (XO (XO (XO (XO (XO XH)))))))))) :: 
      (be w' x)

(** val payload_id_wire : n -> n -> n list **)

let payload_id_wire sbn esi =
  sbn :: (be (S (S (S O))) esi)

(** val oti_wire : n -> n -> n -> n -> n -> n list **)

let oti_wire f t z nsub al =
  app (be (S (S (S (S (S O))))) f)
    (app (N0 :: [])
      (app (be (S (S O)) t)
        (app (z :: []) (app (be (S (S O)) nsub) (al :: [])))))

(** val cdiv : n -> n -> n **)

let cdiv a b =
  N.div (N.sub (N.add a b) (Npos XH)) b

(** val oti_validb : n -> n -> n -> n -> bool **)

let oti_validb f t z al =
  (&&)
    ((&&)
      (N.leb f (Npos (XI (XI (XO (XO (XI (XO (XI (XO (XI (XO (XO (XI (XO (XO
        (XO (XI (XI (XO (XO (XO (XI (XO (XI (XI (XI (XO (XI (XO (XI (XI (XI
        (XO (XI (XI (XO (XI (XI (XO (XI
        XH)))))))))))))))))))))))))))))))))))))))))
      (N.eqb (N.modulo t al) N0))
    (N.leb (cdiv (cdiv f t) z) (Npos (XI (XI (XO (XO (XI (XO (XI (XO (XO (XO
      (XI (XI (XI (XO (XI XH)))))))))))))))))

(** val oCT_EXP : n list **)

let oCT_EXP =
  (Npos XH) :: ((Npos (XO XH)) :: ((Npos (XO (XO XH))) :: ((Npos (XO (XO (XO
    XH)))) :: ((Npos (XO (XO (XO (XO XH))))) :: ((Npos (XO (XO (XO (XO (XO
    XH)))))) :: ((Npos (XO (XO (XO (XO (XO (XO XH))))))) :: ((Npos (XO (XO
    (XO (XO (XO (XO (XO XH)))))))) :: ((Npos (XI (XO (XI (XI
    XH))))) :: ((Npos (XO (XI (XO (XI (XI XH)))))) :: ((Npos (XO (XO (XI (XO
    (XI (XI XH))))))) :: ((Npos (XO (XO (XO (XI (XO (XI (XI
    XH)))))))) :: ((Npos (XI (XO (XI (XI (XO (XO (XI XH)))))))) :: ((Npos (XI
    (XI (XI (XO (XO (XO (XO XH)))))))) :: ((Npos (XI (XI (XO (XO
    XH))))) :: ((Npos (XO (XI (XI (XO (XO XH)))))) :: ((Npos (XO (XO (XI (XI
    (XO (XO XH))))))) :: ((Npos (XO (XO (XO (XI (XI (XO (XO
    XH)))))))) :: ((Npos (XI (XO (XI (XI (XO XH)))))) :: ((Npos (XO (XI (XO
    (XI (XI (XO XH))))))) :: ((Npos (XO (XO (XI (XO (XI (XI (XO
    XH)))))))) :: ((Npos (XI (XO (XI (XO (XI (XI XH))))))) :: ((Npos (XO (XI
    (XO (XI (XO (XI (XI XH)))))))) :: ((Npos (XI (XO (XO (XI (XO (XO (XI
    XH)))))))) :: ((Npos (XI (XI (XI (XI (XO (XO (XO XH)))))))) :: ((Npos (XI
    XH)) :: ((Npos (XO (XI XH))) :: ((Npos (XO (XO (XI XH)))) :: ((Npos (XO
    (XO (XO (XI XH))))) :: ((Npos (XO (XO (XO (XO (XI XH)))))) :: ((Npos (XO
    (XO (XO (XO (XO (XI XH))))))) :: ((Npos (XO (XO (XO (XO (XO (XO (XI
    XH)))))))) :: ((Npos (XI (XO (XI (XI (XI (XO (XO XH)))))))) :: ((Npos (XI
    (XI (XI (XO (XO XH)))))) :: ((Npos (XO (XI (XI (XI (XO (XO
    XH))))))) :: ((Npos (XO (XO (XI (XI (XI (XO (XO XH)))))))) :: ((Npos (XI
    (XO (XI (XO (XO XH)))))) :: ((Npos (XO (XI (XO (XI (XO (XO
    XH))))))) :: ((Npos (XO (XO (XI (XO (XI (XO (XO XH)))))))) :: ((Npos (XI
    (XO (XI (XO (XI XH)))))) :: ((Npos (XO (XI (XO (XI (XO (XI
    XH))))))) :: ((Npos (XO (XO (XI (XO (XI (XO (XI XH)))))))) :: ((Npos (XI
    (XO (XI (XO (XI (XI (XO XH)))))))) :: ((Npos (XI (XI (XI (XO (XI (XI
    XH))))))) :: ((Npos (XO (XI (XI (XI (XO (XI (XI XH)))))))) :: ((Npos (XI
    (XO (XO (XO (XO (XO (XI XH)))))))) :: ((Npos (XI (XI (XI (XI (XI (XO (XO
    XH)))))))) :: ((Npos (XI (XI (XO (XO (XO XH)))))) :: ((Npos (XO (XI (XI
    (XO (XO (XO XH))))))) :: ((Npos (XO (XO (XI (XI (XO (XO (XO
    XH)))))))) :: ((Npos (XI (XO XH))) :: ((Npos (XO (XI (XO XH)))) :: ((Npos
    (XO (XO (XI (XO XH))))) :: ((Npos (XO (XO (XO (XI (XO XH)))))) :: ((Npos
    (XO (XO (XO (XO (XI (XO XH))))))) :: ((Npos (XO (XO (XO (XO (XO (XI (XO
    XH)))))))) :: ((Npos (XI (XO (XI (XI (XI (XO XH))))))) :: ((Npos (XO (XI
    (XO (XI (XI (XI (XO XH)))))))) :: ((Npos (XI (XO (XO (XI (XO (XI
    XH))))))) :: ((Npos (XO (XI (XO (XO (XI (XO (XI XH)))))))) :: ((Npos (XI
    (XO (XO (XI (XI (XI (XO XH)))))))) :: ((Npos (XI (XI (XI (XI (XO (XI
    XH))))))) :: ((Npos (XO (XI (XI (XI (XI (XO (XI XH)))))))) :: ((Npos (XI
    (XO (XO (XO (XO (XI (XO XH)))))))) :: ((Npos (XI (XI (XI (XI (XI (XO
    XH))))))) :: ((Npos (XO (XI (XI (XI (XI (XI (XO XH)))))))) :: ((Npos (XI
    (XO (XO (XO (XO (XI XH))))))) :: ((Npos (XO (XI (XO (XO (XO (XO (XI
    XH)))))))) :: ((Npos (XI (XO (XO (XI (XI (XO (XO XH)))))))) :: ((Npos (XI
    (XI (XI (XI (XO XH)))))) :: ((Npos (XO (XI (XI (XI (XI (XO
    XH))))))) :: ((Npos (XO (XO (XI (XI (XI (XI (XO XH)))))))) :: ((Npos (XI
    (XO (XI (XO (XO (XI XH))))))) :: ((Npos (XO (XI (XO (XI (XO (XO (XI
    XH)))))))) :: ((Npos (XI (XO (XO (XI (XO (XO (XO XH)))))))) :: ((Npos (XI
    (XI (XI XH)))) :: ((Npos (XO (XI (XI (XI XH))))) :: ((Npos (XO (XO (XI
    (XI (XI XH)))))) :: ((Npos (XO (XO (XO (XI (XI (XI XH))))))) :: ((Npos
    (XO (XO (XO (XO (XI (XI (XI XH)))))))) :: ((Npos (XI (XO (XI (XI (XI (XI
    (XI XH)))))))) :: ((Npos (XI (XI (XI (XO (XO (XI (XI XH)))))))) :: ((Npos
    (XI (XI (XO (XO (XI (XO (XI XH)))))))) :: ((Npos (XI (XI (XO (XI (XI (XI
    (XO XH)))))))) :: ((Npos (XI (XI (XO (XI (XO (XI XH))))))) :: ((Npos (XO
    (XI (XI (XO (XI (XO (XI XH)))))))) :: ((Npos (XI (XO (XO (XO (XI (XI (XO
    XH)))))))) :: ((Npos (XI (XI (XI (XI (XI (XI XH))))))) :: ((Npos (XO (XI
    (XI (XI (XI (XI (XI XH)))))))) :: ((Npos (XI (XO (XO (XO (XO (XI (XI
    XH)))))))) :: ((Npos (XI (XI (XI (XI (XI (XO (XI XH)))))))) :: ((Npos (XI
    (XI (XO (XO (XO (XI (XO XH)))))))) :: ((Npos (XI (XI (XO (XI (XI (XO
    XH))))))) :: ((Npos (XO (XI (XI (XO (XI (XI (XO XH)))))))) :: ((Npos (XI
    (XO (XO (XO (XI (XI XH))))))) :: ((Npos (XO (XI (XO (XO (XO (XI (XI
    XH)))))))) :: ((Npos (XI (XO (XO (XI (XI (XO (XI XH)))))))) :: ((Npos (XI
    (XI (XI (XI (XO (XI (XO XH)))))))) :: ((Npos (XI (XI (XO (XO (XO (XO
    XH))))))) :: ((Npos (XO (XI (XI (XO (XO (XO (XO XH)))))))) :: ((Npos (XI
    (XO (XO (XO XH))))) :: ((Npos (XO (XI (XO (XO (XO XH)))))) :: ((Npos (XO
    (XO (XI (XO (XO (XO XH))))))) :: ((Npos (XO (XO (XO (XI (XO (XO (XO
    XH)))))))) :: ((Npos (XI (XO (XI XH)))) :: ((Npos (XO (XI (XO (XI
    XH))))) :: ((Npos (XO (XO (XI (XO (XI XH)))))) :: ((Npos (XO (XO (XO (XI
    (XO (XI XH))))))) :: ((Npos (XO (XO (XO (XO (XI (XO (XI
    XH)))))))) :: ((Npos (XI (XO (XI (XI (XI (XI (XO XH)))))))) :: ((Npos (XI
    (XI (XI (XO (XO (XI XH))))))) :: ((Npos (XO (XI (XI (XI (XO (XO (XI
    XH)))))))) :: ((Npos (XI (XO (XO (XO (XO (XO (XO XH)))))))) :: ((Npos (XI
    (XI (XI (XI XH))))) :: ((Npos (XO (XI (XI (XI (XI XH)))))) :: ((Npos (XO
    (XO (XI (XI (XI (XI XH))))))) :: ((Npos (XO (XO (XO (XI (XI (XI (XI
    XH)))))))) :: ((Npos (XI (XO (XI (XI (XO (XI (XI XH)))))))) :: ((Npos (XI
    (XI (XI (XO (XO (XO (XI XH)))))))) :: ((Npos (XI (XI (XO (XO (XI (XO (XO
    XH)))))))) :: ((Npos (XI (XI (XO (XI (XI XH)))))) :: ((Npos (XO (XI (XI
    (XO (XI (XI XH))))))) :: ((Npos (XO (XO (XI (XI (XO (XI (XI
    XH)))))))) :: ((Npos (XI (XO (XI (XO (XO (XO (XI XH)))))))) :: ((Npos (XI
    (XI (XI (XO (XI (XO (XO XH)))))))) :: ((Npos (XI (XI (XO (XO (XI
    XH)))))) :: ((Npos (XO (XI (XI (XO (XO (XI XH))))))) :: ((Npos (XO (XO
    (XI (XI (XO (XO (XI XH)))))))) :: ((Npos (XI (XO (XI (XO (XO (XO (XO
    XH)))))))) :: ((Npos (XI (XI (XI (XO XH))))) :: ((Npos (XO (XI (XI (XI
    (XO XH)))))) :: ((Npos (XO (XO (XI (XI (XI (XO XH))))))) :: ((Npos (XO
    (XO (XO (XI (XI (XI (XO XH)))))))) :: ((Npos (XI (XO (XI (XI (XO (XI
    XH))))))) :: ((Npos (XO (XI (XO (XI (XI (XO (XI XH)))))))) :: ((Npos (XI
    (XO (XO (XI (XO (XI (XO XH)))))))) :: ((Npos (XI (XI (XI (XI (XO (XO
    XH))))))) :: ((Npos (XO (XI (XI (XI (XI (XO (XO XH)))))))) :: ((Npos (XI
    (XO (XO (XO (XO XH)))))) :: ((Npos (XO (XI (XO (XO (XO (XO
    XH))))))) :: ((Npos (XO (XO (XI (XO (XO (XO (XO XH)))))))) :: ((Npos (XI
    (XO (XI (XO XH))))) :: ((Npos (XO (XI (XO (XI (XO XH)))))) :: ((Npos (XO
    (XO (XI (XO (XI (XO XH))))))) :: ((Npos (XO (XO (XO (XI (XO (XI (XO
    XH)))))))) :: ((Npos (XI (XO (XI (XI (XO (XO XH))))))) :: ((Npos (XO (XI
    (XO (XI (XI (XO (XO XH)))))))) :: ((Npos (XI (XO (XO (XI (XO
    XH)))))) :: ((Npos (XO (XI (XO (XO (XI (XO XH))))))) :: ((Npos (XO (XO
    (XI (XO (XO (XI (XO XH)))))))) :: ((Npos (XI (XO (XI (XO (XI (XO
    XH))))))) :: ((Npos (XO (XI (XO (XI (XO (XI (XO XH)))))))) :: ((Npos (XI
    (XO (XO (XI (XO (XO XH))))))) :: ((Npos (XO (XI (XO (XO (XI (XO (XO
    XH)))))))) :: ((Npos (XI (XO (XO (XI (XI XH)))))) :: ((Npos (XO (XI (XO
    (XO (XI (XI XH))))))) :: ((Npos (XO (XO (XI (XO (XO (XI (XI
    XH)))))))) :: ((Npos (XI (XO (XI (XO (XI (XO (XI XH)))))))) :: ((Npos (XI
    (XI (XI (XO (XI (XI (XO XH)))))))) :: ((Npos (XI (XI (XO (XO (XI (XI
    XH))))))) :: ((Npos (XO (XI (XI (XO (XO (XI (XI XH)))))))) :: ((Npos (XI
    (XO (XO (XO (XI (XO (XI XH)))))))) :: ((Npos (XI (XI (XI (XI (XI (XI (XO
    XH)))))))) :: ((Npos (XI (XI (XO (XO (XO (XI XH))))))) :: ((Npos (XO (XI
    (XI (XO (XO (XO (XI XH)))))))) :: ((Npos (XI (XO (XO (XO (XI (XO (XO
    XH)))))))) :: ((Npos (XI (XI (XI (XI (XI XH)))))) :: ((Npos (XO (XI (XI
    (XI (XI (XI XH))))))) :: ((Npos (XO (XO (XI (XI (XI (XI (XI
    XH)))))))) :: ((Npos (XI (XO (XI (XO (XO (XI (XI XH)))))))) :: ((Npos (XI
    (XI (XI (XO (XI (XO (XI XH)))))))) :: ((Npos (XI (XI (XO (XO (XI (XI (XO
    XH)))))))) :: ((Npos (XI (XI (XO (XI (XI (XI XH))))))) :: ((Npos (XO (XI
    (XI (XO (XI (XI (XI XH)))))))) :: ((Npos (XI (XO (XO (XO (XI (XI (XI
    XH)))))))) :: ((Npos (XI (XI (XI (XI (XI (XI (XI XH)))))))) :: ((Npos (XI
    (XI (XO (XO (XO (XI (XI XH)))))))) :: ((Npos (XI (XI (XO (XI (XI (XO (XI
    XH)))))))) :: ((Npos (XI (XI (XO (XI (XO (XI (XO XH)))))))) :: ((Npos (XI
    (XI (XO (XI (XO (XO XH))))))) :: ((Npos (XO (XI (XI (XO (XI (XO (XO
    XH)))))))) :: ((Npos (XI (XO (XO (XO (XI XH)))))) :: ((Npos (XO (XI (XO
    (XO (XO (XI XH))))))) :: ((Npos (XO (XO (XI (XO (XO (XO (XI
    XH)))))))) :: ((Npos (XI (XO (XI (XO (XI (XO (XO XH)))))))) :: ((Npos (XI
    (XI (XI (XO (XI XH)))))) :: ((Npos (XO (XI (XI (XI (XO (XI
    XH))))))) :: ((Npos (XO (XO (XI (XI (XI (XO (XI XH)))))))) :: ((Npos (XI
    (XO (XI (XO (XO (XI (XO XH)))))))) :: ((Npos (XI (XI (XI (XO (XI (XO
    XH))))))) :: ((Npos (XO (XI (XI (XI (XO (XI (XO XH)))))))) :: ((Npos (XI
    (XO (XO (XO (XO (XO XH))))))) :: ((Npos (XO (XI (XO (XO (XO (XO (XO
    XH)))))))) :: ((Npos (XI (XO (XO (XI XH))))) :: ((Npos (XO (XI (XO (XO
    (XI XH)))))) :: ((Npos (XO (XO (XI (XO (XO (XI XH))))))) :: ((Npos (XO
    (XO (XO (XI (XO (XO (XI XH)))))))) :: ((Npos (XI (XO (XI (XI (XO (XO (XO
    XH)))))))) :: ((Npos (XI (XI XH))) :: ((Npos (XO (XI (XI XH)))) :: ((Npos
    (XO (XO (XI (XI XH))))) :: ((Npos (XO (XO (XO (XI (XI XH)))))) :: ((Npos
    (XO (XO (XO (XO (XI (XI XH))))))) :: ((Npos (XO (XO (XO (XO (XO (XI (XI
    XH)))))))) :: ((Npos (XI (XO (XI (XI (XI (XO (XI XH)))))))) :: ((Npos (XI
    (XI (XI (XO (XO (XI (XO XH)))))))) :: ((Npos (XI (XI (XO (XO (XI (XO
    XH))))))) :: ((Npos (XO (XI (XI (XO (XO (XI (XO XH)))))))) :: ((Npos (XI
    (XO (XO (XO (XI (XO XH))))))) :: ((Npos (XO (XI (XO (XO (XO (XI (XO
    XH)))))))) :: ((Npos (XI (XO (XO (XI (XI (XO XH))))))) :: ((Npos (XO (XI
    (XO (XO (XI (XI (XO XH)))))))) :: ((Npos (XI (XO (XO (XI (XI (XI
    XH))))))) :: ((Npos (XO (XI (XO (XO (XI (XI (XI XH)))))))) :: ((Npos (XI
    (XO (XO (XI (XI (XI (XI XH)))))))) :: ((Npos (XI (XI (XI (XI (XO (XI (XI
    XH)))))))) :: ((Npos (XI (XI (XO (XO (XO (XO (XI XH)))))))) :: ((Npos (XI
    (XI (XO (XI (XI (XO (XO XH)))))))) :: ((Npos (XI (XI (XO (XI (XO
    XH)))))) :: ((Npos (XO (XI (XI (XO (XI (XO XH))))))) :: ((Npos (XO (XO
    (XI (XI (XO (XI (XO XH)))))))) :: ((Npos (XI (XO (XI (XO (XO (XO
    XH))))))) :: ((Npos (XO (XI (XO (XI (XO (XO (XO XH)))))))) :: ((Npos (XI
    (XO (XO XH)))) :: ((Npos (XO (XI (XO (XO XH))))) :: ((Npos (XO (XO (XI
    (XO (XO XH)))))) :: ((Npos (XO (XO (XO (XI (XO (XO XH))))))) :: ((Npos
    (XO (XO (XO (XO (XI (XO (XO XH)))))))) :: ((Npos (XI (XO (XI (XI (XI
    XH)))))) :: ((Npos (XO (XI (XO (XI (XI (XI XH))))))) :: ((Npos (XO (XO
    (XI (XO (XI (XI (XI XH)))))))) :: ((Npos (XI (XO (XI (XO (XI (XI (XI
    XH)))))))) :: ((Npos (XI (XI (XI (XO (XI (XI (XI XH)))))))) :: ((Npos (XI
    (XI (XO (XO (XI (XI (XI XH)))))))) :: ((Npos (XI (XI (XO (XI (XI (XI (XI
    XH)))))))) :: ((Npos (XI (XI (XO (XI (XO (XI (XI XH)))))))) :: ((Npos (XI
    (XI (XO (XI (XO (XO (XI XH)))))))) :: ((Npos (XI (XI (XO (XI (XO (XO (XO
    XH)))))))) :: ((Npos (XI (XI (XO XH)))) :: ((Npos (XO (XI (XI (XO
    XH))))) :: ((Npos (XO (XO (XI (XI (XO XH)))))) :: ((Npos (XO (XO (XO (XI
    (XI (XO XH))))))) :: ((Npos (XO (XO (XO (XO (XI (XI (XO
    XH)))))))) :: ((Npos (XI (XO (XI (XI (XI (XI XH))))))) :: ((Npos (XO (XI
    (XO (XI (XI (XI (XI XH)))))))) :: ((Npos (XI (XO (XO (XI (XO (XI (XI
    XH)))))))) :: ((Npos (XI (XI (XI (XI (XO (XO (XI XH)))))))) :: ((Npos (XI
    (XI (XO (XO (XO (XO (XO XH)))))))) :: ((Npos (XI (XI (XO (XI
    XH))))) :: ((Npos (XO (XI (XI (XO (XI XH)))))) :: ((Npos (XO (XO (XI (XI
    (XO (XI XH))))))) :: ((Npos (XO (XO (XO (XI (XI (XO (XI
    XH)))))))) :: ((Npos (XI (XO (XI (XI (XO (XI (XO XH)))))))) :: ((Npos (XI
    (XI (XI (XO (XO (XO XH))))))) :: ((Npos (XO (XI (XI (XI (XO (XO (XO
    XH)))))))) :: ((Npos XH) :: ((Npos (XO XH)) :: ((Npos (XO (XO
    XH))) :: ((Npos (XO (XO (XO XH)))) :: ((Npos (XO (XO (XO (XO
    XH))))) :: ((Npos (XO (XO (XO (XO (XO XH)))))) :: ((Npos (XO (XO (XO (XO
    (XO (XO XH))))))) :: ((Npos (XO (XO (XO (XO (XO (XO (XO
    XH)))))))) :: ((Npos (XI (XO (XI (XI XH))))) :: ((Npos (XO (XI (XO (XI
    (XI XH)))))) :: ((Npos (XO (XO (XI (XO (XI (XI XH))))))) :: ((Npos (XO
    (XO (XO (XI (XO (XI (XI XH)))))))) :: ((Npos (XI (XO (XI (XI (XO (XO (XI
    XH)))))))) :: ((Npos (XI (XI (XI (XO (XO (XO (XO XH)))))))) :: ((Npos (XI
    (XI (XO (XO XH))))) :: ((Npos (XO (XI (XI (XO (XO XH)))))) :: ((Npos (XO
    (XO (XI (XI (XO (XO XH))))))) :: ((Npos (XO (XO (XO (XI (XI (XO (XO
    XH)))))))) :: ((Npos (XI (XO (XI (XI (XO XH)))))) :: ((Npos (XO (XI (XO
    (XI (XI (XO XH))))))) :: ((Npos (XO (XO (XI (XO (XI (XI (XO
    XH)))))))) :: ((Npos (XI (XO (XI (XO (XI (XI XH))))))) :: ((Npos (XO (XI
    (XO (XI (XO (XI (XI XH)))))))) :: ((Npos (XI (XO (XO (XI (XO (XO (XI
    XH)))))))) :: ((Npos (XI (XI (XI (XI (XO (XO (XO XH)))))))) :: ((Npos (XI
    XH)) :: ((Npos (XO (XI XH))) :: ((Npos (XO (XO (XI XH)))) :: ((Npos (XO
    (XO (XO (XI XH))))) :: ((Npos (XO (XO (XO (XO (XI XH)))))) :: ((Npos (XO
    (XO (XO (XO (XO (XI XH))))))) :: ((Npos (XO (XO (XO (XO (XO (XO (XI
    XH)))))))) :: ((Npos (XI (XO (XI (XI (XI (XO (XO XH)))))))) :: ((Npos (XI
    (XI (XI (XO (XO XH)))))) :: ((Npos (XO (XI (XI (XI (XO (XO
    XH))))))) :: ((Npos (XO (XO (XI (XI (XI (XO (XO XH)))))))) :: ((Npos (XI
    (XO (XI (XO (XO XH)))))) :: ((Npos (XO (XI (XO (XI (XO (XO
    XH))))))) :: ((Npos (XO (XO (XI (XO (XI (XO (XO XH)))))))) :: ((Npos (XI
    (XO (XI (XO (XI XH)))))) :: ((Npos (XO (XI (XO (XI (XO (XI
    XH))))))) :: ((Npos (XO (XO (XI (XO (XI (XO (XI XH)))))))) :: ((Npos (XI
    (XO (XI (XO (XI (XI (XO XH)))))))) :: ((Npos (XI (XI (XI (XO (XI (XI
    XH))))))) :: ((Npos (XO (XI (XI (XI (XO (XI (XI XH)))))))) :: ((Npos (XI
    (XO (XO (XO (XO (XO (XI XH)))))))) :: ((Npos (XI (XI (XI (XI (XI (XO (XO
    XH)))))))) :: ((Npos (XI (XI (XO (XO (XO XH)))))) :: ((Npos (XO (XI (XI
    (XO (XO (XO XH))))))) :: ((Npos (XO (XO (XI (XI (XO (XO (XO
    XH)))))))) :: ((Npos (XI (XO XH))) :: ((Npos (XO (XI (XO XH)))) :: ((Npos
    (XO (XO (XI (XO XH))))) :: ((Npos (XO (XO (XO (XI (XO XH)))))) :: ((Npos
    (XO (XO (XO (XO (XI (XO XH))))))) :: ((Npos (XO (XO (XO (XO (XO (XI (XO
    XH)))))))) :: ((Npos (XI (XO (XI (XI (XI (XO XH))))))) :: ((Npos (XO (XI
    (XO (XI (XI (XI (XO XH)))))))) :: ((Npos (XI (XO (XO (XI (XO (XI
    XH))))))) :: ((Npos (XO (XI (XO (XO (XI (XO (XI XH)))))))) :: ((Npos (XI
    (XO (XO (XI (XI (XI (XO XH)))))))) :: ((Npos (XI (XI (XI (XI (XO (XI
    XH))))))) :: ((Npos (XO (XI (XI (XI (XI (XO (XI XH)))))))) :: ((Npos (XI
    (XO (XO (XO (XO (XI (XO XH)))))))) :: ((Npos (XI (XI (XI (XI (XI (XO
    XH))))))) :: ((Npos (XO (XI (XI (XI (XI (XI (XO XH)))))))) :: ((Npos (XI
    (XO (XO (XO (XO (XI XH))))))) :: ((Npos (XO (XI (XO (XO (XO (XO (XI
    XH)))))))) :: ((Npos (XI (XO (XO (XI (XI (XO (XO XH)))))))) :: ((Npos (XI
    (XI (XI (XI (XO XH)))))) :: ((Npos (XO (XI (XI (XI (XI (XO
    XH))))))) :: ((Npos (XO (XO (XI (XI (XI (XI (XO XH)))))))) :: ((Npos (XI
    (XO (XI (XO (XO (XI XH))))))) :: ((Npos (XO (XI (XO (XI (XO (XO (XI
    XH)))))))) :: ((Npos (XI (XO (XO (XI (XO (XO (XO XH)))))))) :: ((Npos (XI
    (XI (XI XH)))) :: ((Npos (XO (XI (XI (XI XH))))) :: ((Npos (XO (XO (XI
    (XI (XI XH)))))) :: ((Npos (XO (XO (XO (XI (XI (XI XH))))))) :: ((Npos
    (XO (XO (XO (XO (XI (XI (XI XH)))))))) :: ((Npos (XI (XO (XI (XI (XI (XI
    (XI XH)))))))) :: ((Npos (XI (XI (XI (XO (XO (XI (XI XH)))))))) :: ((Npos
    (XI (XI (XO (XO (XI (XO (XI XH)))))))) :: ((Npos (XI (XI (XO (XI (XI (XI
    (XO XH)))))))) :: ((Npos (XI (XI (XO (XI (XO (XI XH))))))) :: ((Npos (XO
    (XI (XI (XO (XI (XO (XI XH)))))))) :: ((Npos (XI (XO (XO (XO (XI (XI (XO
    XH)))))))) :: ((Npos (XI (XI (XI (XI (XI (XI XH))))))) :: ((Npos (XO (XI
    (XI (XI (XI (XI (XI XH)))))))) :: ((Npos (XI (XO (XO (XO (XO (XI (XI
    XH)))))))) :: ((Npos (XI (XI (XI (XI (XI (XO (XI XH)))))))) :: ((Npos (XI
    (XI (XO (XO (XO (XI (XO XH)))))))) :: ((Npos (XI (XI (XO (XI (XI (XO
    XH))))))) :: ((Npos (XO (XI (XI (XO (XI (XI (XO XH)))))))) :: ((Npos (XI
    (XO (XO (XO (XI (XI XH))))))) :: ((Npos (XO (XI (XO (XO (XO (XI (XI
    XH)))))))) :: ((Npos (XI (XO (XO (XI (XI (XO (XI XH)))))))) :: ((Npos (XI
    (XI (XI (XI (XO (XI (XO XH)))))))) :: ((Npos (XI (XI (XO (XO (XO (XO
    XH))))))) :: ((Npos (XO (XI (XI (XO (XO (XO (XO XH)))))))) :: ((Npos (XI
    (XO (XO (XO XH))))) :: ((Npos (XO (XI (XO (XO (XO XH)))))) :: ((Npos (XO
    (XO (XI (XO (XO (XO XH))))))) :: ((Npos (XO (XO (XO (XI (XO (XO (XO
    XH)))))))) :: ((Npos (XI (XO (XI XH)))) :: ((Npos (XO (XI (XO (XI
    XH))))) :: ((Npos (XO (XO (XI (XO (XI XH)))))) :: ((Npos (XO (XO (XO (XI
    (XO (XI XH))))))) :: ((Npos (XO (XO (XO (XO (XI (XO (XI
    XH)))))))) :: ((Npos (XI (XO (XI (XI (XI (XI (XO XH)))))))) :: ((Npos (XI
    (XI (XI (XO (XO (XI XH))))))) :: ((Npos (XO (XI (XI (XI (XO (XO (XI
    XH)))))))) :: ((Npos (XI (XO (XO (XO (XO (XO (XO XH)))))))) :: ((Npos (XI
    (XI (XI (XI XH))))) :: ((Npos (XO (XI (XI (XI (XI XH)))))) :: ((Npos (XO
    (XO (XI (XI (XI (XI XH))))))) :: ((Npos (XO (XO (XO (XI (XI (XI (XI
    XH)))))))) :: ((Npos (XI (XO (XI (XI (XO (XI (XI XH)))))))) :: ((Npos (XI
    (XI (XI (XO (XO (XO (XI XH)))))))) :: ((Npos (XI (XI (XO (XO (XI (XO (XO
    XH)))))))) :: ((Npos (XI (XI (XO (XI (XI XH)))))) :: ((Npos (XO (XI (XI
    (XO (XI (XI XH))))))) :: ((Npos (XO (XO (XI (XI (XO (XI (XI
    XH)))))))) :: ((Npos (XI (XO (XI (XO (XO (XO (XI XH)))))))) :: ((Npos (XI
    (XI (XI (XO (XI (XO (XO XH)))))))) :: ((Npos (XI (XI (XO (XO (XI
    XH)))))) :: ((Npos (XO (XI (XI (XO (XO (XI XH))))))) :: ((Npos (XO (XO
    (XI (XI (XO (XO (XI XH)))))))) :: ((Npos (XI (XO (XI (XO (XO (XO (XO
    XH)))))))) :: ((Npos (XI (XI (XI (XO XH))))) :: ((Npos (XO (XI (XI (XI
    (XO XH)))))) :: ((Npos (XO (XO (XI (XI (XI (XO XH))))))) :: ((Npos (XO
    (XO (XO (XI (XI (XI (XO XH)))))))) :: ((Npos (XI (XO (XI (XI (XO (XI
    XH))))))) :: ((Npos (XO (XI (XO (XI (XI (XO (XI XH)))))))) :: ((Npos (XI
    (XO (XO (XI (XO (XI (XO XH)))))))) :: ((Npos (XI (XI (XI (XI (XO (XO
    XH))))))) :: ((Npos (XO (XI (XI (XI (XI (XO (XO XH)))))))) :: ((Npos (XI
    (XO (XO (XO (XO XH)))))) :: ((Npos (XO (XI (XO (XO (XO (XO
    XH))))))) :: ((Npos (XO (XO (XI (XO (XO (XO (XO XH)))))))) :: ((Npos (XI
    (XO (XI (XO XH))))) :: ((Npos (XO (XI (XO (XI (XO XH)))))) :: ((Npos (XO
    (XO (XI (XO (XI (XO XH))))))) :: ((Npos (XO (XO (XO (XI (XO (XI (XO
    XH)))))))) :: ((Npos (XI (XO (XI (XI (XO (XO XH))))))) :: ((Npos (XO (XI
    (XO (XI (XI (XO (XO XH)))))))) :: ((Npos (XI (XO (XO (XI (XO
    XH)))))) :: ((Npos (XO (XI (XO (XO (XI (XO XH))))))) :: ((Npos (XO (XO
    (XI (XO (XO (XI (XO XH)))))))) :: ((Npos (XI (XO (XI (XO (XI (XO
    XH))))))) :: ((Npos (XO (XI (XO (XI (XO (XI (XO XH)))))))) :: ((Npos (XI
    (XO (XO (XI (XO (XO XH))))))) :: ((Npos (XO (XI (XO (XO (XI (XO (XO
    XH)))))))) :: ((Npos (XI (XO (XO (XI (XI XH)))))) :: ((Npos (XO (XI (XO
    (XO (XI (XI XH))))))) :: ((Npos (XO (XO (XI (XO (XO (XI (XI
    XH)))))))) :: ((Npos (XI (XO (XI (XO (XI (XO (XI XH)))))))) :: ((Npos (XI
    (XI (XI (XO (XI (XI (XO XH)))))))) :: ((Npos (XI (XI (XO (XO (XI (XI
    XH))))))) :: ((Npos (XO (XI (XI (XO (XO (XI (XI XH)))))))) :: ((Npos (XI
    (XO (XO (XO (XI (XO (XI XH)))))))) :: ((Npos (XI (XI (XI (XI (XI (XI (XO
    XH)))))))) :: ((Npos (XI (XI (XO (XO (XO (XI XH))))))) :: ((Npos (XO (XI
    (XI (XO (XO (XO (XI XH)))))))) :: ((Npos (XI (XO (XO (XO (XI (XO (XO
    XH)))))))) :: ((Npos (XI (XI (XI (XI (XI XH)))))) :: ((Npos (XO (XI (XI
    (XI (XI (XI XH))))))) :: ((Npos (XO (XO (XI (XI (XI (XI (XI
    XH)))))))) :: ((Npos (XI (XO (XI (XO (XO (XI (XI XH)))))))) :: ((Npos (XI
    (XI (XI (XO (XI (XO (XI XH)))))))) :: ((Npos (XI (XI (XO (XO (XI (XI (XO
    XH)))))))) :: ((Npos (XI (XI (XO (XI (XI (XI XH))))))) :: ((Npos (XO (XI
    (XI (XO (XI (XI (XI XH)))))))) :: ((Npos (XI (XO (XO (XO (XI (XI (XI
    XH)))))))) :: ((Npos (XI (XI (XI (XI (XI (XI (XI XH)))))))) :: ((Npos (XI
    (XI (XO (XO (XO (XI (XI XH)))))))) :: ((Npos (XI (XI (XO (XI (XI (XO (XI
    XH)))))))) :: ((Npos (XI (XI (XO (XI (XO (XI (XO XH)))))))) :: ((Npos (XI
    (XI (XO (XI (XO (XO XH))))))) :: ((Npos (XO (XI (XI (XO (XI (XO (XO
    XH)))))))) :: ((Npos (XI (XO (XO (XO (XI XH)))))) :: ((Npos (XO (XI (XO
    (XO (XO (XI XH))))))) :: ((Npos (XO (XO (XI (XO (XO (XO (XI
    XH)))))))) :: ((Npos (XI (XO (XI (XO (XI (XO (XO XH)))))))) :: ((Npos (XI
    (XI (XI (XO (XI XH)))))) :: ((Npos (XO (XI (XI (XI (XO (XI
    XH))))))) :: ((Npos (XO (XO (XI (XI (XI (XO (XI XH)))))))) :: ((Npos (XI
    (XO (XI (XO (XO (XI (XO XH)))))))) :: ((Npos (XI (XI (XI (XO (XI (XO
    XH))))))) :: ((Npos (XO (XI (XI (XI (XO (XI (XO XH)))))))) :: ((Npos (XI
    (XO (XO (XO (XO (XO XH))))))) :: ((Npos (XO (XI (XO (XO (XO (XO (XO
    XH)))))))) :: ((Npos (XI (XO (XO (XI XH))))) :: ((Npos (XO (XI (XO (XO
    (XI XH)))))) :: ((Npos (XO (XO (XI (XO (XO (XI XH))))))) :: ((Npos (XO
    (XO (XO (XI (XO (XO (XI XH)))))))) :: ((Npos (XI (XO (XI (XI (XO (XO (XO
    XH)))))))) :: ((Npos (XI (XI XH))) :: ((Npos (XO (XI (XI XH)))) :: ((Npos
    (XO (XO (XI (XI XH))))) :: ((Npos (XO (XO (XO (XI (XI XH)))))) :: ((Npos
    (XO (XO (XO (XO (XI (XI XH))))))) :: ((Npos (XO (XO (XO (XO (XO (XI (XI
    XH)))))))) :: ((Npos (XI (XO (XI (XI (XI (XO (XI XH)))))))) :: ((Npos (XI
    (XI (XI (XO (XO (XI (XO XH)))))))) :: ((Npos (XI (XI (XO (XO (XI (XO
    XH))))))) :: ((Npos (XO (XI (XI (XO (XO (XI (XO XH)))))))) :: ((Npos (XI
    (XO (XO (XO (XI (XO XH))))))) :: ((Npos (XO (XI (XO (XO (XO (XI (XO
    XH)))))))) :: ((Npos (XI (XO (XO (XI (XI (XO XH))))))) :: ((Npos (XO (XI
    (XO (XO (XI (XI (XO XH)))))))) :: ((Npos (XI (XO (XO (XI (XI (XI
    XH))))))) :: ((Npos (XO (XI (XO (XO (XI (XI (XI XH)))))))) :: ((Npos (XI
    (XO (XO (XI (XI (XI (XI XH)))))))) :: ((Npos (XI (XI (XI (XI (XO (XI (XI
    XH)))))))) :: ((Npos (XI (XI (XO (XO (XO (XO (XI XH)))))))) :: ((Npos (XI
    (XI (XO (XI (XI (XO (XO XH)))))))) :: ((Npos (XI (XI (XO (XI (XO
    XH)))))) :: ((Npos (XO (XI (XI (XO (XI (XO XH))))))) :: ((Npos (XO (XO
    (XI (XI (XO (XI (XO XH)))))))) :: ((Npos (XI (XO (XI (XO (XO (XO
    XH))))))) :: ((Npos (XO (XI (XO (XI (XO (XO (XO XH)))))))) :: ((Npos (XI
    (XO (XO XH)))) :: ((Npos (XO (XI (XO (XO XH))))) :: ((Npos (XO (XO (XI
    (XO (XO XH)))))) :: ((Npos (XO (XO (XO (XI (XO (XO XH))))))) :: ((Npos
    (XO (XO (XO (XO (XI (XO (XO XH)))))))) :: ((Npos (XI (XO (XI (XI (XI
    XH)))))) :: ((Npos (XO (XI (XO (XI (XI (XI XH))))))) :: ((Npos (XO (XO
    (XI (XO (XI (XI (XI XH)))))))) :: ((Npos (XI (XO (XI (XO (XI (XI (XI
    XH)))))))) :: ((Npos (XI (XI (XI (XO (XI (XI (XI XH)))))))) :: ((Npos (XI
    (XI (XO (XO (XI (XI (XI XH)))))))) :: ((Npos (XI (XI (XO (XI (XI (XI (XI
    XH)))))))) :: ((Npos (XI (XI (XO (XI (XO (XI (XI XH)))))))) :: ((Npos (XI
    (XI (XO (XI (XO (XO (XI XH)))))))) :: ((Npos (XI (XI (XO (XI (XO (XO (XO
    XH)))))))) :: ((Npos (XI (XI (XO XH)))) :: ((Npos (XO (XI (XI (XO
    XH))))) :: ((Npos (XO (XO (XI (XI (XO XH)))))) :: ((Npos (XO (XO (XO (XI
    (XI (XO XH))))))) :: ((Npos (XO (XO (XO (XO (XI (XI (XO
    XH)))))))) :: ((Npos (XI (XO (XI (XI (XI (XI XH))))))) :: ((Npos (XO (XI
    (XO (XI (XI (XI (XI XH)))))))) :: ((Npos (XI (XO (XO (XI (XO (XI (XI
    XH)))))))) :: ((Npos (XI (XI (XI (XI (XO (XO (XI XH)))))))) :: ((Npos (XI
    (XI (XO (XO (XO (XO (XO XH)))))))) :: ((Npos (XI (XI (XO (XI
    XH))))) :: ((Npos (XO (XI (XI (XO (XI XH)))))) :: ((Npos (XO (XO (XI (XI
    (XO (XI XH))))))) :: ((Npos (XO (XO (XO (XI (XI (XO (XI
    XH)))))))) :: ((Npos (XI (XO (XI (XI (XO (XI (XO XH)))))))) :: ((Npos (XI
    (XI (XI (XO (XO (XO XH))))))) :: ((Npos (XO (XI (XI (XI (XO (XO (XO
    XH)))))))) :: [])))))))))))))))))))))))))))))))))))))))))))))))))))))))))))))))))))))))))))))))))))))))))))))))))))))))))))))))))))))))))))))))))))))))))))))))))))))))))))))))))))))))))))))))))))))))))))))))))))))))))))))))))))))))))))))))))))))))))))))))))))))))))))))))))))))))))))))))))))))))))))))))))))))))))))))))))))))))))))))))))))))))))))))))))))))))))))))))))))))))))))))))))))))))))))))))))))))))))))))))))))))))))))))))))))))))))))))))))))))))))))))))))))))))))))))))))))))))))))))))))))))))))))))))))))))))))))))

(** val oCT_LOG : n list **)

let oCT_LOG =
  N0 :: (N0 :: ((Npos XH) :: ((Npos (XI (XO (XO (XI XH))))) :: ((Npos (XO
    XH)) :: ((Npos (XO (XI (XO (XO (XI XH)))))) :: ((Npos (XO (XI (XO (XI
    XH))))) :: ((Npos (XO (XI (XI (XO (XO (XO (XI XH)))))))) :: ((Npos (XI
    XH)) :: ((Npos (XI (XI (XI (XI (XI (XO (XI XH)))))))) :: ((Npos (XI (XI
    (XO (XO (XI XH)))))) :: ((Npos (XO (XI (XI (XI (XO (XI (XI
    XH)))))))) :: ((Npos (XI (XI (XO (XI XH))))) :: ((Npos (XO (XO (XO (XI
    (XO (XI XH))))))) :: ((Npos (XI (XI (XI (XO (XO (XO (XI
    XH)))))))) :: ((Npos (XI (XI (XO (XI (XO (XO XH))))))) :: ((Npos (XO (XO
    XH))) :: ((Npos (XO (XO (XI (XO (XO (XI XH))))))) :: ((Npos (XO (XO (XO
    (XO (XO (XI (XI XH)))))))) :: ((Npos (XO (XI (XI XH)))) :: ((Npos (XO (XO
    (XI (XO (XI XH)))))) :: ((Npos (XI (XO (XI (XI (XO (XO (XO
    XH)))))))) :: ((Npos (XI (XI (XI (XI (XO (XI (XI XH)))))))) :: ((Npos (XI
    (XO (XO (XO (XO (XO (XO XH)))))))) :: ((Npos (XO (XO (XI (XI
    XH))))) :: ((Npos (XI (XO (XO (XO (XO (XO (XI XH)))))))) :: ((Npos (XI
    (XO (XO (XI (XO (XI XH))))))) :: ((Npos (XO (XO (XO (XI (XI (XI (XI
    XH)))))))) :: ((Npos (XO (XO (XO (XI (XO (XO (XI XH)))))))) :: ((Npos (XO
    (XO (XO XH)))) :: ((Npos (XO (XO (XI (XI (XO (XO XH))))))) :: ((Npos (XI
    (XO (XO (XO (XI (XI XH))))))) :: ((Npos (XI (XO XH))) :: ((Npos (XO (XI
    (XO (XI (XO (XO (XO XH)))))))) :: ((Npos (XI (XO (XI (XO (XO (XI
    XH))))))) :: ((Npos (XI (XI (XI (XI (XO XH)))))) :: ((Npos (XI (XO (XO
    (XO (XO (XI (XI XH)))))))) :: ((Npos (XO (XO (XI (XO (XO
    XH)))))) :: ((Npos (XI (XI (XI XH)))) :: ((Npos (XI (XO (XO (XO (XO
    XH)))))) :: ((Npos (XI (XO (XI (XO (XI XH)))))) :: ((Npos (XI (XI (XO (XO
    (XI (XO (XO XH)))))))) :: ((Npos (XO (XI (XI (XI (XO (XO (XO
    XH)))))))) :: ((Npos (XO (XI (XO (XI (XI (XO (XI XH)))))))) :: ((Npos (XO
    (XO (XO (XO (XI (XI (XI XH)))))))) :: ((Npos (XO (XI (XO (XO
    XH))))) :: ((Npos (XO (XI (XO (XO (XO (XO (XO XH)))))))) :: ((Npos (XI
    (XO (XI (XO (XO (XO XH))))))) :: ((Npos (XI (XO (XI (XI XH))))) :: ((Npos
    (XI (XO (XI (XO (XI (XI (XO XH)))))))) :: ((Npos (XO (XI (XO (XO (XO (XO
    (XI XH)))))))) :: ((Npos (XI (XO (XI (XI (XI (XI XH))))))) :: ((Npos (XO
    (XI (XO (XI (XO (XI XH))))))) :: ((Npos (XI (XI (XI (XO (XO
    XH)))))) :: ((Npos (XI (XO (XO (XI (XI (XI (XI XH)))))))) :: ((Npos (XI
    (XO (XO (XI (XI (XI (XO XH)))))))) :: ((Npos (XI (XO (XO (XI (XO (XO (XI
    XH)))))))) :: ((Npos (XO (XI (XO (XI (XI (XO (XO XH)))))))) :: ((Npos (XI
    (XO (XO XH)))) :: ((Npos (XO (XO (XO (XI (XI (XI XH))))))) :: ((Npos (XI
    (XO (XI (XI (XO (XO XH))))))) :: ((Npos (XO (XO (XI (XO (XO (XI (XI
    XH)))))))) :: ((Npos (XO (XI (XO (XO (XI (XI XH))))))) :: ((Npos (XO (XI
    (XI (XO (XO (XI (XO XH)))))))) :: ((Npos (XO (XI XH))) :: ((Npos (XI (XI
    (XI (XI (XI (XI (XO XH)))))))) :: ((Npos (XI (XI (XO (XI (XO (XO (XO
    XH)))))))) :: ((Npos (XO (XI (XO (XO (XO (XI XH))))))) :: ((Npos (XO (XI
    (XI (XO (XO (XI XH))))))) :: ((Npos (XI (XO (XI (XI (XI (XO (XI
    XH)))))))) :: ((Npos (XO (XO (XO (XO (XI XH)))))) :: ((Npos (XI (XO (XI
    (XI (XI (XI (XI XH)))))))) :: ((Npos (XO (XI (XO (XO (XO (XI (XI
    XH)))))))) :: ((Npos (XO (XO (XO (XI (XI (XO (XO XH)))))))) :: ((Npos (XI
    (XO (XI (XO (XO XH)))))) :: ((Npos (XI (XI (XO (XO (XI (XI (XO
    XH)))))))) :: ((Npos (XO (XO (XO (XO XH))))) :: ((Npos (XI (XO (XO (XO
    (XI (XO (XO XH)))))))) :: ((Npos (XO (XI (XO (XO (XO XH)))))) :: ((Npos
    (XO (XO (XO (XI (XO (XO (XO XH)))))))) :: ((Npos (XO (XI (XI (XO (XI
    XH)))))) :: ((Npos (XO (XO (XO (XO (XI (XO (XI XH)))))))) :: ((Npos (XO
    (XO (XI (XO (XI (XO (XO XH)))))))) :: ((Npos (XO (XI (XI (XI (XO (XO (XI
    XH)))))))) :: ((Npos (XI (XI (XI (XI (XO (XO (XO XH)))))))) :: ((Npos (XO
    (XI (XI (XO (XI (XO (XO XH)))))))) :: ((Npos (XI (XI (XO (XI (XI (XO (XI
    XH)))))))) :: ((Npos (XI (XO (XI (XI (XI (XI (XO XH)))))))) :: ((Npos (XI
    (XO (XO (XO (XI (XI (XI XH)))))))) :: ((Npos (XO (XI (XO (XO (XI (XO (XI
    XH)))))))) :: ((Npos (XI (XI (XO (XO XH))))) :: ((Npos (XO (XO (XI (XI
    (XI (XO XH))))))) :: ((Npos (XI (XI (XO (XO (XO (XO (XO
    XH)))))))) :: ((Npos (XO (XO (XO (XI (XI XH)))))) :: ((Npos (XO (XI (XI
    (XO (XO (XO XH))))))) :: ((Npos (XO (XO (XO (XO (XO (XO
    XH))))))) :: ((Npos (XO (XI (XI (XI XH))))) :: ((Npos (XO (XI (XO (XO (XO
    (XO XH))))))) :: ((Npos (XO (XI (XI (XO (XI (XI (XO XH)))))))) :: ((Npos
    (XI (XI (XO (XO (XO (XI (XO XH)))))))) :: ((Npos (XI (XI (XO (XO (XO (XO
    (XI XH)))))))) :: ((Npos (XO (XO (XO (XI (XO (XO XH))))))) :: ((Npos (XO
    (XI (XI (XI (XI (XI XH))))))) :: ((Npos (XO (XI (XI (XI (XO (XI
    XH))))))) :: ((Npos (XI (XI (XO (XI (XO (XI XH))))))) :: ((Npos (XO (XI
    (XO (XI (XI XH)))))) :: ((Npos (XO (XO (XO (XI (XO XH)))))) :: ((Npos (XO
    (XO (XI (XO (XI (XO XH))))))) :: ((Npos (XO (XI (XO (XI (XI (XI (XI
    XH)))))))) :: ((Npos (XI (XO (XI (XO (XO (XO (XO XH)))))))) :: ((Npos (XO
    (XI (XO (XI (XI (XI (XO XH)))))))) :: ((Npos (XI (XO (XI (XI (XI
    XH)))))) :: ((Npos (XO (XI (XO (XI (XO (XO (XI XH)))))))) :: ((Npos (XO
    (XI (XI (XI (XI (XO XH))))))) :: ((Npos (XI (XI (XO (XI (XI (XO (XO
    XH)))))))) :: ((Npos (XI (XI (XI (XI (XI (XO (XO XH)))))))) :: ((Npos (XO
    (XI (XO XH)))) :: ((Npos (XI (XO (XI (XO XH))))) :: ((Npos (XI (XO (XO
    (XI (XI (XI XH))))))) :: ((Npos (XI (XI (XO (XI (XO XH)))))) :: ((Npos
    (XO (XI (XI (XI (XO (XO XH))))))) :: ((Npos (XO (XO (XI (XO (XI (XO (XI
    XH)))))))) :: ((Npos (XI (XO (XI (XO (XO (XI (XI XH)))))))) :: ((Npos (XO
    (XO (XI (XI (XO (XI (XO XH)))))))) :: ((Npos (XI (XI (XO (XO (XI (XI
    XH))))))) :: ((Npos (XI (XI (XO (XO (XI (XI (XI XH)))))))) :: ((Npos (XI
    (XI (XI (XO (XO (XI (XO XH)))))))) :: ((Npos (XI (XI (XI (XO (XI (XO
    XH))))))) :: ((Npos (XI (XI XH))) :: ((Npos (XO (XO (XO (XO (XI (XI
    XH))))))) :: ((Npos (XO (XO (XO (XO (XO (XO (XI XH)))))))) :: ((Npos (XI
    (XI (XI (XO (XI (XI (XI XH)))))))) :: ((Npos (XO (XO (XI (XI (XO (XO (XO
    XH)))))))) :: ((Npos (XO (XO (XO (XO (XO (XO (XO XH)))))))) :: ((Npos (XI
    (XI (XO (XO (XO (XI XH))))))) :: ((Npos (XI (XO (XI XH)))) :: ((Npos (XI
    (XI (XI (XO (XO (XI XH))))))) :: ((Npos (XO (XI (XO (XI (XO (XO
    XH))))))) :: ((Npos (XO (XI (XI (XI (XI (XO (XI XH)))))))) :: ((Npos (XI
    (XO (XI (XI (XO (XI (XI XH)))))))) :: ((Npos (XI (XO (XO (XO (XI
    XH)))))) :: ((Npos (XI (XO (XI (XO (XO (XO (XI XH)))))))) :: ((Npos (XO
    (XI (XI (XI (XI (XI (XI XH)))))))) :: ((Npos (XO (XO (XO (XI
    XH))))) :: ((Npos (XI (XI (XO (XO (XO (XI (XI XH)))))))) :: ((Npos (XI
    (XO (XI (XO (XO (XI (XO XH)))))))) :: ((Npos (XI (XO (XO (XI (XI (XO (XO
    XH)))))))) :: ((Npos (XI (XI (XI (XO (XI (XI XH))))))) :: ((Npos (XO (XI
    (XI (XO (XO XH)))))) :: ((Npos (XO (XO (XO (XI (XI (XI (XO
    XH)))))))) :: ((Npos (XO (XO (XI (XO (XI (XI (XO XH)))))))) :: ((Npos (XO
    (XO (XI (XI (XI (XI XH))))))) :: ((Npos (XI (XO (XO (XO XH))))) :: ((Npos
    (XO (XO (XI (XO (XO (XO XH))))))) :: ((Npos (XO (XI (XO (XO (XI (XO (XO
    XH)))))))) :: ((Npos (XI (XO (XO (XI (XI (XO (XI XH)))))))) :: ((Npos (XI
    (XI (XO (XO (XO XH)))))) :: ((Npos (XO (XO (XO (XO (XO XH)))))) :: ((Npos
    (XI (XO (XO (XI (XO (XO (XO XH)))))))) :: ((Npos (XO (XI (XI (XI (XO
    XH)))))) :: ((Npos (XI (XI (XI (XO (XI XH)))))) :: ((Npos (XI (XI (XI (XI
    (XI XH)))))) :: ((Npos (XI (XO (XO (XO (XI (XO (XI XH)))))))) :: ((Npos
    (XI (XI (XO (XI (XI (XO XH))))))) :: ((Npos (XI (XO (XI (XO (XI (XO (XO
    XH)))))))) :: ((Npos (XO (XO (XI (XI (XI (XI (XO XH)))))))) :: ((Npos (XI
    (XI (XI (XI (XO (XO (XI XH)))))))) :: ((Npos (XI (XO (XI (XI (XO (XO (XI
    XH)))))))) :: ((Npos (XO (XO (XO (XO (XI (XO (XO XH)))))))) :: ((Npos (XI
    (XI (XI (XO (XO (XO (XO XH)))))))) :: ((Npos (XI (XI (XI (XO (XI (XO (XO
    XH)))))))) :: ((Npos (XO (XI (XO (XO (XI (XI (XO XH)))))))) :: ((Npos (XO
    (XO (XI (XI (XI (XO (XI XH)))))))) :: ((Npos (XO (XO (XI (XI (XI (XI (XI
    XH)))))))) :: ((Npos (XO (XI (XI (XI (XI (XI (XO XH)))))))) :: ((Npos (XI
    (XO (XO (XO (XO (XI XH))))))) :: ((Npos (XO (XI (XO (XO (XI (XI (XI
    XH)))))))) :: ((Npos (XO (XI (XI (XO (XI (XO XH))))))) :: ((Npos (XI (XI
    (XO (XO (XI (XO (XI XH)))))))) :: ((Npos (XI (XI (XO (XI (XO (XI (XO
    XH)))))))) :: ((Npos (XO (XO (XI (XO XH))))) :: ((Npos (XO (XI (XO (XI
    (XO XH)))))) :: ((Npos (XI (XO (XI (XI (XI (XO XH))))))) :: ((Npos (XO
    (XI (XI (XI (XI (XO (XO XH)))))))) :: ((Npos (XO (XO (XI (XO (XO (XO (XO
    XH)))))))) :: ((Npos (XO (XO (XI (XI (XI XH)))))) :: ((Npos (XI (XO (XO
    (XI (XI XH)))))) :: ((Npos (XI (XI (XO (XO (XI (XO XH))))))) :: ((Npos
    (XI (XI (XI (XO (XO (XO XH))))))) :: ((Npos (XI (XO (XI (XI (XO (XI
    XH))))))) :: ((Npos (XI (XO (XO (XO (XO (XO XH))))))) :: ((Npos (XO (XI
    (XO (XO (XO (XI (XO XH)))))))) :: ((Npos (XI (XI (XI (XI
    XH))))) :: ((Npos (XI (XO (XI (XI (XO XH)))))) :: ((Npos (XI (XI (XO (XO
    (XO (XO XH))))))) :: ((Npos (XO (XO (XO (XI (XI (XO (XI
    XH)))))))) :: ((Npos (XI (XI (XI (XO (XI (XI (XO XH)))))))) :: ((Npos (XI
    (XI (XO (XI (XI (XI XH))))))) :: ((Npos (XO (XO (XI (XO (XO (XI (XO
    XH)))))))) :: ((Npos (XO (XI (XI (XO (XI (XI XH))))))) :: ((Npos (XO (XO
    (XI (XO (XO (XO (XI XH)))))))) :: ((Npos (XI (XI (XI (XO
    XH))))) :: ((Npos (XI (XO (XO (XI (XO (XO XH))))))) :: ((Npos (XO (XO (XI
    (XI (XO (XI (XI XH)))))))) :: ((Npos (XI (XI (XI (XI (XI (XI
    XH))))))) :: ((Npos (XO (XO (XI XH)))) :: ((Npos (XI (XI (XI (XI (XO (XI
    XH))))))) :: ((Npos (XO (XI (XI (XO (XI (XI (XI XH)))))))) :: ((Npos (XO
    (XO (XI (XI (XO (XI XH))))))) :: ((Npos (XI (XO (XO (XO (XO (XI (XO
    XH)))))))) :: ((Npos (XI (XI (XO (XI (XI XH)))))) :: ((Npos (XO (XI (XO
    (XO (XI (XO XH))))))) :: ((Npos (XI (XO (XO (XI (XO XH)))))) :: ((Npos
    (XI (XO (XI (XI (XI (XO (XO XH)))))))) :: ((Npos (XI (XO (XI (XO (XI (XO
    XH))))))) :: ((Npos (XO (XI (XO (XI (XO (XI (XO XH)))))))) :: ((Npos (XI
    (XI (XO (XI (XI (XI (XI XH)))))))) :: ((Npos (XO (XO (XO (XO (XO (XI
    XH))))))) :: ((Npos (XO (XI (XI (XO (XO (XO (XO XH)))))))) :: ((Npos (XI
    (XO (XO (XO (XI (XI (XO XH)))))))) :: ((Npos (XI (XI (XO (XI (XI (XI (XO
    XH)))))))) :: ((Npos (XO (XO (XI (XI (XO (XO (XI XH)))))))) :: ((Npos (XO
    (XI (XI (XI (XI XH)))))) :: ((Npos (XO (XI (XO (XI (XI (XO
    XH))))))) :: ((Npos (XI (XI (XO (XI (XO (XO (XI XH)))))))) :: ((Npos (XI
    (XO (XO (XI (XI (XO XH))))))) :: ((Npos (XI (XI (XI (XI (XI (XO
    XH))))))) :: ((Npos (XO (XO (XO (XO (XI (XI (XO XH)))))))) :: ((Npos (XO
    (XO (XI (XI (XI (XO (XO XH)))))))) :: ((Npos (XI (XO (XO (XI (XO (XI (XO
    XH)))))))) :: ((Npos (XO (XO (XO (XO (XO (XI (XO XH)))))))) :: ((Npos (XI
    (XO (XO (XO (XI (XO XH))))))) :: ((Npos (XI (XI (XO XH)))) :: ((Npos (XI
    (XO (XI (XO (XI (XI (XI XH)))))))) :: ((Npos (XO (XI (XI (XO
    XH))))) :: ((Npos (XI (XI (XO (XI (XO (XI (XI XH)))))))) :: ((Npos (XO
    (XI (XO (XI (XI (XI XH))))))) :: ((Npos (XI (XO (XI (XO (XI (XI
    XH))))))) :: ((Npos (XO (XO (XI (XI (XO XH)))))) :: ((Npos (XI (XI (XI
    (XO (XI (XO (XI XH)))))))) :: ((Npos (XI (XI (XI (XI (XO (XO
    XH))))))) :: ((Npos (XO (XI (XI (XI (XO (XI (XO XH)))))))) :: ((Npos (XI
    (XO (XI (XO (XI (XO (XI XH)))))))) :: ((Npos (XI (XO (XO (XI (XO (XI (XI
    XH)))))))) :: ((Npos (XO (XI (XI (XO (XO (XI (XI XH)))))))) :: ((Npos (XI
    (XI (XI (XO (XO (XI (XI XH)))))))) :: ((Npos (XI (XO (XI (XI (XO (XI (XO
    XH)))))))) :: ((Npos (XO (XO (XO (XI (XO (XI (XI XH)))))))) :: ((Npos (XO
    (XO (XI (XO (XI (XI XH))))))) :: ((Npos (XO (XI (XI (XO (XI (XO (XI
    XH)))))))) :: ((Npos (XO (XO (XI (XO (XI (XI (XI XH)))))))) :: ((Npos (XO
    (XI (XO (XI (XO (XI (XI XH)))))))) :: ((Npos (XO (XO (XO (XI (XO (XI (XO
    XH)))))))) :: ((Npos (XO (XO (XO (XO (XI (XO XH))))))) :: ((Npos (XO (XO
    (XO (XI (XI (XO XH))))))) :: ((Npos (XI (XI (XI (XI (XO (XI (XO
    XH)))))))) :: [])))))))))))))))))))))))))))))))))))))))))))))))))))))))))))))))))))))))))))))))))))))))))))))))))))))))))))))))))))))))))))))))))))))))))))))))))))))))))))))))))))))))))))))))))))))))))))))))))))))))))))))))))))))))))))))))))))))))))))))))))))))))))))))))

(** val exp_at : n -> n outcome **)

let exp_at i =
  nth_ok oCT_EXP (N.to_nat i)

(** val log_at : n -> n outcome **)

let log_at a =
  nth_ok oCT_LOG (N.to_nat a)

(** val oct_add : n -> n -> n **)

let oct_add =
  N.coq_lxor

(** val oct_mul : n -> n -> n outcome **)

let oct_mul a b =
  if (||) (N.eqb a N0) (N.eqb b N0)
  then Ok N0
  else obind (log_at a) (fun la ->
         obind (log_at b) (fun lb -> exp_at (N.add la lb)))

(** val oct_div : n -> n -> n outcome **)

let oct_div a b =
  if N.eqb b N0
  then Panic PAssert
  else if N.eqb a N0
       then Ok N0
       else obind (log_at a) (fun la ->
              obind (log_at b) (fun lb ->
                if N.ltb
                     (N.add (Npos (XI (XI (XI (XI (XI (XI (XI XH)))))))) la)
                     lb
                then Panic POverflow
                else exp_at
                       (N.sub
                         (N.add (Npos (XI (XI (XI (XI (XI (XI (XI XH))))))))
                           la) lb)))

(** val oct_fma : n -> n -> n -> n outcome **)

let oct_fma acc a b =
  if (&&) (negb (N.eqb a N0)) (negb (N.eqb b N0))
  then obind (log_at a) (fun la ->
         obind (log_at b) (fun lb ->
           obind (exp_at (N.add la lb)) (fun e -> Ok (N.coq_lxor acc e))))
  else Ok acc

(** val oct_alpha : n -> n outcome **)

let oct_alpha i =
  if N.ltb i (Npos (XO (XO (XO (XO (XO (XO (XO (XO XH)))))))))
  then exp_at i
  else Panic PAssert

(** val const_mul : n -> n -> n outcome **)

let const_mul x y =
  obind (log_at x) (fun lx ->
    obind (log_at y) (fun ly -> exp_at (N.add lx ly)))

(** val or0 : n outcome -> n **)

let or0 = function
| Ok v -> v
| Panic _ -> N0

(** val octet_mul_table : n list list **)

let octet_mul_table =
  map (fun i ->
    map (fun j ->
      if (||) (N.eqb i N0) (N.eqb j N0) then N0 else or0 (const_mul i j))
      (rangeN (S (S (S (S (S (S (S (S (S (S (S (S (S (S (S (S (S (S (S (S (S
        (S (S (S (S (S (S (S (S (S (S (S (S (S (S (S (S (S (S (S (S (S (S (S
        (S (S (S (S (S (S (S (S (S (S (S (S (S (S (S (S (S (S (S (S (S (S (S
        (S (S (S (S (S (S (S (S (S (S (S (S (S (S (S (S (S (S (S (S (S (S (S
        (S (S (S (S (S (S (S (S (S (S (S (S (S (S (S (S (S (S (S (S (S (S (S
        (S (S (S (S (S (S (S (S (S (S (S (S (S (S (S (S (S (S (S (S (S (S (S
        (S (S (S (S (S (S (S (S (S (S (S (S (S (S (S (S (S (S (S (S (S (S (S
        (S (S (S (S (S (S (S (S (S (S (S (S (S (S (S (S (S (S (S (S (S (S (S
        (S (S (S (S (S (S (S (S (S (S (S (S (S (S (S (S (S (S (S (S (S (S (S
        (S (S (S (S (S (S (S (S (S (S (S (S (S (S (S (S (S (S (S (S (S (S (S
        (S (S (S (S (S (S (S (S (S (S (S (S (S (S (S (S (S (S (S (S (S (S (S
        (S (S (S (S (S
        O))))))))))))))))))))))))))))))))))))))))))))))))))))))))))))))))))))))))))))))))))))))))))))))))))))))))))))))))))))))))))))))))))))))))))))))))))))))))))))))))))))))))))))))))))))))))))))))))))))))))))))))))))))))))))))))))))))))))))))))))))))))))))))))))))
    (rangeN (S (S (S (S (S (S (S (S (S (S (S (S (S (S (S (S (S (S (S (S (S (S
      (S (S (S (S (S (S (S (S (S (S (S (S (S (S (S (S (S (S (S (S (S (S (S (S
      (S (S (S (S (S (S (S (S (S (S (S (S (S (S (S (S (S (S (S (S (S (S (S (S
      (S (S (S (S (S (S (S (S (S (S (S (S (S (S (S (S (S (S (S (S (S (S (S (S
      (S (S (S (S (S (S (S (S (S (S (S (S (S (S (S (S (S (S (S (S (S (S (S (S
      (S (S (S (S (S (S (S (S (S (S (S (S (S (S (S (S (S (S (S (S (S (S (S (S
      (S (S (S (S (S (S (S (S (S (S (S (S (S (S (S (S (S (S (S (S (S (S (S (S
      (S (S (S (S (S (S (S (S (S (S (S (S (S (S (S (S (S (S (S (S (S (S (S (S
      (S (S (S (S (S (S (S (S (S (S (S (S (S (S (S (S (S (S (S (S (S (S (S (S
      (S (S (S (S (S (S (S (S (S (S (S (S (S (S (S (S (S (S (S (S (S (S (S (S
      (S (S (S (S (S (S (S (S (S (S (S (S (S (S (S (S (S (S
      O)))))))))))))))))))))))))))))))))))))))))))))))))))))))))))))))))))))))))))))))))))))))))))))))))))))))))))))))))))))))))))))))))))))))))))))))))))))))))))))))))))))))))))))))))))))))))))))))))))))))))))))))))))))))))))))))))))))))))))))))))))))))))))))))))

(** val low_entry : n -> n -> n **)

let low_entry i j =
  let jj = N.modulo j (Npos (XO (XO (XO (XO XH))))) in
  if (||) (N.eqb i N0) (N.eqb jj N0) then N0 else or0 (const_mul i jj)

(** val octet_mul_low_table : n list list **)

let octet_mul_low_table =
  map (fun i ->
    map (fun j -> low_entry i j)
      (rangeN (S (S (S (S (S (S (S (S (S (S (S (S (S (S (S (S (S (S (S (S (S
        (S (S (S (S (S (S (S (S (S (S (S O))))))))))))))))))))))))))))))))))
    (rangeN (S (S (S (S (S (S (S (S (S (S (S (S (S (S (S (S (S (S (S (S (S (S
      (S (S (S (S (S (S (S (S (S (S (S (S (S (S (S (S (S (S (S (S (S (S (S (S
      (S (S (S (S (S (S (S (S (S (S (S (S (S (S (S (S (S (S (S (S (S (S (S (S
      (S (S (S (S (S (S (S (S (S (S (S (S (S (S (S (S (S (S (S (S (S (S (S (S
      (S (S (S (S (S (S (S (S (S (S (S (S (S (S (S (S (S (S (S (S (S (S (S (S
      (S (S (S (S (S (S (S (S (S (S (S (S (S (S (S (S (S (S (S (S (S (S (S (S
      (S (S (S (S (S (S (S (S (S (S (S (S (S (S (S (S (S (S (S (S (S (S (S (S
      (S (S (S (S (S (S (S (S (S (S (S (S (S (S (S (S (S (S (S (S (S (S (S (S
      (S (S (S (S (S (S (S (S (S (S (S (S (S (S (S (S (S (S (S (S (S (S (S (S
      (S (S (S (S (S (S (S (S (S (S (S (S (S (S (S (S (S (S (S (S (S (S (S (S
      (S (S (S (S (S (S (S (S (S (S (S (S (S (S (S (S (S (S
      O)))))))))))))))))))))))))))))))))))))))))))))))))))))))))))))))))))))))))))))))))))))))))))))))))))))))))))))))))))))))))))))))))))))))))))))))))))))))))))))))))))))))))))))))))))))))))))))))))))))))))))))))))))))))))))))))))))))))))))))))))))))))))))))))))

(** val hi_entry : n -> n -> n **)

let hi_entry i j =
  let jj = N.modulo j (Npos (XO (XO (XO (XO XH))))) in
  if (||) (N.eqb i N0) (N.eqb jj N0)
  then N0
  else or0 (const_mul i (N.shiftl jj (Npos (XO (XO XH)))))

(** val octet_mul_hi_table : n list list **)

let octet_mul_hi_table =
  map (fun i ->
    map (fun j -> hi_entry i j)
      (rangeN (S (S (S (S (S (S (S (S (S (S (S (S (S (S (S (S (S (S (S (S (S
        (S (S (S (S (S (S (S (S (S (S (S O))))))))))))))))))))))))))))))))))
    (rangeN (S (S (S (S (S (S (S (S (S (S (S (S (S (S (S (S (S (S (S (S (S (S
      (S (S (S (S (S (S (S (S (S (S (S (S (S (S (S (S (S (S (S (S (S (S (S (S
      (S (S (S (S (S (S (S (S (S (S (S (S (S (S (S (S (S (S (S (S (S (S (S (S
      (S (S (S (S (S (S (S (S (S (S (S (S (S (S (S (S (S (S (S (S (S (S (S (S
      (S (S (S (S (S (S (S (S (S (S (S (S (S (S (S (S (S (S (S (S (S (S (S (S
      (S (S (S (S (S (S (S (S (S (S (S (S (S (S (S (S (S (S (S (S (S (S (S (S
      (S (S (S (S (S (S (S (S (S (S (S (S (S (S (S (S (S (S (S (S (S (S (S (S
      (S (S (S (S (S (S (S (S (S (S (S (S (S (S (S (S (S (S (S (S (S (S (S (S
      (S (S (S (S (S (S (S (S (S (S (S (S (S (S (S (S (S (S (S (S (S (S (S (S
      (S (S (S (S (S (S (S (S (S (S (S (S (S (S (S (S (S (S (S (S (S (S (S (S
      (S (S (S (S (S (S (S (S (S (S (S (S (S (S (S (S (S (S
      O)))))))))))))))))))))))))))))))))))))))))))))))))))))))))))))))))))))))))))))))))))))))))))))))))))))))))))))))))))))))))))))))))))))))))))))))))))))))))))))))))))))))))))))))))))))))))))))))))))))))))))))))))))))))))))))))))))))))))))))))))))))))))))))))))

(** val tbl2 : n list list -> n -> n -> n outcome **)

let tbl2 t i j =
  obind (nth_ok t (N.to_nat i)) (fun r -> nth_ok r (N.to_nat j))

(** val pid_new : n -> n -> (n * n) outcome **)

let pid_new sbn esi =
  if N.ltb esi eSI_LIMIT then Ok (sbn, esi) else Panic PAssert

(** val pid_ser : (n * n) -> n list **)

let pid_ser = function
| (sbn, esi) ->
  sbn :: ((u8 (N.shiftr esi (Npos (XO (XO (XO (XO XH))))))) :: ((u8
                                                                  (N.coq_land
                                                                    (N.shiftr
                                                                    esi (Npos
                                                                    (XO (XO
                                                                    (XO
                                                                    XH)))))
                                                                    (Npos (XI
                                                                    (XI (XI
                                                                    (XI (XI
                                                                    (XI (XI
                                                                    XH)))))))))) :: (
    (u8 (N.coq_land esi (Npos (XI (XI (XI (XI (XI (XI (XI XH)))))))))) :: [])))

(** val pid_deser : n list -> (n * n) outcome **)

let pid_deser = function
| [] -> Panic PIndex
| d0 :: l ->
  (match l with
   | [] -> Panic PIndex
   | d1 :: l0 ->
     (match l0 with
      | [] -> Panic PIndex
      | d2 :: l1 ->
        (match l1 with
         | [] -> Panic PIndex
         | d3 :: l2 ->
           (match l2 with
            | [] ->
              Ok (d0,
                (N.add
                  (N.add (N.shiftl d1 (Npos (XO (XO (XO (XO XH))))))
                    (N.shiftl d2 (Npos (XO (XO (XO XH)))))) d3))
            | _ :: _ -> Panic PIndex))))

(** val slice_from : 'a1 list -> nat -> 'a1 list outcome **)

let slice_from l n0 =
  if leb n0 (length l) then Ok (skipn n0 l) else Panic PIndex

(** val pkt_ser : ((n * n) * n list) -> n list **)

let pkt_ser = function
| (id, data) -> app (pid_ser id) data

(** val pkt_deser : n list -> ((n * n) * n list) outcome **)

let pkt_deser b =
  obind (nth_ok b O) (fun d0 ->
    obind (nth_ok b (S O)) (fun d1 ->
      obind (nth_ok b (S (S O))) (fun d2 ->
        obind (nth_ok b (S (S (S O)))) (fun d3 ->
          obind (pid_deser (d0 :: (d1 :: (d2 :: (d3 :: []))))) (fun id ->
            obind (slice_from b (S (S (S (S O))))) (fun rest -> Ok (id, rest)))))))

type oti = (((n * n) * n) * n) * n

(** val oti_ser : oti -> n list **)

let oti_ser = function
| (p, al) ->
  let (p0, nsub) = p in
  let (p1, z) = p0 in
  let (f, t) = p1 in
  (u8
    (N.coq_land (N.shiftr f (Npos (XO (XO (XO (XO (XO XH))))))) (Npos (XI (XI
      (XI (XI (XI (XI (XI XH)))))))))) :: ((u8
                                             (N.coq_land
                                               (N.shiftr f (Npos (XO (XO (XO
                                                 (XI XH)))))) (Npos (XI (XI
                                               (XI (XI (XI (XI (XI XH)))))))))) :: (
  (u8
    (N.coq_land (N.shiftr f (Npos (XO (XO (XO (XO XH)))))) (Npos (XI (XI (XI
      (XI (XI (XI (XI XH)))))))))) :: ((u8
                                         (N.coq_land
                                           (N.shiftr f (Npos (XO (XO (XO
                                             XH))))) (Npos (XI (XI (XI (XI
                                           (XI (XI (XI XH)))))))))) :: (
  (u8 (N.coq_land f (Npos (XI (XI (XI (XI (XI (XI (XI XH)))))))))) :: (N0 :: (
  (u8 (N.shiftr t (Npos (XO (XO (XO XH)))))) :: ((u8
                                                   (N.coq_land t (Npos (XI
                                                     (XI (XI (XI (XI (XI (XI
                                                     XH)))))))))) :: (z :: (
  (u8 (N.shiftr nsub (Npos (XO (XO (XO XH)))))) :: ((u8
                                                      (N.coq_land nsub (Npos
                                                        (XI (XI (XI (XI (XI
                                                        (XI (XI XH)))))))))) :: (al :: [])))))))))))

(** val oti_deser : n list -> oti outcome **)

let oti_deser = function
| [] -> Panic PIndex
| d0 :: l ->
  (match l with
   | [] -> Panic PIndex
   | d1 :: l0 ->
     (match l0 with
      | [] -> Panic PIndex
      | d2 :: l1 ->
        (match l1 with
         | [] -> Panic PIndex
         | d3 :: l2 ->
           (match l2 with
            | [] -> Panic PIndex
            | d4 :: l3 ->
              (match l3 with
               | [] -> Panic PIndex
               | _ :: l4 ->
                 (match l4 with
                  | [] -> Panic PIndex
                  | d6 :: l5 ->
                    (match l5 with
                     | [] -> Panic PIndex
                     | d7 :: l6 ->
                       (match l6 with
                        | [] -> Panic PIndex
                        | d8 :: l7 ->
                          (match l7 with
                           | [] -> Panic PIndex
                           | d9 :: l8 ->
                             (match l8 with
                              | [] -> Panic PIndex
                              | d10 :: l9 ->
                                (match l9 with
                                 | [] -> Panic PIndex
                                 | d11 :: l10 ->
                                   (match l10 with
                                    | [] ->
                                      Ok
                                        (((((N.add
                                              (N.add
                                                (N.add
                                                  (N.add
                                                    (N.shiftl d0 (Npos (XO
                                                      (XO (XO (XO (XO
                                                      XH)))))))
                                                    (N.shiftl d1 (Npos (XO
                                                      (XO (XO (XI XH)))))))
                                                  (N.shiftl d2 (Npos (XO (XO
                                                    (XO (XO XH)))))))
                                                (N.shiftl d3 (Npos (XO (XO
                                                  (XO XH)))))) d4),
                                        (N.add
                                          (N.shiftl d6 (Npos (XO (XO (XO
                                            XH))))) d7)), d8),
                                        (N.add
                                          (N.shiftl d9 (Npos (XO (XO (XO
                                            XH))))) d10)), d11)
                                    | _ :: _ -> Panic PIndex))))))))))))

(** val ceil_div64 : n -> n -> n **)

let ceil_div64 num den =
  if N.eqb (N.modulo num den) N0
  then N.div num den
  else N.add (N.div num den) (Npos XH)

(** val int_div_ceil_pinned : n -> n -> n **)

let int_div_ceil_pinned num den =
  u32
    (if N.eqb (N.modulo num den) N0
     then N.div num den
     else N.add (N.div num den) (Npos XH))

(** val oti_new_gen :
    (n -> n -> n) -> mode -> n -> n -> n -> n -> n -> oti outcome **)

let oti_new_gen idc _ f t z nsub al =
  obind (assert_ok (N.leb f mAX_TRANSFER_LENGTH)) (fun _ ->
    obind (rem_ok t al) (fun r ->
      obind (assert_ok (N.eqb r N0)) (fun _ ->
        obind
          (if (&&) (negb (N.eqb t N0)) (negb (N.eqb z N0))
           then let symbols_required = idc (idc f t) z in
                assert_ok
                  (N.leb symbols_required mAX_SOURCE_SYMBOLS_PER_BLOCK)
           else Ok ()) (fun _ -> Ok ((((f, t), z), nsub), al)))))

(** val oti_new_pinned : mode -> n -> n -> n -> n -> n -> oti outcome **)

let oti_new_pinned =
  oti_new_gen int_div_ceil_pinned

(** val oti_new_fixed : mode -> n -> n -> n -> n -> n -> oti outcome **)

let oti_new_fixed =
  oti_new_gen ceil_div64

(** val oti_new : mode -> n -> n -> n -> n -> n -> oti outcome **)

let oti_new =
  oti_new_fixed

(** val assoc_get : n -> (n * 'a1) list -> 'a1 option **)

let rec assoc_get k = function
| [] -> None
| p :: t -> let (k', v) = p in if N.eqb k' k then Some v else assoc_get k t

(** val assoc_remove : n -> (n * 'a1) list -> (n * 'a1) list **)

let assoc_remove k l =
  filter (fun kv -> negb (N.eqb (fst kv) k)) l

(** val assoc_insert : n -> 'a1 -> (n * 'a1) list -> (n * 'a1) list **)

let rec assoc_insert k v = function
| [] -> (k, v) :: []
| p :: t ->
  let (k', v') = p in
  if N.eqb k' k then (k, v) :: t else (k', v') :: (assoc_insert k v t)

(** val keys : (n * 'a1) list -> n list **)

let keys l =
  map fst l

type 'plan pc =
| Idle
| Missed of n
| Generated of n * 'plan

(** val get_pc : nat -> (nat * 'a1 pc) list -> 'a1 pc **)

let rec get_pc t = function
| [] -> Idle
| p :: r -> let (t', c) = p in if Nat.eqb t' t then c else get_pc t r

(** val set_pc :
    nat -> 'a1 pc -> (nat * 'a1 pc) list -> (nat * 'a1 pc) list **)

let rec set_pc t c = function
| [] -> (t, c) :: []
| p :: r ->
  let (t', c') = p in
  if Nat.eqb t' t then (t, c) :: r else (t', c') :: (set_pc t c r)

type 'plan sysstate = { plans : (n * 'plan) list; order : n list;
                        threads : (nat * 'plan pc) list }

type step =
| Lookup of nat * n
| Generate of nat
| Insert of nat

type 'plan event =
| Ret of nat * n * 'plan

(** val init : 'a1 sysstate **)

let init =
  { plans = []; order = []; threads = [] }

(** val do_lookup :
    nat -> n -> 'a1 sysstate -> 'a1 sysstate * 'a1 event list **)

let do_lookup t k st =
  match get_pc t st.threads with
  | Idle ->
    (match assoc_get k st.plans with
     | Some p -> (st, ((Ret (t, k, p)) :: []))
     | None ->
       ({ plans = st.plans; order = st.order; threads =
         (set_pc t (Missed k) st.threads) }, []))
  | _ -> (st, [])

(** val do_generate :
    (n -> 'a1) -> nat -> 'a1 sysstate -> 'a1 sysstate * 'a1 event list **)

let do_generate gen t st =
  match get_pc t st.threads with
  | Missed k ->
    ({ plans = st.plans; order = st.order; threads =
      (set_pc t (Generated (k, (gen k))) st.threads) }, [])
  | _ -> (st, [])

(** val evict : nat -> (n * 'a1) list -> n list -> (n * 'a1) list * n list **)

let evict capacity pl ord =
  if Nat.leb capacity (length pl)
  then (match ord with
        | [] -> (pl, ord)
        | e :: rest -> ((assoc_remove e pl), rest))
  else (pl, ord)

(** val do_insert :
    nat -> nat -> 'a1 sysstate -> 'a1 sysstate * 'a1 event list **)

let do_insert capacity t st =
  match get_pc t st.threads with
  | Generated (k, p) ->
    (match assoc_get k st.plans with
     | Some p' ->
       ({ plans = st.plans; order = st.order; threads =
         (set_pc t Idle st.threads) }, ((Ret (t, k, p')) :: []))
     | None ->
       let (pl1, ord1) = evict capacity st.plans st.order in
       ({ plans = (assoc_insert k p pl1); order = (app ord1 (k :: []));
       threads = (set_pc t Idle st.threads) }, ((Ret (t, k, p)) :: [])))
  | _ -> (st, [])

(** val exec :
    (n -> 'a1) -> nat -> step -> 'a1 sysstate -> 'a1 sysstate * 'a1 event list **)

let exec gen capacity s st =
  match s with
  | Lookup (t, k) -> do_lookup t k st
  | Generate t -> do_generate gen t st
  | Insert t -> do_insert capacity t st

(** val insert_sorted : n -> n list -> n list **)

let rec insert_sorted x l = match l with
| [] -> x :: []
| y :: t -> if N.leb x y then x :: l else y :: (insert_sorted x t)

(** val sort_N : n list -> n list **)

let sort_N l =
  fold_right insert_sorted [] l

(** val decode_step : ((n * n) * n) -> step option **)

let decode_step = function
| (p, k) ->
  let (t, kind) = p in
  (match kind with
   | N0 -> Some (Lookup ((N.to_nat t), k))
   | Npos p0 ->
     (match p0 with
      | XI _ -> None
      | XO p1 -> (match p1 with
                  | XH -> Some (Insert (N.to_nat t))
                  | _ -> None)
      | XH -> Some (Generate (N.to_nat t))))

(** val observe : n sysstate -> n event list -> n list **)

let observe st evs =
  app
    (match evs with
     | [] -> N0 :: (N0 :: [])
     | e :: _ -> let Ret (_, _, p) = e in (Npos XH) :: (p :: []))
    (app ((N.of_nat (length st.order)) :: [])
      (app st.order
        (app ((N.of_nat (length st.plans)) :: []) (sort_N (keys st.plans)))))

(** val cache_trace_from :
    nat -> ((n * n) * n) list -> n sysstate -> n list list **)

let rec cache_trace_from capacity sched st =
  match sched with
  | [] -> []
  | e :: rest ->
    let (st1, evs) =
      match decode_step e with
      | Some s -> exec (fun k -> k) capacity s st
      | None -> (st, [])
    in
    (observe st1 evs) :: (cache_trace_from capacity rest st1)

(** val cache_trace : nat -> ((n * n) * n) list -> n list list **)

let cache_trace capacity sched =
  cache_trace_from capacity sched init

(** val pcode : pclass -> n **)

let pcode = function
| PAssert -> Npos XH
| PIndex -> Npos (XO XH)
| POverflow -> Npos (XI XH)
| PUnreachable -> Npos (XO (XO XH))
| PUnimpl -> Npos (XI (XO XH))
| PFuel -> Npos (XO (XI XH))
| PDivZero -> Npos (XI (XI XH))
| PUnwrap -> Npos (XO (XO (XO XH)))

(** val enc1 : n outcome -> n list **)

let enc1 = function
| Ok v -> (Npos XH) :: (v :: [])
| Panic c -> N0 :: ((pcode c) :: [])

(** val encl : n list outcome -> n list **)

let encl = function
| Ok l -> (Npos XH) :: l
| Panic c -> N0 :: ((pcode c) :: [])

(** val arg : n list -> nat -> n **)

let arg l i =
  nth i l N0

(** val run_octet : n -> n list -> n list **)

let run_octet f a =
  match f with
  | N0 -> N0 :: ((Npos (XI (XI (XO (XO (XO (XI XH))))))) :: [])
  | Npos p ->
    (match p with
     | XI p0 ->
       (match p0 with
        | XI p1 ->
          (match p1 with
           | XI _ -> N0 :: ((Npos (XI (XI (XO (XO (XO (XI XH))))))) :: [])
           | XO p2 ->
             (match p2 with
              | XO p3 ->
                (match p3 with
                 | XI p4 ->
                   (match p4 with
                    | XH ->
                      (Npos XH) :: ((pmul (arg a O) (arg a (S O))) :: [])
                    | _ ->
                      N0 :: ((Npos (XI (XI (XO (XO (XO (XI XH))))))) :: []))
                 | _ -> N0 :: ((Npos (XI (XI (XO (XO (XO (XI XH))))))) :: []))
              | _ -> N0 :: ((Npos (XI (XI (XO (XO (XO (XI XH))))))) :: []))
           | XH -> enc1 (tbl2 octet_mul_low_table (arg a O) (arg a (S O))))
        | XO p1 ->
          (match p1 with
           | XH -> enc1 (oct_alpha (arg a O))
           | _ -> N0 :: ((Npos (XI (XI (XO (XO (XO (XI XH))))))) :: []))
        | XH -> enc1 (oct_div (arg a O) (arg a (S O))))
     | XO p0 ->
       (match p0 with
        | XI p1 ->
          (match p1 with
           | XI _ -> N0 :: ((Npos (XI (XI (XO (XO (XO (XI XH))))))) :: [])
           | XO p2 ->
             (match p2 with
              | XO p3 ->
                (match p3 with
                 | XI p4 ->
                   (match p4 with
                    | XH ->
                      (Npos XH) :: ((padd (arg a O) (arg a (S O))) :: [])
                    | _ ->
                      N0 :: ((Npos (XI (XI (XO (XO (XO (XI XH))))))) :: []))
                 | _ -> N0 :: ((Npos (XI (XI (XO (XO (XO (XI XH))))))) :: []))
              | _ -> N0 :: ((Npos (XI (XI (XO (XO (XO (XI XH))))))) :: []))
           | XH -> enc1 (tbl2 octet_mul_table (arg a O) (arg a (S O))))
        | XO p1 ->
          (match p1 with
           | XI p2 ->
             (match p2 with
              | XO p3 ->
                (match p3 with
                 | XI p4 ->
                   (match p4 with
                    | XH -> (Npos XH) :: ((ppow2 (N.to_nat (arg a O))) :: [])
                    | _ ->
                      N0 :: ((Npos (XI (XI (XO (XO (XO (XI XH))))))) :: []))
                 | _ -> N0 :: ((Npos (XI (XI (XO (XO (XO (XI XH))))))) :: []))
              | _ -> N0 :: ((Npos (XI (XI (XO (XO (XO (XI XH))))))) :: []))
           | XO p2 ->
             (match p2 with
              | XH -> enc1 (tbl2 octet_mul_hi_table (arg a O) (arg a (S O)))
              | _ -> N0 :: ((Npos (XI (XI (XO (XO (XO (XI XH))))))) :: []))
           | XH -> enc1 (oct_fma (arg a O) (arg a (S O)) (arg a (S (S O)))))
        | XH -> enc1 (oct_mul (arg a O) (arg a (S O))))
     | XH -> (Npos XH) :: ((oct_add (arg a O) (arg a (S O))) :: []))

(** val b2n : bool -> n **)

let b2n = function
| true -> Npos XH
| false -> N0

(** val enc_pid : (n * n) outcome -> n list **)

let enc_pid = function
| Ok a -> let (s, e) = a in (Npos XH) :: (s :: (e :: []))
| Panic c -> N0 :: ((pcode c) :: [])

(** val oti_list : oti -> n list **)

let oti_list = function
| (p, al) ->
  let (p0, nsub) = p in
  let (p1, z) = p0 in
  let (f, t) = p1 in f :: (t :: (z :: (nsub :: (al :: []))))

(** val enc_oti : oti outcome -> n list **)

let enc_oti = function
| Ok o -> (Npos XH) :: (oti_list o)
| Panic c -> N0 :: ((pcode c) :: [])

(** val triples : n list -> ((n * n) * n) list **)

let rec triples = function
| [] -> []
| a :: l0 ->
  (match l0 with
   | [] -> []
   | b :: l1 ->
     (match l1 with
      | [] -> []
      | c :: t -> ((a, b), c) :: (triples t)))

(** val run_wire : n -> n list -> n list **)

let run_wire f a =
  match f with
  | N0 -> N0 :: ((Npos (XI (XI (XO (XO (XO (XI XH))))))) :: [])
  | Npos p ->
    (match p with
     | XI p0 ->
       (match p0 with
        | XI p1 ->
          (match p1 with
           | XI p2 ->
             (match p2 with
              | XI p3 ->
                (match p3 with
                 | XO p4 ->
                   (match p4 with
                    | XI p5 ->
                      (match p5 with
                       | XH ->
                         enc_oti
                           (oti_new Checked (arg a O) (arg a (S O))
                             (arg a (S (S O))) (arg a (S (S (S O))))
                             (arg a (S (S (S (S O))))))
                       | _ ->
                         N0 :: ((Npos (XI (XI (XO (XO (XO (XI XH))))))) :: []))
                    | _ ->
                      N0 :: ((Npos (XI (XI (XO (XO (XO (XI XH))))))) :: []))
                 | _ -> N0 :: ((Npos (XI (XI (XO (XO (XO (XI XH))))))) :: []))
              | XO p3 ->
                (match p3 with
                 | XI p4 ->
                   (match p4 with
                    | XO p5 ->
                      (match p5 with
                       | XO p6 ->
                         (match p6 with
                          | XH ->
                            (Npos
                              XH) :: (oti_wire (arg a O) (arg a (S O))
                                       (arg a (S (S O)))
                                       (arg a (S (S (S O))))
                                       (arg a (S (S (S (S O))))))
                          | _ ->
                            N0 :: ((Npos (XI (XI (XO (XO (XO (XI
                              XH))))))) :: []))
                       | _ ->
                         N0 :: ((Npos (XI (XI (XO (XO (XO (XI XH))))))) :: []))
                    | _ ->
                      N0 :: ((Npos (XI (XI (XO (XO (XO (XI XH))))))) :: []))
                 | XO p4 ->
                   (match p4 with
                    | XI p5 ->
                      (match p5 with
                       | XH ->
                         encl
                           (omap (fun p6 ->
                             pkt_ser (p6, (skipn (S (S O)) a)))
                             (pid_new (arg a O) (arg a (S O))))
                       | _ ->
                         N0 :: ((Npos (XI (XI (XO (XO (XO (XI XH))))))) :: []))
                    | _ ->
                      N0 :: ((Npos (XI (XI (XO (XO (XO (XI XH))))))) :: []))
                 | XH -> N0 :: ((Npos (XI (XI (XO (XO (XO (XI XH))))))) :: []))
              | XH -> N0 :: ((Npos (XI (XI (XO (XO (XO (XI XH))))))) :: []))
           | _ -> N0 :: ((Npos (XI (XI (XO (XO (XO (XI XH))))))) :: []))
        | XO p1 ->
          (match p1 with
           | XI p2 ->
             (match p2 with
              | XO p3 ->
                (match p3 with
                 | XO p4 ->
                   (match p4 with
                    | XI p5 ->
                      (match p5 with
                       | XH ->
                         encl (omap pid_ser (pid_new (arg a O) (arg a (S O))))
                       | _ ->
                         N0 :: ((Npos (XI (XI (XO (XO (XO (XI XH))))))) :: []))
                    | _ ->
                      N0 :: ((Npos (XI (XI (XO (XO (XO (XI XH))))))) :: []))
                 | _ -> N0 :: ((Npos (XI (XI (XO (XO (XO (XI XH))))))) :: []))
              | _ -> N0 :: ((Npos (XI (XI (XO (XO (XO (XI XH))))))) :: []))
           | XO p2 ->
             (match p2 with
              | XI p3 ->
                (match p3 with
                 | XI p4 ->
                   (match p4 with
                    | XO p5 ->
                      (match p5 with
                       | XO p6 ->
                         (match p6 with
                          | XH ->
                            (Npos
                              XH) :: (be (N.to_nat (arg a O)) (arg a (S O)))
                          | _ ->
                            N0 :: ((Npos (XI (XI (XO (XO (XO (XI
                              XH))))))) :: []))
                       | _ ->
                         N0 :: ((Npos (XI (XI (XO (XO (XO (XI XH))))))) :: []))
                    | _ ->
                      N0 :: ((Npos (XI (XI (XO (XO (XO (XI XH))))))) :: []))
                 | XO p4 ->
                   (match p4 with
                    | XI p5 ->
                      (match p5 with
                       | XH ->
                         encl
                           (omap oti_ser
                             (oti_new Release (arg a O) (arg a (S O))
                               (arg a (S (S O))) (arg a (S (S (S O))))
                               (arg a (S (S (S (S O)))))))
                       | _ ->
                         N0 :: ((Npos (XI (XI (XO (XO (XO (XI XH))))))) :: []))
                    | _ ->
                      N0 :: ((Npos (XI (XI (XO (XO (XO (XI XH))))))) :: []))
                 | XH -> N0 :: ((Npos (XI (XI (XO (XO (XO (XI XH))))))) :: []))
              | _ -> N0 :: ((Npos (XI (XI (XO (XO (XO (XI XH))))))) :: []))
           | XH -> N0 :: ((Npos (XI (XI (XO (XO (XO (XI XH))))))) :: []))
        | XH -> N0 :: ((Npos (XI (XI (XO (XO (XO (XI XH))))))) :: []))
     | XO p0 ->
       (match p0 with
        | XI p1 ->
          (match p1 with
           | XI p2 ->
             (match p2 with
              | XI p3 ->
                (match p3 with
                 | XO p4 ->
                   (match p4 with
                    | XI p5 ->
                      (match p5 with
                       | XH ->
                         enc_oti
                           (oti_new Release (arg a O) (arg a (S O))
                             (arg a (S (S O))) (arg a (S (S (S O))))
                             (arg a (S (S (S (S O))))))
                       | _ ->
                         N0 :: ((Npos (XI (XI (XO (XO (XO (XI XH))))))) :: []))
                    | _ ->
                      N0 :: ((Npos (XI (XI (XO (XO (XO (XI XH))))))) :: []))
                 | _ -> N0 :: ((Npos (XI (XI (XO (XO (XO (XI XH))))))) :: []))
              | XO p3 ->
                (match p3 with
                 | XI p4 ->
                   (match p4 with
                    | XO p5 ->
                      (match p5 with
                       | XO p6 ->
                         (match p6 with
                          | XH ->
                            (Npos
                              XH) :: (payload_id_wire (arg a O) (arg a (S O)))
                          | _ ->
                            N0 :: ((Npos (XI (XI (XO (XO (XO (XI
                              XH))))))) :: []))
                       | _ ->
                         N0 :: ((Npos (XI (XI (XO (XO (XO (XI XH))))))) :: []))
                    | _ ->
                      N0 :: ((Npos (XI (XI (XO (XO (XO (XI XH))))))) :: []))
                 | XO p4 ->
                   (match p4 with
                    | XI p5 ->
                      (match p5 with
                       | XH ->
                         encl
                           (omap (fun p6 ->
                             app ((fst p6) :: ((snd p6) :: [])) (pid_ser p6))
                             (pid_deser (firstn (S (S (S (S O)))) a)))
                       | _ ->
                         N0 :: ((Npos (XI (XI (XO (XO (XO (XI XH))))))) :: []))
                    | _ ->
                      N0 :: ((Npos (XI (XI (XO (XO (XO (XI XH))))))) :: []))
                 | XH -> N0 :: ((Npos (XI (XI (XO (XO (XO (XI XH))))))) :: []))
              | XH -> N0 :: ((Npos (XI (XI (XO (XO (XO (XI XH))))))) :: []))
           | XO p2 ->
             (match p2 with
              | XI p3 ->
                (match p3 with
                 | XO p4 ->
                   (match p4 with
                    | XI p5 ->
                      (match p5 with
                       | XH ->
                         encl
                           (omap (fun o -> app (oti_list o) (oti_ser o))
                             (oti_deser
                               (firstn (S (S (S (S (S (S (S (S (S (S (S (S
                                 O)))))))))))) a)))
                       | _ ->
                         N0 :: ((Npos (XI (XI (XO (XO (XO (XI XH))))))) :: []))
                    | _ ->
                      N0 :: ((Npos (XI (XI (XO (XO (XO (XI XH))))))) :: []))
                 | _ -> N0 :: ((Npos (XI (XI (XO (XO (XO (XI XH))))))) :: []))
              | _ -> N0 :: ((Npos (XI (XI (XO (XO (XO (XI XH))))))) :: []))
           | XH -> N0 :: ((Npos (XI (XI (XO (XO (XO (XI XH))))))) :: []))
        | XO p1 ->
          (match p1 with
           | XI p2 ->
             (match p2 with
              | XO p3 ->
                (match p3 with
                 | XO p4 ->
                   (match p4 with
                    | XI p5 ->
                      (match p5 with
                       | XH -> enc_pid (pid_new (arg a O) (arg a (S O)))
                       | _ ->
                         N0 :: ((Npos (XI (XI (XO (XO (XO (XI XH))))))) :: []))
                    | _ ->
                      N0 :: ((Npos (XI (XI (XO (XO (XO (XI XH))))))) :: []))
                 | _ -> N0 :: ((Npos (XI (XI (XO (XO (XO (XI XH))))))) :: []))
              | _ -> N0 :: ((Npos (XI (XI (XO (XO (XO (XI XH))))))) :: []))
           | XO p2 ->
             (match p2 with
              | XI p3 ->
                (match p3 with
                 | XI p4 ->
                   (match p4 with
                    | XI p5 ->
                      (match p5 with
                       | XH ->
                         (Npos
                           XH) :: (concat
                                    (cache_trace
                                      (N.to_nat pLAN_CACHE_CAPACITY)
                                      (triples a)))
                       | _ ->
                         N0 :: ((Npos (XI (XI (XO (XO (XO (XI XH))))))) :: []))
                    | XO p5 ->
                      (match p5 with
                       | XO p6 ->
                         (match p6 with
                          | XH ->
                            (Npos
                              XH) :: ((b2n
                                        (oti_validb (arg a O) (arg a (S O))
                                          (arg a (S (S O)))
                                          (arg a (S (S (S (S O))))))) :: [])
                          | _ ->
                            N0 :: ((Npos (XI (XI (XO (XO (XO (XI
                              XH))))))) :: []))
                       | _ ->
                         N0 :: ((Npos (XI (XI (XO (XO (XO (XI XH))))))) :: []))
                    | XH ->
                      N0 :: ((Npos (XI (XI (XO (XO (XO (XI XH))))))) :: []))
                 | XO p4 ->
                   (match p4 with
                    | XI p5 ->
                      (match p5 with
                       | XH ->
                         encl
                           (omap (fun p6 ->
                             (fst (fst p6)) :: ((snd (fst p6)) :: (snd p6)))
                             (pkt_deser a))
                       | _ ->
                         N0 :: ((Npos (XI (XI (XO (XO (XO (XI XH))))))) :: []))
                    | _ ->
                      N0 :: ((Npos (XI (XI (XO (XO (XO (XI XH))))))) :: []))
                 | XH -> N0 :: ((Npos (XI (XI (XO (XO (XO (XI XH))))))) :: []))
              | XO p3 ->
                (match p3 with
                 | XI p4 ->
                   (match p4 with
                    | XI p5 ->
                      (match p5 with
                       | XH ->
                         enc_oti
                           (oti_new_pinned Release (arg a O) (arg a (S O))
                             (arg a (S (S O))) (arg a (S (S (S O))))
                             (arg a (S (S (S (S O))))))
                       | _ ->
                         N0 :: ((Npos (XI (XI (XO (XO (XO (XI XH))))))) :: []))
                    | _ ->
                      N0 :: ((Npos (XI (XI (XO (XO (XO (XI XH))))))) :: []))
                 | _ -> N0 :: ((Npos (XI (XI (XO (XO (XO (XI XH))))))) :: []))
              | XH -> N0 :: ((Npos (XI (XI (XO (XO (XO (XI XH))))))) :: []))
           | XH -> N0 :: ((Npos (XI (XI (XO (XO (XO (XI XH))))))) :: []))
        | XH -> N0 :: ((Npos (XI (XI (XO (XO (XO (XI XH))))))) :: []))
     | XH -> N0 :: ((Npos (XI (XI (XO (XO (XO (XI XH))))))) :: []))

(** val run : n -> n list -> n list **)

let run f a =
  if N.ltb f (Npos (XO (XO (XI (XO (XO (XI XH)))))))
  then run_octet f a
  else if N.ltb f (Npos (XO (XO (XO (XI (XO (XO (XI XH))))))))
       then run_wire f a
       else N0 :: ((Npos (XI (XI (XO (XO (XO (XI XH))))))) :: [])
